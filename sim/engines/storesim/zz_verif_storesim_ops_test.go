package message

// Operations of the storesim engine: each draws its arguments from the tape,
// predicts the outcome on the reference model, publishes the predicted state,
// performs the real call and compares the result.

import (
	"fmt"
	"sort"
	"sync"

	"github.com/WuKongIM/WuKongIM/internal/verifsim/simkit"
	channel "github.com/WuKongIM/WuKongIM/pkg/db/message/channelcompat"
	"github.com/WuKongIM/WuKongIM/pkg/quorumlog"
)

// oneStep performs one harness step: a single operation, a concurrent
// cross-channel group, a lease cycle or a whole-database reopen.
func (w *world) oneStep() {
	tp := w.r.Tape
	wLease, wReopen, wGroup := w.c.LeaseW, w.c.ReopenW, w.c.GroupW
	if w.c.NoFaults {
		wLease, wReopen = 0, 0
	}
	nonTyped := 0
	for _, c := range w.chans {
		if c.fl != flTyped {
			nonTyped++
		}
	}
	if nonTyped < 2 {
		wGroup = 0
	}
	if !w.prelude && w.c.ShrinkBias > 0 {
		// directed: shorten a log whose retention record still names the old end
		var cands []*simChan
		for _, c := range w.chans {
			st := c.st()
			if c.fl != flTyped && st.hasRet && st.ret.RetainedMaxSeq > st.hwOr0() && st.ret.RetainedMaxSeq > st.ret.LocalRetentionThroughSeq &&
				st.lastRowSeq() > st.ret.PhysicalRetentionThroughSeq {
				cands = append(cands, c)
			}
		}
		if len(cands) > 0 && tp.Intn(4) >= 4-w.c.ShrinkBias {
			c := cands[tp.Intn(len(cands))]
			if c.fl == flExact && tp.Intn(2) == 0 {
				w.opReplace(c)
			} else {
				w.opCompatTruncate(c)
			}
			w.afterOp(c)
			return
		}
	}
	switch tp.Weighted([]int{24, wGroup, wLease, wReopen}) {
	case 0:
		c := w.chans[tp.Intn(len(w.chans))]
		w.singleOp(c)
		w.afterOp(c)
	case 1:
		w.groupOp()
	case 2:
		w.leaseCycle(w.chans[tp.Intn(len(w.chans))])
	default:
		w.reopen()
	}
}

func (w *world) afterOp(c *simChan) {
	if w.stop() || (w.c.Crash && !w.prelude) {
		return
	}
	level := 0
	if w.r.Tape.Intn(3) == 0 {
		level = 1
	}
	w.checkChannel(c, level)
}

func (w *world) saturated(c *simChan) bool {
	return c.log != nil && c.log.channelEntry != nil && c.log.idempotencyMembership.primaryAdds >= idempotencyMembershipPrimaryCapacity
}

func (w *world) singleOp(c *simChan) {
	tp := w.r.Tape
	if w.c.Saturate && !w.saturated(c) && tp.Intn(4) != 0 {
		// fill phase: bulk appends of distinct keys
		w.forceBulk = true
		if c.fl == flTyped {
			w.opTypedAppend(c)
		} else {
			w.opCompatAppend(c)
		}
		w.forceBulk = false
		return
	}
	switch c.fl {
	case flTyped:
		switch tp.Weighted([]int{12, 3, 3, 3, 2}) {
		case 0:
			w.opTypedAppend(c)
		case 1:
			w.opTypedApplyFetch(c)
		case 2:
			w.opTypedTruncate(c)
		case 3:
			w.opTypedTrim(c)
		default:
			w.opTypedCheckpoint(c)
		}
	case flCompat:
		// append, apply, truncate, adopt, trim, checkpoint-hw, discard, batch
		ws := []int{10, 3, 3, 2, 3, 2, 1, 2}
		if w.prelude {
			ws = []int{8, 2, 1, 4, 4, 4, 0, 2} // build rows, watermarks and retention state
		} else if w.c.ShrinkBias > 0 {
			ws[2] += 3 * w.c.ShrinkBias
		}
		switch tp.Weighted(ws) {
		case 0:
			w.opCompatAppend(c)
		case 1:
			w.opCompatApply(c)
		case 2:
			w.opCompatTruncate(c)
		case 3:
			w.opAdopt(c)
		case 4:
			w.opCompatTrim(c)
		case 5:
			w.opCheckpointHW(c)
		case 6:
			w.opDiscard(c)
		default:
			w.opBatchAppend([]*simChan{c})
		}
	default:
		// exact batch, truncate, adopt, trim, checkpoint-hw, recovery replacement
		ws := []int{12, 3, 2, 3, 2, 3}
		if w.prelude {
			ws = []int{10, 1, 4, 4, 4, 1}
		} else if w.c.ShrinkBias > 0 {
			ws[1] += 3 * w.c.ShrinkBias
			ws[5] += 3 * w.c.ShrinkBias
		}
		switch tp.Weighted(ws) {
		case 0:
			w.opBatchAppend([]*simChan{c})
		case 1:
			w.opCompatTruncate(c)
		case 2:
			w.opAdopt(c)
		case 3:
			w.opCompatTrim(c)
		case 4:
			w.opCheckpointHW(c)
		default:
			w.opReplace(c)
		}
	}
}

// ---- bookkeeping shared by all mutations ----

// commitRows updates the node-wide id map after rows were added / removed.
func (w *world) noteAdded(c *simChan, rows []mrow) {
	for _, r := range rows {
		w.liveIDs[r.ID] = idLoc{ch: c.idx, seq: r.Seq}
	}
}

func (w *world) noteRemoved(c *simChan, rows []mrow) {
	for _, r := range rows {
		if loc, ok := w.liveIDs[r.ID]; ok && loc.ch == c.idx && loc.seq == r.Seq {
			delete(w.liveIDs, r.ID)
		}
		if len(w.graveIDs) < 64 {
			w.graveIDs = append(w.graveIDs, r.ID)
		}
		if r.From != "" && r.CMN != "" && len(c.graveKeys) < 64 {
			c.graveKeys = append(c.graveKeys, [2]string{r.From, r.CMN})
		}
	}
	if len(rows) > 0 {
		w.removals++
	}
}

// judgeAppend compares the real outcome of an append-like call with the
// model's verdict and classifies disagreement by property.
func (w *world) judgeAppend(c *simChan, what string, v rowVerdict, otherKind errKind, err error, rows []mrow) bool {
	want := v.kind
	if want == kOK {
		want = otherKind
	}
	if want == kOK {
		if err != nil {
			if isDupError(err) {
				w.fail("fresh-rejected", what, fmt.Sprintf("%s on %s rejected as duplicate although the model holds no such id/key: %v rows=%v", what, c.key, err, rows))
			} else {
				w.fail("unexpected-error", what, fmt.Sprintf("%s on %s failed: %v rows=%v", what, c.key, err, rows))
			}
			return false
		}
		w.mutations++
		if w.dupRejected > 0 {
			w.freshAfter++
		}
		for _, r := range rows {
			if r.From != "" && r.CMN != "" {
				for _, g := range c.graveKeys {
					if g[0] == r.From && g[1] == r.CMN {
						w.r.Probe("key.reused_after_truncate")
						break
					}
				}
			}
		}
		return true
	}
	if err == nil {
		if v.dup {
			w.fail("duplicate-accepted", what, fmt.Sprintf("%s on %s stored a duplicate (batch-dup=%v key=%v holder=%v) rows=%v", what, c.key, v.dupBatch, v.dupIsKey, v.dupRow, rows))
		} else {
			w.fail("unexpected-success", what, fmt.Sprintf("%s on %s succeeded although the model expects %s rows=%v", what, c.key, kindName[want], rows))
		}
		return false
	}
	if v.dup {
		w.dupRejected++
		switch {
		case v.dupBatch:
			w.r.Probe("dup.same_batch")
		default:
			w.r.Probe("dup.later_batch")
			if v.dupRow.genReopen < c.reopenGen {
				w.r.Probe("dup.after_reopen")
			}
			if v.dupRow.genLease < c.leaseGen {
				w.r.Probe("dup.after_lease_reclaim")
			}
		}
	}
	return true
}

func (w *world) stamp(c *simChan, rows []mrow) {
	for i := range rows {
		rows[i].genReopen = c.reopenGen
		rows[i].genLease = c.leaseGen
	}
}

// ---- typed ChannelLog operations ----

func (w *world) opTypedAppend(c *simChan) {
	tp := w.r.Tape
	st := c.st()
	mode := AppendMode(tp.Weighted([]int{5, 2, 2}))
	n := tp.Weighted([]int{1, 6, 4, 2, 1, 1})
	if w.forceBulk {
		n = 60 + tp.Intn(40)
		w.bulk = true
		mode = AppendMode(tp.Intn(2))
	}
	rows := w.genRows(c, st, n, mode, false, true)
	w.bulk = false
	base := uint64(0)
	baseKind := kOK
	switch tp.Weighted([]int{5, 3, 1}) {
	case 1:
		base = st.leo + 1
	case 2:
		base = st.leo + 2 + uint64(tp.Intn(2))
		if st.leo > 0 && tp.Intn(2) == 0 {
			base = st.leo
		}
		baseKind = kConflict
	}
	w.stamp(c, rows)
	v := rowVerdict{kind: kOK}
	if baseKind == kOK && len(rows) > 0 {
		v = w.predictRows(c, st, rows, mode)
	}
	ok := v.kind == kOK && baseKind == kOK
	w.r.Logf("op %d %s typed.Append mode=%d base=%d rows=%v expect=%s/%s", w.step, c.key, mode, base, rows, kindName[v.kind], kindName[baseKind])
	if ok && len(rows) > 0 {
		ns := st.clone()
		ns.appendRows(rows)
		w.issue(c, ns)
	}
	res, err := c.log.Append(w.ctx, typedRecords(rows), AppendOptions{Mode: mode, BaseSeq: base})
	w.r.Logf("  -> %+v err=%v", res, err)
	if !w.judgeAppend(c, "typed.Append", v, baseKind, err, rows) {
		return
	}
	if !ok || len(rows) == 0 {
		if err == nil && res != (AppendResult{}) {
			w.fail("result-mismatch", "typed.Append", fmt.Sprintf("empty append returned %+v", res))
		}
		return
	}
	w.ack(c)
	w.ackedMuts++
	w.noteAdded(c, rows)
	w.r.Probe("op.typed.append")
	for _, r := range rows {
		if len(r.Payload) == 0 {
			c.emptyTyped = true
		}
	}
	if res.BaseSeq != rows[0].Seq || res.LastSeq != rows[len(rows)-1].Seq || res.Count != len(rows) {
		w.fail("result-mismatch", "typed.Append", fmt.Sprintf("append on %s returned %+v, model assigned %d..%d", c.key, res, rows[0].Seq, rows[len(rows)-1].Seq))
	}
	w.saturationProbe(c)
}

func (w *world) saturationProbe(c *simChan) {
	if w.saturated(c) {
		w.r.Probe("filter.saturated")
	}
}

func (w *world) genCheckpoint(st *mstate, visible uint64) (Checkpoint, bool) {
	tp := w.r.Tape
	cp := Checkpoint{}
	if st.hasCP {
		cp = st.cp
	}
	valid := true
	switch tp.Weighted([]int{6, 1, 1, 1}) {
	case 0:
		if visible > cp.HW {
			cp.HW += uint64(tp.Intn(int(visible-cp.HW) + 1))
		}
		if tp.Intn(3) == 0 {
			cp.Epoch++
		}
		if tp.Intn(4) == 0 && cp.HW > cp.LogStartOffset {
			cp.LogStartOffset += uint64(tp.Intn(int(cp.HW-cp.LogStartOffset) + 1))
		}
	case 1:
		cp.HW = visible + 1 + uint64(tp.Intn(3))
		valid = false
	case 2:
		if cp.HW > 0 {
			cp.HW--
			if cp.LogStartOffset > cp.HW {
				cp.LogStartOffset = cp.HW
			}
			valid = false
		}
	default:
		cp.LogStartOffset = cp.HW + 1
		valid = false
	}
	return cp, valid
}

func (w *world) opTypedApplyFetch(c *simChan) {
	tp := w.r.Tape
	st := c.st()
	n := tp.Weighted([]int{2, 5, 3, 1})
	rows := w.genRows(c, st, n, AppendTrustedContiguous, false, true)
	w.stamp(c, rows)
	req := ApplyFetchRequest{Records: typedRecords(rows)}
	baseKind := kOK
	switch tp.Weighted([]int{4, 4, 1}) {
	case 1:
		req.BaseSeq = st.leo + 1
	case 2:
		req.BaseSeq = st.leo + 2
		baseKind = kConflict
	}
	v := rowVerdict{kind: kOK}
	if baseKind == kOK && len(rows) > 0 {
		v = w.predictRows(c, st, rows, AppendTrustedContiguous)
	}
	ns := st.clone()
	other := baseKind
	visible := st.leo
	if len(rows) > 0 {
		visible = rows[len(rows)-1].Seq
	}
	writes := len(rows) > 0
	if tp.Intn(2) == 0 {
		cp, _ := w.genCheckpoint(st, visible)
		req.Checkpoint = &cp
		if other == kOK && v.kind == kOK {
			if !st.checkpointMonotonicOK(cp, visible, visible) {
				other = kCorrupt
			} else {
				ns.cp, ns.hasCP = cp, true
				writes = true
			}
		}
	}
	if tp.Intn(4) == 0 {
		p := EpochPoint{Epoch: 1 + uint64(tp.Intn(4)), StartOffset: st.leo}
		if len(st.hist) > 0 && tp.Intn(2) == 0 {
			p.Epoch = st.hist[len(st.hist)-1].Epoch + uint64(tp.Intn(2))
		}
		if tp.Intn(8) == 0 {
			p.Epoch = 0
		}
		req.EpochPoint = &p
		if other == kOK && v.kind == kOK {
			write, ok := st.histDecision(p)
			if !ok {
				other = kCorrupt
			} else if write {
				ns.hist = append(ns.hist[:len(ns.hist):len(ns.hist)], p)
				writes = true
			}
		}
	}
	ok := v.kind == kOK && other == kOK
	w.r.Logf("op %d %s typed.ApplyFetch base=%d rows=%v cp=%v epoch=%v expect=%s/%s", w.step, c.key, req.BaseSeq, rows, req.Checkpoint, req.EpochPoint, kindName[v.kind], kindName[other])
	if ok && writes {
		ns.appendRows(rows)
		ns.catalog = true
		w.issue(c, ns)
	}
	res, err := c.log.ApplyFetch(w.ctx, req)
	w.r.Logf("  -> %+v err=%v", res, err)
	if !w.judgeAppend(c, "typed.ApplyFetch", v, other, err, rows) || !ok || !writes {
		return
	}
	w.ack(c)
	w.ackedMuts++
	w.noteAdded(c, rows)
	for _, r := range rows {
		if len(r.Payload) == 0 {
			c.emptyTyped = true
		}
	}
	w.r.Probe("op.typed.apply")
	if len(rows) > 0 && (res.BaseSeq != rows[0].Seq || res.LastSeq != rows[len(rows)-1].Seq) {
		w.fail("result-mismatch", "typed.ApplyFetch", fmt.Sprintf("apply on %s returned %+v want %d..%d", c.key, res, rows[0].Seq, rows[len(rows)-1].Seq))
	}
}

// truncTarget picks "keep through" for a truncation: at or above the
// committed watermark and the adopted retention boundary (callers never cut
// committed or already retained data).
func (w *world) truncTarget(st *mstate, allowBelowRetained bool) (uint64, bool) {
	floor := st.hwOr0()
	if st.hasRet && st.ret.LocalRetentionThroughSeq > floor {
		floor = st.ret.LocalRetentionThroughSeq
	}
	if st.hasRet && !allowBelowRetained && st.ret.RetainedMaxSeq > floor {
		floor = st.ret.RetainedMaxSeq
	}
	if floor > st.leo {
		return 0, false
	}
	return floor + uint64(w.r.Tape.Intn(int(st.leo-floor)+1)), true
}

func (w *world) opTypedTruncate(c *simChan) {
	st := c.st()
	to, ok := w.truncTarget(st, w.c.TruncSlack)
	if !ok {
		w.r.Logf("op %d %s typed.Truncate skipped (floor above log end)", w.step, c.key)
		return
	}
	from := to + 1
	if w.r.Tape.Intn(6) == 0 {
		from = st.leo + 1 + uint64(w.r.Tape.Intn(3)) // at or past the end: no-op
		to = st.leo
	}
	w.r.Logf("op %d %s typed.TruncateFrom from=%d (leo=%d)", w.step, c.key, from, st.leo)
	var removed []mrow
	if from <= st.leo {
		ns := st.clone()
		removed = ns.removeFrom(from)
		ns.leo = from - 1
		ns.catalog = true
		if ns.hasRet && ns.ret.RetainedMaxSeq > ns.leo {
			// a sequential log ends at from-1; the store keeps the old value (recorded finding)
			ns.ret.RetainedMaxSeq = ns.leo
			ns.retSlack = true
		}
		w.issue(c, ns)
	}
	err := c.log.TruncateFrom(w.ctx, from)
	w.r.Logf("  -> err=%v removed=%d", err, len(removed))
	if err != nil {
		w.fail("unexpected-error", "typed.TruncateFrom", fmt.Sprintf("TruncateFrom(%d) on %s: %v", from, c.key, err))
		return
	}
	if from <= st.leo {
		w.ack(c)
		w.ackedMuts++
		w.mutations++
		w.noteRemoved(c, removed)
		w.r.Probe("op.typed.truncate")
	}
}

func (w *world) genTrimArgs(st *mstate, adopt bool) (through uint64, opts RetentionTrimOptions) {
	tp := w.r.Tape
	hi := st.leo
	if !adopt {
		hi = st.ret.LocalRetentionThroughSeq
		if tp.Intn(8) == 0 {
			hi += 2
		}
	} else if tp.Intn(8) == 0 {
		hi += 2 // boundary adopted ahead of the local log end
	}
	if cpHW := st.hwOr0(); adopt && st.hasCP && cpHW < hi && tp.Intn(4) != 0 {
		hi = cpHW // retention normally stays at or below the committed watermark
	}
	through = uint64(tp.Intn(int(hi) + 1))
	if tp.Intn(2) == 0 {
		opts.MaxMessages = 1 + tp.Intn(3)
	}
	if tp.Intn(4) == 0 {
		opts.MaxBytes = 1 + tp.Intn(64)
	}
	if w.forceThrough > 0 {
		through, opts = w.forceThrough, RetentionTrimOptions{MaxMessages: w.forceMaxMessages}
	}
	return through, opts
}

// touchRetention is the directed tail of the C09 prelude: it leaves a
// compat / exact channel with an adopted retention boundary below the log end
// and a retention record freshly written by a trim page (RetainedMaxSeq ==
// log end, rows surviving above the physical boundary) - the state from which
// a later truncation or suffix replacement has to lower the retained log end.
func (w *world) touchRetention(c *simChan) {
	st := c.st()
	if c.fl == flTyped || st.leo < 2 || len(st.rows) == 0 {
		return
	}
	b := st.hwOr0()
	if b < 1 {
		b = 1
	}
	if st.hasRet && st.ret.LocalRetentionThroughSeq > b {
		b = st.ret.LocalRetentionThroughSeq
	}
	if b >= st.leo {
		return
	}
	w.forceThrough = b
	w.forceMaxMessages = w.r.Tape.Intn(2)
	defer func() { w.forceThrough, w.forceMaxMessages = 0, 0 }()
	w.mu.Lock()
	w.step++
	w.mu.Unlock()
	w.opAdopt(c)
	if w.stop() {
		return
	}
	w.mu.Lock()
	w.step++
	w.mu.Unlock()
	w.opCompatTrim(c)
}

func (w *world) opTypedTrim(c *simChan) {
	st := c.st()
	through, opts := w.genTrimArgs(st, true)
	w.r.Logf("op %d %s typed.TrimPrefixThroughLimit through=%d opts=%+v", w.step, c.key, through, opts)
	var want RetentionTrimResult
	var removed []mrow
	if through > 0 {
		ns := st.clone()
		before := ns.rows
		want, _ = ns.applyTrim(through, opts.MaxMessages, opts.MaxBytes, true)
		removed = diffRemoved(before, ns.rows)
		w.issue(c, ns)
	}
	var res RetentionTrimResult
	var err error
	if opts == (RetentionTrimOptions{}) && w.r.Tape.Intn(2) == 0 {
		res, err = c.log.TrimPrefixThrough(w.ctx, through)
	} else {
		res, err = c.log.TrimPrefixThroughLimit(w.ctx, through, opts)
	}
	w.r.Logf("  -> %+v err=%v", res, err)
	if err != nil {
		w.fail("unexpected-error", "typed.Trim", fmt.Sprintf("TrimPrefixThroughLimit(%d,%+v) on %s: %v", through, opts, c.key, err))
		return
	}
	if through > 0 {
		w.ack(c)
		w.ackedMuts++
		w.mutations++
		w.noteRemoved(c, removed)
		w.r.Probe("op.typed.trim")
		if want.More {
			w.r.Probe("trim.more")
		}
	}
	if res != want {
		w.fail("result-mismatch", "typed.Trim", fmt.Sprintf("trim(%d,%+v) on %s returned %+v, model %+v", through, opts, c.key, res, want))
	}
}

func diffRemoved(before, after []mrow) []mrow {
	keep := map[uint64]bool{}
	for _, r := range after {
		keep[r.Seq] = true
	}
	var out []mrow
	for _, r := range before {
		if !keep[r.Seq] {
			out = append(out, r)
		}
	}
	return out
}

func (w *world) opTypedCheckpoint(c *simChan) {
	st := c.st()
	cp, _ := w.genCheckpoint(st, st.leo)
	monotonic := w.r.Tape.Intn(3) != 0
	okWant := cp.LogStartOffset <= cp.HW
	if monotonic {
		okWant = st.checkpointMonotonicOK(cp, st.leo, st.leo)
	} else if cp.HW > st.leo {
		// the unvalidated variant trusts its caller: never hand it a watermark above the log end
		cp.HW = st.leo
		if cp.LogStartOffset > cp.HW {
			cp.LogStartOffset = cp.HW
		}
		okWant = true
	}
	w.r.Logf("op %d %s typed.StoreCheckpoint monotonic=%v cp=%+v expect_ok=%v", w.step, c.key, monotonic, cp, okWant)
	if okWant {
		ns := st.clone()
		ns.cp, ns.hasCP, ns.catalog = cp, true, true
		w.issue(c, ns)
	}
	var err error
	if monotonic {
		err = c.log.StoreCheckpointMonotonic(w.ctx, cp, st.leo, st.leo)
	} else {
		err = c.log.StoreCheckpoint(w.ctx, cp)
	}
	w.r.Logf("  -> err=%v", err)
	if okWant != (err == nil) {
		if err != nil {
			w.fail("unexpected-error", "typed.StoreCheckpoint", fmt.Sprintf("checkpoint %+v on %s: %v (model cp=%+v has=%v leo=%d)", cp, c.key, err, st.cp, st.hasCP, st.leo))
		} else {
			w.fail("unexpected-success", "typed.StoreCheckpoint", fmt.Sprintf("checkpoint %+v on %s accepted (model cp=%+v has=%v leo=%d)", cp, c.key, st.cp, st.hasCP, st.leo))
		}
		return
	}
	if okWant {
		w.ack(c)
		w.ackedMuts++
		w.mutations++
		w.r.Probe("op.typed.checkpoint")
	}
}

// ---- compatibility ChannelStore operations ----

func (w *world) opCompatAppend(c *simChan) {
	tp := w.r.Tape
	st := c.st()
	mode := AppendMode(tp.Weighted([]int{5, 2, 2}))
	n := tp.Weighted([]int{1, 6, 4, 2, 1})
	if w.forceBulk {
		n = 60 + tp.Intn(40)
		w.bulk = true
		mode = AppendMode(tp.Intn(2))
	}
	rows := w.genRows(c, st, n, mode, true, true)
	w.bulk = false
	w.stamp(c, rows)
	recs := w.compatRecords(rows, 0, tp.Intn(2) == 0)
	other := kOK
	if len(recs) > 0 && tp.Intn(12) == 0 {
		// a record whose envelope disagrees with its payload must be refused
		i := tp.Intn(len(recs))
		if tp.Intn(2) == 0 {
			recs[i].ID = rows[i].ID + 1
		} else {
			recs[i].Index = rows[i].Seq + 1
		}
		other = kCorrupt
	}
	v := rowVerdict{kind: kOK}
	if other == kOK && len(rows) > 0 {
		v = w.predictRows(c, st, rows, mode)
	}
	ok := v.kind == kOK && other == kOK
	w.r.Logf("op %d %s compat.Append mode=%d rows=%v expect=%s/%s", w.step, c.key, mode, rows, kindName[v.kind], kindName[other])
	if ok && len(rows) > 0 {
		ns := st.clone()
		ns.appendRows(rows)
		w.issue(c, ns)
	}
	var base uint64
	var err error
	switch mode {
	case AppendStrict:
		base, err = c.store.Append(recs)
	case AppendServerAllocatedMessageID:
		base, err = c.store.AppendServerAllocated(recs)
	default:
		base, err = c.store.AppendTrusted(recs)
	}
	w.r.Logf("  -> base=%d err=%v", base, err)
	if !w.judgeAppend(c, "compat.Append", v, other, err, rows) || !ok {
		return
	}
	if base != st.leo {
		w.fail("result-mismatch", "compat.Append", fmt.Sprintf("append on %s returned base %d, model log end %d", c.key, base, st.leo))
	}
	if len(rows) == 0 {
		return
	}
	w.ack(c)
	w.ackedMuts++
	w.noteAdded(c, rows)
	w.r.Probe("op.compat.append")
	w.saturationProbe(c)
}

// applyPlan is one prepared follower apply.
type applyPlan struct {
	c      *simChan
	rows   []mrow
	req    channel.ApplyFetchStoreRequest
	point  *channel.EpochPoint
	strict bool
	v      rowVerdict
	other  errKind
	ns     *mstate
	writes bool
}

func (w *world) planApply(c *simChan, allowEpoch, allowStrict bool) *applyPlan {
	tp := w.r.Tape
	st := c.st()
	p := &applyPlan{c: c}
	p.strict = allowStrict && tp.Intn(3) == 0
	mode := AppendTrustedContiguous
	if p.strict {
		mode = AppendStrict
	}
	n := tp.Weighted([]int{2, 5, 3, 1})
	p.rows = w.genRows(c, st, n, mode, true, false)
	w.stamp(c, p.rows)
	p.req.Records = w.compatRecords(p.rows, 0, tp.Intn(2) == 0)
	next := st.leo + uint64(len(p.rows))
	p.ns = st.clone()
	p.writes = len(p.rows) > 0
	switch tp.Weighted([]int{3, 2, 3}) {
	case 1:
		cp, _ := w.genCheckpoint(st, next)
		cc := channel.Checkpoint{Epoch: cp.Epoch, LogStartOffset: cp.LogStartOffset, HW: cp.HW}
		p.req.Checkpoint = &cc
		p.req.PreviousCommittedHW = st.hwOr0()
		if tp.Intn(8) == 0 {
			p.req.PreviousCommittedHW = cp.HW + 1
		}
		switch {
		case cp.LogStartOffset > cp.HW, cp.HW < p.req.PreviousCommittedHW, cp.HW > next, !st.checkpointMonotonicOK(cp, next, next):
			p.other = kCorrupt
		default:
			p.ns.cp, p.ns.hasCP = cp, true
			p.writes = true
		}
	case 2:
		hw := st.hwOr0()
		if next > hw {
			hw += uint64(tp.Intn(int(next-hw) + 1))
		}
		if tp.Intn(8) == 0 {
			hw = next + 1
		}
		p.req.CheckpointHW = &hw
		switch {
		case hw > next:
			p.other = kCorrupt
		case hw > st.hwOr0():
			cur := Checkpoint{}
			if st.hasCP {
				cur = st.cp
			}
			cur.HW = hw
			p.ns.cp, p.ns.hasCP = cur, true
			p.writes = true
		}
	}
	if allowEpoch && tp.Intn(4) == 0 {
		pt := channel.EpochPoint{Epoch: 1 + uint64(tp.Intn(4)), StartOffset: st.leo}
		if len(st.hist) > 0 && tp.Intn(2) == 0 {
			pt.Epoch = st.hist[len(st.hist)-1].Epoch + uint64(tp.Intn(2))
		}
		if tp.Intn(8) == 0 {
			pt.StartOffset++
		}
		p.point = &pt
		if p.other == kOK {
			if pt.StartOffset != st.leo {
				p.other = kCorrupt
			} else if write, ok := st.histDecision(EpochPoint{Epoch: pt.Epoch, StartOffset: pt.StartOffset}); !ok {
				p.other = kCorrupt
			} else if write {
				p.ns.hist = append(p.ns.hist[:len(p.ns.hist):len(p.ns.hist)], EpochPoint{Epoch: pt.Epoch, StartOffset: pt.StartOffset})
				p.writes = true
			}
		}
	}
	p.v = rowVerdict{kind: kOK}
	if p.other == kOK && len(p.rows) > 0 {
		p.v = w.predictRows(c, st, p.rows, mode)
	}
	if p.v.kind == kOK && p.other == kOK && p.writes {
		p.ns.appendRows(p.rows)
		p.ns.catalog = true
	}
	return p
}

func (p *applyPlan) ok() bool { return p.v.kind == kOK && p.other == kOK }

func (w *world) finishApply(p *applyPlan, leo uint64, err error, what string) {
	c := p.c
	if !w.judgeAppend(c, what, p.v, p.other, err, p.rows) || !p.ok() {
		return
	}
	wantLEO := p.ns.leo
	if !p.writes {
		wantLEO = c.st().leo + uint64(len(p.rows))
	}
	if leo != wantLEO {
		w.fail("result-mismatch", what, fmt.Sprintf("%s on %s returned log end %d, model %d", what, c.key, leo, wantLEO))
	}
	if !p.writes {
		return
	}
	w.ack(c)
	w.ackedMuts++
	w.noteAdded(c, p.rows)
	w.r.Probe("op.compat.apply")
}

func (w *world) opCompatApply(c *simChan) {
	p := w.planApply(c, true, true)
	w.r.Logf("op %d %s compat.ApplyFetch strict=%v rows=%v cp=%v cphw=%v epoch=%v expect=%s/%s", w.step, c.key, p.strict, p.rows, p.req.Checkpoint, ptrU64(p.req.CheckpointHW), p.point, kindName[p.v.kind], kindName[p.other])
	if p.ok() && p.writes {
		w.issue(c, p.ns)
	}
	var leo uint64
	var err error
	switch {
	case p.strict && p.point != nil:
		leo, err = c.store.StoreApplyFetchWithEpoch(p.req, p.point)
	case p.strict:
		leo, err = c.store.StoreApplyFetch(p.req)
	case p.point != nil:
		leo, err = c.store.StoreApplyFetchTrustedWithEpoch(p.req, p.point)
	default:
		leo, err = c.store.StoreApplyFetchTrusted(p.req)
	}
	w.r.Logf("  -> leo=%d err=%v", leo, err)
	w.finishApply(p, leo, err, "compat.ApplyFetch")
}

// opBatchApply applies follower records to several channels with one
// StoreApplyFetchTrustedBatch call (one commit request).
func (w *world) opBatchApply(chans []*simChan) {
	w.r.Logf("op %d multi-channel StoreApplyFetchTrustedBatch over %d channels", w.step, len(chans))
	w.avoidIDs = map[uint64]bool{}
	defer func() { w.avoidIDs = nil }()
	plans := make([]*applyPlan, len(chans))
	items := make([]ApplyFetchBatchItem, len(chans))
	for i, c := range chans {
		p := w.planApply(c, false, false)
		for _, r := range p.rows {
			w.avoidIDs[r.ID] = true
		}
		w.r.Logf("  item %s rows=%v cp=%v cphw=%v expect=%s/%s", c.key, p.rows, p.req.Checkpoint, ptrU64(p.req.CheckpointHW), kindName[p.v.kind], kindName[p.other])
		plans[i] = p
		items[i] = ApplyFetchBatchItem{Store: c.store, Request: p.req}
	}
	for _, p := range plans {
		if p.ok() && p.writes {
			w.issue(p.c, p.ns)
		}
	}
	results := StoreApplyFetchTrustedBatch(w.ctx, items)
	for i, p := range plans {
		w.r.Logf("  -> %s leo=%d err=%v", p.c.key, results[i].LEO, results[i].Err)
		w.finishApply(p, results[i].LEO, results[i].Err, "batch.apply")
		if w.stop() {
			return
		}
	}
	w.r.Probe("op.batch.apply_multi_channel")
	if !w.c.Crash {
		for _, c := range chans {
			w.checkChannel(c, 0)
		}
	}
}

func ptrU64(p *uint64) string {
	if p == nil {
		return "nil"
	}
	return fmt.Sprint(*p)
}

func (w *world) opCompatTruncate(c *simChan) {
	tp := w.r.Tape
	st := c.st()
	withHist := tp.Intn(2) == 0
	to, ok := w.truncTarget(st, true)
	want := kOK
	if !ok || tp.Intn(10) == 0 {
		to = st.leo + 1 + uint64(tp.Intn(2))
		want = kCorrupt
	}
	if c.fl == flExact && want == kOK && tp.Intn(4) != 0 {
		// prefer proposal boundaries; splitting a proposal must be refused
		best := st.leo
		for _, p := range st.props {
			if p.manifest.LastOffset >= to && p.manifest.LastOffset < best {
				best = p.manifest.LastOffset
			}
		}
		to = best
	}
	ns := st.clone()
	var removed []mrow
	noop := false
	if want == kOK {
		switch {
		case to == st.leo && !withHist:
			noop = true
		case !ns.lowerRetainedTo(to):
			want = kCorrupt
		case !ns.truncatePropsTo(to):
			want = kConflict
		default:
			removed = ns.removeFrom(to + 1)
			if withHist {
				ns.truncateHistFrom(to + 1)
			}
			ns.leo = to
			ns.catalog = true
		}
	}
	w.r.Logf("op %d %s compat.Truncate to=%d hist=%v (leo=%d) expect=%s noop=%v", w.step, c.key, to, withHist, st.leo, kindName[want], noop)
	if want == kOK && !noop {
		w.issue(c, ns)
	}
	var err error
	if withHist {
		err = c.store.TruncateLogAndHistory(w.ctx, to)
	} else {
		err = c.store.Truncate(to)
	}
	w.r.Logf("  -> err=%v removed=%d", err, len(removed))
	if (want == kOK) != (err == nil) {
		if err != nil {
			w.fail("unexpected-error", "compat.Truncate", fmt.Sprintf("truncate to %d on %s: %v (model leo=%d ret=%+v)", to, c.key, err, st.leo, st.ret))
		} else {
			w.fail("unexpected-success", "compat.Truncate", fmt.Sprintf("truncate to %d on %s accepted, model expects %s (leo=%d ret=%+v)", to, c.key, kindName[want], st.leo, st.ret))
		}
		return
	}
	if want != kOK || noop {
		return
	}
	w.ack(c)
	w.ackedMuts++
	w.mutations++
	w.noteRemoved(c, removed)
	for _, p := range st.props {
		if p.manifest.LastOffset > to && len(c.retired) < 16 {
			c.retired = append(c.retired, p)
		}
	}
	w.r.Probe("op.compat.truncate")
	if st.hasRet && st.ret.RetainedMaxSeq > to && to > st.ret.PhysicalRetentionThroughSeq && !w.prelude {
		// the retained log end had to be lowered although rows survive above the trim boundary
		w.r.Probe("shrink.retained_max_lowered_with_live_tail")
	}
}

func (w *world) opAdopt(c *simChan) {
	tp := w.r.Tape
	st := c.st()
	hi := st.leo
	if st.hasCP && st.cp.HW < hi && tp.Intn(4) != 0 {
		hi = st.cp.HW
	}
	if tp.Intn(10) == 0 {
		hi = st.leo + 2
	}
	through := uint64(tp.Intn(int(hi) + 1))
	if w.forceThrough > 0 {
		through = w.forceThrough
	}
	cursor := []string{"committed", "x"}[tp.Weighted([]int{4, 1})]
	ns := st.clone()
	want := kOK
	noop := false
	if through == 0 {
		want = kInvalid
	} else {
		state := RetentionState{}
		if st.hasRet {
			state = st.ret
		}
		next := state
		if through > next.LocalRetentionThroughSeq {
			next.LocalRetentionThroughSeq = through
		}
		m := st.leo
		if through > m {
			m = through
		}
		if m > next.RetainedMaxSeq {
			next.RetainedMaxSeq = m
		}
		cur, has := st.cursors[cursor]
		if next == state && has && cur >= next.LocalRetentionThroughSeq {
			noop = true
		} else {
			if next != state {
				ns.ret, ns.hasRet = next, true
			}
			if !has || cur < next.LocalRetentionThroughSeq {
				if ns.cursors == nil {
					ns.cursors = map[string]uint64{}
				}
				ns.cursors[cursor] = next.LocalRetentionThroughSeq
			}
			ns.catalog = true
			if next.RetainedMaxSeq > ns.leo {
				ns.leo = next.RetainedMaxSeq
			}
		}
	}
	w.r.Logf("op %d %s compat.AdoptRetentionBoundary through=%d cursor=%s expect=%s noop=%v", w.step, c.key, through, cursor, kindName[want], noop)
	if want == kOK && !noop {
		w.issue(c, ns)
	}
	err := c.store.AdoptRetentionBoundary(w.ctx, through, cursor)
	w.r.Logf("  -> err=%v", err)
	if (want == kOK) != (err == nil) {
		if err != nil {
			w.fail("unexpected-error", "compat.Adopt", fmt.Sprintf("adopt %d on %s: %v", through, c.key, err))
		} else {
			w.fail("unexpected-success", "compat.Adopt", fmt.Sprintf("adopt %d on %s accepted", through, c.key))
		}
		return
	}
	if want == kOK && !noop {
		w.ack(c)
		w.ackedMuts++
		w.mutations++
		w.r.Probe("op.compat.adopt")
	}
}

func (w *world) opCompatTrim(c *simChan) {
	st := c.st()
	through, opts := w.genTrimArgs(st, false)
	ns := st.clone()
	before := ns.rows
	want := kOK
	var wantRes RetentionTrimResult
	if through == 0 {
		want = kInvalid
	} else if res, ok := ns.applyTrim(through, opts.MaxMessages, opts.MaxBytes, false); !ok {
		want = kCorrupt
	} else {
		wantRes = res
	}
	removed := diffRemoved(before, ns.rows)
	w.r.Logf("op %d %s compat.TrimMessagesThroughLimit through=%d opts=%+v expect=%s", w.step, c.key, through, opts, kindName[want])
	if want == kOK {
		w.issue(c, ns)
	}
	res, err := c.store.TrimMessagesThroughLimit(w.ctx, through, opts)
	w.r.Logf("  -> %+v err=%v", res, err)
	if (want == kOK) != (err == nil) {
		if err != nil {
			w.fail("unexpected-error", "compat.Trim", fmt.Sprintf("trim %d on %s: %v (model ret=%+v)", through, c.key, err, st.ret))
		} else {
			w.fail("unexpected-success", "compat.Trim", fmt.Sprintf("trim %d on %s accepted (model ret=%+v)", through, c.key, st.ret))
		}
		return
	}
	if want != kOK {
		return
	}
	w.ack(c)
	w.ackedMuts++
	w.mutations++
	w.noteRemoved(c, removed)
	w.r.Probe("op.compat.trim")
	if wantRes.More {
		w.r.Probe("trim.more")
	}
	if res != wantRes {
		w.fail("result-mismatch", "compat.Trim", fmt.Sprintf("trim(%d,%+v) on %s returned %+v, model %+v", through, opts, c.key, res, wantRes))
	}
}

// planHW prepares a monotonic checkpoint-HW update (never above the log end:
// the store trusts the replication layer for that).
func (w *world) planHW(c *simChan) (hw uint64, ns *mstate) {
	st := c.st()
	cur := st.hwOr0()
	hw = cur
	if st.leo > cur {
		hw += uint64(w.r.Tape.Intn(int(st.leo-cur) + 1))
	}
	if cur > 0 && w.r.Tape.Intn(6) == 0 {
		hw = cur - 1
	}
	if st.hasCP && hw <= st.cp.HW {
		return hw, nil
	}
	ns = st.clone()
	cp := Checkpoint{}
	if st.hasCP {
		cp = st.cp
	}
	cp.HW = hw
	ns.cp, ns.hasCP, ns.catalog = cp, true, true
	return hw, ns
}

func (w *world) opCheckpointHW(c *simChan) {
	hw, ns := w.planHW(c)
	batch := w.r.Tape.Intn(2) == 0
	w.r.Logf("op %d %s compat.StoreCheckpointHWMonotonic hw=%d batch=%v writes=%v", w.step, c.key, hw, batch, ns != nil)
	if ns != nil {
		w.issue(c, ns)
	}
	var err error
	if batch {
		res := StoreCheckpointHWMonotonicBatch(w.ctx, []CheckpointHWBatchItem{{Store: c.store, HW: hw}})
		err = res[0].Err
	} else {
		err = c.store.StoreCheckpointHWMonotonic(w.ctx, hw)
	}
	w.r.Logf("  -> err=%v", err)
	if err != nil {
		w.fail("unexpected-error", "compat.CheckpointHW", fmt.Sprintf("checkpoint hw %d on %s: %v", hw, c.key, err))
		return
	}
	if ns != nil {
		w.ack(c)
		w.ackedMuts++
		w.mutations++
		w.r.Probe("op.compat.checkpoint_hw")
	}
}

// opDiscard is the restore-failure cleanup: it pages through the rows (one
// batch per page) and then removes every system record in a final batch, so
// it is modelled as two mutations with a legal intermediate state.
func (w *world) opDiscard(c *simChan) {
	st := c.st()
	if len(st.rows) == 0 && !st.catalog {
		w.r.Logf("op %d %s compat.DiscardForRestore skipped (empty)", w.step, c.key)
		return
	}
	w.r.Logf("op %d %s compat.DiscardForRestore rows=%d", w.step, c.key, len(st.rows))
	removed := st.rows
	if len(st.rows) > 0 {
		mid := st.clone()
		mid.rows = nil
		mid.mid = true
		mid.leo = 0
		if mid.hasRet {
			mid.leo = mid.ret.RetainedMaxSeq
		}
		w.issue(c, mid)
	}
	w.issue(c, &mstate{})
	err := c.store.DiscardForRestore(w.ctx)
	w.r.Logf("  -> err=%v", err)
	if err != nil {
		w.fail("unexpected-error", "compat.Discard", fmt.Sprintf("DiscardForRestore on %s: %v", c.key, err))
		return
	}
	w.ack(c)
	w.ackedMuts++
	w.mutations++
	w.noteRemoved(c, removed)
	c.retired = nil
	w.r.Probe("op.compat.discard")
}

// ---- StoreAppendBatch: non-exact and exact items, one or several channels ----

type batchItemPlan struct {
	c       *simChan
	item    AppendBatchItem
	rows    []mrow
	prop    mprop
	kind    string // "plain", "fresh", "replay", "gap", "stale", "badprev", "adjacent", "staged-replay"
	wantOK  bool
	already bool
	v       rowVerdict
	other   errKind
	needFrom uint64
	base    uint64
	last    uint64
}

// planBatchFor prepares the items of one channel (one, or several adjacent
// exact items) against st and returns the resulting state (nil: unchanged).
func (w *world) planBatchFor(c *simChan) ([]*batchItemPlan, *mstate) {
	tp := w.r.Tape
	st := c.st()
	if c.fl != flExact {
		mode := AppendStrict
		srv := tp.Intn(3) == 0
		if srv {
			mode = AppendServerAllocatedMessageID
		}
		n := tp.Weighted([]int{1, 6, 4, 2})
		rows := w.genRows(c, st, n, mode, true, true)
		w.stamp(c, rows)
		p := &batchItemPlan{c: c, rows: rows, kind: "plain", base: st.leo, last: st.leo + uint64(len(rows))}
		p.item = AppendBatchItem{Store: c.store, Records: w.compatRecords(rows, 0, false), ServerAllocatedMessageIDs: srv, Class: AppendBatchClass(tp.Intn(3))}
		if tp.Intn(12) == 0 {
			p.item.Committed = 1
			p.other = kInvalid
		}
		p.v = rowVerdict{kind: kOK}
		if p.other == kOK && len(rows) > 0 {
			p.v = w.predictRows(c, st, rows, mode)
		}
		p.wantOK = p.v.kind == kOK && p.other == kOK
		if p.wantOK && len(rows) > 0 {
			ns := st.clone()
			ns.appendRows(rows)
			return []*batchItemPlan{p}, ns
		}
		return []*batchItemPlan{p}, nil
	}
	// exact channel
	if tp.Intn(5) == 0 {
		c.term++
		if tp.Intn(3) == 0 {
			c.epoch++
			c.fence++
		}
	}
	ns := st.clone()
	changed := false
	// one class per channel and call: items of different classes are committed
	// as separate groups (in class order of first appearance), which would make
	// one call several mutations
	class := AppendBatchClass(tp.Intn(3))
	staged := &seenSet{}
	var plans []*batchItemPlan
	nItems := 1 + tp.Weighted([]int{5, 2, 1})
	for i := 0; i < nItems; i++ {
		srv := tp.Intn(2) == 0
		mode := AppendStrict
		if srv {
			mode = AppendServerAllocatedMessageID
		}
		kindW := []int{10, 0, 0, 0, 0}
		if len(ns.props) > 0 {
			kindW[1] = 3 // replay
			kindW[3] = 1 // stale
			kindW[4] = 1 // bad predecessor
		}
		kindW[2] = 1 // gap
		k := tp.Weighted(kindW)
		p := &batchItemPlan{c: c}
		switch k {
		case 1: // exact replay of a durable (or just staged) proposal
			src := ns.props[len(ns.props)-1-tp.Weighted(descWeights(len(ns.props)))]
			p.kind = "replay"
			p.prop = src
			p.rows = src.rows
			p.base, p.last = src.manifest.BaseOffset, src.manifest.LastOffset
			p.item = AppendBatchItem{Store: c.store, Records: w.compatRecordsEpoch(src.rows, src.epochs), ExactBaseOffset: true,
				ExpectedBaseOffset: src.manifest.BaseOffset, Proposal: src.manifest, ServerAllocatedMessageIDs: srv}
			p.wantOK, p.already = true, true
			// the predecessor proof must still be on disk
			if src.manifest.BaseOffset > 0 && ns.propIndexByLast(src.manifest.BaseOffset) < 0 {
				p.wantOK = false
			}
		case 2: // gap
			n := 1 + tp.Intn(2)
			gapBase := ns.leo + 1 + uint64(tp.Intn(2))
			rows := w.genRows(c, &mstate{leo: gapBase}, n, AppendTrustedContiguous, true, true)
			prev := quorumlog.EntryIdentity{LeaderTerm: c.term, Digest: quorumlog.EntryDigest{1}}
			prop, ok := w.buildProposal(c, rows, gapBase, prev)
			if !ok {
				continue
			}
			p.kind, p.prop, p.rows = "gap", prop, rows
			p.base, p.last = gapBase, prop.manifest.LastOffset
			p.item = AppendBatchItem{Store: c.store, Records: w.compatRecordsEpoch(rows, c.epoch), ExactBaseOffset: true, ExpectedBaseOffset: gapBase, Proposal: prop.manifest, ServerAllocatedMessageIDs: srv}
			p.needFrom = ns.leo + 1
		case 3, 4, 0:
			n := 1 + tp.Weighted([]int{5, 3, 1})
			base := ns.leo
			if k == 3 {
				old := ns.props[tp.Intn(len(ns.props))]
				base = old.manifest.BaseOffset
				if base == ns.leo {
					k = 0
				}
			}
			var rows []mrow
			if base == ns.leo {
				// duplicates against the live rows are judged by the model below
				rows = w.genRows(c, ns, n, mode, true, true)
			} else {
				rows = w.genRows(c, &mstate{leo: base, rows: ns.rows}, n, mode, true, true)
			}
			w.stamp(c, rows)
			var prev quorumlog.EntryIdentity
			havePrev := true
			if base > 0 {
				prev, havePrev = ns.identityAt(base)
				if ns.propIndexByLast(base) < 0 {
					havePrev = false
				}
			}
			if !havePrev {
				prev = quorumlog.EntryIdentity{LeaderTerm: c.term, Digest: quorumlog.EntryDigest{2}}
			}
			if k == 4 && base > 0 {
				prev.Digest[5] ^= 0x40
			}
			prop, ok := w.buildProposal(c, rows, base, prev)
			if !ok {
				continue
			}
			p.prop, p.rows, p.base, p.last = prop, rows, base, prop.manifest.LastOffset
			p.item = AppendBatchItem{Store: c.store, Records: w.compatRecordsEpoch(rows, c.epoch), ExactBaseOffset: true, ExpectedBaseOffset: base, Proposal: prop.manifest, ServerAllocatedMessageIDs: srv}
			switch {
			case k == 3:
				p.kind = "stale"
			case k == 4 && base > 0:
				p.kind = "badprev"
			case !havePrev:
				p.kind = "noprev"
			default:
				p.kind = "fresh"
				p.v = w.predictRowsStaged(c, ns, rows, mode, staged)
				p.wantOK = p.v.kind == kOK
			}
		}
		// committed watermark carried by the item
		if p.kind == "fresh" || p.kind == "replay" {
			if tp.Intn(2) == 0 {
				visible := ns.leo
				if p.kind == "fresh" {
					visible = p.last
				}
				cm := ns.hwOr0()
				limit := p.last
				if visible < limit {
					limit = visible
				}
				if limit > cm {
					cm += uint64(tp.Intn(int(limit-cm) + 1))
				}
				if cm > p.last {
					cm = p.last
				}
				p.item.Committed = cm
			}
		}
		p.item.Class = class
		if p.wantOK {
			if p.kind == "fresh" {
				ns.appendRows(p.rows)
				ns.props = append(ns.props[:len(ns.props):len(ns.props)], p.prop)
				changed = true
			}
			if p.item.Committed > ns.hwOr0() {
				cp := Checkpoint{}
				if ns.hasCP {
					cp = ns.cp
				}
				cp.HW = p.item.Committed
				ns.cp, ns.hasCP, ns.catalog = cp, true, true
				changed = true
			}
		}
		plans = append(plans, p)
	}
	if !changed {
		return plans, nil
	}
	return plans, ns
}

func descWeights(n int) []int {
	ws := make([]int, n)
	for i := range ws {
		ws[i] = 1
	}
	if n > 0 {
		ws[0] = 3
	}
	return ws
}

func (w *world) compatRecordsEpoch(rows []mrow, epoch uint64) []channel.Record {
	return w.compatRecords(rows, epoch, true)
}

func (w *world) opBatchAppend(chans []*simChan) {
	var plans []*batchItemPlan
	states := map[*simChan]*mstate{}
	w.avoidIDs = map[uint64]bool{}
	defer func() { w.avoidIDs = nil }()
	for _, c := range chans {
		ps, ns := w.planBatchFor(c)
		for _, p := range ps {
			for _, r := range p.rows {
				w.avoidIDs[r.ID] = true
			}
		}
		plans = append(plans, ps...)
		if ns != nil {
			states[c] = ns
		}
	}
	if len(plans) == 0 {
		return
	}
	items := make([]AppendBatchItem, len(plans))
	for i, p := range plans {
		items[i] = p.item
		w.r.Logf("op %d %s batch.item[%d] kind=%s base=%d rows=%v committed=%d srv=%v expect_ok=%v", w.step, p.c.key, i, p.kind, p.base, p.rows, p.item.Committed, p.item.ServerAllocatedMessageIDs, p.wantOK)
	}
	for _, c := range chans {
		if ns := states[c]; ns != nil {
			w.issue(c, ns)
		}
	}
	results := StoreAppendBatch(w.ctx, items)
	for i, p := range plans {
		res := results[i]
		w.r.Logf("  -> [%d] base=%d last=%d need=%d outcome=%d err=%v", i, res.BaseOffset, res.LastOffset, res.NeedFrom, res.Outcome, res.Err)
		w.judgeBatchItem(p, res)
		if w.stop() {
			return
		}
	}
	for _, c := range chans {
		if states[c] != nil {
			w.ack(c)
			w.ackedMuts++
		}
	}
	for _, p := range plans {
		if p.wantOK && (p.kind == "fresh" || p.kind == "plain") {
			w.noteAdded(p.c, p.rows)
		}
	}
	w.r.Probe("op.batch.append")
}

func (w *world) judgeBatchItem(p *batchItemPlan, res AppendBatchResult) {
	c := p.c
	switch p.kind {
	case "plain", "fresh":
		if !w.judgeAppend(c, "batch."+p.kind, p.v, p.other, res.Err, p.rows) || !p.wantOK {
			if res.Err != nil && res.Outcome.Durable() {
				w.fail("result-mismatch", "batch.outcome", fmt.Sprintf("failed item reports durable outcome %d", res.Outcome))
			}
			return
		}
		if len(p.rows) == 0 {
			return
		}
		if res.BaseOffset != p.base || res.LastOffset != p.last || res.Outcome != quorumlog.AppendOutcomeDurable {
			w.fail("result-mismatch", "batch."+p.kind, fmt.Sprintf("item on %s returned base=%d last=%d outcome=%d, model %d..%d durable", c.key, res.BaseOffset, res.LastOffset, res.Outcome, p.base, p.last))
		}
		if p.kind == "fresh" {
			w.r.Probe("exact.fresh")
		}
	case "replay":
		if p.wantOK {
			if res.Err != nil {
				w.fail("unexpected-error", "batch.replay", fmt.Sprintf("exact replay of %d..%d on %s failed: %v", p.base, p.last, c.key, res.Err))
				return
			}
			if res.Outcome != quorumlog.AppendOutcomeAlreadyDurable || res.LastOffset != p.last {
				w.fail("result-mismatch", "batch.replay", fmt.Sprintf("exact replay on %s returned last=%d outcome=%d, want %d already-durable", c.key, res.LastOffset, res.Outcome, p.last))
			}
			w.r.Probe("exact.replay")
		} else if res.Err == nil {
			w.fail("unexpected-success", "batch.replay", fmt.Sprintf("exact replay without predecessor proof accepted on %s", c.key))
		}
	case "gap":
		if res.Err == nil {
			w.fail("unexpected-success", "batch.gap", fmt.Sprintf("exact append with a gap accepted on %s (base %d, log end %d)", c.key, p.base, c.st().leo))
			return
		}
		if res.NeedFrom != 0 && res.NeedFrom != p.needFrom {
			w.fail("result-mismatch", "batch.gap", fmt.Sprintf("gap on %s reports NeedFrom=%d, model %d", c.key, res.NeedFrom, p.needFrom))
		}
		w.r.Probe("exact.gap")
	default: // stale, badprev, noprev
		if res.Err == nil {
			w.fail("unexpected-success", "batch."+p.kind, fmt.Sprintf("conflicting exact append (%s) accepted on %s base=%d", p.kind, c.key, p.base))
			return
		}
		if res.Outcome.Durable() {
			w.fail("result-mismatch", "batch.outcome", fmt.Sprintf("rejected item reports durable outcome %d", res.Outcome))
		}
		w.r.Probe("exact." + p.kind)
	}
}

// ---- recovery suffix replacement (exact channels) ----

func (w *world) opReplace(c *simChan) {
	tp := w.r.Tape
	st := c.st()
	// keep-through candidates: proposal boundaries at or above the committed watermark and retention boundary
	floor := st.hwOr0()
	if st.hasRet && st.ret.LocalRetentionThroughSeq > floor {
		floor = st.ret.LocalRetentionThroughSeq
	}
	var cands []uint64
	if floor == 0 {
		cands = append(cands, 0)
	}
	for _, p := range st.props {
		if p.manifest.LastOffset >= floor && p.manifest.LastOffset <= st.leo {
			cands = append(cands, p.manifest.LastOffset)
		}
	}
	frontierOK := st.leo == 0 || st.propIndexByLast(st.leo) >= 0
	if len(cands) == 0 || !frontierOK {
		w.r.Logf("op %d %s exact.Replace skipped (no boundary / frontier without proof)", w.step, c.key)
		return
	}
	keep := cands[tp.Intn(len(cands))]
	c.term++
	if tp.Intn(2) == 0 {
		c.epoch++
		c.fence++
	}
	ns := st.clone()
	if !ns.truncatePropsTo(keep) {
		return
	}
	removed := ns.removeFrom(keep + 1)
	ns.truncateHistFrom(keep + 1)
	ns.leo = keep
	// live view for duplicate prediction: rows above keep are replaced
	nProps := tp.Weighted([]int{1, 4, 2})
	var proposals []RecoveryProposal
	var added []mrow
	want := kOK
	base := keep
	prev, _ := ns.identityAt(keep)
	view := ns.clone()
	for i := 0; i < nProps; i++ {
		n := 1 + tp.Weighted([]int{4, 2, 1})
		rows := w.genRows(c, view, n, AppendTrustedContiguous, true, true)
		w.stamp(c, rows)
		// the replacement may legitimately reuse ids/keys of the replaced suffix
		if len(removed) > 0 && tp.Intn(3) == 0 {
			src := removed[tp.Intn(len(removed))]
			rows[0].ID, rows[0].From, rows[0].CMN = src.ID, src.From, src.CMN
		}
		prop, ok := w.buildProposal(c, rows, base, prev)
		if !ok {
			return
		}
		proposals = append(proposals, RecoveryProposal{Manifest: prop.manifest, Records: w.compatRecordsEpoch(rows, c.epoch)})
		// validateRecoveryRows: ids / keys must not collide with anything at or below keep, nor inside the request
		for _, r := range rows {
			for _, a := range added {
				if a.ID == r.ID || (r.From != "" && r.CMN != "" && a.From == r.From && a.CMN == r.CMN) {
					want = kConflict
				}
			}
			if loc, live := w.liveIDs[r.ID]; live && (loc.ch != c.idx || loc.seq <= keep) {
				want = kConflict
			}
			if _, live := ns.hasKey(r.From, r.CMN); live {
				want = kConflict
			}
			added = append(added, r)
		}
		view.appendRows(rows)
		view.props = append(view.props[:len(view.props):len(view.props)], prop)
		prev = prop.entries[len(prop.entries)-1]
		base = prop.manifest.LastOffset
	}
	final := base
	committed := st.hwOr0()
	if final > committed && tp.Intn(2) == 0 {
		committed += uint64(tp.Intn(int(final-committed) + 1))
	}
	expected := DurableFrontier{LEO: st.leo, Committed: st.hwOr0()}
	if st.leo > 0 {
		p := st.props[st.propIndexByLast(st.leo)]
		expected.Manifest = p.manifest
		expected.TailIdentity = p.entries[len(p.entries)-1]
	}
	if tp.Intn(10) == 0 {
		expected.LEO++
		want = kCorrupt
	}
	if st.hasRet && final < st.ret.LocalRetentionThroughSeq {
		want = kCorrupt
	}
	if want == kOK {
		ns = view
		ns.leo = final
		cp := Checkpoint{}
		if st.hasCP {
			cp = st.cp
		}
		cp.HW = committed
		ns.cp, ns.hasCP, ns.catalog = cp, true, true
		if ns.hasRet && ns.ret.RetainedMaxSeq > final {
			ns.ret.RetainedMaxSeq = final
		}
	}
	w.r.Logf("op %d %s exact.ReplaceRecoverySuffix keep=%d proposals=%d added=%v committed=%d expect=%s", w.step, c.key, keep, len(proposals), added, committed, kindName[want])
	if want == kOK {
		w.issue(c, ns)
	}
	res, err := c.store.ReplaceRecoverySuffix(w.ctx, ReplaceRecoverySuffixRequest{Expected: expected, KeepThrough: keep, Proposals: proposals, Committed: committed})
	w.r.Logf("  -> %+v err=%v", res, err)
	if (want == kOK) != (err == nil) {
		if err != nil {
			w.fail("unexpected-error", "exact.Replace", fmt.Sprintf("replace keep=%d on %s: %v", keep, c.key, err))
		} else {
			w.fail("unexpected-success", "exact.Replace", fmt.Sprintf("replace keep=%d on %s accepted, model expects %s", keep, c.key, kindName[want]))
		}
		return
	}
	if want != kOK {
		return
	}
	w.ack(c)
	w.ackedMuts++
	w.mutations++
	w.noteRemoved(c, removed)
	w.noteAdded(c, added)
	for _, p := range st.props {
		if p.manifest.LastOffset > keep && len(c.retired) < 16 {
			c.retired = append(c.retired, p)
		}
	}
	if res.LastOffset != final || res.Outcome != quorumlog.AppendOutcomeDurable {
		w.fail("result-mismatch", "exact.Replace", fmt.Sprintf("replace on %s returned %+v, model last=%d", c.key, res, final))
	}
	w.r.Probe("op.exact.replace")
	if st.hasRet && st.ret.RetainedMaxSeq > final && final > st.ret.PhysicalRetentionThroughSeq && !w.prelude {
		w.r.Probe("shrink.retained_max_lowered_with_live_tail")
	}
}

// ---- concurrent cross-channel group (commit coordinator grouping) ----

func (w *world) groupOp() {
	tp := w.r.Tape
	var pool []*simChan
	for _, c := range w.chans {
		if c.fl != flTyped {
			pool = append(pool, c)
		}
	}
	n := 2 + tp.Intn(len(pool)-1)
	// tape-chosen distinct channels, kept in channel order
	for len(pool) > n {
		i := tp.Intn(len(pool))
		pool = append(pool[:i], pool[i+1:]...)
	}
	sort.Slice(pool, func(i, j int) bool { return pool[i].idx < pool[j].idx })
	switch tp.Weighted([]int{4, 1, 1}) {
	case 1:
		// one StoreAppendBatch call carrying every chosen channel
		w.r.Logf("op %d multi-channel StoreAppendBatch over %d channels", w.step, len(pool))
		w.opBatchAppend(pool)
		w.r.Probe("op.batch.multi_channel")
		if !w.c.Crash {
			for _, c := range pool {
				w.checkChannel(c, 0)
			}
		}
		return
	case 2:
		var compat []*simChan
		for _, c := range pool {
			if c.fl == flCompat {
				compat = append(compat, c)
			}
		}
		if len(compat) >= 2 {
			w.opBatchApply(compat)
			return
		}
	}
	w.r.Logf("op %d group of %d clients", w.step, len(pool))
	type client struct {
		c     *simChan
		run   func()
		done  func()
		plans []*batchItemPlan
	}
	var clients []*client
	w.avoidIDs = map[uint64]bool{}
	defer func() { w.avoidIDs = nil }()
	for _, c := range pool {
		c := c
		cl := &client{c: c}
		switch {
		case c.fl == flCompat && tp.Intn(3) == 0:
			p := w.planApply(c, false, false)
			for _, r := range p.rows {
				w.avoidIDs[r.ID] = true
			}
			w.r.Logf("  client %s apply rows=%v cp=%v cphw=%v expect=%s/%s", c.key, p.rows, p.req.Checkpoint, ptrU64(p.req.CheckpointHW), kindName[p.v.kind], kindName[p.other])
			if p.ok() && p.writes {
				w.issue(c, p.ns)
			}
			var leo uint64
			var err error
			cl.run = func() {
				res := StoreApplyFetchTrustedBatch(w.ctx, []ApplyFetchBatchItem{{Store: c.store, Request: p.req}})
				leo, err = res[0].LEO, res[0].Err
				if p.ok() && p.writes && err == nil {
					w.ack(c)
				}
			}
			cl.done = func() {
				w.r.Logf("  client %s -> leo=%d err=%v", c.key, leo, err)
				w.finishApply(p, leo, err, "group.apply")
			}
		case tp.Intn(4) == 0:
			hw, ns := w.planHW(c)
			w.r.Logf("  client %s checkpoint hw=%d writes=%v", c.key, hw, ns != nil)
			if ns != nil {
				w.issue(c, ns)
			}
			var err error
			cl.run = func() {
				res := StoreCheckpointHWMonotonicBatch(w.ctx, []CheckpointHWBatchItem{{Store: c.store, HW: hw}})
				err = res[0].Err
				if ns != nil && err == nil {
					w.ack(c)
				}
			}
			cl.done = func() {
				w.r.Logf("  client %s -> err=%v", c.key, err)
				if err != nil {
					w.fail("unexpected-error", "group.checkpoint", fmt.Sprintf("checkpoint hw %d on %s: %v", hw, c.key, err))
				} else if ns != nil {
					w.ackedMuts++
					w.mutations++
				}
			}
		default:
			plans, ns := w.planBatchFor(c)
			if len(plans) == 0 {
				continue
			}
			for _, p := range plans {
				for _, r := range p.rows {
					w.avoidIDs[r.ID] = true
				}
			}
			items := make([]AppendBatchItem, len(plans))
			for i, p := range plans {
				items[i] = p.item
				w.r.Logf("  client %s item[%d] kind=%s base=%d rows=%v committed=%d expect_ok=%v", c.key, i, p.kind, p.base, p.rows, p.item.Committed, p.wantOK)
			}
			if ns != nil {
				w.issue(c, ns)
			}
			var results []AppendBatchResult
			cl.plans = plans
			cl.run = func() {
				results = StoreAppendBatch(w.ctx, items)
				good := true
				for i, p := range plans {
					if p.wantOK != (results[i].Err == nil) {
						good = false
					}
				}
				if ns != nil && good {
					w.ack(c)
				}
			}
			cl.done = func() {
				for i, p := range plans {
					w.r.Logf("  client %s -> [%d] base=%d last=%d outcome=%d err=%v", c.key, i, results[i].BaseOffset, results[i].LastOffset, results[i].Outcome, results[i].Err)
					w.judgeBatchItem(p, results[i])
					if w.stop() {
						return
					}
				}
				if ns != nil {
					w.ackedMuts++
				}
				for _, p := range plans {
					if p.wantOK && (p.kind == "fresh" || p.kind == "plain") {
						w.noteAdded(c, p.rows)
					}
				}
			}
		}
		clients = append(clients, cl)
	}
	var wg sync.WaitGroup
	for _, cl := range clients {
		wg.Add(1)
		run := cl.run
		go func() {
			defer wg.Done()
			run()
		}()
		simkit.Wait() // the client is now blocked in the coordinator (or done): deterministic arrival order
	}
	wg.Wait()
	for _, cl := range clients {
		cl.done()
		if w.stop() {
			return
		}
	}
	if len(clients) > 1 {
		w.r.Probe("op.group")
	}
	if !w.c.Crash {
		for _, cl := range clients {
			w.checkChannel(cl.c, 0)
		}
	}
}

// ---- lease cycling and whole-database reopen ----

func (w *world) leaseCycle(c *simChan) {
	w.r.Logf("op %d %s lease close/reacquire (warm=%d)", w.step, c.key, w.c.Warm)
	before := w.eng.db.registry.snapshot().reclaimTotal
	w.release(c)
	if w.eng.db.registry.snapshot().reclaimTotal > before {
		w.r.Fault("lease_reclaim")
		c.leaseGen++
	}
	if !w.acquire(c) {
		return
	}
	w.r.Probe("op.lease_reacquire")
	w.disturbed = true
	w.maybeQuietLease(c)
	if !w.c.Crash && !w.stop() {
		w.checkChannel(c, 1)
	}
}

// maybeQuietLease: while the canonical entry of c has not recovered its log
// end yet (database just reopened, or no warm state survived the reclamation),
// the sole lease is sometimes used only for operations that never load the log
// end - forward reads, lookups, a checkpoint rewrite - and is then closed and
// reacquired, so that the next lease starts from whatever the registry kept of
// a lease that never looked at the log end.
func (w *world) maybeQuietLease(c *simChan) {
	if c.log == nil || c.log.channelEntry == nil || c.log.loaded.Load() {
		return
	}
	tp := w.r.Tape
	mode := tp.Intn(4) // 0 = not this time
	if mode == 0 {
		return
	}
	st := c.st()
	w.r.Logf("  %s quiet lease (mode %d): reads/lookups only, then close and reacquire", c.key, mode)
	if msgs, err := c.log.Read(w.ctx, 1, ReadOptions{}); err == nil {
		if m := compareRows("Read(1)", msgs, st.rows); m != nil {
			w.fail(m.class, m.sig, m.detail)
			return
		}
	}
	if n := len(st.rows); n > 0 {
		r := st.rows[n-1]
		if m, ok, err := c.log.GetByMessageID(w.ctx, r.ID); err != nil || !ok || rowVsMessage(r, m) != "" {
			w.fail("message-id-lookup-mismatch", "quiet-lease", fmt.Sprintf("GetByMessageID(%s,%d) = ok %v err %v %s", c.key, r.ID, ok, err, rowVsMessage(r, m)))
			return
		}
		if r.From != "" && r.CMN != "" {
			if hit, ok, err := c.log.LookupIdempotency(w.ctx, IdempotencyKey{FromUID: r.From, ClientMsgNo: r.CMN}); err != nil || !ok || hit.MessageSeq != r.Seq {
				w.fail("idempotency-lookup-mismatch", "quiet-lease", fmt.Sprintf("LookupIdempotency(%s,%q,%q) = %+v ok %v err %v, model seq %d", c.key, r.From, r.CMN, hit, ok, err, r.Seq))
				return
			}
		}
	}
	switch mode {
	case 2:
		if st.hasCP {
			// rewrite the stored checkpoint with the same value (durable state unchanged)
			if err := c.log.StoreCheckpoint(w.ctx, st.cp); err != nil {
				w.fail("unexpected-error", "quiet-lease.checkpoint", fmt.Sprintf("StoreCheckpoint(%+v) on %s: %v", st.cp, c.key, err))
				return
			}
		}
	case 3:
		// the batch entry point opens and closes a transient lease of its own; a non-advancing value writes nothing
		if !st.hasCP {
			// without a stored checkpoint the call writes {0,0,0}
			ns := st.clone()
			ns.hasCP, ns.catalog = true, true
			w.issue(c, ns)
		}
		if res := StoreCheckpointHWMonotonicBatch(w.ctx, []CheckpointHWBatchItem{{Store: c.store, HW: st.hwOr0()}}); res[0].Err != nil {
			w.fail("unexpected-error", "quiet-lease.checkpoint", fmt.Sprintf("StoreCheckpointHWMonotonicBatch(%d) on %s: %v", st.hwOr0(), c.key, res[0].Err))
			return
		}
		if !st.hasCP {
			w.ack(c)
		}
	}
	w.release(c)
	if !w.acquire(c) {
		return
	}
	w.r.Probe("lease.quiet_cycle")
}

func (w *world) reopen() {
	w.r.Logf("op %d close and reopen the database", w.step)
	w.closePrimary()
	if w.r.InfraErr != "" {
		return
	}
	if !w.openPrimary() {
		return
	}
	simkit.Wait()
	for _, c := range w.chans {
		c.reopenGen++
		c.leaseGen++
	}
	w.r.Fault("reopen")
	w.r.Probe("op.reopen")
	w.disturbed = true
	for _, c := range w.chans {
		if !w.stop() {
			w.maybeQuietLease(c)
		}
	}
	if !w.c.Crash && !w.stop() {
		w.fullCheck("after-reopen")
	}
}
