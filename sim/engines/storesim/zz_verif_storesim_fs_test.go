package message

// Simulated disk for the storesim engine: a counting/cloning gate over
// pebble's crashable in-memory file system. Every mutating file-system call
// (create, write, sync, rename, remove, link, mkdir, dir-sync) is numbered; in
// cloning mode a crash clone of the whole disk is taken BEFORE the call is
// applied, once per crash mode (process kill, power loss, torn writes).

import (
	"fmt"
	"hash/fnv"
	"math/rand/v2"
	"os"
	"sort"
	"sync"

	"github.com/cockroachdb/pebble/v2/vfs"
)

const (
	crashKill  = 0 // UnsyncedDataPercent 100: everything written survives
	crashPower = 1 // UnsyncedDataPercent 0: only synced data survives
	crashTorn  = 2 // UnsyncedDataPercent ~50: a random subset of unsynced blocks / dir entries
	crashModes = 3
)

var crashModeName = [crashModes]string{"kill", "powerloss", "torn"}

// chanExpect is the window of model states a channel may be found in after a
// crash: every state from "last mutation reported durable" to "last mutation issued".
type chanExpect struct {
	acked  int
	issued int
}

// crashPoint is the disk as it could be found if the machine stopped right
// before one mutating file-system call.
type crashPoint struct {
	k      int // index of the file-system call the crash precedes
	step   int // harness step during which the call was made
	kind   string
	clones [crashModes]*vfs.MemFS
	expect []chanExpect
}

type simDisk struct {
	mem *vfs.MemFS

	mu       sync.Mutex
	ops      int  // mutating calls so far
	cloning  bool // take crash clones before every mutating call
	tornSeed uint64
	tornPct  int
	points   []*crashPoint
	// snapshot returns the current per-channel expectation window and step; it
	// is called with mu held from whichever goroutine performs the disk call.
	snapshot func() (int, []chanExpect)
	kinds    map[string]int
}

func newSimDisk() *simDisk {
	return &simDisk{mem: vfs.NewCrashableMem(), kinds: map[string]int{}}
}

// before is called ahead of every mutating call.
func (d *simDisk) before(kind string) {
	d.mu.Lock()
	defer d.mu.Unlock()
	d.kinds[kind]++
	if d.cloning {
		d.takeLocked(kind)
	}
	d.ops++
}

func (d *simDisk) takeLocked(kind string) {
	cp := &crashPoint{k: d.ops, kind: kind}
	if d.snapshot != nil {
		cp.step, cp.expect = d.snapshot()
	}
	cp.clones[crashKill] = d.mem.CrashClone(vfs.CrashCloneCfg{UnsyncedDataPercent: 100, RNG: rand.New(rand.NewPCG(1, 1))})
	cp.clones[crashPower] = d.mem.CrashClone(vfs.CrashCloneCfg{UnsyncedDataPercent: 0})
	cp.clones[crashTorn] = d.mem.CrashClone(vfs.CrashCloneCfg{UnsyncedDataPercent: d.tornPct,
		RNG: rand.New(rand.NewPCG(d.tornSeed, uint64(d.ops)+1))})
	d.points = append(d.points, cp)
}

// takeNow records a crash point at a step boundary (no call in flight).
func (d *simDisk) takeNow(kind string) {
	d.mu.Lock()
	defer d.mu.Unlock()
	if d.cloning {
		d.takeLocked(kind)
	}
}

func (d *simDisk) drain() []*crashPoint {
	d.mu.Lock()
	defer d.mu.Unlock()
	ps := d.points
	d.points = nil
	return ps
}

func (d *simDisk) opCount() int {
	d.mu.Lock()
	defer d.mu.Unlock()
	return d.ops
}

// fs returns the gated view of the disk handed to Pebble.
func (d *simDisk) fs() vfs.FS { return &gateFS{FS: d.mem, d: d} }

type gateFS struct {
	vfs.FS
	d *simDisk
}

func (g *gateFS) wrap(f vfs.File, err error, dir bool) (vfs.File, error) {
	if err != nil {
		return nil, err
	}
	return &gateFile{File: f, d: g.d, dir: dir}, nil
}

func (g *gateFS) Create(name string, c vfs.DiskWriteCategory) (vfs.File, error) {
	g.d.before("create")
	f, err := g.FS.Create(name, c)
	return g.wrap(f, err, false)
}

func (g *gateFS) Link(oldname, newname string) error {
	g.d.before("link")
	return g.FS.Link(oldname, newname)
}

func (g *gateFS) OpenReadWrite(name string, c vfs.DiskWriteCategory, opts ...vfs.OpenOption) (vfs.File, error) {
	g.d.before("openrw")
	f, err := g.FS.OpenReadWrite(name, c, opts...)
	return g.wrap(f, err, false)
}

func (g *gateFS) OpenDir(name string) (vfs.File, error) {
	f, err := g.FS.OpenDir(name)
	return g.wrap(f, err, true)
}

func (g *gateFS) Remove(name string) error {
	g.d.before("remove")
	return g.FS.Remove(name)
}

func (g *gateFS) RemoveAll(name string) error {
	g.d.before("removeall")
	return g.FS.RemoveAll(name)
}

func (g *gateFS) Rename(oldname, newname string) error {
	g.d.before("rename")
	return g.FS.Rename(oldname, newname)
}

func (g *gateFS) ReuseForWrite(oldname, newname string, c vfs.DiskWriteCategory) (vfs.File, error) {
	g.d.before("reuse")
	f, err := g.FS.ReuseForWrite(oldname, newname, c)
	return g.wrap(f, err, false)
}

func (g *gateFS) MkdirAll(dir string, perm os.FileMode) error {
	g.d.before("mkdir")
	return g.FS.MkdirAll(dir, perm)
}

func (g *gateFS) Unwrap() vfs.FS { return g.FS }

type gateFile struct {
	vfs.File
	d   *simDisk
	dir bool
}

func (f *gateFile) Write(p []byte) (int, error) {
	f.d.before("write")
	return f.File.Write(p)
}

func (f *gateFile) WriteAt(p []byte, off int64) (int, error) {
	f.d.before("writeat")
	return f.File.WriteAt(p, off)
}

func (f *gateFile) Sync() error {
	if f.dir {
		f.d.before("syncdir")
	} else {
		f.d.before("sync")
	}
	return f.File.Sync()
}

func (f *gateFile) SyncTo(length int64) (bool, error) {
	f.d.before("syncto")
	return f.File.SyncTo(length)
}

func (f *gateFile) SyncData() error {
	f.d.before("syncdata")
	return f.File.SyncData()
}

// diskDigest hashes the complete content of a (cloned, quiescent) disk so that
// identical crash images are checked once.
func diskDigest(fs *vfs.MemFS) uint64 {
	h := fnv.New64a()
	var walk func(dir string)
	walk = func(dir string) {
		names, err := fs.List(dir)
		if err != nil {
			return
		}
		sort.Strings(names)
		for _, n := range names {
			p := fs.PathJoin(dir, n)
			st, err := fs.Stat(p)
			if err != nil {
				continue
			}
			h.Write([]byte(p))
			if st.IsDir() {
				h.Write([]byte{'/'})
				walk(p)
				continue
			}
			h.Write([]byte{0})
			f, err := fs.Open(p)
			if err != nil {
				continue
			}
			buf := make([]byte, st.Size())
			n, _ := f.ReadAt(buf, 0)
			h.Write(buf[:n])
			h.Write([]byte{1})
			f.Close()
		}
	}
	walk("/")
	return h.Sum64()
}

// diskListing renders the file names and sizes of a cloned disk (debugging aid).
func diskListing(fs *vfs.MemFS) string {
	out := ""
	var walk func(dir string)
	walk = func(dir string) {
		names, _ := fs.List(dir)
		sort.Strings(names)
		for _, n := range names {
			p := fs.PathJoin(dir, n)
			st, err := fs.Stat(p)
			if err != nil {
				continue
			}
			if st.IsDir() {
				walk(p)
				continue
			}
			out += fmt.Sprintf("%s:%d ", p, st.Size())
		}
	}
	walk("/")
	return out
}
