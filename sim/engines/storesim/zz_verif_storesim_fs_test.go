package message

// Simulated disk for the storesim engine: a counting/cloning gate over
// pebble's crashable in-memory file system. Every mutating file-system call
// (create, write, sync, rename, remove, link, mkdir, dir-sync) is numbered; in
// cloning mode a crash clone of the whole disk is taken BEFORE the call is
// applied, once per crash mode (process kill, power loss, torn writes).

import (
	"fmt"
	"hash/fnv"
	"math/rand/v2"
	"os"
	"sort"
	"strings"
	"sync"

	"github.com/cockroachdb/pebble/v2/vfs"
)

const (
	crashKill  = 0 // process kill: everything written survives
	crashPower = 1 // power loss: only synced data and synced directory entries survive
	crashTorn  = 2 // torn: every directory operation survives, each unsynced 4 KiB data block survives with probability tornPct
	crashModes = 3
)

var crashModeName = [crashModes]string{"kill", "powerloss", "torn"}

// chanExpect is the window of model states a channel may be found in after a
// crash: every state from "last mutation reported durable" to "last mutation issued".
type chanExpect struct {
	acked  int
	issued int
}

// crashPoint is the disk as it could be found if the machine stopped right
// before one mutating file-system call.
type crashPoint struct {
	k      int // index of the file-system call the crash precedes
	step   int // harness step during which the call was made
	kind   string
	clones [crashModes]*vfs.MemFS
	expect []chanExpect
}

type simDisk struct {
	mem *vfs.MemFS

	mu       sync.Mutex // serialises every mutating call (and the clones taken before it)
	ops      int        // mutating calls so far
	cloning  bool       // take crash clones before every mutating call
	tornSeed uint64
	tornPct  int
	points   []*crashPoint
	// snapshot returns the current per-channel expectation window and step; it
	// is called with mu held from whichever goroutine performs the disk call.
	snapshot func() (int, []chanExpect)
	kinds    map[string]int
	// synced is the content each file had at its last fsync, kept by path
	// (MemFS does not expose it); the torn image is built from it.
	synced map[string][]byte
	open   map[*gateFile]struct{}
}

func newSimDisk() *simDisk {
	d := &simDisk{mem: vfs.NewCrashableMem(), kinds: map[string]int{}, synced: map[string][]byte{}, open: map[*gateFile]struct{}{}}
	// the data directory exists (durably) long before the store is opened
	d.mem.MkdirAll("/db", 0o755)
	if root, err := d.mem.OpenDir("/"); err == nil {
		root.Sync()
		root.Close()
	}
	return d
}

// gate runs one mutating call: it is numbered, the disk is cloned before it
// (in cloning mode) and op is applied, all under the disk mutex.
func (d *simDisk) gate(kind string, op func()) { d.gateFile(kind, "", op) }

// fileCategory names the kind of Pebble file a path belongs to.
func fileCategory(name string) string {
	switch {
	case name == "":
		return "dir"
	case strings.HasSuffix(name, ".log"):
		return "wal"
	case strings.HasSuffix(name, ".sst"):
		return "sst"
	case strings.Contains(name, "marker."):
		return "marker"
	case strings.Contains(name, "MANIFEST"):
		return "manifest"
	case strings.Contains(name, "OPTIONS"):
		return "options"
	}
	return "other"
}

func (d *simDisk) gateFile(kind, name string, op func()) {
	d.mu.Lock()
	defer d.mu.Unlock()
	d.kinds[kind]++
	if d.cloning {
		d.takeLocked(kind + ":" + fileCategory(name))
	}
	d.ops++
	op()
}

func (d *simDisk) takeLocked(kind string) {
	cp := &crashPoint{k: d.ops, kind: kind}
	if d.snapshot != nil {
		cp.step, cp.expect = d.snapshot()
	}
	cp.clones[crashKill] = d.mem.CrashClone(vfs.CrashCloneCfg{UnsyncedDataPercent: 100, RNG: rand.New(rand.NewPCG(1, 1))})
	cp.clones[crashPower] = d.mem.CrashClone(vfs.CrashCloneCfg{UnsyncedDataPercent: 0})
	// MemFS' own partial clone also drops directory entries independently of
	// each other, a disk model Pebble does not claim to survive (it publishes a
	// new MANIFEST and its marker with ONE directory sync). The torn image keeps
	// the directory as written and tears file data only; it is built here,
	// deterministically, from the kill clone and the synced-content journal.
	cp.clones[crashTorn] = tornImage(cp.clones[crashKill], d.synced, d.tornPct, rand.New(rand.NewPCG(d.tornSeed, uint64(d.ops)+1)))
	d.points = append(d.points, cp)
}

// takeNow records a crash point at a step boundary (no call in flight).
func (d *simDisk) takeNow(kind string) {
	d.mu.Lock()
	defer d.mu.Unlock()
	if d.cloning {
		d.takeLocked(kind)
	}
}

func (d *simDisk) drain() []*crashPoint {
	d.mu.Lock()
	defer d.mu.Unlock()
	ps := d.points
	d.points = nil
	return ps
}

func (d *simDisk) opCount() int {
	d.mu.Lock()
	defer d.mu.Unlock()
	return d.ops
}

func (d *simDisk) renamed(oldname, newname string) {
	if v, ok := d.synced[oldname]; ok {
		d.synced[newname] = v
		delete(d.synced, oldname)
	} else {
		delete(d.synced, newname)
	}
	for f := range d.open {
		if f.name == oldname {
			f.name = newname
		}
	}
}

// fs returns the gated view of the disk handed to Pebble.
func (d *simDisk) fs() vfs.FS { return &gateFS{FS: d.mem, d: d} }

type gateFS struct {
	vfs.FS
	d *simDisk
}

func (g *gateFS) wrap(name string, f vfs.File, err error, dir bool) (vfs.File, error) {
	if err != nil {
		return nil, err
	}
	gf := &gateFile{File: f, d: g.d, dir: dir, name: name}
	if !dir {
		g.d.open[gf] = struct{}{}
	}
	return gf, nil
}

func (g *gateFS) Create(name string, c vfs.DiskWriteCategory) (f vfs.File, err error) {
	g.d.gateFile("create", name, func() {
		f, err = g.FS.Create(name, c)
		if err == nil {
			g.d.synced[name] = nil
		}
		f, err = g.wrap(name, f, err, false)
	})
	return f, err
}

func (g *gateFS) Link(oldname, newname string) (err error) {
	g.d.gate("link", func() {
		if err = g.FS.Link(oldname, newname); err == nil {
			g.d.synced[newname] = g.d.synced[oldname]
		}
	})
	return err
}

func (g *gateFS) OpenReadWrite(name string, c vfs.DiskWriteCategory, opts ...vfs.OpenOption) (f vfs.File, err error) {
	g.d.gateFile("openrw", name, func() {
		f, err = g.FS.OpenReadWrite(name, c, opts...)
		f, err = g.wrap(name, f, err, false)
	})
	return f, err
}

func (g *gateFS) OpenDir(name string) (vfs.File, error) {
	f, err := g.FS.OpenDir(name)
	if err != nil {
		return nil, err
	}
	return &gateFile{File: f, d: g.d, dir: true, name: name}, nil
}

func (g *gateFS) Remove(name string) (err error) {
	g.d.gateFile("remove", name, func() {
		if err = g.FS.Remove(name); err == nil {
			delete(g.d.synced, name)
		}
	})
	return err
}

func (g *gateFS) RemoveAll(name string) (err error) {
	g.d.gate("removeall", func() {
		if err = g.FS.RemoveAll(name); err == nil {
			for p := range g.d.synced {
				if p == name || strings.HasPrefix(p, name+"/") {
					delete(g.d.synced, p)
				}
			}
		}
	})
	return err
}

func (g *gateFS) Rename(oldname, newname string) (err error) {
	g.d.gateFile("rename", newname, func() {
		if err = g.FS.Rename(oldname, newname); err == nil {
			g.d.renamed(oldname, newname)
		}
	})
	return err
}

func (g *gateFS) ReuseForWrite(oldname, newname string, c vfs.DiskWriteCategory) (f vfs.File, err error) {
	g.d.gateFile("reuse", newname, func() {
		f, err = g.FS.ReuseForWrite(oldname, newname, c)
		if err == nil {
			g.d.renamed(oldname, newname)
		}
		f, err = g.wrap(newname, f, err, false)
	})
	return f, err
}

func (g *gateFS) MkdirAll(dir string, perm os.FileMode) (err error) {
	g.d.gate("mkdir", func() { err = g.FS.MkdirAll(dir, perm) })
	return err
}

func (g *gateFS) Unwrap() vfs.FS { return g.FS }

type gateFile struct {
	vfs.File
	d    *simDisk
	dir  bool
	name string
}

func (f *gateFile) Write(p []byte) (n int, err error) {
	f.d.gateFile("write", f.name, func() { n, err = f.File.Write(p) })
	return n, err
}

func (f *gateFile) WriteAt(p []byte, off int64) (n int, err error) {
	f.d.gateFile("writeat", f.name, func() { n, err = f.File.WriteAt(p, off) })
	return n, err
}

func (f *gateFile) syncLocked() error {
	err := f.File.Sync()
	if err == nil && !f.dir {
		if data, ok := readAll(f.d.mem, f.name); ok {
			f.d.synced[f.name] = data
		}
	}
	return err
}

func (f *gateFile) Sync() (err error) {
	kind := "sync"
	if f.dir {
		kind = "syncdir"
	}
	name := f.name
	if f.dir {
		name = ""
	}
	f.d.gateFile(kind, name, func() { err = f.syncLocked() })
	return err
}

func (f *gateFile) SyncData() (err error) {
	f.d.gateFile("syncdata", f.name, func() { err = f.syncLocked() })
	return err
}

func (f *gateFile) Close() error {
	if !f.dir {
		f.d.mu.Lock()
		delete(f.d.open, f)
		f.d.mu.Unlock()
	}
	return f.File.Close()
}

// diskDigest hashes the complete content of a (cloned, quiescent) disk so that
// identical crash images are checked once.
func diskDigest(fs *vfs.MemFS) uint64 {
	h := fnv.New64a()
	var walk func(dir string)
	walk = func(dir string) {
		names, err := fs.List(dir)
		if err != nil {
			return
		}
		sort.Strings(names)
		for _, n := range names {
			p := fs.PathJoin(dir, n)
			st, err := fs.Stat(p)
			if err != nil {
				continue
			}
			h.Write([]byte(p))
			if st.IsDir() {
				h.Write([]byte{'/'})
				walk(p)
				continue
			}
			h.Write([]byte{0})
			f, err := fs.Open(p)
			if err != nil {
				continue
			}
			buf := make([]byte, st.Size())
			n, _ := f.ReadAt(buf, 0)
			h.Write(buf[:n])
			h.Write([]byte{1})
			f.Close()
		}
	}
	walk("/")
	return h.Sum64()
}

// diskListing renders the file names and sizes of a cloned disk (debugging aid).
func diskListing(fs *vfs.MemFS) string {
	out := ""
	var walk func(dir string)
	walk = func(dir string) {
		names, _ := fs.List(dir)
		sort.Strings(names)
		for _, n := range names {
			p := fs.PathJoin(dir, n)
			st, err := fs.Stat(p)
			if err != nil {
				continue
			}
			if st.IsDir() {
				walk(p)
				continue
			}
			out += fmt.Sprintf("%s:%d ", p, st.Size())
		}
	}
	walk("/")
	return out
}

func readAll(fs *vfs.MemFS, p string) ([]byte, bool) {
	st, err := fs.Stat(p)
	if err != nil || st.IsDir() {
		return nil, false
	}
	f, err := fs.Open(p)
	if err != nil {
		return nil, false
	}
	defer f.Close()
	buf := make([]byte, st.Size())
	n, _ := f.ReadAt(buf, 0)
	return buf[:n], true
}

// tornImage builds the disk found after a crash that persisted every
// directory operation but only some of the unsynced data blocks: the tree of
// the kill clone, and per file the content of its last fsync overlaid with a
// random subset of the 4 KiB blocks that differ from it.
func tornImage(kill *vfs.MemFS, syncedByPath map[string][]byte, pct int, rng *rand.Rand) *vfs.MemFS {
	out := vfs.NewCrashableMem()
	var walk func(dir string)
	walk = func(dir string) {
		names, err := kill.List(dir)
		if err != nil {
			return
		}
		sort.Strings(names)
		for _, n := range names {
			p := kill.PathJoin(dir, n)
			st, err := kill.Stat(p)
			if err != nil {
				continue
			}
			if st.IsDir() {
				out.MkdirAll(p, 0o755)
				walk(p)
				continue
			}
			full, _ := readAll(kill, p)
			synced := syncedByPath[p]
			if len(synced) > len(full) {
				synced = nil
			}
			res := append([]byte(nil), synced...)
			const blockSize = 4096
			for i := 0; i < len(full); i += blockSize {
				end := min(i+blockSize, len(full))
				if end <= len(res) && string(full[i:end]) == string(res[i:end]) {
					continue
				}
				if rng.IntN(100) >= pct {
					continue
				}
				if grow := end - len(res); grow > 0 {
					res = append(res, make([]byte, grow)...)
				}
				copy(res[i:end], full[i:end])
			}
			f, err := out.Create(p, vfs.WriteCategoryUnspecified)
			if err != nil {
				continue
			}
			f.Write(res)
			f.Sync()
			f.Close()
		}
	}
	out.MkdirAll("/", 0o755)
	walk("/")
	return out
}
