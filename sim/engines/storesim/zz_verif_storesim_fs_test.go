package message

// Simulated disk for the storesim engine: a counting/cloning gate over
// pebble's crashable in-memory file system. Every mutating file-system call
// (create, write, sync, rename, remove, link, mkdir, dir-sync) is numbered; in
// cloning mode a crash clone of the whole disk is taken BEFORE the call is
// applied, once per crash mode (process kill, power loss, torn writes).

import (
	"fmt"
	"hash/fnv"
	"math/rand/v2"
	"os"
	"sort"
	"sync"

	"github.com/cockroachdb/pebble/v2/vfs"
)

const (
	crashKill  = 0 // process kill: everything written survives
	crashPower = 1 // power loss: only synced data and synced directory entries survive
	crashTorn  = 2 // torn: every directory operation survives, each unsynced 4 KiB data block survives with probability tornPct
	crashModes = 3
)

var crashModeName = [crashModes]string{"kill", "powerloss", "torn"}

// chanExpect is the window of model states a channel may be found in after a
// crash: every state from "last mutation reported durable" to "last mutation issued".
type chanExpect struct {
	acked  int
	issued int
}

// crashPoint is the disk as it could be found if the machine stopped right
// before one mutating file-system call.
type crashPoint struct {
	k      int // index of the file-system call the crash precedes
	step   int // harness step during which the call was made
	kind   string
	clones [crashModes]*vfs.MemFS
	expect []chanExpect
}

type simDisk struct {
	mem *vfs.MemFS

	mu       sync.Mutex
	ops      int  // mutating calls so far
	cloning  bool // take crash clones before every mutating call
	tornSeed uint64
	tornPct  int
	points   []*crashPoint
	// snapshot returns the current per-channel expectation window and step; it
	// is called with mu held from whichever goroutine performs the disk call.
	snapshot func() (int, []chanExpect)
	kinds    map[string]int
}

func newSimDisk() *simDisk {
	d := &simDisk{mem: vfs.NewCrashableMem(), kinds: map[string]int{}}
	// the data directory exists (durably) long before the store is opened
	d.mem.MkdirAll("/db", 0o755)
	if root, err := d.mem.OpenDir("/"); err == nil {
		root.Sync()
		root.Close()
	}
	return d
}

// before is called ahead of every mutating call.
func (d *simDisk) before(kind string) {
	d.mu.Lock()
	defer d.mu.Unlock()
	d.kinds[kind]++
	if d.cloning {
		d.takeLocked(kind)
	}
	d.ops++
}

func (d *simDisk) takeLocked(kind string) {
	cp := &crashPoint{k: d.ops, kind: kind}
	if d.snapshot != nil {
		cp.step, cp.expect = d.snapshot()
	}
	cp.clones[crashKill] = d.mem.CrashClone(vfs.CrashCloneCfg{UnsyncedDataPercent: 100, RNG: rand.New(rand.NewPCG(1, 1))})
	cp.clones[crashPower] = d.mem.CrashClone(vfs.CrashCloneCfg{UnsyncedDataPercent: 0})
	// MemFS' own partial clone also drops directory entries independently of
	// each other, a disk model Pebble does not claim to survive (it publishes a
	// new MANIFEST and its marker with ONE directory sync). The torn image keeps
	// the directory as written and tears file data only; it is built here,
	// deterministically, from the two exact clones.
	cp.clones[crashTorn] = tornImage(cp.clones[crashKill], cp.clones[crashPower], d.tornPct, rand.New(rand.NewPCG(d.tornSeed, uint64(d.ops)+1)))
	d.points = append(d.points, cp)
}

// takeNow records a crash point at a step boundary (no call in flight).
func (d *simDisk) takeNow(kind string) {
	d.mu.Lock()
	defer d.mu.Unlock()
	if d.cloning {
		d.takeLocked(kind)
	}
}

func (d *simDisk) drain() []*crashPoint {
	d.mu.Lock()
	defer d.mu.Unlock()
	ps := d.points
	d.points = nil
	return ps
}

func (d *simDisk) opCount() int {
	d.mu.Lock()
	defer d.mu.Unlock()
	return d.ops
}

// fs returns the gated view of the disk handed to Pebble.
func (d *simDisk) fs() vfs.FS { return &gateFS{FS: d.mem, d: d} }

type gateFS struct {
	vfs.FS
	d *simDisk
}

func (g *gateFS) wrap(f vfs.File, err error, dir bool) (vfs.File, error) {
	if err != nil {
		return nil, err
	}
	return &gateFile{File: f, d: g.d, dir: dir}, nil
}

func (g *gateFS) Create(name string, c vfs.DiskWriteCategory) (vfs.File, error) {
	g.d.before("create")
	f, err := g.FS.Create(name, c)
	return g.wrap(f, err, false)
}

func (g *gateFS) Link(oldname, newname string) error {
	g.d.before("link")
	return g.FS.Link(oldname, newname)
}

func (g *gateFS) OpenReadWrite(name string, c vfs.DiskWriteCategory, opts ...vfs.OpenOption) (vfs.File, error) {
	g.d.before("openrw")
	f, err := g.FS.OpenReadWrite(name, c, opts...)
	return g.wrap(f, err, false)
}

func (g *gateFS) OpenDir(name string) (vfs.File, error) {
	f, err := g.FS.OpenDir(name)
	return g.wrap(f, err, true)
}

func (g *gateFS) Remove(name string) error {
	g.d.before("remove")
	return g.FS.Remove(name)
}

func (g *gateFS) RemoveAll(name string) error {
	g.d.before("removeall")
	return g.FS.RemoveAll(name)
}

func (g *gateFS) Rename(oldname, newname string) error {
	g.d.before("rename")
	return g.FS.Rename(oldname, newname)
}

func (g *gateFS) ReuseForWrite(oldname, newname string, c vfs.DiskWriteCategory) (vfs.File, error) {
	g.d.before("reuse")
	f, err := g.FS.ReuseForWrite(oldname, newname, c)
	return g.wrap(f, err, false)
}

func (g *gateFS) MkdirAll(dir string, perm os.FileMode) error {
	g.d.before("mkdir")
	return g.FS.MkdirAll(dir, perm)
}

func (g *gateFS) Unwrap() vfs.FS { return g.FS }

type gateFile struct {
	vfs.File
	d   *simDisk
	dir bool
}

func (f *gateFile) Write(p []byte) (int, error) {
	f.d.before("write")
	return f.File.Write(p)
}

func (f *gateFile) WriteAt(p []byte, off int64) (int, error) {
	f.d.before("writeat")
	return f.File.WriteAt(p, off)
}

func (f *gateFile) Sync() error {
	if f.dir {
		f.d.before("syncdir")
	} else {
		f.d.before("sync")
	}
	return f.File.Sync()
}

func (f *gateFile) SyncTo(length int64) (bool, error) {
	f.d.before("syncto")
	return f.File.SyncTo(length)
}

func (f *gateFile) SyncData() error {
	f.d.before("syncdata")
	return f.File.SyncData()
}

// diskDigest hashes the complete content of a (cloned, quiescent) disk so that
// identical crash images are checked once.
func diskDigest(fs *vfs.MemFS) uint64 {
	h := fnv.New64a()
	var walk func(dir string)
	walk = func(dir string) {
		names, err := fs.List(dir)
		if err != nil {
			return
		}
		sort.Strings(names)
		for _, n := range names {
			p := fs.PathJoin(dir, n)
			st, err := fs.Stat(p)
			if err != nil {
				continue
			}
			h.Write([]byte(p))
			if st.IsDir() {
				h.Write([]byte{'/'})
				walk(p)
				continue
			}
			h.Write([]byte{0})
			f, err := fs.Open(p)
			if err != nil {
				continue
			}
			buf := make([]byte, st.Size())
			n, _ := f.ReadAt(buf, 0)
			h.Write(buf[:n])
			h.Write([]byte{1})
			f.Close()
		}
	}
	walk("/")
	return h.Sum64()
}

// diskListing renders the file names and sizes of a cloned disk (debugging aid).
func diskListing(fs *vfs.MemFS) string {
	out := ""
	var walk func(dir string)
	walk = func(dir string) {
		names, _ := fs.List(dir)
		sort.Strings(names)
		for _, n := range names {
			p := fs.PathJoin(dir, n)
			st, err := fs.Stat(p)
			if err != nil {
				continue
			}
			if st.IsDir() {
				walk(p)
				continue
			}
			out += fmt.Sprintf("%s:%d ", p, st.Size())
		}
	}
	walk("/")
	return out
}

func readAll(fs *vfs.MemFS, p string) ([]byte, bool) {
	st, err := fs.Stat(p)
	if err != nil || st.IsDir() {
		return nil, false
	}
	f, err := fs.Open(p)
	if err != nil {
		return nil, false
	}
	defer f.Close()
	buf := make([]byte, st.Size())
	n, _ := f.ReadAt(buf, 0)
	return buf[:n], true
}

// tornImage builds the disk found after a crash that persisted every
// directory operation but only some of the unsynced data blocks: the tree of
// the kill clone, and per file the synced content (power clone) overlaid with a
// random subset of the 4 KiB blocks that differ from it.
func tornImage(kill, power *vfs.MemFS, pct int, rng *rand.Rand) *vfs.MemFS {
	out := vfs.NewCrashableMem()
	var walk func(dir string)
	walk = func(dir string) {
		names, err := kill.List(dir)
		if err != nil {
			return
		}
		sort.Strings(names)
		for _, n := range names {
			p := kill.PathJoin(dir, n)
			st, err := kill.Stat(p)
			if err != nil {
				continue
			}
			if st.IsDir() {
				out.MkdirAll(p, 0o755)
				walk(p)
				continue
			}
			full, _ := readAll(kill, p)
			synced, ok := readAll(power, p)
			if !ok || len(synced) > len(full) {
				synced = nil
			}
			res := append([]byte(nil), synced...)
			const blockSize = 4096
			for i := 0; i < len(full); i += blockSize {
				end := min(i+blockSize, len(full))
				if end <= len(res) && string(full[i:end]) == string(res[i:end]) {
					continue
				}
				if rng.IntN(100) >= pct {
					continue
				}
				if grow := end - len(res); grow > 0 {
					res = append(res, make([]byte, grow)...)
				}
				copy(res[i:end], full[i:end])
			}
			f, err := out.Create(p, vfs.WriteCategoryUnspecified)
			if err != nil {
				continue
			}
			f.Write(res)
			f.Sync()
			f.Close()
		}
	}
	out.MkdirAll("/", 0o755)
	walk("/")
	return out
}
