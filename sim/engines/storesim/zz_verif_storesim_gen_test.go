package message

// Generators for the storesim engine: channels, records, payloads, colliding
// ids and idempotency keys, compatibility-layer record encoding, proposals.

import (
	"encoding/binary"
	"errors"
	"fmt"
	"strings"

	"github.com/WuKongIM/WuKongIM/pkg/db/internal/dberrors"
	channel "github.com/WuKongIM/WuKongIM/pkg/db/message/channelcompat"
	"github.com/WuKongIM/WuKongIM/pkg/quorumlog"
)

type simChan struct {
	idx   int
	key   ChannelKey
	id    ChannelID
	fl    flavour
	log   *ChannelLog
	store *ChannelStore

	// states[len-1] is the current model state. Under crash enumeration every
	// issued mutation appends one state and acked is the index of the last
	// mutation reported durable; otherwise only the current state is kept.
	states []*mstate
	acked  int

	epoch, term, fence uint64

	graveKeys [][2]string
	retired   []mprop
	// generation counters for C08 probes
	reopenGen int
	leaseGen  int
	// emptyTyped: a typed append stored a zero-length payload (recorded finding)
	emptyTyped bool
	uniq       int
}

func (c *simChan) st() *mstate { return c.states[len(c.states)-1] }

func chKey(k ChannelKey) channel.ChannelKey { return channel.ChannelKey(k) }
func chID(id ChannelID) channel.ChannelID   { return channel.ChannelID{ID: id.ID, Type: id.Type} }

// issue publishes the state the store must reach if the mutation about to be
// started becomes durable.
func (w *world) issue(c *simChan, ns *mstate) {
	w.mu.Lock()
	if w.disk.cloning {
		c.states = append(c.states, ns)
	} else {
		c.states = []*mstate{ns}
		c.acked = 0
	}
	w.mu.Unlock()
}

// ack records that the last issued mutation of c was reported durable.
func (w *world) ack(c *simChan) {
	w.mu.Lock()
	c.acked = len(c.states) - 1
	w.mu.Unlock()
}

type errKind int

const (
	kOK errKind = iota
	kConflict
	kInvalid
	kCorrupt
)

var kindName = []string{"ok", "conflict", "invalid", "corrupt"}

func isDupError(err error) bool {
	if err == nil {
		return false
	}
	s := err.Error()
	return errors.Is(err, dberrors.ErrConflict) || strings.Contains(s, "duplicate") || strings.Contains(s, "already stored")
}

var fromAlphabet = []string{"", "u0", "u1", "u\x00", "\xff\xfe\x80", "u", "uu"}
var cmnAlphabet = []string{"", "m0", "m1", "m", "mm", "m\x000", "\xc3\x28", "m2", "m3"}

func (w *world) alpha(list []string) string {
	n := w.c.Alphabet
	if n > len(list) {
		n = len(list)
	}
	return list[w.r.Tape.Intn(n)]
}

func (w *world) genPayload(allowEmpty bool, id uint64) []byte {
	tp := w.r.Tape
	var n int
	switch tp.Weighted([]int{8, 3, 1 + w.c.BigPayload*2, w.c.BigPayload}) {
	case 0:
		n = 1 + tp.Intn(24)
	case 1:
		n = tp.Intn(2) // 0 or 1
	case 2:
		n = []int{4095, 4096, 4097, 2000, 700}[tp.Intn(5)]
	default:
		n = 6000 + tp.Intn(6000)
	}
	if n == 0 && !allowEmpty {
		n = 1
	}
	p := make([]byte, n)
	x := id*0x9e3779b97f4a7c15 + uint64(n)
	for i := range p {
		x ^= x << 13
		x ^= x >> 7
		x ^= x << 17
		p[i] = byte(x)
	}
	if n > 0 && n <= 24 {
		p[0] = byte(tp.Intn(256))
	}
	return p
}

// genRows draws n rows for an append to c under mode. honourContract keeps the
// caller-side contracts of the trusted / server-allocated modes.
func (w *world) genRows(c *simChan, st *mstate, n int, mode AppendMode, compat bool, needTS bool) []mrow {
	tp := w.r.Tape
	rows := make([]mrow, 0, n)
	seq := st.leo
	for i := 0; i < n; i++ {
		seq++
		row := mrow{Seq: seq, ChannelID: c.id.ID, ChannelType: c.id.Type}
		// message id
		wDupLive, wDupBatch, wGrave, wZero := 0, 0, 0, 0
		if w.c.Collide > 0 {
			if mode == AppendStrict && len(w.liveIDs) > 0 {
				wDupLive = w.c.Collide
			}
			if i > 0 {
				wDupBatch = w.c.Collide
			}
			if len(w.graveIDs) > 0 {
				wGrave = 1
			}
			if tp.Intn(8) == 7 {
				wZero = 1
			}
		}
		if w.bulk {
			wDupLive, wDupBatch, wGrave, wZero = 0, 0, 0, 0
		}
		switch tp.Weighted([]int{10, wDupLive, wDupBatch, wGrave, wZero}) {
		case 0:
			w.nextID++
			row.ID = w.nextID
		case 1:
			ids := simkitSortedIDs(w.liveIDs)
			row.ID = ids[tp.Intn(len(ids))]
		case 2:
			row.ID = rows[tp.Intn(len(rows))].ID
		case 3:
			row.ID = w.graveIDs[tp.Intn(len(w.graveIDs))]
			if _, live := w.liveIDs[row.ID]; live && mode != AppendStrict {
				w.nextID++
				row.ID = w.nextID
			}
		default:
			row.ID = 0
		}
		// idempotency key
		// recently stored keys (they sit in the filter's overflow layer once it is saturated)
		var recent [][2]string
		for j := len(st.rows) - 1; j >= 0 && len(recent) < 8; j-- {
			if st.rows[j].From != "" && st.rows[j].CMN != "" {
				recent = append(recent, [2]string{st.rows[j].From, st.rows[j].CMN})
			}
		}
		keyW := []int{3 + 2*w.c.Collide, 4, boolInt(len(c.graveKeys) > 0), boolInt(len(recent) > 0) * w.c.Collide}
		if w.bulk {
			keyW = []int{0, 1, 0, 0} // filter saturation needs many distinct stored keys
		}
		switch tp.Weighted(keyW) {
		case 0:
			row.From, row.CMN = w.alpha(fromAlphabet), w.alpha(cmnAlphabet)
		case 1:
			c.uniq++
			row.From, row.CMN = w.alpha(fromAlphabet[1:]), fmt.Sprintf("q%d-%d", c.idx, c.uniq)
		case 2:
			k := c.graveKeys[tp.Intn(len(c.graveKeys))]
			row.From, row.CMN = k[0], k[1]
		default:
			k := recent[tp.Intn(len(recent))]
			row.From, row.CMN = k[0], k[1]
		}
		if w.avoidIDs[row.ID] {
			// another channel of the same call / group already uses this id
			w.nextID++
			row.ID = w.nextID
		}
		if mode == AppendTrustedContiguous {
			// the caller of the trusted mode has validated the rows already
			if _, live := st.hasKey(row.From, row.CMN); live {
				c.uniq++
				row.CMN = fmt.Sprintf("t%d-%d", c.idx, c.uniq)
			}
			if _, live := w.liveIDs[row.ID]; live {
				w.nextID++
				row.ID = w.nextID
			}
		}
		row.Payload = w.genPayload(compat || (w.c.EmptyTyped && c.fl == flTyped), row.ID+uint64(i))
		row.TS = 1_700_000_000_000 + int64(tp.Intn(1000))
		if compat {
			if !needTS && tp.Intn(6) == 5 {
				row.TS = 0
			}
			if tp.Intn(3) == 0 {
				row.Flags = uint8(tp.Intn(64))
				row.Setting = uint8(tp.Intn(256))
				row.StreamFlag = uint8(tp.Intn(4))
				row.MsgKey = []string{"", "k", "key\x00"}[tp.Intn(3)]
				row.Expire = uint32(tp.Intn(1 << 20))
				row.ClientSeq = uint64(tp.Intn(1 << 20))
				row.StreamNo = []string{"", "s1"}[tp.Intn(2)]
				row.StreamID = uint64(tp.Intn(100))
				row.Timestamp = int32(tp.Intn(1<<31)) - int32(tp.Intn(2))*int32(1<<30)
				row.Topic = []string{"", "topic"}[tp.Intn(2)]
			}
		}
		rows = append(rows, row)
	}
	return rows
}

func boolInt(b bool) int {
	if b {
		return 1
	}
	return 0
}

func simkitSortedIDs(m map[uint64]idLoc) []uint64 {
	ids := make([]uint64, 0, len(m))
	for id := range m {
		ids = append(ids, id)
	}
	sortU64(ids)
	return ids
}

func sortU64(a []uint64) {
	for i := 1; i < len(a); i++ {
		for j := i; j > 0 && a[j] < a[j-1]; j-- {
			a[j], a[j-1] = a[j-1], a[j]
		}
	}
}

// predictRows mirrors validateAppendRow for a whole batch and reports why it
// must be rejected (dupBatch/dupLive tell C08 which kind of duplicate it was).
type rowVerdict struct {
	kind     errKind
	dup      bool
	dupBatch bool
	dupRow   mrow // the live holder for a later-batch duplicate
	dupIsKey bool
}

func (w *world) predictRows(c *simChan, st *mstate, rows []mrow, mode AppendMode) rowVerdict {
	return w.predictRowsStaged(c, st, rows, mode, &seenSet{})
}

// seenSet mirrors the store's per-channel, per-call validation set. It is
// shared by all items of one StoreAppendBatch call for one channel and keeps
// what a FAILED item remembered before it failed (observed behaviour: a later
// item of the same call that reuses such an id or key is refused as a
// duplicate although nothing was stored).
type seenSet struct {
	ids  map[uint64]bool
	keys map[[2]string]bool
}

func (w *world) predictRowsStaged(c *simChan, st *mstate, rows []mrow, mode AppendMode, seen *seenSet) rowVerdict {
	if seen.ids == nil {
		seen.ids, seen.keys = map[uint64]bool{}, map[[2]string]bool{}
	}
	for _, r := range rows {
		if r.ID == 0 {
			return rowVerdict{kind: kInvalid}
		}
		if seen.ids[r.ID] {
			return rowVerdict{kind: kConflict, dup: true, dupBatch: true}
		}
		seen.ids[r.ID] = true
		if mode == AppendStrict {
			if loc, live := w.liveIDs[r.ID]; live {
				holder, _ := w.chans[loc.ch].st().rowAt(loc.seq)
				return rowVerdict{kind: kConflict, dup: true, dupRow: holder}
			}
		}
		if r.From == "" || r.CMN == "" {
			continue
		}
		k := [2]string{r.From, r.CMN}
		if seen.keys[k] {
			return rowVerdict{kind: kConflict, dup: true, dupBatch: true, dupIsKey: true}
		}
		seen.keys[k] = true
		if mode == AppendTrustedContiguous {
			continue
		}
		if holder, live := st.hasKey(r.From, r.CMN); live {
			return rowVerdict{kind: kConflict, dup: true, dupRow: holder, dupIsKey: true}
		}
	}
	return rowVerdict{kind: kOK}
}

// ---- compatibility-layer record encoding (independent of the code under test) ----

func encodeCompatRow(r mrow, hashMode int) []byte {
	var hash uint64
	if hashMode == 1 {
		hash = hashPayload(r.Payload)
	}
	p := make([]byte, 0, 64+len(r.Payload))
	p = append(p, 1)
	p = binary.BigEndian.AppendUint64(p, r.ID)
	p = append(p, r.Flags, r.Setting, r.StreamFlag, r.ChannelType)
	p = binary.BigEndian.AppendUint32(p, r.Expire)
	p = binary.BigEndian.AppendUint64(p, r.ClientSeq)
	p = binary.BigEndian.AppendUint64(p, r.StreamID)
	p = binary.BigEndian.AppendUint32(p, uint32(r.Timestamp))
	p = binary.BigEndian.AppendUint64(p, hash)
	for _, s := range []string{r.MsgKey, r.CMN, r.StreamNo, r.ChannelID, r.Topic, r.From} {
		p = binary.BigEndian.AppendUint32(p, uint32(len(s)))
		p = append(p, s...)
	}
	p = binary.BigEndian.AppendUint32(p, uint32(len(r.Payload)))
	p = append(p, r.Payload...)
	if r.TS != 0 {
		p = append(p, 'w', 'k', 't', 's')
		p = binary.BigEndian.AppendUint64(p, uint64(r.TS))
	}
	return p
}

func (w *world) compatRecords(rows []mrow, epoch uint64, withIndex bool) []channel.Record {
	out := make([]channel.Record, len(rows))
	for i, r := range rows {
		payload := encodeCompatRow(r, w.r.Tape.Intn(2))
		rec := channel.Record{ID: r.ID, Epoch: epoch, Payload: payload, SizeBytes: len(payload)}
		if withIndex {
			rec.Index = r.Seq
		}
		out[i] = rec
	}
	return out
}

func typedRecords(rows []mrow) []Record {
	out := make([]Record, len(rows))
	for i, r := range rows {
		out[i] = Record{ID: r.ID, ClientMsgNo: r.CMN, FromUID: r.From, Payload: r.Payload, SizeBytes: len(r.Payload), ServerTimestampMS: r.TS}
	}
	return out
}

// ---- exact proposals ----

func (w *world) commandID(c *simChan) quorumlog.CommandID {
	w.cmdSeq++
	var id quorumlog.CommandID
	binary.BigEndian.PutUint64(id[0:8], 0xc0ffee00+uint64(c.idx))
	binary.BigEndian.PutUint64(id[8:16], w.cmdSeq)
	id[31] = 1
	return id
}

func qRecords(rows []mrow, epoch uint64) []quorumlog.Record {
	out := make([]quorumlog.Record, len(rows))
	for i, r := range rows {
		out[i] = quorumlog.Record{ID: r.ID, Index: r.Seq, Epoch: epoch, Setting: r.Setting, FromUID: r.From, ClientMsgNo: r.CMN,
			ServerTimestampMS: r.TS, SyncOnce: r.syncOnce(), Payload: r.Payload}
	}
	return out
}

// buildProposal seals a proposal of rows directly after prev (zero value = genesis).
func (w *world) buildProposal(c *simChan, rows []mrow, base uint64, prev quorumlog.EntryIdentity) (mprop, bool) {
	m := DurableProposalManifest{Version: DurableProposalManifestVersion, ChannelEpoch: c.epoch, LeaderTerm: c.term, FenceVersion: c.fence,
		CommandID: w.commandID(c), BaseOffset: base, LastOffset: base + uint64(len(rows)), PreviousIndex: base}
	if base > 0 {
		m.PreviousTerm = prev.LeaderTerm
		m.PreviousDigest = prev.Digest
	}
	sealed, entries, ok := quorumlog.SealProposalManifest(m, qRecords(rows, c.epoch))
	if !ok {
		return mprop{}, false
	}
	return mprop{manifest: sealed, entries: entries, rows: rows, epochs: c.epoch}, true
}
