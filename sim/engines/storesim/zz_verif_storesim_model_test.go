package message

// Reference model for the storesim engine: per channel a slice of rows, the
// log end, retention state, checkpoint, epoch history and (for exact channels)
// the proposal chain. States are immutable values: every mutation returns a
// fresh copy so that C09 can keep the state after every issued mutation.

import (
	"bytes"
	"fmt"
	"sort"

	"github.com/WuKongIM/WuKongIM/pkg/quorumlog"
)

// mrow is one stored message as the model expects to read it back.
type mrow struct {
	Seq         uint64
	ID          uint64
	From        string
	CMN         string
	Payload     []byte
	TS          int64 // server timestamp ms
	ChannelID   string
	ChannelType uint8
	// compatibility-layer fields (zero for typed appends)
	Flags      uint8
	Setting    uint8
	StreamFlag uint8
	MsgKey     string
	Expire     uint32
	ClientSeq  uint64
	StreamNo   string
	StreamID   uint64
	Timestamp  int32
	Topic      string
	// harness bookkeeping (never compared): reopen / lease generations at insertion
	genReopen int
	genLease  int
}

func (r mrow) hash() uint64 { return hashPayload(r.Payload) }
func (r mrow) syncOnce() bool { return r.Flags&4 != 0 }

func (r mrow) String() string {
	return fmt.Sprintf("{seq=%d id=%d from=%q cmn=%q len=%d ts=%d fl=%d}", r.Seq, r.ID, r.From, r.CMN, len(r.Payload), r.TS, r.Flags)
}

// mprop is one exact proposal of an exact channel.
type mprop struct {
	manifest DurableProposalManifest
	entries  []quorumlog.EntryIdentity
	rows     []mrow
	epochs   uint64
}

// mstate is the complete expected durable state of one channel.
type mstate struct {
	rows    []mrow // live rows, ascending, contiguous
	leo     uint64
	hasRet  bool
	ret     RetentionState
	hasCP   bool
	cp      Checkpoint
	hist    []EpochPoint
	props   []mprop           // exact channels: every proposal not truncated (trimmed ones stay)
	cursors map[string]uint64 // committed dispatch cursors
	catalog bool
	// retSlack: the typed TruncateFrom keeps RetainedMaxSeq above the new log
	// end (recorded finding); once set, the durable RetainedMaxSeq is no longer
	// compared and a log-end jump to it is reported under that finding's signature.
	retSlack bool
	// mid marks the intermediate state of a paged restore cleanup (rows gone,
	// system records still present); completeness of manifests is not required.
	mid bool
}

func (s *mstate) clone() *mstate {
	n := *s
	n.rows = s.rows[:len(s.rows):len(s.rows)]
	n.hist = s.hist[:len(s.hist):len(s.hist)]
	n.props = s.props[:len(s.props):len(s.props)]
	if s.cursors != nil {
		n.cursors = make(map[string]uint64, len(s.cursors))
		for k, v := range s.cursors {
			n.cursors[k] = v
		}
	}
	return &n
}

func (s *mstate) firstSeq() uint64 {
	if len(s.rows) == 0 {
		return 0
	}
	return s.rows[0].Seq
}

func (s *mstate) lastRowSeq() uint64 {
	if len(s.rows) == 0 {
		return 0
	}
	return s.rows[len(s.rows)-1].Seq
}

func (s *mstate) rowAt(seq uint64) (mrow, bool) {
	i := sort.Search(len(s.rows), func(i int) bool { return s.rows[i].Seq >= seq })
	if i < len(s.rows) && s.rows[i].Seq == seq {
		return s.rows[i], true
	}
	return mrow{}, false
}

func (s *mstate) hasKey(from, cmn string) (mrow, bool) {
	if from == "" || cmn == "" {
		return mrow{}, false
	}
	for _, r := range s.rows {
		if r.From == from && r.CMN == cmn {
			return r, true
		}
	}
	return mrow{}, false
}

func (s *mstate) hwOr0() uint64 {
	if s.hasCP {
		return s.cp.HW
	}
	return 0
}

// rowsFrom returns the live rows with seq >= from.
func (s *mstate) rowsFrom(from uint64) []mrow {
	i := sort.Search(len(s.rows), func(i int) bool { return s.rows[i].Seq >= from })
	return s.rows[i:]
}

// removeFrom drops live rows with seq >= from.
func (s *mstate) removeFrom(from uint64) (removed []mrow) {
	i := sort.Search(len(s.rows), func(i int) bool { return s.rows[i].Seq >= from })
	removed = s.rows[i:]
	s.rows = s.rows[:i:i]
	return removed
}

// removePrefix drops the first n live rows.
func (s *mstate) removePrefix(n int) (removed []mrow) {
	removed = s.rows[:n]
	s.rows = s.rows[n:]
	return removed
}

func (s *mstate) appendRows(rows []mrow) {
	s.rows = append(s.rows[:len(s.rows):len(s.rows)], rows...)
	if len(rows) > 0 {
		s.leo = rows[len(rows)-1].Seq
	}
	s.catalog = true
}

// truncateHistFrom removes history points whose start offset is >= from.
func (s *mstate) truncateHistFrom(from uint64) {
	out := make([]EpochPoint, 0, len(s.hist))
	for _, p := range s.hist {
		if p.StartOffset < from {
			out = append(out, p)
		}
	}
	s.hist = out
}

// histDecision mirrors shouldAppendHistoryPoint.
func (s *mstate) histDecision(p EpochPoint) (write bool, ok bool) {
	if p.Epoch == 0 {
		return false, false
	}
	if len(s.hist) == 0 {
		return true, true
	}
	last := s.hist[len(s.hist)-1]
	switch {
	case p.Epoch > last.Epoch:
		if p.StartOffset < last.StartOffset {
			return false, false
		}
		return true, true
	case p.Epoch == last.Epoch && p.StartOffset == last.StartOffset:
		return false, true
	default:
		return false, false
	}
}

// checkpointMonotonicOK mirrors validateCheckpointMonotonicLocked.
func (s *mstate) checkpointMonotonicOK(cp Checkpoint, visibleHW, leo uint64) bool {
	if cp.LogStartOffset > cp.HW || cp.HW > visibleHW || cp.HW > leo {
		return false
	}
	if !s.hasCP {
		return true
	}
	return cp.HW >= s.cp.HW && cp.LogStartOffset >= s.cp.LogStartOffset && cp.Epoch >= s.cp.Epoch
}

// lowerRetainedTo mirrors retentionStateAfterTruncate (ok=false: target below
// the adopted retention boundary).
func (s *mstate) lowerRetainedTo(to uint64) bool {
	if !s.hasRet {
		return true
	}
	if to < s.ret.LocalRetentionThroughSeq {
		return false
	}
	if s.ret.RetainedMaxSeq > to {
		s.ret.RetainedMaxSeq = to
	}
	return true
}

// propIndexByLast returns the proposal whose last offset is off.
func (s *mstate) propIndexByLast(off uint64) int {
	for i, p := range s.props {
		if p.manifest.LastOffset == off {
			return i
		}
	}
	return -1
}

func (s *mstate) propByCommand(id quorumlog.CommandID) (mprop, bool) {
	for _, p := range s.props {
		if p.manifest.CommandID == id {
			return p, true
		}
	}
	return mprop{}, false
}

// identityAt returns the entry identity stored for index.
func (s *mstate) identityAt(index uint64) (quorumlog.EntryIdentity, bool) {
	for _, p := range s.props {
		if index > p.manifest.BaseOffset && index <= p.manifest.LastOffset {
			return p.entries[index-p.manifest.BaseOffset-1], true
		}
	}
	return quorumlog.EntryIdentity{}, false
}

// truncatePropsTo removes proposals above to; ok=false when a proposal spans to.
func (s *mstate) truncatePropsTo(to uint64) bool {
	for _, p := range s.props {
		if p.manifest.LastOffset > to && p.manifest.BaseOffset < to {
			return false
		}
	}
	out := make([]mprop, 0, len(s.props))
	for _, p := range s.props {
		if p.manifest.LastOffset <= to {
			out = append(out, p)
		}
	}
	s.props = out
	return true
}

// trimResult mirrors trimPrefixThroughLimit's row selection.
type trimPlan struct {
	n          int // rows to delete from the front of the candidate range
	more       bool
	deletedTo  uint64
	candidates []mrow
}

func (s *mstate) planTrim(through uint64, maxMessages, maxBytes int) trimPlan {
	start := s.ret.PhysicalRetentionThroughSeq + 1
	if !s.hasRet {
		start = 1
	}
	// readRows(start..through, Limit=maxMessages+1, MaxBytes)
	var cand []mrow
	total := 0
	limit := 0
	if maxMessages > 0 {
		limit = maxMessages + 1
	}
	for _, r := range s.rowsFrom(start) {
		if r.Seq > through {
			break
		}
		if maxBytes > 0 && len(cand) > 0 && total+len(r.Payload) > maxBytes {
			break
		}
		cand = append(cand, r)
		total += len(r.Payload)
		if limit > 0 && len(cand) >= limit {
			break
		}
	}
	p := trimPlan{candidates: cand, n: len(cand)}
	if maxMessages > 0 && len(cand) > maxMessages {
		p.more = true
		p.n = maxMessages
	}
	if maxBytes > 0 && p.n > 0 && cand[p.n-1].Seq < through {
		p.more = true
	}
	if p.n > 0 {
		p.deletedTo = cand[p.n-1].Seq
	}
	return p
}

// applyTrim mutates s like trimPrefixThroughLimit (adopt: typed API adopts the
// boundary, the compatibility API requires it adopted already).
func (s *mstate) applyTrim(through uint64, maxMessages, maxBytes int, adopt bool) (RetentionTrimResult, bool) {
	if !s.hasRet {
		s.ret = RetentionState{}
	}
	if !adopt && through > s.ret.LocalRetentionThroughSeq {
		return RetentionTrimResult{}, false
	}
	plan := s.planTrim(through, maxMessages, maxBytes)
	next := s.ret
	if adopt && through > next.LocalRetentionThroughSeq {
		next.LocalRetentionThroughSeq = through
	}
	if adopt && through > next.RetainedMaxSeq {
		next.RetainedMaxSeq = through
	}
	if s.leo > next.RetainedMaxSeq {
		next.RetainedMaxSeq = s.leo
	}
	res := RetentionTrimResult{More: plan.more, Deleted: plan.n, DeletedThroughSeq: plan.deletedTo}
	if plan.n > 0 {
		// the candidates are a prefix of the live rows at or after start
		first := plan.candidates[0].Seq
		i := sort.Search(len(s.rows), func(i int) bool { return s.rows[i].Seq >= first })
		rows := make([]mrow, 0, len(s.rows)-plan.n)
		rows = append(rows, s.rows[:i]...)
		rows = append(rows, s.rows[i+plan.n:]...)
		s.rows = rows
	}
	if !plan.more && through > next.PhysicalRetentionThroughSeq {
		next.PhysicalRetentionThroughSeq = through
	} else if plan.deletedTo > next.PhysicalRetentionThroughSeq {
		next.PhysicalRetentionThroughSeq = plan.deletedTo
	}
	s.ret = next
	s.hasRet = true
	s.catalog = true
	if next.RetainedMaxSeq > s.leo {
		s.leo = next.RetainedMaxSeq
	}
	return res, true
}

// ---- read-side expectations ----

// expectRead mirrors Read/appendReadMessage.
func (s *mstate) expectRead(from uint64, limit, maxBytes int) []mrow {
	if from == 0 {
		from = 1
	}
	var out []mrow
	total := 0
	for _, r := range s.rowsFrom(from) {
		if maxBytes > 0 && len(out) > 0 && total+len(r.Payload) > maxBytes {
			break
		}
		out = append(out, r)
		total += len(r.Payload)
		if limit > 0 && len(out) >= limit {
			break
		}
	}
	return out
}

// expectReadReverse mirrors ReadReverse.
func (s *mstate) expectReadReverse(from uint64, limit, maxBytes int) []mrow {
	if from == 0 {
		from = s.leo
	}
	var out []mrow
	total := 0
	for i := len(s.rows) - 1; i >= 0; i-- {
		r := s.rows[i]
		if r.Seq > from {
			continue
		}
		if maxBytes > 0 && len(out) > 0 && total+len(r.Payload) > maxBytes {
			break
		}
		out = append(out, r)
		total += len(r.Payload)
		if limit > 0 && len(out) >= limit {
			break
		}
	}
	return out
}

// expectListByCMN mirrors ListByClientMsgNo.
func (s *mstate) expectListByCMN(cmn string, before uint64, limit int) (rows []mrow, hasMore bool, next uint64) {
	for i := len(s.rows) - 1; i >= 0; i-- {
		r := s.rows[i]
		if r.CMN != cmn {
			continue
		}
		if before != 0 && r.Seq >= before {
			continue
		}
		rows = append(rows, r)
	}
	if len(rows) > limit {
		rows = rows[:limit]
		hasMore = true
		next = rows[len(rows)-1].Seq
	}
	return rows, hasMore, next
}

// expectLastSender mirrors GetLastSenderMessageSeq.
func (s *mstate) expectLastSender(from string, through uint64) (uint64, bool) {
	for i := len(s.rows) - 1; i >= 0; i-- {
		r := s.rows[i]
		if r.Seq <= through && r.From == from && !r.syncOnce() {
			return r.Seq, true
		}
	}
	return 0, false
}

func sameRowBytes(a, b []byte) bool { return bytes.Equal(a, b) }
