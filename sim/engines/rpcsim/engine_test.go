package rpcsim

import (
	"runtime"
	"bytes"
	"context"
	"errors"
	"fmt"
	"math"
	"os"
	"sort"
	"strings"
	"sync"
	"testing"
	"time"

	"github.com/WuKongIM/WuKongIM/internal/verifsim/simkit"
	"github.com/WuKongIM/WuKongIM/pkg/transport"
	"github.com/WuKongIM/WuKongIM/pkg/transport/wire"
)

func TestVerifSim(t *testing.T) {
	simkit.Main(t, simkit.Engine{
		Name:  "rpcsim",
		Props: map[string]simkit.PropFunc{"C26": runWorld},
		Real: []string{"transport.Client (peer.Manager pool, conn.Conn read/write loops, sched.Scheduler, rpc.PendingTable)",
			"transport.Server via VerifServe (accept loop, conn.Conn, dispatch, rpc.Service queue + pump, rpc.Executor on ants)",
			"wire.ReadFrame / WriteFramesInto / EncodeHeader / DecodeHeader", "buffer.SlabPool", "contexts and timers on the synctest fake clock"},
		Stub: []string{"net.Conn / net.Listener / Dialer (in-memory byte streams: scheduler-chosen chunk delivery, back-pressure, stall, reset, EOF, header mutation in flight, dial refuse / black hole)",
			"service handlers (echo the request's unique tag after a scheduler-chosen delay, or fail)", "callers (tape-chosen payloads, shard keys, priorities, deadlines, cancellations)"},
		Rule: "One run = one synctest bubble with a real transport.Client (pool of 1-4 connections) and a real transport.Server joined by simulated connections; " +
			"4-40 operations (RPC calls, a few data/notify frames) with at most 2-16 in flight, every byte delivery, handler answer, cancellation, fault and clock tick chosen by the tape. " +
			"About one run in six is a 'wide burst': one connection whose client and/or server writer is held at its first write while 34-80 operations (equal-length or mixed-length frames) queue behind it, MaxBatchFrames in {64,33,40,128,4}, so single write batches of more than 32 (sometimes more than 64) frames occur in both directions. " +
			"Non-trivial = at least two calls were in flight together AND at least one call returned its own response AND " +
			"(a fault fired OR a call timed out / was cancelled OR a frame was delivered in more than one chunk).",
		Assumptions: []string{"testing/synctest fake clock and quiescence semantics (go1.26.8)",
			"a delivery step never completes more than one frame, waking a blocked writer is a separate step, and at most one operation is started per step, so intra-step goroutine races in real code do not decide outcomes (explored interleavings are at simulator-event granularity)",
			"one deliberate exception: the cancel+deliver action cancels a call and releases the rest of its own response frame inside one step (cancel first: the cancellation wins deterministically while Complete(id) still runs before the caller's Delete at GOMAXPROCS=1; deliver first: the Go runtime picks, and that call is logged by the neutral class ok|canceled). A deadline firing at the very instant of a delivery is not constructed",
			"client and server write-queue limits are drawn per run (server items 1-3 or default, server bytes 48/600 or default); in runs where the server may refuse a response every call carries a deadline, because the repo drops such a response without telling the caller. The answer+wspace action lets the blocked server writer resume the moment a response is refused (the refusal is seen through the server's observer event), which is deterministic on the unchanged tree; whether code that re-offers the response then finds room is exact only at GOMAXPROCS=1",
			"at most one operation at a time is inside a pool slot's dial (no concurrent waiters on one dial)",
			"header faults are the malformed-header classes of the statement (magic, version, flags, reserved, kind, priority, oversize body); corruption that yields another valid header is out of scope",
			"header round-trip is checked only for the headers this traffic produces (kinds data/notify/request/response, 4 priorities, 3 service ids, body lengths 0..MaxFrameBodyBytes)"},
	})
}

const (
	serverNode transport.NodeID = 2
	clientNode transport.NodeID = 1

	svcRPC     uint16 = 7
	svcData    uint16 = 8
	svcSpare   uint16 = 9
	svcMissing uint16 = 11

	kindCall   = 0
	kindSend   = 1
	kindNotify = 2
)

type discovery struct{}

func (discovery) Resolve(transport.NodeID) (string, error) { return "sim-server", nil }

type cfg struct {
	Pool, Callers, Ops int
	NoFaults           bool
	FReset, FHdr, FStall, FDial, FClosePeer bool
	Chunk      int // 0 whole frames, 1 some splits, 2 heavy splits
	Cap        int
	MaxBody    int
	BatchFrames int
	BatchBytes  int
	BatchWait  time.Duration
	WriteTO    time.Duration
	DialTO     time.Duration
	Cooldown   time.Duration
	CliQueue   int
	CliQBytes  int
	SrvQItems  int
	SrvQBytes  int
	Burst      int // 0 none, 1 request burst, 2 response burst, 3 both
	BurstEqual bool
	BurstN     int
	SvcConc    int
	SvcQueue   int
	SvcTimeout time.Duration
	StartBias    int
	DeadlineBias int
	CancelBias   int
	ErrBias      int
	DataFrames   bool
}

type op struct {
	id       int
	kind     int
	tag      string
	payload  []byte
	oversize bool
	slot     int
	shard    uint64
	prio     transport.Priority
	svc      uint16
	timeout  time.Duration
	ctx      context.Context
	cancel   context.CancelFunc
	start    time.Time
	startStep int
	canceled bool
	raced    bool // its response was released and then its ctx cancelled within one step

	// written by the op goroutine under world.mu
	returned bool
	resp     []byte
	err      error

	// scheduler side
	done     bool
	doneStep int
	outcome  string

	// handler side (under world.mu)
	handlerRuns     int
	handlerDecision int // -1 none yet
	dataReceived    int

	// wire level (scheduler side)
	conn         *simConn
	reqID        uint64
	onWire       bool
	respSeen     bool
	respConsumed bool
}

type flagged struct {
	opID   int
	class  string
	detail string
}

type world struct {
	r   *simkit.Run
	sim *simkit.World
	cfg cfg

	mu     sync.Mutex
	client *transport.Client
	server *transport.Server
	lis    *simListener

	conns    []*simConn
	nextConn int
	ops      []*op
	opsLeft  int
	curSlot, curOp, curStep int

	final bool
	flags []flagged
	infra string

	blockedWrites, writeTimeouts, dials, dialTimeouts int
	seenBlocked, seenWriteTO, seenDialTO                int
	pendingBySource map[uint64]int
	batchMax        int // most frames in one client write batch (observer event)
	srvBatchMax     int // same for the server
	answers         int // handler releases so far (wide-burst regime: response burst size)

	// server-side write queue refusing a response (observed through the server's
	// observer events); armedWake: the blocked server writer of this direction
	// gets its window update the moment a response is refused (answer+wspace action)
	srvQueueFull, seenSrvQueueFull int
	armedWake                      *dirState
	armedFired                     bool

	overlapMax int
	okCount    int
	softFaults int // timeouts, cancellations, split frames
	skew       int
	connectedSlots map[int]int
}

func (w *world) infraLocked(format string, args ...any) {
	if w.infra == "" {
		w.infra = fmt.Sprintf(format, args...)
	}
}

func (w *world) flag(opID int, class, format string, args ...any) {
	w.mu.Lock()
	w.flags = append(w.flags, flagged{opID: opID, class: class, detail: fmt.Sprintf(format, args...)})
	w.mu.Unlock()
}

// ObserveTransport receives the client's observer events (through the repo's
// asynchronous drain); only end-of-run aggregates are used.
func (w *world) ObserveTransport(ev transport.Event) {
	w.mu.Lock()
	switch ev.Name {
	case "pending_rpc":
		w.pendingBySource[ev.SourceID] = ev.Inflight
	case "write_batch":
		if ev.Items > w.batchMax {
			w.batchMax = ev.Items
		}
	}
	w.mu.Unlock()
}

// serverObserver receives the server's observer events. The only Sends a server
// connection performs are responses, so a refused admission there is a response
// the server is about to drop.
type serverObserver struct{ w *world }

func (s serverObserver) ObserveTransport(ev transport.Event) {
	w := s.w
	if ev.Name == "write_batch" {
		w.mu.Lock()
		if ev.Items > w.srvBatchMax {
			w.srvBatchMax = ev.Items
		}
		w.mu.Unlock()
		return
	}
	if ev.Name != "scheduler_admission" || ev.Result != "full" {
		return
	}
	w.mu.Lock()
	w.srvQueueFull++
	if d := w.armedWake; d != nil {
		w.armedWake = nil
		w.armedFired = true
		wake(&d.spaceCh)
	}
	w.mu.Unlock()
}

// ---- configuration ----------------------------------------------------------

func drawCfg(r *simkit.Run) cfg {
	tp := r.Tape
	c := cfg{}
	c.Pool = 1 + tp.Weighted([]int{2, 3, 2, 2})
	c.Callers = 2 + tp.Intn(15)
	c.Ops = 4 + tp.Intn(37)
	c.NoFaults = tp.Intn(4) == 0
	if !c.NoFaults {
		c.FReset = tp.Intn(2) == 0
		c.FHdr = tp.Intn(2) == 0
		c.FStall = tp.Intn(3) == 0
		c.FDial = tp.Intn(3) == 0
		c.FClosePeer = tp.Intn(5) == 0
		c.Cap = []int{1 << 30, 64, 700, 4096}[tp.Weighted([]int{4, 1, 1, 1})]
	} else {
		c.Cap = 1 << 30
	}
	// per-connection write-queue limits (0 = the repo's defaults). With a tiny
	// server-side queue and a slow reader the response path runs into ErrQueueFull.
	c.SrvQItems = []int{0, 1, 2, 3}[tp.Weighted([]int{4, 1, 1, 1})]
	c.SrvQBytes = []int{0, 48, 600}[tp.Weighted([]int{5, 1, 1})]
	c.CliQBytes = []int{0, 600}[tp.Weighted([]int{6, 1})]
	if c.SrvQItems > 0 && c.Cap == 1<<30 && tp.Chance(2, 3) {
		c.Cap = []int{64, 700, 4096}[tp.Intn(3)] // a slow reader, also in runs without injected faults
	}
	c.Chunk = tp.Weighted([]int{2, 3, 2})
	c.MaxBody = []int{4096, 256, 1024, 65536, 200000}[tp.Weighted([]int{2, 2, 2, 2, 1})] // 200000 crosses the 64 KiB buffer class
	if c.Cap < 1<<30 {
		// a tiny pipe with huge frames only burns steps: keep a frame within ~8 pipe-fulls
		for _, smaller := range []int{4096, 1024, 256} {
			if c.MaxBody > 8*c.Cap {
				c.MaxBody = smaller
			}
		}
	}
	c.BatchFrames = []int{64, 1, 4}[tp.Intn(3)]
	c.BatchBytes = []int{c.MaxBody, c.MaxBody / 4}[tp.Intn(2)]
	c.BatchWait = []time.Duration{0, 100 * time.Microsecond, 2 * time.Millisecond}[tp.Intn(3)]
	c.WriteTO = []time.Duration{5 * time.Second, 200 * time.Millisecond, 0}[tp.Weighted([]int{3, 2, 1})]
	c.DialTO = []time.Duration{5 * time.Second, 100 * time.Millisecond}[tp.Intn(2)]
	c.Cooldown = []time.Duration{0, 50 * time.Millisecond}[tp.Intn(2)]
	c.CliQueue = []int{4096, 3}[tp.Weighted([]int{5, 1})]
	c.SvcConc = 1 + tp.Intn(8)
	c.SvcQueue = []int{64, 1, 4}[tp.Intn(3)]
	c.SvcTimeout = []time.Duration{0, 500 * time.Millisecond}[tp.Weighted([]int{3, 1})]
	c.StartBias = []int{12, 40, 120}[tp.Intn(3)]
	c.DeadlineBias = tp.Intn(4)
	c.CancelBias = tp.Intn(3)
	c.ErrBias = tp.Intn(3)
	c.DataFrames = tp.Intn(2) == 0
	// "wide burst" regime (about 1 run in 6): one connection, its writer held at the
	// first write while 34-80 operations queue up behind it, then released, so that a
	// single write batch carries more frames than any fixed-size scratch structure of
	// the write path (and request ids cross the pending-table shard count several times).
	// Direction 1 holds the client's writer (request burst), 2 the server's (response
	// burst, the handlers answer while the stream is held), 3 both.
	if tp.Weighted([]int{5, 1}) == 1 {
		c.Burst = 1 + tp.Intn(3)
		c.BurstEqual = tp.Intn(2) == 0 // equal-length payloads: misframing stays silent on the wire
		c.Ops = 34 + tp.Intn(47)
		c.BurstN = 34 + tp.Intn(c.Ops-33)
		c.Callers, c.Pool = c.Ops, 1
		c.MaxBody, c.BatchBytes, c.BatchWait = 65536, 65536, 0
		c.BatchFrames = []int{64, 33, 40, 128, 4}[tp.Weighted([]int{3, 2, 2, 2, 1})]
		c.CliQueue, c.CliQBytes, c.SrvQItems, c.SrvQBytes = 4096, 0, 0, 0
		c.Cap, c.WriteTO, c.SvcQueue, c.SvcTimeout, c.StartBias = 1<<30, 0, 128, 0, 120
		if c.DeadlineBias > 1 {
			c.DeadlineBias = 1
		}
		if c.Chunk > 1 {
			c.Chunk = 1
		}
	}
	return c
}

func (c cfg) limits(server bool) transport.Limits {
	l := transport.Limits{
		MaxFrameBodyBytes:     c.MaxBody,
		MaxQueuedBytesPerConn: 64 << 20,
		MaxQueuedItemsPerConn: 4096,
		MaxBatchBytes:         c.BatchBytes,
		MaxBatchFrames:        c.BatchFrames,
		WriteBatchMaxWait:     c.BatchWait,
		DialFailureCooldown:   c.Cooldown,
		WriteTimeout:          c.WriteTO,
	}
	if !server {
		// a full client queue is reported to the caller
		l.MaxQueuedItemsPerConn = c.CliQueue
		if c.CliQBytes > 0 {
			l.MaxQueuedBytesPerConn = int64(c.CliQBytes)
		}
		return l
	}
	// the server silently drops a response it cannot queue: every call of such a
	// run gets a deadline (see startOp)
	if c.SrvQItems > 0 {
		l.MaxQueuedItemsPerConn = c.SrvQItems
	}
	if c.SrvQBytes > 0 {
		l.MaxQueuedBytesPerConn = int64(c.SrvQBytes)
	}
	return l
}

// serverMayDropResponses: the server-side write queue is small enough to refuse responses.
func (c cfg) serverMayDropResponses() bool { return c.SrvQItems > 0 || c.SrvQBytes > 0 }

// ---- payloads -----------------------------------------------------------------

func makePayload(kind, id, n int) []byte {
	letter := byte('T')
	if kind != kindCall {
		letter = 'D'
	}
	head := fmt.Sprintf("%c%04d|", letter, id)
	if n < len(head) {
		n = len(head)
	}
	b := make([]byte, n)
	copy(b, head)
	for i := len(head); i < n; i++ {
		b[i] = byte('a' + (id*7+i)%26)
	}
	return b
}

// tagOf extracts "T0007" from a payload, "" when the bytes are not a payload.
func tagOf(p []byte) string {
	if len(p) < 6 || p[5] != '|' || (p[0] != 'T' && p[0] != 'D') {
		return ""
	}
	for _, c := range p[1:5] {
		if c < '0' || c > '9' {
			return ""
		}
	}
	return string(p[:5])
}

func tagID(tag string) int {
	n := 0
	for _, c := range tag[1:] {
		n = n*10 + int(c-'0')
	}
	return n
}

func short(b []byte) string {
	if len(b) > 24 {
		return fmt.Sprintf("%q..(%d bytes)", b[:24], len(b))
	}
	return fmt.Sprintf("%q", b)
}

// opByPayloadLocked returns the op whose tag heads p. Caller holds world.mu.
func (w *world) opByPayloadLocked(p []byte) *op {
	tag := tagOf(p)
	if tag == "" {
		return nil
	}
	id := tagID(tag)
	if id < 1 || id > len(w.ops) {
		return nil
	}
	return w.ops[id-1]
}

// ---- handlers (server side seam) ------------------------------------------------

func (w *world) rpcHandler(ctx context.Context, payload []byte) ([]byte, error) {
	before := append([]byte(nil), payload...)
	w.mu.Lock()
	o := w.opByPayloadLocked(before)
	if o == nil || !bytes.Equal(o.payload, before) || o.kind != kindCall {
		w.mu.Unlock()
		w.flag(0, "handler-payload-corrupt", "rpc handler received %s which is not the payload of any call", short(before))
		return nil, errors.New("EH:garbled")
	}
	o.handlerRuns++
	w.mu.Unlock()
	d := w.sim.ParkCtx(ctx.Done(), "H "+o.tag, handlerInfo{op: o}, decHandlerCtx)
	if !bytes.Equal(payload, before) {
		w.flag(o.id, "handler-payload-corrupt", "request payload of %s changed while its handler was running: now %s", o.tag, short(payload))
	}
	w.mu.Lock()
	if d == decClosed {
		w.mu.Unlock()
		return nil, errors.New("EH:closed")
	}
	o.handlerDecision = d
	w.mu.Unlock()
	switch d {
	case decAnswerOK:
		return append([]byte("R"), payload...), nil
	case decAnswerErr:
		return nil, errors.New("EH:" + o.tag)
	default:
		return nil, ctx.Err()
	}
}

func (w *world) dataHandler(ctx context.Context, payload []byte) ([]byte, error) {
	w.mu.Lock()
	o := w.opByPayloadLocked(payload)
	if o == nil || !bytes.Equal(o.payload, payload) || o.kind == kindCall {
		w.mu.Unlock()
		w.flag(0, "handler-payload-corrupt", "data handler received %s which is not the payload of any data/notify frame", short(payload))
		return nil, nil
	}
	o.dataReceived++
	w.mu.Unlock()
	return nil, nil
}

// ---- the run ----------------------------------------------------------------------

func runWorld(t *testing.T, r *simkit.Run) {
	c := drawCfg(r)
	r.Config = map[string]any{"pool": c.Pool, "callers": c.Callers, "ops": c.Ops, "nofaults": c.NoFaults,
		"reset": c.FReset, "hdr": c.FHdr, "stall": c.FStall, "dial": c.FDial, "closepeer": c.FClosePeer,
		"chunk": c.Chunk, "cap": c.Cap, "maxbody": c.MaxBody, "batch_frames": c.BatchFrames, "batch_bytes": c.BatchBytes,
		"batch_wait_us": c.BatchWait.Microseconds(), "write_to_ms": c.WriteTO.Milliseconds(), "dial_to_ms": c.DialTO.Milliseconds(),
		"cooldown_ms": c.Cooldown.Milliseconds(), "cli_queue": c.CliQueue, "svc_conc": c.SvcConc, "svc_queue": c.SvcQueue,
		"svc_timeout_ms": c.SvcTimeout.Milliseconds(), "start_bias": c.StartBias, "deadline_bias": c.DeadlineBias,
		"cancel_bias": c.CancelBias, "err_bias": c.ErrBias, "data": c.DataFrames,
		"cli_queue_bytes": c.CliQBytes, "srv_queue_items": c.SrvQItems, "srv_queue_bytes": c.SrvQBytes,
		"burst": c.Burst, "burst_equal_len": c.BurstEqual, "burst_n": c.BurstN}
	// sync.Pools survive across runs; anything pooled that owns a channel created in
	// the previous run's bubble would crash the worker when reused in this one
	// ("synctest channel from outside bubble"). Two GC cycles empty the pools.
	runtime.GC()
	runtime.GC()
	simkit.Bubble(t, r, func() {
		w := &world{r: r, sim: simkit.NewWorld(r), cfg: c, opsLeft: c.Ops, curOp: -1, pendingBySource: map[uint64]int{}, connectedSlots: map[int]int{}}
		defer w.teardown()
		srv, err := transport.NewServer(transport.ServerConfig{NodeID: serverNode, Limits: c.limits(true), Observer: serverObserver{w}})
		if err != nil {
			r.Infra("NewServer: %v", err)
			return
		}
		w.server = srv
		if err := srv.Handle(svcRPC, w.rpcHandler, transport.ServiceOptions{Alias: "rpc", Concurrency: c.SvcConc, QueueSize: c.SvcQueue, MaxQueueBytes: 64 << 20, Timeout: c.SvcTimeout}); err != nil {
			r.Infra("Handle rpc: %v", err)
			return
		}
		if err := srv.Handle(svcData, w.dataHandler, transport.ServiceOptions{Alias: "data", Concurrency: 2, QueueSize: 64, MaxQueueBytes: 64 << 20}); err != nil {
			r.Infra("Handle data: %v", err)
			return
		}
		// never receives traffic: keeps the shared ants executor from ever being
		// saturated by parked rpc handlers (a saturated pool is polled every 10us)
		if err := srv.Handle(svcSpare, w.dataHandler, transport.ServiceOptions{Alias: "spare", Concurrency: 4, QueueSize: 1, MaxQueueBytes: 1 << 20}); err != nil {
			r.Infra("Handle spare: %v", err)
			return
		}
		w.lis = newListener()
		if err := srv.VerifServe(w.lis); err != nil {
			r.Infra("VerifServe: %v", err)
			return
		}
		cli, err := transport.NewClient(transport.ClientConfig{NodeID: clientNode, Discovery: discovery{}, PoolSize: c.Pool,
			DialTimeout: c.DialTO, Dialer: w.dial, Limits: c.limits(false), Observer: w})
		if err != nil {
			r.Infra("NewClient: %v", err)
			return
		}
		w.client = cli

		stepTime := func() time.Duration {
			// things take time; the odd nanoseconds keep timers started in
			// different steps from ever firing at the same fake instant
			w.skew = (w.skew*31 + 17) % 997
			return time.Microsecond + time.Duration(w.skew)*time.Nanosecond
		}
		s := &simkit.Scheduler{R: r, MaxSteps: 60 + c.Ops*24, Collect: w.collect, Invariant: w.observe, StepTime: stepTime,
			Done: func() bool { return w.opsLeft == 0 && w.inflight() == 0 },
			Idle: func() time.Duration { return 0 }}
		s.Run()
		if !r.Failed() && r.InfraErr == "" {
			w.finalPhase(stepTime)
		}
		faults := 0
		for _, v := range r.Faults {
			faults += v
		}
		for _, n := range []int{2, 4, 8, 12, 16} {
			if w.overlapMax >= n {
				r.Probe(fmt.Sprintf("max_inflight>=%d", n))
			}
		}
		r.Nontrivial = w.overlapMax >= 2 && w.okCount > 0 && (faults > 0 || w.softFaults > 0)
	})
	if os.Getenv("RPCSIM_TRACE") == "1" { // debugging aid for runs that end in r.Infra (no replay file exists for those)
		for _, l := range r.Trace() {
			fmt.Fprintln(os.Stderr, l)
		}
	}
}

func (w *world) inflight() int {
	n := 0
	for _, o := range w.ops {
		if !o.done {
			n++
		}
	}
	return n
}

func (w *world) teardown() {
	w.sim.CloseAll(decClosed)
	for _, o := range w.ops {
		if o.cancel != nil {
			o.cancel()
		}
	}
	if w.client != nil {
		w.client.Stop()
	}
	if w.server != nil {
		w.server.Stop()
	}
	for i := 0; i < 100; i++ {
		simkit.Wait()
		all := true
		w.mu.Lock()
		for _, o := range w.ops {
			if !o.returned {
				all = false
			}
		}
		w.mu.Unlock()
		if all {
			break
		}
		time.Sleep(100 * time.Millisecond)
	}
	// let stop-grace timers and pool janitors finish before the bubble ends
	time.Sleep(time.Second)
	simkit.Wait()
}

// ---- observation at quiescence (oracles) --------------------------------------------

func (w *world) dialParked(o *op) bool {
	for _, p := range w.sim.Pending() {
		if di, ok := p.Info.(*dialInfo); ok && di.op == o.id {
			return true
		}
	}
	return false
}

func (w *world) slotDialing(slot int) bool {
	for _, p := range w.sim.Pending() {
		if di, ok := p.Info.(*dialInfo); ok && di.slot == slot {
			return true
		}
	}
	return false
}

func kindName(k transport.FrameKind) string {
	switch k {
	case transport.FrameKindData:
		return "DATA"
	case transport.FrameKindNotify:
		return "NOTIFY"
	case transport.FrameKindRPCRequest:
		return "REQ"
	case transport.FrameKindRPCResponse:
		return "RSP"
	case transport.FrameKindControl:
		return "CTRL"
	}
	return fmt.Sprintf("KIND%d", k)
}

// examineFrame is the wire-level oracle for one frame as its writer produced it.
func (w *world) examineFrame(c *simConn, d *dirState, idx int, f *frameInfo) {
	r := w.r
	h, err := wire.DecodeHeader(f.hdr[:], math.MaxInt32)
	if err != nil {
		r.Fail("header-roundtrip", fmt.Sprintf("c%d %s frame#%d: the writer produced a header that DecodeHeader rejects: %v (% x)", c.id, d.name, idx, err, f.hdr[:]), nil)
		return
	}
	if enc := wire.EncodeHeader(h); enc != f.hdr {
		r.Fail("header-roundtrip", fmt.Sprintf("c%d %s frame#%d: EncodeHeader(DecodeHeader(x)) != x: % x vs % x", c.id, d.name, idx, enc[:], f.hdr[:]), nil)
		return
	}
	if h2, err := wire.DecodeHeader(func() []byte { e := wire.EncodeHeader(h); return e[:] }(), math.MaxInt32); err != nil || h2 != h {
		r.Fail("header-roundtrip", fmt.Sprintf("c%d %s frame#%d: DecodeHeader(EncodeHeader(h)) != h: %+v vs %+v (%v)", c.id, d.name, idx, h2, h, err), nil)
		return
	}
	// the same header with the id and service bits inverted (still traffic-shaped,
	// exercises the high bits this short run never produces) must round-trip too
	hv := h
	hv.RequestID, hv.ServiceID = ^h.RequestID, ^h.ServiceID
	ev := wire.EncodeHeader(hv)
	if h3, err := wire.DecodeHeader(ev[:], math.MaxInt32); err != nil || h3 != hv {
		r.Fail("header-roundtrip", fmt.Sprintf("c%d %s frame#%d: DecodeHeader(EncodeHeader(h)) != h for %+v: got %+v (%v)", c.id, d.name, idx, hv, h3, err), nil)
		return
	}
	if int(h.BodyLen) != len(f.body) {
		r.Infra("frame parser out of step: header says %d body bytes, saw %d", h.BodyLen, len(f.body))
		return
	}
	r.Probe("wire.frames." + strings.ToLower(kindName(h.Kind)))
	if d.name == "c2s" {
		w.mu.Lock()
		o := w.opByPayloadLocked(f.body)
		w.mu.Unlock()
		if o == nil || !bytes.Equal(o.payload, f.body) {
			r.Fail("frame-mismatch", fmt.Sprintf("c%d c2s frame#%d %s id=%d: body %s is not the payload of any operation", c.id, idx, kindName(h.Kind), h.RequestID, short(f.body)), nil)
			return
		}
		f.op = o
		wantKind := transport.FrameKindRPCRequest
		if o.kind == kindSend {
			wantKind = transport.FrameKindData
		} else if o.kind == kindNotify {
			wantKind = transport.FrameKindNotify
		}
		if h.Kind != wantKind || h.Priority != o.prio || h.ServiceID != o.svc {
			r.Fail("frame-mismatch", fmt.Sprintf("c%d c2s frame#%d for %s: header %+v, the caller asked kind=%s priority=%d service=%d", c.id, idx, o.tag, h, kindName(wantKind), o.prio, o.svc), nil)
			return
		}
		if o.onWire {
			r.Probe("request_on_wire_twice") // a retransmission is not forbidden by the statement
		}
		o.onWire = true
		o.conn = c
		if c.slot != o.slot {
			r.Infra("op %s (slot %d) wrote on c%d which the harness believes is slot %d", o.tag, o.slot, c.id, c.slot)
			return
		}
		if o.kind == kindCall {
			// an id may legitimately be used again once its earlier call is over;
			// the caller-side oracle decides whether anybody got a wrong response
			for _, prev := range c.reqOps[h.RequestID] {
				if prev.done {
					r.Probe("request_id_reused")
				} else {
					r.Probe("request_id_reused_while_pending")
				}
			}
			c.reqOps[h.RequestID] = append(c.reqOps[h.RequestID], o)
			o.reqID = h.RequestID
			for _, c2 := range w.conns {
				if c2 != c {
					for _, o2 := range c2.reqOps[h.RequestID] {
						if !o2.done {
							r.Probe("reqid_live_on_two_conns")
						}
					}
				}
			}
		}
		r.Logf("  c%d c2s frame#%d %s id=%d %s pri=%d svc=%d body=%d", c.id, idx, kindName(h.Kind), h.RequestID, o.tag, h.Priority, h.ServiceID, len(f.body))
		return
	}
	// s2c: only responses are produced by this server
	if h.Kind != transport.FrameKindRPCResponse {
		r.Probe("wire.server_sent_" + strings.ToLower(kindName(h.Kind)))
		return
	}
	cands := c.reqOps[h.RequestID]
	if len(cands) == 0 {
		r.Fail("wire-response-mismatch", fmt.Sprintf("c%d s2c frame#%d: response for request id %d which was never sent on this connection", c.id, idx, h.RequestID), nil)
		return
	}
	// the request this response answers: with a reused id, the one whose tag it carries
	o := cands[len(cands)-1]
	if len(f.body) > 1 {
		for _, cand := range cands {
			if bytes.Contains(f.body[1:], []byte(cand.tag)) {
				o = cand
			}
		}
	}
	f.op = o
	if o.respSeen {
		r.Probe("wire.duplicate_response")
	}
	o.respSeen = true
	status := "empty"
	if len(f.body) == 0 && os.Getenv("RPCSIM_NO_WIRE_EMPTY") != "1" {
		// the client decodes a zero-length body as success without payload; no handler
		// of this world answers with nothing, so this frame is nobody's response
		// (RPCSIM_NO_WIRE_EMPTY=1 leaves the verdict to the caller-side oracle, for sensitivity experiments)
		w.mu.Lock()
		dec := o.handlerDecision
		w.mu.Unlock()
		r.FailSig("wire-response-mismatch", "empty-body", fmt.Sprintf("c%d s2c frame#%d: response for id %d (%s) has a zero-length body (no status, no payload); handler decision %d", c.id, idx, h.RequestID, o.tag, dec), nil)
		return
	}
	if len(f.body) > 0 {
		w.mu.Lock()
		dec := o.handlerDecision
		w.mu.Unlock()
		msg := f.body[1:]
		switch f.body[0] {
		case wire.ResponseOK:
			status = "OK"
			if !bytes.Equal(msg, append([]byte("R"), o.payload...)) {
				r.Fail("wire-response-mismatch", fmt.Sprintf("c%d s2c frame#%d: OK response for id %d (%s) carries %s", c.id, idx, h.RequestID, o.tag, short(msg)), map[string]any{"want": o.tag, "got": tagOf(bytes.TrimPrefix(msg, []byte("R")))})
				return
			}
			if dec != decAnswerOK {
				r.Fail("wire-response-mismatch", fmt.Sprintf("c%d s2c frame#%d: OK response for %s whose handler did not answer OK (decision %d)", c.id, idx, o.tag, dec), nil)
				return
			}
		case wire.ResponseErr:
			status = "ERR " + short(msg)
			if bytes.HasPrefix(msg, []byte("EH:")) && string(msg) != "EH:"+o.tag {
				r.Fail("wire-response-mismatch", fmt.Sprintf("c%d s2c frame#%d: error response for id %d (%s) carries %s", c.id, idx, h.RequestID, o.tag, short(msg)), nil)
				return
			}
		case wire.ResponseServiceNotFound:
			status = "NOSVC"
		default:
			status = fmt.Sprintf("status%d", f.body[0])
		}
	}
	if h.Priority != o.prio || h.ServiceID != o.svc {
		r.Probe("wire.response_header_not_mirroring_request")
	}
	r.Logf("  c%d s2c frame#%d RSP id=%d %s %s body=%d", c.id, idx, h.RequestID, o.tag, status, len(f.body))
}

func errClass(err error, o *op) string {
	var re transport.RemoteError
	switch {
	case err == nil:
		return "ok"
	case errors.As(err, &re):
		switch {
		case re.Code == transport.RemoteErrorCodeServiceNotFound:
			return "remote:svc_not_found"
		case strings.HasPrefix(re.Message, "EH:"):
			return "remote:handler"
		case strings.Contains(re.Message, "busy"):
			return "remote:busy"
		case strings.Contains(re.Message, "timeout") || strings.Contains(re.Message, "deadline"):
			return "remote:timeout"
		default:
			return "remote:other"
		}
	case errors.Is(err, context.DeadlineExceeded):
		return "timeout"
	case errors.Is(err, transport.ErrCanceled) || errors.Is(err, context.Canceled):
		return "canceled"
	case errors.Is(err, transport.ErrQueueFull):
		return "queuefull"
	case errors.Is(err, transport.ErrInvalidPriority) && !o.prio.Valid():
		// (a connection that dies on a header with a bad priority byte fails its
		// pending calls with the same sentinel: that is "connfail" below)
		return "badprio"
	case errors.Is(err, transport.ErrDialFailed):
		return "dial"
	case errors.Is(err, transport.ErrMsgTooLarge) && o.oversize:
		return "toolarge"
	default:
		// ErrStopped, EOF, reset, broken pipe, write timeout, invalid frame: which of
		// them a caller sees when its connection dies is decided by an intra-step race
		return "connfail"
	}
}

// judge is the caller-side oracle for one returned operation.
func (w *world) judge(o *op) {
	r := w.r
	o.outcome = errClass(o.err, o)
	r.Probe(map[int]string{kindCall: "call.", kindSend: "send.", kindNotify: "notify."}[o.kind] + o.outcome)
	if o.raced && (o.outcome == "ok" || o.outcome == "canceled") {
		// response released and cancellation issued in one step, in that order:
		// either is a correct outcome and the Go runtime picks
		r.Logf("  done %s -> ok|canceled", o.tag)
	} else {
		r.Logf("  done %s -> %s", o.tag, o.outcome)
	}
	if o.kind != kindCall {
		return
	}
	w.mu.Lock()
	dec, runs := o.handlerDecision, o.handlerRuns
	w.mu.Unlock()
	if runs > 1 {
		r.Probe("handler_ran_twice")
	}
	if o.err == nil {
		want := append([]byte("R"), o.payload...)
		if !bytes.Equal(o.resp, want) {
			got := tagOf(bytes.TrimPrefix(o.resp, []byte("R")))
			if got != "" && got != o.tag {
				r.FailSig("wrong-response", "", fmt.Sprintf("call %s returned the response of %s", o.tag, got), map[string]any{"want": o.tag, "got": got, "conn": connName(o.conn), "request_id": o.reqID})
				return
			}
			if dec != decAnswerOK {
				r.FailSig("phantom-response", "success-without-ok-answer", fmt.Sprintf("call %s returned success with %s although its handler did not answer OK (decision %d: -1 none, 1 failed, 2 ctx; runs %d)", o.tag, short(o.resp), dec, runs), nil)
				return
			}
			if len(o.resp) == 0 {
				r.FailSig("wrong-response", "empty", fmt.Sprintf("call %s returned success with an empty payload; its handler answered %s", o.tag, short(want)), nil)
				return
			}
			r.Fail("garbled-response", fmt.Sprintf("call %s returned %s, want %s", o.tag, short(o.resp), short(want)), nil)
			return
		}
		if dec != decAnswerOK {
			r.Fail("phantom-response", fmt.Sprintf("call %s returned success but its handler never answered OK (decision %d, runs %d)", o.tag, dec, runs), nil)
			return
		}
		w.okCount++
		return
	}
	var re transport.RemoteError
	if errors.As(o.err, &re) && strings.HasPrefix(re.Message, "EH:") {
		if re.Message != "EH:"+o.tag {
			r.Fail("wrong-response", fmt.Sprintf("call %s returned the handler error of another call: %q", o.tag, re.Message), map[string]any{"want": o.tag, "got": re.Message})
			return
		}
		if dec != decAnswerErr {
			r.Fail("phantom-response", fmt.Sprintf("call %s returned its handler's error but the handler never failed (decision %d)", o.tag, dec), nil)
			return
		}
	}
	switch o.outcome {
	case "timeout", "canceled":
		w.softFaults++
	}
	if w.cfg.NoFaults && o.timeout == 0 && !o.canceled {
		switch o.outcome {
		case "remote:handler", "remote:busy", "remote:svc_not_found", "remote:timeout", "toolarge", "badprio", "queuefull":
		case "dial":
			w.mu.Lock()
			dto := w.dialTimeouts
			w.mu.Unlock()
			if dto == 0 {
				r.Probe("unexplained_error_in_faultfree_run:" + o.outcome)
			}
		default:
			r.Probe("unexplained_error_in_faultfree_run:" + o.outcome)
		}
	}
}

func connName(c *simConn) string {
	if c == nil {
		return "-"
	}
	return fmt.Sprintf("c%d", c.id)
}

// observe runs at every quiescent state: it drains what real code did during the
// last step in canonical order, logs it and evaluates every oracle.
func (w *world) observe() {
	r := w.r
	if r.Failed() {
		return
	}
	w.mu.Lock()
	infra := w.infra
	flags := w.flags
	w.flags = nil
	w.mu.Unlock()
	if infra != "" {
		r.Infra("%s", infra)
		return
	}
	if len(flags) > 0 {
		sort.Slice(flags, func(i, j int) bool {
			if flags[i].opID != flags[j].opID {
				return flags[i].opID < flags[j].opID
			}
			return flags[i].class+flags[i].detail < flags[j].class+flags[j].detail
		})
		r.Fail(flags[0].class, flags[0].detail, nil)
		return
	}
	// 1. frames written since the last step
	for _, c := range w.conns {
		for _, d := range []*dirState{c.c2s, c.s2c} {
			w.mu.Lock()
			fresh := append([]*frameInfo(nil), d.frames[d.nextExamine:]...)
			base := d.nextExamine
			d.nextExamine = len(d.frames)
			w.mu.Unlock()
			for i, f := range fresh {
				w.examineFrame(c, d, base+i, f)
				if r.Failed() || r.InfraErr != "" {
					return
				}
			}
			if len(fresh) > 1 {
				r.Probe("wire.frames_written_in_one_step>1")
			}
			if len(fresh) > 32 {
				r.Probe("wire.frames_written_in_one_step>32." + d.name)
			}
			if len(fresh) > 64 {
				r.Probe("wire.frames_written_in_one_step>64." + d.name)
			}
			// the writer's own stream must be a sequence of well-formed frames (a header
			// fault injected by the simulator never touches the writer-side record)
			w.mu.Lock()
			bad := d.malformed
			w.mu.Unlock()
			if bad != "" {
				r.FailSig("writer-malformed-frame", d.name, fmt.Sprintf("c%d %s: %s, which the wire format forbids (framing lost: a header was paired with another frame's body?)", c.id, d.name, bad), nil)
				return
			}
		}
	}
	// 2. responses the client connection consumed
	for _, c := range w.conns {
		d := c.s2c
		w.mu.Lock()
		consumed := d.consumed
		w.mu.Unlock()
		for _, f := range d.frames {
			if f.consumedLogged || f.mutated || f.op == nil || consumed < f.end {
				continue
			}
			f.consumedLogged = true
			if d.badHdrEnd >= 0 && f.end > d.badHdrEnd {
				continue // lies behind a corrupted header: never parsed as a frame
			}
			if f.op.done {
				r.Probe("late_response_dropped." + f.op.outcome)
				r.Logf("  c%d late response for %s (already %s) reached the client", c.id, f.op.tag, f.op.outcome)
			} else {
				f.op.respConsumed = true
			}
		}
	}
	// 3. operations that returned
	w.mu.Lock()
	var done []*op
	for _, o := range w.ops {
		if o.returned && !o.done {
			done = append(done, o)
		}
	}
	w.mu.Unlock()
	if len(done) > 1 {
		r.Probe("returns_in_one_step>1")
	}
	for _, o := range done {
		o.done = true
		o.doneStep = r.Steps
		w.judge(o)
		if r.Failed() {
			return
		}
	}
	// 4. counters kept by the seams
	w.mu.Lock()
	bw, wt, dt := w.blockedWrites, w.writeTimeouts, w.dialTimeouts
	w.mu.Unlock()
	if bw > w.seenBlocked {
		r.ProbeN("write_blocked_backpressure", bw-w.seenBlocked)
		w.seenBlocked = bw
	}
	if wt > w.seenWriteTO {
		r.ProbeN("conn.write_timeout", wt-w.seenWriteTO) // consequence of a stall or of slow delivery, not an injected fault
		r.Logf("  write deadline exceeded x%d", wt-w.seenWriteTO)
		w.seenWriteTO = wt
	}
	w.mu.Lock()
	qf, armed, fired := w.srvQueueFull, w.armedWake, w.armedFired
	w.armedWake, w.armedFired = nil, false
	w.mu.Unlock()
	if qf > w.seenSrvQueueFull {
		r.ProbeN("response_send_queue_full", qf-w.seenSrvQueueFull)
		r.Logf("  server write queue full: %d response send(s) refused", qf-w.seenSrvQueueFull)
		w.seenSrvQueueFull = qf
	}
	if fired {
		r.Probe("response_refused_then_writer_resumed")
		r.Logf("  the blocked server writer got its window update right after the refusal")
	} else if armed != nil {
		r.Logf("  (the response was queued; the server writer stays blocked)")
	}
	if dt > w.seenDialTO {
		r.ProbeN("dial.timeout", dt-w.seenDialTO) // black-holed (counted as a fault when injected) or connected too late
		r.Logf("  dial timed out x%d", dt-w.seenDialTO)
		w.seenDialTO = dt
	}
	// 5. connection failures seen by the client side
	for _, c := range w.conns {
		w.mu.Lock()
		failed := c.client.sawFailure || c.client.closed
		srvClosed := c.server.closed
		w.mu.Unlock()
		if failed && !c.failLogged {
			c.failLogged = true
			n := 0
			for _, o := range w.ops {
				if o.conn == c && o.doneStep == r.Steps && o.outcome == "connfail" {
					n++
				}
			}
			r.Logf("  c%d client side down (server side closed=%v), %d pending call(s) failed with it", c.id, srvClosed, n)
			if n > 1 {
				r.Probe("fail_all.n>1")
			}
			if n > 0 {
				r.Probe("fail_all.n>0")
			}
		}
	}
	// 6. malformed headers: the receiver must fail the connection before asking for body bytes
	for _, c := range w.conns {
		for _, d := range []*dirState{c.c2s, c.s2c} {
			if d.badHdrEnd < 0 {
				continue
			}
			rd := c.server
			if d == c.s2c {
				rd = c.client
			}
			w.mu.Lock()
			consumed, reads, asked, closed := d.consumed, d.postBadReads, d.postBadBytes, rd.closed
			w.mu.Unlock()
			if consumed < d.badHdrEnd {
				continue
			}
			if reads > 0 {
				r.FailSig("body-read-after-bad-header", d.badField, fmt.Sprintf("c%d %s: after a header with bad %s the receiver issued %d more Read call(s) asking for %d byte(s) instead of failing the connection", c.id, d.name, d.badField, reads, asked),
					map[string]any{"field": d.badField, "reads": reads, "bytes_requested": asked})
				return
			}
			if !closed {
				r.FailSig("bad-header-accepted", d.badField, fmt.Sprintf("c%d %s: the receiver consumed a header with bad %s and did not close the connection", c.id, d.name, d.badField), nil)
				return
			}
			if !strings.HasSuffix(d.badField, "!") {
				d.badField += "!"
				r.Probe("bad_header_rejected_before_body")
				r.Logf("  c%d %s: bad header rejected, connection closed, 0 bytes requested after the header", c.id, d.name)
			}
		}
	}
	// 7. bounded liveness of calls
	now := time.Now()
	live := 0
	for _, o := range w.ops {
		if o.done {
			continue
		}
		live++
		parked := w.dialParked(o)
		switch {
		case o.respConsumed:
			r.Fail("response-lost", fmt.Sprintf("the client connection consumed the response frame of %s (%s id %d) but the call is still waiting", o.tag, connName(o.conn), o.reqID), nil)
			return
		case o.canceled && !parked:
			r.FailSig("call-hung", "after-cancel", fmt.Sprintf("%s was cancelled but has not returned", o.tag), nil)
			return
		case o.timeout > 0 && now.Sub(o.start) >= o.timeout && !parked:
			r.FailSig("call-hung", "past-deadline", fmt.Sprintf("%s has a %v deadline, %v have passed and it has not returned", o.tag, o.timeout, now.Sub(o.start)), nil)
			return
		case o.conn != nil:
			w.mu.Lock()
			down := o.conn.client.sawFailure || o.conn.client.closed
			w.mu.Unlock()
			if down {
				r.FailSig("call-hung", "after-connection-loss", fmt.Sprintf("%s is pending on c%d whose client side failed, and has not returned", o.tag, o.conn.id), nil)
				return
			}
		}
	}
	if live > w.overlapMax {
		w.overlapMax = live
	}
	hp := 0
	for _, p := range w.sim.Pending() {
		if _, ok := p.Info.(handlerInfo); ok {
			hp++
		}
	}
	liveConns := 0
	for _, c := range w.conns {
		if !c.client.closed && !c.c2s.reset {
			liveConns++
		}
	}
	r.State(live, hp, liveConns, len(w.conns), w.okCount)
}

// ---- actions ---------------------------------------------------------------------------

func (w *world) skewed(d time.Duration) time.Duration {
	w.skew = (w.skew*31 + 17) % 997
	return d + time.Duration(w.skew)*time.Nanosecond
}

func (w *world) collect() []simkit.Action {
	r := w.r
	c := w.cfg
	var acts []simkit.Action
	faults := !c.NoFaults && !w.final
	now := time.Now()

	// parked seams
	for _, p := range w.sim.Pending() {
		p := p
		switch info := p.Info.(type) {
		case *dialInfo:
			if info.held && !w.final {
				continue
			}
			acts = append(acts, simkit.Action{Prio: 0, Key: "connect " + p.Key, Weight: 30, Do: func() {
				conn := w.newConn(info.slot)
				if w.connectedSlots[info.slot] > 0 {
					r.Probe("redial_after_failure")
				}
				w.connectedSlots[info.slot]++
				if len(w.conns) > 1 {
					r.Probe("pool.conns>1")
				}
				info.ep = conn.client
				r.Logf("  c%d = slot %d", conn.id, info.slot)
				w.lis.ch <- conn.server
				w.sim.Release(p, decConnect)
			}})
			if faults && c.FDial {
				acts = append(acts, simkit.Action{Prio: 5, Key: "refuse " + p.Key, Weight: 3, Do: func() { r.Fault("dial_refused"); w.sim.Release(p, decRefuse) }})
				acts = append(acts, simkit.Action{Prio: 5, Key: "blackhole " + p.Key, Weight: 2, Do: func() { r.Fault("dial_blackhole"); info.held = true }})
			}
		case handlerInfo:
			acts = append(acts, simkit.Action{Prio: 0, Key: "answer " + p.Key, Weight: 8, Do: func() { w.answers++; w.sim.Release(p, decAnswerOK) }})
			if !w.final && c.ErrBias > 0 {
				acts = append(acts, simkit.Action{Prio: 2, Key: "fail " + p.Key, Weight: c.ErrBias, Do: func() { w.answers++; w.sim.Release(p, decAnswerErr) }})
			}
			// the handler finishes while the server's writer is blocked behind a slow
			// reader; if the write queue refuses the response, the writer's pending
			// window update arrives right then (within the step). On the unchanged tree
			// the refused response is simply dropped; code that re-offers it after the
			// refusal finds room.
			if cn := info.op.conn; !w.final && cn != nil {
				d := cn.s2c
				w.mu.Lock()
				can := !d.reset && !d.readerClosed && !now.Before(d.stalledUntil) && d.writerBlocked && d.spaceCh != nil && d.inflight() < d.capBytes && !d.held
				w.mu.Unlock()
				if can {
					acts = append(acts, simkit.Action{Prio: 2, Key: "answer+wspace " + p.Key, Weight: 6, Do: func() {
						dec := decAnswerOK
						if c.ErrBias > 0 && r.Tape.Chance(1, 4) {
							dec = decAnswerErr
						}
						w.mu.Lock()
						w.armedWake, w.armedFired = d, false
						w.mu.Unlock()
						w.answers++
						r.Logf("  handler decision %d; c%d s2c writer is blocked with a window update pending", dec, cn.id)
						w.sim.Release(p, dec)
					}})
				}
			}
		}
	}
	// byte streams
	for _, cn := range w.conns {
		cn := cn
		for _, d := range []*dirState{cn.c2s, cn.s2c} {
			d := d
			w.mu.Lock()
			ok := !d.reset && !d.readerClosed && !now.Before(d.stalledUntil)
			inflight := d.inflight()
			eof := inflight == 0 && d.writerClosed && !d.eofDelivered
			wspace := d.writerBlocked && d.spaceCh != nil && inflight < d.capBytes && !d.held
			w.mu.Unlock()
			if !ok {
				continue
			}
			if wspace {
				// the window update that lets a blocked writer continue is its own event:
				// waking reader and writer in one step would race them against each other
				acts = append(acts, simkit.Action{Prio: 0, Key: fmt.Sprintf("wspace c%d %s", cn.id, d.name), Weight: 30, Do: func() {
					w.mu.Lock()
					wake(&d.spaceCh)
					w.mu.Unlock()
				}})
			}
			if inflight > 0 {
				acts = append(acts, simkit.Action{Prio: 0, Key: fmt.Sprintf("deliver c%d %s", cn.id, d.name), Weight: 30, Do: func() { w.deliver(d) }})
			} else if eof {
				acts = append(acts, simkit.Action{Prio: 0, Key: fmt.Sprintf("eof c%d %s", cn.id, d.name), Weight: 20, Do: func() {
					w.mu.Lock()
					d.eofDelivered = true
					wake(&d.dataCh)
					w.mu.Unlock()
				}})
			}
		}
	}
	if w.final {
		return acts
	}
	// new operations
	if w.opsLeft > 0 && w.inflight() < c.Callers && len(w.freeSlots()) > 0 {
		acts = append(acts, simkit.Action{Prio: 1, Key: "start op", Weight: c.StartBias, Do: w.startOp})
	}
	// wide-burst regime: the held writer is let go once the burst has queued up behind
	// it (or when nothing else can make progress); the wake itself is the usual wspace event
	if c.Burst > 0 {
		progress := len(acts)
		for _, cn := range w.conns {
			for _, d := range []*dirState{cn.c2s, cn.s2c} {
				d := d
				w.mu.Lock()
				held := d.held
				w.mu.Unlock()
				if !held {
					continue
				}
				reached := len(w.ops) >= c.BurstN || w.opsLeft == 0
				if d.name == "s2c" {
					reached = w.answers >= 34
				}
				if reached || progress == 0 {
					acts = append(acts, simkit.Action{Prio: 1, Key: fmt.Sprintf("unhold c%d %s", cn.id, d.name), Weight: 60, Do: func() {
						w.mu.Lock()
						d.held = false
						w.mu.Unlock()
						r.Logf("  writer of c%d %s released after %d operations started, %d handler answers", d.c.id, d.name, len(w.ops), w.answers)
					}})
				}
			}
		}
	}
	// cancellations
	if c.CancelBias > 0 {
		var cands []*op
		for _, o := range w.ops {
			if !o.done && !o.canceled {
				cands = append(cands, o)
			}
		}
		if len(cands) > 0 {
			acts = append(acts, simkit.Action{Prio: 2, Key: "cancel", Weight: c.CancelBias, Do: func() {
				o := cands[r.Tape.Intn(len(cands))]
				o.canceled = true
				r.Logf("  cancel %s", o.tag)
				o.cancel()
			}})
		}
	}
	// a cancellation that lands in the same step as the delivery of the call's own
	// response: the caller's ctx.Done and the connection's Complete(id) are in flight
	// together, with no quiescent state between them
	if rc := w.raceCandidates(now); len(rc) > 0 {
		acts = append(acts, simkit.Action{Prio: 2, Key: "cancel+deliver", Weight: 2 + 2*c.CancelBias, Do: func() { w.cancelRacingResponse(rc) }})
	}
	// time
	acts = append(acts, simkit.Action{Prio: 3, Key: "tick 1ms", Weight: 3, Do: func() { time.Sleep(w.skewed(time.Millisecond)) }})
	acts = append(acts, simkit.Action{Prio: 3, Key: "tick 40ms", Weight: 2, Do: func() { time.Sleep(w.skewed(40 * time.Millisecond)) }})
	acts = append(acts, simkit.Action{Prio: 3, Key: "tick 1s", Weight: 1, Do: func() { time.Sleep(w.skewed(time.Second)) }})
	if !faults {
		return acts
	}
	// faults
	var liveConns []*simConn
	for _, cn := range w.conns {
		w.mu.Lock()
		live := !cn.c2s.reset && !(cn.client.closed && cn.server.closed)
		w.mu.Unlock()
		if live {
			liveConns = append(liveConns, cn)
		}
	}
	if c.FReset && len(liveConns) > 0 {
		acts = append(acts, simkit.Action{Prio: 6, Key: "fault reset", Weight: 2, Do: func() {
			cn := liveConns[r.Tape.Intn(len(liveConns))]
			r.Fault("reset")
			w.mu.Lock()
			lost := cn.c2s.inflight() + cn.s2c.inflight()
			for _, d := range []*dirState{cn.c2s, cn.s2c} {
				d.reset = true
				wake(&d.dataCh)
				wake(&d.spaceCh)
			}
			w.mu.Unlock()
			r.Logf("  reset c%d (%d bytes in flight lost)", cn.id, lost)
		}})
	}
	if c.FStall && len(liveConns) > 0 {
		acts = append(acts, simkit.Action{Prio: 6, Key: "fault stall", Weight: 2, Do: func() {
			cn := liveConns[r.Tape.Intn(len(liveConns))]
			d := []*dirState{cn.c2s, cn.s2c}[r.Tape.Intn(2)]
			dur := []time.Duration{3 * time.Millisecond, 300 * time.Millisecond, 7 * time.Second}[r.Tape.Intn(3)]
			r.Fault("stall")
			w.mu.Lock()
			d.stalledUntil = time.Now().Add(dur)
			w.mu.Unlock()
			r.Logf("  stall c%d %s for %v", cn.id, d.name, dur)
		}})
	}
	if c.FHdr {
		if cands := w.hdrFaultCandidates(); len(cands) > 0 {
			acts = append(acts, simkit.Action{Prio: 6, Key: "fault header", Weight: 3, Do: func() { w.injectHeaderFault(cands) }})
		}
	}
	if c.FClosePeer && len(liveConns) > 0 {
		acts = append(acts, simkit.Action{Prio: 6, Key: "fault closepeer", Weight: 1, Do: func() {
			r.Fault("close_peer")
			w.client.ClosePeer(serverNode)
		}})
	}
	return acts
}

type raceCand struct {
	o *op
	d *dirState
	f *frameInfo
}

// raceCandidates lists pending calls whose own response frame is the next frame
// to complete on a deliverable s2c stream (in op id order).
func (w *world) raceCandidates(now time.Time) []raceCand {
	var out []raceCand
	w.mu.Lock()
	defer w.mu.Unlock()
	for _, o := range w.ops {
		if o.done || o.canceled || o.kind != kindCall || o.conn == nil || !o.respSeen {
			continue
		}
		d := o.conn.s2c
		if d.reset || d.readerClosed || now.Before(d.stalledUntil) || d.badHdrEnd >= 0 {
			continue
		}
		for _, f := range d.frames {
			if f.end <= d.delivered {
				continue
			}
			// f is the first frame not yet fully delivered
			if f.op == o && f.complete && !f.mutated && len(d.buf) >= f.end {
				out = append(out, raceCand{o, d, f})
			}
			break
		}
	}
	return out
}

// cancelRacingResponse cancels one call and delivers the rest of its response
// frame inside one step. Which of the two the caller's select observes first is
// fixed when the cancellation is issued first (it wins: the call must return
// ErrCanceled and the response must reach nobody) and is left to the Go runtime
// when the bytes are released first; such a call is logged by the neutral class
// "ok|canceled" so that the rest of the trace stays a function of the tape.
func (w *world) cancelRacingResponse(cands []raceCand) {
	r := w.r
	rc := cands[r.Tape.Intn(len(cands))]
	deliverFirst := r.Tape.Weighted([]int{3, 1}) == 1
	o, d, f := rc.o, rc.d, rc.f
	release := func() {
		w.mu.Lock()
		n := f.end - d.delivered
		d.delivered = f.end
		wake(&d.dataCh)
		w.mu.Unlock()
		r.Logf("  +%d bytes (%d/%d delivered, frame end)", n, f.end, len(d.buf))
	}
	o.canceled = true
	w.softFaults++
	r.Probe("cancel_races_own_response")
	if deliverFirst {
		o.raced = true
		r.Logf("  deliver the response of %s on c%d, then cancel it in the same step", o.tag, d.c.id)
		release()
		o.cancel()
		return
	}
	r.Logf("  cancel %s, then deliver its response on c%d in the same step", o.tag, d.c.id)
	o.cancel()
	release()
}

func (w *world) freeSlots() []int {
	var out []int
	for s := 0; s < w.cfg.Pool; s++ {
		if !w.slotDialing(s) {
			out = append(out, s)
		}
	}
	return out
}

// deliver moves one tape-chosen chunk of a direction into the reader's window.
// A chunk never extends past the end of the frame it starts in.
func (w *world) deliver(d *dirState) {
	r := w.r
	w.mu.Lock()
	defer w.mu.Unlock()
	limit := len(d.buf)
	var fr *frameInfo
	for _, f := range d.frames {
		if f.end > d.delivered {
			fr = f
			break
		}
	}
	if fr == nil && d.cur != nil {
		fr = d.cur
	}
	if fr != nil && fr.hdrDone && fr.end < limit {
		limit = fr.end
	}
	max := limit - d.delivered
	if max <= 0 {
		return
	}
	n := max
	if w.cfg.Chunk > 0 && !w.final && max > 1 {
		ws := []int{6, 1, 2, 2}
		if w.cfg.Chunk == 2 {
			ws = []int{2, 2, 3, 3}
		}
		switch r.Tape.Weighted(ws) {
		case 1:
			n = 1
		case 2:
			n = 1 + r.Tape.Intn(max)
		case 3:
			// stop at the end of the header when it is still ahead, else half way
			if fr != nil && fr.start+wire.HeaderSize > d.delivered && fr.start+wire.HeaderSize-d.delivered < max {
				n = fr.start + wire.HeaderSize - d.delivered
			} else {
				n = (max + 1) / 2
			}
		}
	}
	d.delivered += n
	wake(&d.dataCh)
	where := ""
	if fr != nil {
		off := d.delivered - fr.start
		switch {
		case fr.hdrDone && d.delivered == fr.end:
			where = "frame end"
		case off < wire.HeaderSize:
			where = fmt.Sprintf("inside header +%d", off)
			r.Probe("split.header")
			w.softFaults++
		case off == wire.HeaderSize:
			where = "between header and body"
			r.Probe("split.header_body")
			w.softFaults++
		default:
			where = fmt.Sprintf("inside body +%d", off-wire.HeaderSize)
			r.Probe("split.body")
			w.softFaults++
		}
	}
	r.Logf("  +%d bytes (%d/%d delivered, %s)", n, d.delivered, len(d.buf), where)
}

type hdrCand struct {
	d *dirState
	f *frameInfo
}

// hdrFaultCandidates lists frames whose whole header is still in flight, on
// directions that carry no header fault yet.
func (w *world) hdrFaultCandidates() []hdrCand {
	var out []hdrCand
	w.mu.Lock()
	defer w.mu.Unlock()
	for _, cn := range w.conns {
		for _, d := range []*dirState{cn.c2s, cn.s2c} {
			if d.badHdrEnd >= 0 || d.reset || d.readerClosed {
				continue
			}
			fs := d.frames
			if d.cur != nil && d.cur.hdrDone {
				fs = append(append([]*frameInfo(nil), fs...), d.cur)
			}
			for _, f := range fs {
				if f.start >= d.delivered {
					out = append(out, hdrCand{d, f})
				}
			}
		}
	}
	return out
}

func (w *world) injectHeaderFault(cands []hdrCand) {
	r := w.r
	tp := r.Tape
	cd := cands[tp.Intn(len(cands))]
	d, f := cd.d, cd.f
	field := []string{"magic", "version", "flags", "reserved", "kind", "priority", "bodylen"}[tp.Intn(7)]
	w.mu.Lock()
	defer w.mu.Unlock()
	if f.start < d.delivered {
		return
	}
	h := d.buf[f.start : f.start+wire.HeaderSize]
	switch field {
	case "magic":
		v := uint16(tp.Intn(1 << 16))
		if v == wire.Magic {
			v ^= 1
		}
		h[0], h[1] = byte(v>>8), byte(v)
	case "version":
		v := tp.Intn(255)
		if v >= int(wire.Version) {
			v++
		}
		h[2] = byte(v)
	case "flags":
		h[3] = byte(1 + tp.Intn(255))
	case "reserved":
		h[20+tp.Intn(4)] = byte(1 + tp.Intn(255))
	case "kind":
		v := tp.Intn(251)
		if v > 0 {
			v += 5
		}
		h[4] = byte(v)
	case "priority":
		v := tp.Intn(252)
		if v > 0 {
			v += 4
		}
		h[5] = byte(v)
	case "bodylen":
		over := []int{1, 1 + tp.Intn(4096), 16 << 20}[tp.Intn(3)]
		v := uint32(w.cfg.MaxBody + over)
		h[16], h[17], h[18], h[19] = byte(v>>24), byte(v>>16), byte(v>>8), byte(v)
	}
	if !specMalformed(h, w.cfg.MaxBody) {
		w.infraLocked("header fault %s produced a header that is well-formed by the wire specification: % x", field, h)
		return
	}
	f.mutated = true
	d.badHdrEnd = f.start + wire.HeaderSize
	d.badField = field
	r.Fault("hdr_" + field)
	tag := "?"
	if f.op != nil {
		tag = f.op.tag
	}
	r.Logf("  bad %s in header of c%d %s frame at +%d (%s): % x", field, d.c.id, d.name, f.start, tag, h)
}

// specMalformed states, independently of the code under test, which headers the
// property calls malformed.
func specMalformed(h []byte, maxBody int) bool {
	be32 := func(b []byte) uint32 { return uint32(b[0])<<24 | uint32(b[1])<<16 | uint32(b[2])<<8 | uint32(b[3]) }
	return h[0] != 0x57 || h[1] != 0x4b || h[2] != 1 || h[3] != 0 || h[4] < 1 || h[4] > 5 || h[5] < 1 || h[5] > 4 ||
		be32(h[20:24]) != 0 || uint64(be32(h[16:20])) > uint64(maxBody)
}

func (w *world) startOp() {
	r := w.r
	tp := r.Tape
	c := w.cfg
	w.opsLeft--
	o := &op{id: len(w.ops) + 1, handlerDecision: -1}
	if c.DataFrames {
		o.kind = tp.Weighted([]int{12, 1, 1})
	}
	free := w.freeSlots()
	o.slot = free[tp.Intn(len(free))]
	o.shard = uint64(o.slot) + uint64(c.Pool)*uint64(tp.Intn(1000))
	o.prio = []transport.Priority{transport.PriorityRPC, transport.PriorityRaft, transport.PriorityControl, transport.PriorityBulk}[tp.Weighted([]int{8, 2, 2, 2})]
	if tp.Chance(1, 40) {
		o.prio = []transport.Priority{0, 9}[tp.Intn(2)] // outside the public contract: rejected locally
	}
	o.svc = svcRPC
	if o.kind != kindCall {
		o.svc = svcData
	} else if tp.Chance(1, 25) {
		o.svc = svcMissing
	}
	n := 0
	sizes := []int{8, 3, 1, 1, 1}
	if c.Burst > 0 {
		sizes = []int{1} // small frames only: the burst has to fit one write batch
	}
	switch tp.Weighted(sizes) {
	case 0:
		if c.Burst > 0 && c.BurstEqual {
			n = 24
			break
		}
		n = 6 + tp.Intn(43)
	case 1:
		n = 6 + tp.Intn(minInt(1024, c.MaxBody-8))
	case 2:
		n = c.MaxBody - 2 - tp.Intn(8) // the response (status + "R" + payload) still fits
	case 3:
		n = c.MaxBody - tp.Intn(2) // request fits, response does not: the server drops it
	case 4:
		n = c.MaxBody + 1 + tp.Intn(64)
		o.oversize = true
	}
	o.payload = makePayload(o.kind, o.id, n)
	o.tag = string(o.payload[:5])
	if tp.Chance(c.DeadlineBias, 4) {
		o.timeout = []time.Duration{2 * time.Millisecond, 30 * time.Millisecond, 400 * time.Millisecond, 3 * time.Second}[tp.Intn(4)]
	}
	if o.kind == kindCall && len(o.payload)+2 > c.MaxBody && !o.oversize && o.timeout == 0 {
		// the server cannot send this response and drops it without telling the
		// caller; only a deadline ends such a call
		o.timeout = 400 * time.Millisecond
	}
	if o.kind == kindCall && o.timeout == 0 && c.serverMayDropResponses() {
		// a server whose write queue is full drops the response silently as well
		o.timeout = []time.Duration{400 * time.Millisecond, 3 * time.Second}[tp.Intn(2)]
	}
	if o.timeout > 0 {
		o.timeout += time.Duration(o.id*137) * time.Nanosecond
	}
	ctx, cancel := context.WithCancel(context.Background())
	if o.timeout > 0 {
		ctx, cancel = context.WithTimeout(context.Background(), o.timeout)
	}
	o.ctx, o.cancel = ctx, cancel
	o.start = time.Now()
	o.startStep = r.Steps
	w.mu.Lock()
	w.ops = append(w.ops, o)
	w.curSlot, w.curOp, w.curStep = o.slot, o.id, r.Steps
	w.mu.Unlock()
	r.Logf("  start %s kind=%d slot=%d pri=%d svc=%d len=%d timeout=%v", o.tag, o.kind, o.slot, o.prio, o.svc, len(o.payload), o.timeout)
	go func() {
		var resp []byte
		var err error
		defer func() {
			if p := recover(); p != nil {
				w.flag(o.id, "panic", "operation %s panicked: %v", o.tag, p)
				err = fmt.Errorf("panic: %v", p)
			}
			w.mu.Lock()
			o.returned, o.resp, o.err = true, resp, err
			w.mu.Unlock()
		}()
		switch o.kind {
		case kindCall:
			resp, err = w.client.Call(ctx, serverNode, o.shard, o.prio, o.svc, o.payload)
		case kindSend:
			err = w.client.Send(ctx, serverNode, o.shard, o.prio, o.svc, o.payload)
		case kindNotify:
			err = w.client.Notify(ctx, serverNode, o.shard, o.prio, o.svc, o.payload)
		}
	}()
}

// finalPhase: faults stop, everything in flight is delivered and answered
// benignly and fake time runs past every deadline; afterwards no call may still
// be pending.
func (w *world) finalPhase(stepTime func() time.Duration) {
	r := w.r
	w.final = true
	r.Logf("-- final phase: no more faults, deliver and answer everything")
	w.mu.Lock()
	for _, cn := range w.conns {
		cn.c2s.stalledUntil, cn.s2c.stalledUntil = time.Time{}, time.Time{}
		cn.c2s.held, cn.s2c.held = false, false
	}
	w.mu.Unlock()
	idleLeft := 90 // x 500ms: longer than any deadline, write, dial or handler timeout
	cap := r.Steps + 400 + len(w.ops)*60
	s := &simkit.Scheduler{R: r, MaxSteps: cap, Collect: w.collect, Invariant: w.observe, StepTime: stepTime,
		Done: func() bool { return w.inflight() == 0 },
		Idle: func() time.Duration {
			if idleLeft == 0 {
				return 0
			}
			idleLeft--
			return w.skewed(500 * time.Millisecond)
		}}
	s.Run()
	if r.Failed() || r.InfraErr != "" {
		return
	}
	simkit.Wait()
	w.observe()
	if r.Failed() || r.InfraErr != "" {
		return
	}
	if n := w.inflight(); n > 0 {
		if r.Steps >= cap {
			r.Infra("final phase ran out of steps with %d operations pending", n)
			return
		}
		var tags []string
		for _, o := range w.ops {
			if !o.done {
				tags = append(tags, fmt.Sprintf("%s(conn %s, timeout %v, on wire %v, response seen %v)", o.tag, connName(o.conn), o.timeout, o.onWire, o.respSeen))
			}
		}
		r.FailSig("call-hung", "final", fmt.Sprintf("%d call(s) still pending after faults stopped, everything was delivered and answered and 45s passed: %s", n, strings.Join(tags, ", ")), nil)
		return
	}
	// a response handed to a caller must stay what it was (no aliasing of pooled frame buffers)
	for _, o := range w.ops {
		if o.kind == kindCall && o.err == nil && !bytes.Equal(o.resp, append([]byte("R"), o.payload...)) {
			r.Fail("response-changed-after-return", fmt.Sprintf("the response returned to %s was correct when the call returned and reads %s at the end of the run", o.tag, short(o.resp)), nil)
			return
		}
	}
	// data frames: at most once, intact (checked in the handler)
	for _, o := range w.ops {
		if o.kind != kindCall {
			w.mu.Lock()
			n := o.dataReceived
			w.mu.Unlock()
			if n > 1 {
				r.Probe("data_frame_dispatched_twice")
			}
			if n == 1 {
				r.Probe("data_frame_received")
			}
		}
	}
	// pending-table leak (observed through the repo's own observer events)
	w.mu.Lock()
	leak := 0
	for _, v := range w.pendingBySource {
		leak += v
	}
	bm := w.batchMax
	sbm := w.srvBatchMax
	w.mu.Unlock()
	for _, n := range []int{32, 64} {
		if bm > n {
			r.Probe(fmt.Sprintf("write_batch.client_frames>%d", n))
		}
		if sbm > n {
			r.Probe(fmt.Sprintf("write_batch.server_frames>%d", n))
		}
	}
	if leak > 0 {
		r.ProbeN("pending_entries_left_after_all_calls_returned", leak)
	}
	if bm > 1 {
		r.Probe("write_batch.frames>1")
	}
}
