package rpcsim

import (
	"encoding/binary"
	"errors"
	"fmt"
	"io"
	"net"
	"os"
	"sync"
	"time"

	"github.com/WuKongIM/WuKongIM/pkg/transport/wire"
)

// ---------------------------------------------------------------------------
// Simulated network: in-memory byte streams owned by the scheduler.
//
// A connection is two directions (c2s, s2c). The writer's Write appends bytes
// to the direction ("in flight"); nothing reaches the reader until the
// scheduler performs a deliver action, which moves a tape-chosen number of
// bytes (a chunk) into the reader's window. Chunks never complete more than
// one frame, so one scheduler step dispatches at most one frame to real code.
// Faults (reset, stall, header mutation of bytes still in flight) are scheduler
// actions. Every field below is protected by world.mu, which is never held
// while a goroutine blocks.
// ---------------------------------------------------------------------------

var (
	errSimReset   = errors.New("sim: connection reset by peer")
	errSimBroken  = errors.New("sim: broken pipe")
	errSimRefused = errors.New("sim: connection refused")
	errSimDialTO  = errors.New("sim: dial i/o timeout")
)

// decisions at the parked seams
const (
	decClosed = -1

	decConnect     = 0
	decRefuse      = 1
	decDialTimeout = 2

	decAnswerOK  = 0
	decAnswerErr = 1
	decHandlerCtx = 2
)

type simAddr string

func (a simAddr) Network() string { return "sim" }
func (a simAddr) String() string  { return string(a) }

// frameInfo is one frame as the WRITER produced it (ground truth).
type frameInfo struct {
	start, end int // stream offsets [start,end)
	hdr        [wire.HeaderSize]byte
	bodyLen    int
	body       []byte
	hdrDone    bool // the 24 header bytes are in the stream
	complete   bool
	mutated    bool // a header fault was injected into this frame in flight
	examined   bool // wire-level oracle ran (scheduler)
	consumedLogged bool
	op         *op // request or response of this op (nil: unknown)
}

type dirState struct {
	c    *simConn
	name string // "c2s" | "s2c"

	buf       []byte // every byte written so far (stream offset = index)
	delivered int    // bytes made visible to the reader
	consumed  int    // bytes the reader has read
	capBytes  int    // max bytes in flight (written - delivered) before Write blocks

	writerClosed bool // writer endpoint closed: EOF after the stream drains
	eofDelivered bool
	readerClosed bool // reader endpoint closed: writes fail
	reset        bool
	stalledUntil time.Time

	dataCh  chan struct{} // closed to wake a blocked reader
	spaceCh chan struct{} // closed to wake a blocked writer

	writerBlocked bool
	writeCalls    int
	// held: the scheduler holds the writer (wide-burst regime): Write accepts
	// nothing until the unhold action, whatever the capacity
	held bool
	// malformed: the WRITER itself produced a header that the wire format forbids
	malformed string
	maxBody   int

	// writer-side frame parser
	frames []*frameInfo
	cur    *frameInfo
	nextExamine int

	// header fault bookkeeping
	badHdrEnd    int // stream offset just after the mutated header (-1: none)
	badField     string
	postBadReads int // Read calls issued after the bad header was fully consumed
	postBadBytes int // bytes those Reads asked for
	maxReadReq   int
}

func (d *dirState) inflight() int { return len(d.buf) - d.delivered }

type endpoint struct {
	w      *world
	c      *simConn
	client bool
	in     *dirState
	out    *dirState
	closed bool
	rdl    time.Time
	wdl    time.Time
	// sawFailure: a Read or Write on this endpoint returned a failure that was
	// not caused by its own Close (reset, EOF, broken pipe, write timeout).
	sawFailure bool
}

type simConn struct {
	id     int
	slot   int
	c2s    *dirState
	s2c    *dirState
	client *endpoint
	server *endpoint
	// reqOps maps the request ids seen on c2s to the call(s) that used them
	reqOps map[uint64][]*op
	failLogged bool
}

func (w *world) newConn(slot int) *simConn {
	w.nextConn++
	c := &simConn{id: w.nextConn, slot: slot, reqOps: map[uint64][]*op{}}
	first := w.nextConn == 1
	c.c2s = &dirState{c: c, name: "c2s", capBytes: w.cfg.Cap, badHdrEnd: -1, maxBody: w.cfg.MaxBody, held: first && w.cfg.Burst&1 != 0}
	c.s2c = &dirState{c: c, name: "s2c", capBytes: w.cfg.Cap, badHdrEnd: -1, maxBody: w.cfg.MaxBody, held: first && w.cfg.Burst&2 != 0}
	c.client = &endpoint{w: w, c: c, client: true, in: c.s2c, out: c.c2s}
	c.server = &endpoint{w: w, c: c, client: false, in: c.c2s, out: c.s2c}
	w.conns = append(w.conns, c)
	return c
}

func wake(ch *chan struct{}) {
	if *ch != nil {
		close(*ch)
		*ch = nil
	}
}

func (e *endpoint) side() string {
	if e.client {
		return "client"
	}
	return "server"
}

// Read implements net.Conn. It never parks at the scheduler: it blocks (durably,
// on a channel) until a deliver action made bytes visible.
func (e *endpoint) Read(b []byte) (int, error) {
	w := e.w
	d := e.in
	first := true
	for {
		w.mu.Lock()
		if first {
			first = false
			if len(b) > d.maxReadReq {
				d.maxReadReq = len(b)
			}
			if d.badHdrEnd >= 0 && d.consumed >= d.badHdrEnd && len(b) > 0 {
				d.postBadReads++
				d.postBadBytes += len(b)
			}
		}
		if e.closed {
			w.mu.Unlock()
			return 0, net.ErrClosed
		}
		if len(b) == 0 {
			w.mu.Unlock()
			return 0, nil
		}
		if d.reset {
			e.sawFailure = true
			w.mu.Unlock()
			return 0, errSimReset
		}
		if avail := d.delivered - d.consumed; avail > 0 {
			n := copy(b, d.buf[d.consumed:d.delivered])
			d.consumed += n
			w.mu.Unlock()
			return n, nil
		}
		if d.eofDelivered {
			e.sawFailure = true
			w.mu.Unlock()
			return 0, io.EOF
		}
		if d.dataCh == nil {
			d.dataCh = make(chan struct{})
		}
		ch := d.dataCh
		dl := e.rdl
		w.mu.Unlock()
		if dl.IsZero() {
			<-ch
			continue
		}
		t := time.NewTimer(time.Until(dl))
		select {
		case <-ch:
			t.Stop()
		case <-t.C:
			w.mu.Lock()
			e.sawFailure = true
			w.mu.Unlock()
			return 0, os.ErrDeadlineExceeded
		}
	}
}

// Write implements net.Conn: bytes are copied into the in-flight stream at
// once (the caller's buffer is only borrowed for the call); when the
// direction's capacity is exhausted the writer blocks until a deliver action
// frees space, the write deadline passes, or the connection dies.
func (e *endpoint) Write(b []byte) (int, error) {
	w := e.w
	d := e.out
	n := 0
	w.mu.Lock()
	d.writeCalls++
	w.mu.Unlock()
	for {
		w.mu.Lock()
		d.writerBlocked = false
		if e.closed {
			w.mu.Unlock()
			return n, net.ErrClosed
		}
		if d.reset {
			e.sawFailure = true
			w.mu.Unlock()
			return n, errSimReset
		}
		if d.readerClosed {
			e.sawFailure = true
			w.mu.Unlock()
			return n, errSimBroken
		}
		if space := d.capBytes - d.inflight(); !d.held && space > 0 && n < len(b) {
			take := len(b) - n
			if take > space {
				take = space
			}
			d.appendBytes(b[n : n+take])
			n += take
		}
		if n == len(b) {
			w.mu.Unlock()
			return n, nil
		}
		if d.spaceCh == nil {
			d.spaceCh = make(chan struct{})
		}
		ch := d.spaceCh
		dl := e.wdl
		d.writerBlocked = true
		w.blockedWrites++
		w.mu.Unlock()
		if dl.IsZero() {
			<-ch
			continue
		}
		t := time.NewTimer(time.Until(dl))
		select {
		case <-ch:
			t.Stop()
		case <-t.C:
			w.mu.Lock()
			d.writerBlocked = false
			e.sawFailure = true
			w.writeTimeouts++
			w.mu.Unlock()
			return n, os.ErrDeadlineExceeded
		}
	}
}

// appendBytes adds written bytes to the stream and runs the writer-side frame
// parser over them. Caller holds world.mu.
func (d *dirState) appendBytes(p []byte) {
	for len(p) > 0 {
		if d.cur == nil {
			d.cur = &frameInfo{start: len(d.buf)}
		}
		f := d.cur
		if !f.hdrDone {
			have := len(d.buf) - f.start
			take := wire.HeaderSize - have
			if take > len(p) {
				take = len(p)
			}
			copy(f.hdr[have:], p[:take])
			d.buf = append(d.buf, p[:take]...)
			p = p[take:]
			if have+take == wire.HeaderSize {
				f.hdrDone = true
				f.bodyLen = int(binary.BigEndian.Uint32(f.hdr[16:20]))
				f.end = f.start + wire.HeaderSize + f.bodyLen
				if d.malformed == "" && specMalformed(f.hdr[:], d.maxBody) {
					d.malformed = fmt.Sprintf("at stream offset %d the writer produced the header % x", f.start, f.hdr[:])
				}
				f.body = make([]byte, 0, minInt(f.bodyLen, 1<<16))
			}
		} else {
			left := f.end - len(d.buf)
			take := left
			if take > len(p) {
				take = len(p)
			}
			f.body = append(f.body, p[:take]...)
			d.buf = append(d.buf, p[:take]...)
			p = p[take:]
		}
		if f.hdrDone && len(d.buf) == f.end {
			f.complete = true
			d.frames = append(d.frames, f)
			d.cur = nil
		}
	}
}

func minInt(a, b int) int {
	if a < b {
		return a
	}
	return b
}

// Close implements net.Conn. It never blocks.
func (e *endpoint) Close() error {
	w := e.w
	w.mu.Lock()
	defer w.mu.Unlock()
	if e.closed {
		return net.ErrClosed
	}
	e.closed = true
	e.out.writerClosed = true
	e.in.readerClosed = true
	wake(&e.in.dataCh)   // own blocked Read
	wake(&e.out.spaceCh) // own blocked Write
	wake(&e.in.spaceCh)  // peer's blocked Write into this endpoint: broken pipe
	// the peer's Read sees EOF only when the scheduler delivers it (a sim event)
	return nil
}

func (e *endpoint) LocalAddr() net.Addr  { return simAddr(fmt.Sprintf("%s/c%d", e.side(), e.c.id)) }
func (e *endpoint) RemoteAddr() net.Addr { return simAddr(fmt.Sprintf("peer-of-%s/c%d", e.side(), e.c.id)) }

func (e *endpoint) SetDeadline(t time.Time) error {
	e.w.mu.Lock()
	e.rdl, e.wdl = t, t
	e.w.mu.Unlock()
	return nil
}
func (e *endpoint) SetReadDeadline(t time.Time) error {
	e.w.mu.Lock()
	e.rdl = t
	e.w.mu.Unlock()
	return nil
}
func (e *endpoint) SetWriteDeadline(t time.Time) error {
	e.w.mu.Lock()
	e.wdl = t
	e.w.mu.Unlock()
	return nil
}

// ---- listener / dialer ------------------------------------------------------

type simListener struct {
	ch     chan *endpoint
	closed chan struct{}
	once   sync.Once
}

func newListener() *simListener {
	return &simListener{ch: make(chan *endpoint, 256), closed: make(chan struct{})}
}

func (l *simListener) Accept() (net.Conn, error) {
	select {
	case ep := <-l.ch:
		return ep, nil
	case <-l.closed:
		return nil, net.ErrClosed
	}
}
func (l *simListener) Close() error   { l.once.Do(func() { close(l.closed) }); return nil }
func (l *simListener) Addr() net.Addr { return simAddr("sim-server") }

type dialInfo struct {
	slot int
	op   int
	held bool      // black-holed: no connect/refuse offered, runs into DialTimeout
	ep   *endpoint // filled by the scheduler before a decConnect release
}

type handlerInfo struct {
	op *op
}

// dial is ClientConfig.Dialer. It is reached from peer.Manager.Acquire with no
// repo lock held and parks until the scheduler connects or refuses it, or until
// the configured dial timeout passes in fake time.
func (w *world) dial(network, addr string, timeout time.Duration) (net.Conn, error) {
	w.mu.Lock()
	info := &dialInfo{slot: w.curSlot, op: w.curOp}
	if w.curStep != w.r.Steps || w.curOp < 0 {
		w.infraLocked("dial outside the step that started an op (step %d, started in %d)", w.r.Steps, w.curStep)
	}
	w.dials++
	w.mu.Unlock()
	done := make(chan struct{})
	t := time.AfterFunc(timeout, func() { close(done) })
	defer t.Stop()
	d := w.sim.ParkCtx(done, fmt.Sprintf("DIAL slot%d op%d", info.slot, info.op), info, decDialTimeout)
	switch d {
	case decConnect:
		return info.ep, nil
	case decDialTimeout:
		w.mu.Lock()
		w.dialTimeouts++
		w.mu.Unlock()
		return nil, errSimDialTO
	default:
		return nil, errSimRefused
	}
}

