package store

// Operations of adaptersim: every operation is drawn once (an "intent") and
// instantiated for each store against that store's own reference; the
// reference is then advanced by what the store acknowledged.

import (
	"encoding/binary"
	"fmt"

	ch "github.com/WuKongIM/WuKongIM/pkg/channel"
)

func (w *adWorld) genRecords(n int) []ch.Record {
	tp := w.r.Tape
	out := make([]ch.Record, n)
	for i := range out {
		w.nextID++
		w.uniq++
		ln := []int{1 + tp.Intn(20), 0, 700, 4096}[tp.Weighted([]int{6, 1, 1, 1})]
		p := make([]byte, ln)
		x := w.nextID*0x9e3779b97f4a7c15 + uint64(ln)
		for j := range p {
			x ^= x << 13
			x ^= x >> 7
			x ^= x << 17
			p[j] = byte(x)
		}
		rec := ch.Record{ID: w.nextID, Setting: uint8(tp.Intn(4) * 64), FromUID: []string{"u1", "u2", "", "u\x00"}[tp.Intn(4)],
			ClientMsgNo: fmt.Sprintf("c%d", w.uniq), ServerTimestampMS: 1_700_000_000_000 + int64(tp.Intn(1000)), SyncOnce: tp.Intn(6) == 5,
			Payload: p, SizeBytes: len(p)}
		if tp.Intn(5) == 0 {
			rec.ClientMsgNo = ""
		}
		out[i] = rec
	}
	return out
}

// place returns copies of the template records positioned after base.
func place(tmpl []ch.Record, base, epoch uint64, withIndex bool) []ch.Record {
	out := make([]ch.Record, len(tmpl))
	for i, r := range tmpl {
		out[i] = r
		out[i].Payload = append([]byte(nil), r.Payload...)
		out[i].Epoch = epoch
		if withIndex {
			out[i].Index = base + uint64(i) + 1
		}
	}
	return out
}

func stored(recs []ch.Record, base uint64) []ch.Record {
	out := place(recs, base, 0, true)
	for i := range out {
		out[i].Epoch = recs[i].Epoch
	}
	return out
}

func (w *adWorld) commandID(c *adChan) ch.CommandID {
	w.cmdSeq++
	var id ch.CommandID
	binary.BigEndian.PutUint64(id[0:8], 0xadadad00+uint64(c.idx))
	binary.BigEndian.PutUint64(id[8:16], w.cmdSeq)
	id[31] = 7
	return id
}

func (c *adChan) seal(base uint64, prev ch.EntryIdentity, records []ch.Record, cmd ch.CommandID) (adProp, bool) {
	m := ProposalManifest{Version: ProposalManifestVersion, ChannelEpoch: c.epoch, LeaderTerm: c.term, FenceVersion: c.fence,
		CommandID: cmd, BaseOffset: base, LastOffset: base + uint64(len(records)), PreviousIndex: base}
	if base > 0 {
		m.PreviousTerm, m.PreviousDigest = prev.LeaderTerm, prev.Digest
	}
	sealed, entries, ok := ch.SealProposalManifest(m, records)
	if !ok {
		return adProp{}, false
	}
	return adProp{manifest: sealed, records: stored(records, base), entries: entries}, true
}

// ---- exact leader appends ----

type exactIntent struct {
	kind      string
	tmpl      []ch.Record
	withIndex bool
	pick      int
	gapBy     uint64
	cmd       ch.CommandID
	srv       bool
	class     AppendClass
	frac      int // committed watermark as a percentage of the admissible range, -1 = none
}

var exactKinds = []string{"fresh", "replay", "reused-command", "conflicting-suffix", "gap", "bad-predecessor", "committed-above-proposal", "index-mismatch"}

func (w *adWorld) drawExact(c *adChan) *exactIntent {
	tp := w.r.Tape
	if tp.Intn(6) == 0 {
		c.term++
		if tp.Intn(3) == 0 {
			c.epoch++
			c.fence++
		}
	}
	a := w.c.Awkward
	in := &exactIntent{kind: exactKinds[tp.Weighted([]int{12, 2 + a, a, a, a, a, 1, 1})]}
	in.tmpl = w.genRecords(1 + tp.Weighted([]int{5, 3, 1}))
	in.withIndex = tp.Intn(2) == 0
	in.pick = tp.Intn(1 << 16)
	in.gapBy = 1 + uint64(tp.Intn(3))
	in.cmd = w.commandID(c)
	in.srv = tp.Intn(2) == 0
	in.class = AppendClass(tp.Intn(3))
	in.frac = -1
	if tp.Intn(2) == 0 {
		in.frac = tp.Intn(101)
	}
	return in
}

// buildExact instantiates the intent against one reference. base / prev are
// the frontier the request extends (the reference's own, or the previous item
// of the same batch).
func (c *adChan) buildExact(ref *adRef, in *exactIntent, base uint64, prev ch.EntryIdentity, havePrev bool) (AppendLeaderRequest, adProp, string, bool) {
	kind := in.kind
	if len(ref.chain) == 0 && (kind == "replay" || kind == "reused-command" || kind == "conflicting-suffix") {
		kind = "fresh"
	}
	if kind == "bad-predecessor" && (base == 0 || !havePrev) {
		kind = "fresh"
	}
	cmd := in.cmd
	srv := in.srv
	var p adProp
	ok := true
	switch kind {
	case "replay":
		p = ref.chain[len(ref.chain)-1-in.pick%len(ref.chain)]
		recs := make([]ch.Record, len(p.records))
		for i, r := range p.records {
			recs[i] = r
			recs[i].Payload = append([]byte(nil), r.Payload...)
		}
		req := AppendLeaderRequest{Records: recs, ExactBaseOffset: true, ExpectedBaseOffset: p.manifest.BaseOffset, Proposal: p.manifest, ServerAllocatedMessageIDs: srv, Class: in.class}
		req.Committed = committedFor(ref, in.frac, minUint64(p.manifest.LastOffset, ref.leo))
		return req, p, kind, true
	case "reused-command":
		cmd = ref.chain[in.pick%len(ref.chain)].manifest.CommandID
		srv = false // command ids are content-derived; the allocator fast path relies on that
	case "conflicting-suffix":
		old := ref.chain[in.pick%len(ref.chain)]
		base = old.manifest.BaseOffset
		prev, havePrev = ref.identityAt(base)
	case "gap":
		base += in.gapBy
		prev, havePrev = ch.EntryIdentity{LeaderTerm: c.term, Digest: ch.EntryDigest{9}}, true
	case "bad-predecessor":
		prev.Digest[3] ^= 0x10
	}
	if base > 0 && !havePrev {
		// the log end was moved past the last proposal (boundary adopted ahead of the log): no predecessor proof exists
		prev = ch.EntryIdentity{LeaderTerm: c.term, Digest: ch.EntryDigest{2}}
		if kind == "fresh" {
			kind = "no-predecessor"
		}
	}
	recs := place(in.tmpl, base, c.epoch, in.withIndex)
	p, ok = c.seal(base, prev, recs, cmd)
	if !ok {
		return AppendLeaderRequest{}, adProp{}, kind, false
	}
	req := AppendLeaderRequest{Records: place(in.tmpl, base, c.epoch, in.withIndex), ExactBaseOffset: true, ExpectedBaseOffset: base, Proposal: p.manifest, ServerAllocatedMessageIDs: srv, Class: in.class}
	switch kind {
	case "fresh":
		req.Committed = committedFor(ref, in.frac, p.manifest.LastOffset)
	case "committed-above-proposal":
		req.Committed = p.manifest.LastOffset + 1
	case "index-mismatch":
		req.Records[len(req.Records)-1].Index = p.manifest.LastOffset + 3
	}
	return req, p, kind, true
}

func committedFor(ref *adRef, frac int, limit uint64) uint64 {
	if frac < 0 || limit <= ref.hw {
		return 0
	}
	return ref.hw + (limit-ref.hw)*uint64(frac)/100
}

// settleExact advances one reference by what the store acknowledged and
// reports acknowledgements a sequential log could not have given.
func (w *adWorld) settleExact(s *adSide, req AppendLeaderRequest, p adProp, kind string, res AppendLeaderResult, err error) *adViolation {
	ref := s.ref
	if err != nil || !res.Outcome.Durable() {
		return nil
	}
	if res.Outcome == AppendOutcomeAlreadyDurable {
		for _, q := range ref.chain {
			if q.manifest == req.Proposal {
				if req.Committed > ref.hw {
					ref.hw = req.Committed
				}
				return nil
			}
		}
		return adV(s, "ack:already-durable-for-unknown-proposal", "AppendLeader(%s) base=%d answered AlreadyDurable for a proposal that is not part of its log", kind, req.ExpectedBaseOffset)
	}
	if req.ExpectedBaseOffset != ref.leo {
		return adV(s, "ack:append-not-at-log-end", "AppendLeader(%s) stored a proposal at base %d while the log ends at %d", kind, req.ExpectedBaseOffset, ref.leo)
	}
	if req.ExpectedBaseOffset > 0 {
		tail, ok := ref.tail()
		if !ok || req.Proposal.PreviousDigest != tail.Digest || req.Proposal.PreviousTerm != tail.LeaderTerm {
			return adV(s, "hash-chain:ack-with-wrong-predecessor", "AppendLeader(%s) stored a proposal at base %d whose predecessor identity does not match the stored tail (tail known: %v)", kind, req.ExpectedBaseOffset, ok)
		}
	}
	if res.BaseOffset != p.manifest.BaseOffset+1 || res.LastOffset != p.manifest.LastOffset {
		return adV(s, "ack:append-offsets", "AppendLeader(%s) acknowledged %d..%d for the proposal %d..%d", kind, res.BaseOffset, res.LastOffset, p.manifest.BaseOffset+1, p.manifest.LastOffset)
	}
	ref.addRows(p.records)
	ref.chain = append(ref.chain, p)
	if req.Committed > ref.hw {
		ref.hw = req.Committed
	}
	w.muts[s.which]++
	return nil
}

func (w *adWorld) opExact(op int, c *adChan) {
	tp := w.r.Tape
	nItems := 1 + tp.Weighted([]int{5, 2})
	viaBatch := nItems > 1 || (w.c.Batch > 0 && tp.Intn(3) < w.c.Batch)
	intents := make([]*exactIntent, nItems)
	for i := range intents {
		intents[i] = w.drawExact(c)
		if i > 0 {
			intents[i].kind = "fresh" // adjacent items of one call
			intents[i].class = intents[0].class
		}
	}
	same := c.sides[sideDB].ref.sameAs(c.sides[sideMem].ref)
	type answer struct {
		res AppendLeaderResult
		err error
	}
	var answers [2][]answer
	var kinds []string
	for _, s := range c.sides {
		ref := s.ref
		base := ref.leo
		prev, havePrev := ref.tail()
		var reqs []AppendLeaderRequest
		var props []adProp
		var ks []string
		for i, in := range intents {
			req, p, kind, ok := c.buildExact(ref, in, base, prev, havePrev || (i > 0))
			if !ok {
				break
			}
			reqs, props, ks = append(reqs, req), append(props, p), append(ks, kind)
			if kind != "fresh" {
				break // what follows a refused item depends on call-internal staging
			}
			base, prev, havePrev = p.manifest.LastOffset, p.entries[len(p.entries)-1], true
		}
		if s.which == sideDB {
			kinds = ks
		}
		out := make([]answer, len(reqs))
		if s.which == sideDB && viaBatch {
			items := make([]AppendLeaderBatchItem, len(reqs))
			for i, r := range reqs {
				items[i] = AppendLeaderBatchItem{ChannelKey: c.key, ChannelID: c.id, Request: r}
			}
			for i, r := range w.db.AppendLeaderBatch(w.ctx, items) {
				out[i] = answer{AppendLeaderResult{BaseOffset: r.BaseOffset, LastOffset: r.LastOffset, NeedFrom: r.NeedFrom, Outcome: r.Outcome}, r.Err}
			}
		} else {
			for i, r := range reqs {
				res, err := s.store.AppendLeader(w.ctx, r)
				out[i] = answer{res, err}
			}
		}
		answers[s.which] = out
		for i := range reqs {
			w.r.Logf("op %d %s %s exact append[%d] kind=%s base=%d n=%d committed=%d viaBatch=%v -> %d..%d need=%d outcome=%d err=%v", op, c.key, sideName[s.which], i, ks[i],
				reqs[i].ExpectedBaseOffset, len(reqs[i].Records), reqs[i].Committed, viaBatch && s.which == sideDB, out[i].res.BaseOffset, out[i].res.LastOffset, out[i].res.NeedFrom, out[i].res.Outcome, out[i].err)
			if v := w.settleExact(s, reqs[i], props[i], ks[i], out[i].res, out[i].err); v != nil {
				w.violate(v)
				return
			}
		}
	}
	for _, k := range kinds {
		if k != "fresh" {
			w.awkward++
			w.r.Probe("awkward." + k)
		} else {
			w.r.Probe("op.exact.fresh")
		}
	}
	if viaBatch {
		w.r.Probe("op.exact.batch")
	}
	if same {
		for i := 0; i < len(answers[0]) && i < len(answers[1]) && i < len(kinds); i++ {
			d, m := answers[sideDB][i], answers[sideMem][i]
			if adErrClass(d.err) != adErrClass(m.err) || d.res.Outcome != m.res.Outcome || d.res.NeedFrom != m.res.NeedFrom ||
				(d.err == nil && (d.res.BaseOffset != m.res.BaseOffset || d.res.LastOffset != m.res.LastOffset)) {
				w.diverge("AppendLeader", kinds[i], "memory outcome=%d need=%d err=%v, message db outcome=%d need=%d err=%v", m.res.Outcome, m.res.NeedFrom, m.err, d.res.Outcome, d.res.NeedFrom, d.err)
			}
		}
	}
}

// ---- plain leader appends and follower applies (non-exact channels) ----

func (w *adWorld) opPlainAppend(op int, c *adChan) {
	tp := w.r.Tape
	tmpl := w.genRecords(tp.Weighted([]int{1, 5, 3, 1}))
	srv, class := tp.Intn(2) == 0, AppendClass(tp.Intn(3))
	withCommitted := tp.Intn(12) == 0
	same := c.sides[sideDB].ref.sameAs(c.sides[sideMem].ref)
	var res [2]AppendLeaderResult
	var errs [2]error
	for _, s := range c.sides {
		req := AppendLeaderRequest{Records: place(tmpl, 0, 0, false), ServerAllocatedMessageIDs: srv, Class: class}
		if withCommitted {
			req.Committed = 1
		}
		r, err := s.store.AppendLeader(w.ctx, req)
		res[s.which], errs[s.which] = r, err
		w.r.Logf("op %d %s %s plain append n=%d committed=%d -> %d..%d outcome=%d err=%v", op, c.key, sideName[s.which], len(tmpl), req.Committed, r.BaseOffset, r.LastOffset, r.Outcome, err)
		if err != nil || len(tmpl) == 0 {
			continue
		}
		if r.BaseOffset != s.ref.leo+1 || r.LastOffset != s.ref.leo+uint64(len(tmpl)) {
			w.violate(adV(s, "ack:append-offsets", "plain AppendLeader of %d records acknowledged %d..%d while the log ends at %d", len(tmpl), r.BaseOffset, r.LastOffset, s.ref.leo))
			return
		}
		s.ref.addRows(place(tmpl, s.ref.leo, 0, true))
		w.muts[s.which]++
	}
	w.r.Probe("op.plain.append")
	if same && (adErrClass(errs[0]) != adErrClass(errs[1]) || res[0].Outcome != res[1].Outcome) {
		w.diverge("AppendLeader", "plain", "memory outcome=%d err=%v, message db outcome=%d err=%v", res[sideMem].Outcome, errs[sideMem], res[sideDB].Outcome, errs[sideDB])
	}
}

func (w *adWorld) opApply(op int, c *adChan) {
	tp := w.r.Tape
	a := w.c.Awkward
	kind := []string{"aligned", "gap", "overlap", "index-zero"}[tp.Weighted([]int{10, a, a, 1})]
	tmpl := w.genRecords(tp.Weighted([]int{1, 5, 3, 1}))
	gapBy := 1 + uint64(tp.Intn(2))
	back := 1 + tp.Intn(3)
	hwFrac := -1
	if tp.Intn(2) == 0 {
		hwFrac = tp.Intn(121)
	}
	viaBatch := w.c.Batch > 0 && tp.Intn(3) == 0
	same := c.sides[sideDB].ref.sameAs(c.sides[sideMem].ref)
	var res [2]ApplyFollowerResult
	var errs [2]error
	for _, s := range c.sides {
		ref := s.ref
		base := ref.leo
		k := kind
		var recs []ch.Record
		switch k {
		case "gap":
			base += gapBy
		case "overlap":
			// the stored tail is sent again in front of the new records (a leader answering a retried pull)
			for _, r := range ref.between(ref.leo-minUint64(ref.leo, uint64(back))+1, ref.leo) {
				r.Payload = append([]byte(nil), r.Payload...)
				recs = append(recs, r)
			}
			if len(recs) == 0 {
				k = "aligned"
			}
		}
		recs = append(recs, place(tmpl, base, 0, true)...)
		if k == "index-zero" && len(recs) > 0 {
			recs[0].Index = 0
		}
		hw := uint64(0)
		if hwFrac >= 0 {
			hw = (base + uint64(len(tmpl))) * uint64(hwFrac) / 100
		}
		req := ApplyFollowerRequest{Records: recs, LeaderHW: hw}
		var r ApplyFollowerResult
		var err error
		if s.which == sideDB && viaBatch {
			b := w.db.ApplyFollowerBatch(w.ctx, []ApplyFollowerBatchItem{{ChannelKey: c.key, ChannelID: c.id, Request: req}})[0]
			r, err = ApplyFollowerResult{LEO: b.LEO, CheckpointHW: b.CheckpointHW}, b.Err
		} else {
			r, err = s.store.ApplyFollower(w.ctx, req)
		}
		res[s.which], errs[s.which] = r, err
		w.r.Logf("op %d %s %s follower apply kind=%s first=%d n=%d leaderHW=%d -> leo=%d cphw=%d err=%v", op, c.key, sideName[s.which], k, base+1, len(recs), hw, r.LEO, r.CheckpointHW, err)
		if err != nil {
			continue
		}
		var fresh []ch.Record
		for _, rec := range recs {
			if rec.Index == 0 || rec.Index > ref.leo {
				fresh = append(fresh, rec)
			}
		}
		if r.LEO != ref.leo+uint64(len(fresh)) {
			w.violate(adV(s, "ack:apply-log-end", "ApplyFollower(%s) of %d new records acknowledged log end %d while the log ended at %d", k, len(fresh), r.LEO, ref.leo))
			return
		}
		for i := range fresh {
			fresh[i].Index = ref.leo + uint64(i) + 1
		}
		if len(fresh) > 0 {
			ref.addRows(fresh)
			w.muts[s.which]++
		}
		// the watermark covered by this apply is part of the acknowledgement
		if r.CheckpointHW > ref.hw {
			ref.hw = r.CheckpointHW
		}
	}
	if kind != "aligned" {
		w.awkward++
		w.r.Probe("awkward.apply-" + kind)
	}
	w.r.Probe("op.apply")
	if same && (adErrClass(errs[0]) != adErrClass(errs[1]) || (errs[0] == nil && res[0] != res[1])) {
		w.diverge("ApplyFollower", kind, "memory {leo=%d cphw=%d err=%v}, message db {leo=%d cphw=%d err=%v}", res[sideMem].LEO, res[sideMem].CheckpointHW, errs[sideMem], res[sideDB].LEO, res[sideDB].CheckpointHW, errs[sideDB])
	}
}

// ---- checkpoint, retention ----

func (w *adWorld) opCheckpoint(op int, c *adChan) {
	tp := w.r.Tape
	frac := tp.Intn(101)
	mode := tp.Weighted([]int{8, 1, 1})
	viaBatch := w.c.Batch > 0 && tp.Intn(3) == 0
	var errs [2]error
	for _, s := range c.sides {
		ref := s.ref
		hw := ref.hw
		if ref.leo > hw {
			hw += (ref.leo - hw) * uint64(frac) / 100
		}
		switch mode {
		case 1:
			if ref.hw > 0 {
				hw = ref.hw - 1
			}
		case 2:
			hw = 0
		}
		var err error
		if s.which == sideDB && viaBatch {
			err = w.db.StoreCheckpointBatch(w.ctx, []StoreCheckpointBatchItem{{ChannelKey: c.key, ChannelID: c.id, Checkpoint: ch.Checkpoint{HW: hw}}})[0].Err
		} else {
			err = s.store.StoreCheckpoint(w.ctx, ch.Checkpoint{HW: hw})
		}
		errs[s.which] = err
		w.r.Logf("op %d %s %s store checkpoint hw=%d (acknowledged so far %d) -> err=%v", op, c.key, sideName[s.which], hw, ref.hw, err)
		if err == nil && hw > ref.hw {
			// regressive updates must be ignored: the reference keeps the maximum
			ref.hw = hw
			w.muts[s.which]++
		}
	}
	w.r.Probe("op.checkpoint")
	if adErrClass(errs[0]) != adErrClass(errs[1]) {
		w.diverge("StoreCheckpoint", "", "memory err=%v, message db err=%v", errs[sideMem], errs[sideDB])
	}
}

func (w *adWorld) opAdopt(op int, c *adChan) {
	tp := w.r.Tape
	frac := tp.Intn(101)
	useLEO := tp.Intn(4) == 0
	ahead := tp.Intn(10) == 0
	same := c.sides[sideDB].ref.sameAs(c.sides[sideMem].ref)
	var vals [2]uint64
	var errs [2]error
	for _, s := range c.sides {
		ref := s.ref
		hi := ref.hw
		if hi == 0 || useLEO {
			hi = ref.leo
		}
		if ahead {
			hi = ref.leo + 2 // a boundary adopted ahead of the local log end
		}
		through := hi * uint64(frac) / 100
		v, err := s.store.AdoptRetentionBoundary(w.ctx, through, "committed")
		vals[s.which], errs[s.which] = v, err
		w.r.Logf("op %d %s %s adopt retention boundary through=%d -> %d err=%v", op, c.key, sideName[s.which], through, v, err)
		if err != nil {
			continue
		}
		if through > ref.boundary {
			ref.boundary = through
		}
		if through > ref.leo {
			ref.leo = through
			w.r.Probe("adopt.ahead_of_log_end")
		}
		w.muts[s.which]++
	}
	w.r.Probe("op.adopt")
	if same && (adErrClass(errs[0]) != adErrClass(errs[1]) || (errs[0] == nil && vals[0] != vals[1])) {
		w.diverge("AdoptRetentionBoundary", "", "memory {%d err=%v}, message db {%d err=%v}", vals[sideMem], errs[sideMem], vals[sideDB], errs[sideDB])
	}
}

func (w *adWorld) opTrim(op int, c *adChan) {
	tp := w.r.Tape
	frac := tp.Intn(101)
	beyond := tp.Intn(8) == 0
	opts := RetentionTrimOptions{}
	if tp.Intn(2) == 0 {
		opts.MaxMessages = 1 + tp.Intn(3)
	}
	if tp.Intn(4) == 0 {
		opts.MaxBytes = 1 + tp.Intn(64)
	}
	same := c.sides[sideDB].ref.sameAs(c.sides[sideMem].ref)
	var res [2]RetentionTrimResult
	var errs [2]error
	kind := ""
	for _, s := range c.sides {
		ref := s.ref
		hi := ref.boundary
		if beyond {
			hi += 2
			kind = "beyond-adopted-boundary"
		}
		through := hi * uint64(frac) / 100
		r, err := s.store.TrimMessagesThrough(w.ctx, through, opts)
		res[s.which], errs[s.which] = r, err
		w.r.Logf("op %d %s %s trim through=%d opts=%+v (boundary %d) -> %+v err=%v", op, c.key, sideName[s.which], through, opts, ref.boundary, r, err)
		if err != nil {
			continue
		}
		if r.DeletedThroughSeq > through {
			w.violate(adV(s, "ack:trim-beyond-request", "TrimMessagesThrough(%d) reports rows deleted through %d", through, r.DeletedThroughSeq))
			return
		}
		if n := ref.trimThrough(r.DeletedThroughSeq); n != r.Deleted {
			w.violate(adV(s, "ack:trim-count", "TrimMessagesThrough(%d) reports %d rows deleted through %d, %d acknowledged rows were stored there", through, r.Deleted, r.DeletedThroughSeq, n))
			return
		}
		if r.Deleted > 0 {
			w.muts[s.which]++
		}
	}
	w.r.Probe("op.trim")
	if same && (adErrClass(errs[0]) != adErrClass(errs[1]) || (errs[0] == nil && res[0] != res[1])) {
		if kind == "" && errs[0] == nil && res[0].More != res[1].More {
			kind = "more-flag"
		}
		w.diverge("TrimMessagesThrough", kind, "memory {%+v err=%v}, message db {%+v err=%v}", res[sideMem], errs[sideMem], res[sideDB], errs[sideDB])
	}
}

// ---- recovery suffix replacement (exact channels) ----

func (w *adWorld) opReplace(op int, c *adChan) {
	tp := w.r.Tape
	a := w.c.Awkward
	kind := []string{"valid", "stale-expected", "split-boundary", "committed-above-final", "below-floor"}[tp.Weighted([]int{10, a, 1, 1, a})]
	pick := tp.Intn(1 << 16)
	c.term++
	if tp.Intn(2) == 0 {
		c.epoch++
		c.fence++
	}
	nProps := tp.Weighted([]int{1, 4, 2})
	tmpls := make([][]ch.Record, nProps)
	cmds := make([]ch.CommandID, nProps)
	idx := make([]bool, nProps)
	for i := range tmpls {
		tmpls[i] = w.genRecords(1 + tp.Weighted([]int{4, 2, 1}))
		cmds[i] = w.commandID(c)
		idx[i] = tp.Intn(2) == 0
	}
	frac := -1
	if tp.Intn(2) == 0 {
		frac = tp.Intn(101)
	}
	same := c.sides[sideDB].ref.sameAs(c.sides[sideMem].ref)
	var res [2]ReplaceRecoverySuffixResult
	var errs [2]error
	var kinds [2]string
	for _, s := range c.sides {
		ref := s.ref
		k := kind
		exp, err := s.store.(ExactStateLoader).LoadExactState(w.ctx)
		if err != nil {
			w.r.Logf("op %d %s %s replace skipped: frontier unreadable (%v)", op, c.key, sideName[s.which], err)
			errs[s.which], kinds[s.which] = err, "skipped"
			continue
		}
		floor := ref.hw
		if ref.boundary > floor {
			floor = ref.boundary
		}
		var at, below []uint64
		if floor == 0 {
			at = append(at, 0)
		} else {
			below = append(below, 0)
		}
		for _, p := range ref.chain {
			if l := p.manifest.LastOffset; l >= floor {
				at = append(at, l)
			} else {
				below = append(below, l)
			}
		}
		if len(at) == 0 {
			errs[s.which], kinds[s.which] = nil, "skipped"
			continue
		}
		keep := at[pick%len(at)]
		switch k {
		case "stale-expected":
			exp.LEO++
		case "split-boundary":
			k = "valid"
			for _, p := range ref.chain {
				if m := p.manifest; m.LastOffset == keep && m.LastOffset-m.BaseOffset >= 2 {
					keep--
					k = "split-boundary"
					break
				}
			}
		case "below-floor":
			if len(below) == 0 {
				k = "valid"
			} else {
				keep = below[pick%len(below)]
			}
		}
		prev, _ := ref.identityAt(keep)
		base := keep
		var props []adProp
		var reqs []RecoveryProposal
		for i := range tmpls {
			p, ok := c.seal(base, prev, place(tmpls[i], base, c.epoch, idx[i]), cmds[i])
			if !ok {
				return
			}
			props = append(props, p)
			reqs = append(reqs, RecoveryProposal{Manifest: p.manifest, Records: place(tmpls[i], base, c.epoch, idx[i])})
			prev, base = p.entries[len(p.entries)-1], p.manifest.LastOffset
		}
		committed := exp.HW
		if frac >= 0 && base > committed {
			committed += (base - committed) * uint64(frac) / 100
		}
		if k == "committed-above-final" {
			committed = base + 1
		}
		r, err := s.store.(RecoverySuffixReplacer).ReplaceRecoverySuffix(w.ctx, ReplaceRecoverySuffixRequest{Expected: exp, KeepThrough: keep, Proposals: reqs, Committed: committed})
		res[s.which], errs[s.which], kinds[s.which] = r, err, k
		w.r.Logf("op %d %s %s replace recovery suffix kind=%s keep=%d proposals=%d final=%d committed=%d -> %+v err=%v", op, c.key, sideName[s.which], k, keep, nProps, base, committed, r, err)
		if err != nil || r.Outcome != AppendOutcomeDurable {
			continue
		}
		if keep < ref.hw {
			w.violate(adV(s, "committed-entry-replaced", "ReplaceRecoverySuffix(%s) keeping only %d was acknowledged although %d entries are committed", k, keep, ref.hw))
			return
		}
		if r.LastOffset != base {
			w.violate(adV(s, "ack:replace-offsets", "ReplaceRecoverySuffix acknowledged last offset %d for a replacement ending at %d", r.LastOffset, base))
			return
		}
		ref.cutAbove(keep)
		for _, p := range props {
			ref.addRows(p.records)
			ref.chain = append(ref.chain, p)
		}
		ref.leo = base
		if committed > ref.hw {
			ref.hw = committed
		}
		w.muts[s.which]++
	}
	if kind != "valid" {
		w.awkward++
		w.r.Probe("awkward.replace-" + kind)
	}
	w.r.Probe("op.replace")
	if same && kinds[0] == kinds[1] && kinds[0] != "skipped" && (adErrClass(errs[0]) != adErrClass(errs[1]) || res[0].Outcome != res[1].Outcome) {
		w.diverge("ReplaceRecoverySuffix", kinds[0], "memory {%+v err=%v}, message db {%+v err=%v}", res[sideMem], errs[sideMem], res[sideDB], errs[sideDB])
	}
}
