package store

// Sequential reference of ONE store: the rows, log end, retained start,
// committed watermark and proposal chain implied by what that store itself
// acknowledged. Each store is judged against its own reference, never against
// the other store.

import (
	"sort"

	ch "github.com/WuKongIM/WuKongIM/pkg/channel"
)

type adProp struct {
	manifest ProposalManifest
	records  []ch.Record // Index and Epoch set
	entries  []ch.EntryIdentity
}

type adRef struct {
	rows     map[uint64]ch.Record // acknowledged rows still stored
	leo      uint64
	trimmed  uint64 // highest sequence removed by a retention trim
	boundary uint64 // adopted retention boundary
	hw       uint64 // highest committed watermark the store acknowledged
	chain    []adProp
	retired  []adProp          // proposals removed by an acknowledged suffix replacement
	removed  map[uint64]string // message id -> "trimmed" / "replaced"
}

func newAdRef() *adRef {
	return &adRef{rows: map[uint64]ch.Record{}, removed: map[uint64]string{}}
}

func (r *adRef) clone() *adRef {
	n := *r
	n.rows = make(map[uint64]ch.Record, len(r.rows))
	for k, v := range r.rows {
		n.rows[k] = v
	}
	n.removed = make(map[uint64]string, len(r.removed))
	for k, v := range r.removed {
		n.removed[k] = v
	}
	n.chain = append([]adProp(nil), r.chain...)
	n.retired = append([]adProp(nil), r.retired...)
	return &n
}

// sorted returns the stored rows in ascending sequence order.
func (r *adRef) sorted() []ch.Record {
	out := make([]ch.Record, 0, len(r.rows))
	for _, v := range r.rows {
		out = append(out, v)
	}
	sort.Slice(out, func(i, j int) bool { return out[i].Index < out[j].Index })
	return out
}

// between returns the stored rows with lo <= index <= hi, ascending.
func (r *adRef) between(lo, hi uint64) []ch.Record {
	var out []ch.Record
	for _, v := range r.sorted() {
		if v.Index >= lo && v.Index <= hi {
			out = append(out, v)
		}
	}
	return out
}

// hole reports a gap between stored rows (a boundary adopted ahead of the log
// end followed by appends).
func (r *adRef) hole() bool {
	s := r.sorted()
	return len(s) > 0 && s[len(s)-1].Index-s[0].Index+1 != uint64(len(s))
}

func (r *adRef) tail() (ch.EntryIdentity, bool) {
	if len(r.chain) == 0 {
		return ch.EntryIdentity{}, false
	}
	p := r.chain[len(r.chain)-1]
	if p.manifest.LastOffset != r.leo {
		return ch.EntryIdentity{}, false
	}
	return p.entries[len(p.entries)-1], true
}

func (r *adRef) identityAt(index uint64) (ch.EntryIdentity, bool) {
	for _, p := range r.chain {
		if index > p.manifest.BaseOffset && index <= p.manifest.LastOffset {
			return p.entries[index-p.manifest.BaseOffset-1], true
		}
	}
	return ch.EntryIdentity{}, false
}

func (r *adRef) addRows(recs []ch.Record) {
	for _, rec := range recs {
		r.rows[rec.Index] = rec
		if rec.Index > r.leo {
			r.leo = rec.Index
		}
	}
}

// cutAbove removes rows and proposals above keep (acknowledged replacement).
func (r *adRef) cutAbove(keep uint64) {
	for i, rec := range r.rows {
		if i > keep {
			r.removed[rec.ID] = "replaced"
			delete(r.rows, i)
		}
	}
	kept := r.chain[:0:0]
	for _, p := range r.chain {
		if p.manifest.LastOffset <= keep {
			kept = append(kept, p)
		} else {
			r.retired = append(r.retired, p)
		}
	}
	r.chain = kept
	r.leo = keep
}

// trimThrough removes rows at or below through and returns how many.
func (r *adRef) trimThrough(through uint64) int {
	n := 0
	for i, rec := range r.rows {
		if i <= through {
			r.removed[rec.ID] = "trimmed"
			delete(r.rows, i)
			n++
		}
	}
	if through > r.trimmed {
		r.trimmed = through
	}
	return n
}

// lastSender mirrors the sender-sequence lookup on the reference.
func (r *adRef) lastSender(from string, through uint64) (uint64, bool) {
	s := r.sorted()
	for i := len(s) - 1; i >= 0; i-- {
		if s[i].Index <= through && s[i].FromUID == from && !s[i].SyncOnce {
			return s[i].Index, true
		}
	}
	return 0, false
}

// sameAs reports whether two references describe the same log (then the two
// stores received the same request and their answers can be compared).
func (r *adRef) sameAs(o *adRef) bool {
	if r.leo != o.leo || r.trimmed != o.trimmed || r.boundary != o.boundary || r.hw != o.hw || len(r.rows) != len(o.rows) || len(r.chain) != len(o.chain) {
		return false
	}
	a, aok := r.tail()
	b, bok := o.tail()
	return aok == bok && a == b
}
