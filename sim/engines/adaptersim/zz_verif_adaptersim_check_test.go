package store

// Read-side oracles of adaptersim: one store against its own sequential
// reference (violations), and the two stores against each other (probes).

import (
	"bytes"
	"fmt"

	"github.com/WuKongIM/WuKongIM/internal/verifsim/simkit"
	ch "github.com/WuKongIM/WuKongIM/pkg/channel"
)

func recDiff(want, got ch.Record, withEpoch bool) string {
	switch {
	case want.ID != got.ID || want.Index != got.Index:
		return fmt.Sprintf("stored id/index %d/%d, read %d/%d", want.ID, want.Index, got.ID, got.Index)
	case want.Setting != got.Setting || want.FromUID != got.FromUID || want.ClientMsgNo != got.ClientMsgNo || want.ServerTimestampMS != got.ServerTimestampMS || want.SyncOnce != got.SyncOnce:
		return fmt.Sprintf("index %d: stored {%d %q %q %d %v}, read {%d %q %q %d %v}", want.Index, want.Setting, want.FromUID, want.ClientMsgNo, want.ServerTimestampMS, want.SyncOnce, got.Setting, got.FromUID, got.ClientMsgNo, got.ServerTimestampMS, got.SyncOnce)
	case !bytes.Equal(want.Payload, got.Payload):
		return fmt.Sprintf("index %d: payload differs (%d vs %d bytes)", want.Index, len(want.Payload), len(got.Payload))
	case withEpoch && want.Epoch != got.Epoch:
		return fmt.Sprintf("index %d: epoch stored %d, read %d", want.Index, want.Epoch, got.Epoch)
	}
	return ""
}

func msgDiff(c *adChan, want ch.Record, got ch.Message) string {
	if got.MessageID != want.ID || got.MessageSeq != want.Index || got.ChannelID != c.id.ID || got.ChannelType != c.id.Type || got.Setting != want.Setting ||
		got.FromUID != want.FromUID || got.ClientMsgNo != want.ClientMsgNo || got.ServerTimestampMS != want.ServerTimestampMS || got.SyncOnce != want.SyncOnce || !bytes.Equal(got.Payload, want.Payload) {
		return fmt.Sprintf("stored seq %d id %d {%d %q %q %d %v len=%d}, read seq %d id %d {%q/%d %d %q %q %d %v len=%d}", want.Index, want.ID, want.Setting, want.FromUID, want.ClientMsgNo, want.ServerTimestampMS, want.SyncOnce, len(want.Payload),
			got.MessageSeq, got.MessageID, got.ChannelID, got.ChannelType, got.Setting, got.FromUID, got.ClientMsgNo, got.ServerTimestampMS, got.SyncOnce, len(got.Payload))
	}
	return ""
}

func (w *adWorld) checkAll(tag string) {
	for _, c := range w.ch {
		if w.stop() {
			return
		}
		w.checkChannel(c, true)
	}
	if w.stop() {
		return
	}
	w.fulls++
	if w.disturbed {
		w.fullAfterDisturb = true
		w.disturbed = false
	}
	w.r.Probe("check.full")
	w.r.Logf("full read-back (%s) ok", tag)
}

func (w *adWorld) checkChannel(c *adChan, deep bool) {
	for _, s := range c.sides {
		if v := w.checkSide(c, s, deep, true); v != nil {
			w.violate(v)
			return
		}
	}
	if c.sides[sideDB].ref.sameAs(c.sides[sideMem].ref) {
		w.compareStores(c, deep)
	} else {
		w.r.Probe("references_differ")
	}
	w.r.Logf("  check %s deep=%v ok leo=%d/%d", c.key, deep, c.sides[sideDB].ref.leo, c.sides[sideMem].ref.leo)
}

// rowsProblem classifies a disagreement between a full ascending read and the reference.
func rowsProblem(s *adSide, what string, want, got []ch.Record) *adViolation {
	ref := s.ref
	wi := 0
	for _, g := range got {
		for wi < len(want) && want[wi].Index < g.Index {
			detail := "missing-row"
			if ref.hole() {
				detail = "missing-row-behind-hole"
			}
			return adV(s, what+":"+detail, "%s does not return the acknowledged row %d (id %d); rows stored: %d, returned: %d", what, want[wi].Index, want[wi].ID, len(want), len(got))
		}
		if wi >= len(want) || want[wi].Index != g.Index {
			why := "never-acknowledged-row"
			if r, gone := ref.removed[g.ID]; gone {
				why = r + "-row-returned"
			}
			return adV(s, what+":"+why, "%s returns index %d (id %d) which is not part of the acknowledged log", what, g.Index, g.ID)
		}
		if d := recDiff(want[wi], g, false); d != "" {
			return adV(s, what+":different-row", "%s: %s", what, d)
		}
		wi++
	}
	if wi < len(want) {
		detail := "missing-row"
		if ref.hole() {
			detail = "missing-row-behind-hole"
		}
		return adV(s, what+":"+detail, "%s does not return the acknowledged row %d (id %d); rows stored: %d, returned: %d", what, want[wi].Index, want[wi].ID, len(want), len(got))
	}
	return nil
}

// checkSide judges one store against its own reference.
func (w *adWorld) checkSide(c *adChan, s *adSide, deep bool, draw bool) *adViolation {
	ctx, tp, ref, st := w.ctx, w.r.Tape, s.ref, s.store
	in, err := st.Load(ctx)
	if err != nil {
		return adV(s, "load:error", "Load(%s): %v", c.key, err)
	}
	if in.LEO != ref.leo {
		return adV(s, "log-end", "Load(%s) reports log end %d, the acknowledged history ends at %d (stored rows %d, boundary %d)", c.key, in.LEO, ref.leo, len(ref.rows), ref.boundary)
	}
	if in.HW > in.LEO {
		return adV(s, "watermark:above-log-end", "Load(%s) reports committed watermark %d above the log end %d", c.key, in.HW, in.LEO)
	}
	if want := minUint64(ref.hw, ref.leo); in.CheckpointHW != want {
		return adV(s, "watermark:value", "Load(%s) reports committed watermark %d, the highest acknowledged watermark is %d (log end %d)", c.key, in.CheckpointHW, ref.hw, ref.leo)
	}
	all := ref.sorted()
	lg, err := st.ReadLog(ctx, ReadLogRequest{FromOffset: 1, MaxBytes: 1 << 30})
	if err != nil {
		return adV(s, "read-log:error", "ReadLog(%s,1..): %v", c.key, err)
	}
	if v := rowsProblem(s, "read-log", all, lg.Records); v != nil {
		return v
	}
	// contiguity from the retained start to the log end
	start := ref.trimmed
	if ref.boundary > start {
		start = ref.boundary
	}
	for i := 1; i < len(lg.Records); i++ {
		if lg.Records[i].Index != lg.Records[i-1].Index+1 && lg.Records[i-1].Index > start {
			return adV(s, "read-log:not-contiguous", "ReadLog(%s): %d follows %d above the retained start %d", c.key, lg.Records[i].Index, lg.Records[i-1].Index, start)
		}
	}
	if len(lg.Records) > 0 && lg.Records[0].Index <= ref.trimmed {
		return adV(s, "read-log:trimmed-row-returned", "ReadLog(%s) starts at %d although rows through %d were trimmed", c.key, lg.Records[0].Index, ref.trimmed)
	}
	if !deep {
		return nil
	}
	leo := ref.leo
	// bounded log reads: a consecutive prefix of the rows in range, never empty while rows exist
	type rl struct {
		from, max uint64
		bytes     int
	}
	reads := []rl{{leo/2 + 1, 0, 1 << 20}, {1, leo, 40}}
	if draw {
		reads = append(reads, rl{1 + uint64(tp.Intn(int(leo)+1)), uint64(tp.Intn(int(leo) + 2)), []int{1, 30, 5000, 1 << 20}[tp.Intn(4)]})
	}
	for _, q := range reads {
		hi := q.max
		if hi == 0 || hi > leo {
			hi = leo
		}
		want := ref.between(q.from, hi)
		got, err := st.ReadLog(ctx, ReadLogRequest{FromOffset: q.from, MaxOffset: q.max, MaxBytes: q.bytes})
		if err != nil {
			return adV(s, "read-log:error", "ReadLog(%s,%+v): %v", c.key, q, err)
		}
		if len(got.Records) > len(want) {
			return adV(s, "read-log:outside-range", "ReadLog(%s,from=%d,max=%d) returns %d rows, %d acknowledged rows are in range", c.key, q.from, q.max, len(got.Records), len(want))
		}
		if v := rowsProblem(s, "read-log", want[:len(got.Records)], got.Records); v != nil {
			return v
		}
		if len(got.Records) == 0 && len(want) > 0 {
			return adV(s, "read-log:empty-page", "ReadLog(%s,from=%d,max=%d,bytes=%d) returns nothing while %d acknowledged rows are in range", c.key, q.from, q.max, q.bytes, len(want))
		}
	}
	if v := w.checkCommittedReads(c, s, draw); v != nil {
		return v
	}
	// lookups
	for i, r := range all {
		if i%3 != 0 && i != len(all)-1 {
			continue
		}
		m, ok, err := st.(MessageLookup).LookupMessageByID(ctx, r.ID)
		if err != nil || !ok {
			detail := "missing"
			if ref.hole() {
				detail = "missing-behind-hole"
			}
			return adV(s, "lookup-message-id:"+detail, "LookupMessageByID(%s,%d) = found %v err %v, the row is stored at %d", c.key, r.ID, ok, err, r.Index)
		}
		if d := msgDiff(c, r, m); d != "" {
			return adV(s, "lookup-message-id:different-row", "LookupMessageByID(%s,%d): %s", c.key, r.ID, d)
		}
		if il, has := st.(IdempotencyLookup); has && r.FromUID != "" && r.ClientMsgNo != "" {
			hit, ok, err := il.LookupIdempotency(ctx, r.FromUID, r.ClientMsgNo)
			if err != nil || !ok {
				return adV(s, "lookup-idempotency:missing", "LookupIdempotency(%s,%q,%q) = found %v err %v, the row is stored at %d", c.key, r.FromUID, r.ClientMsgNo, ok, err, r.Index)
			}
			if d := msgDiff(c, r, hit.Message); d != "" {
				return adV(s, "lookup-idempotency:different-row", "LookupIdempotency(%s,%q,%q): %s", c.key, r.FromUID, r.ClientMsgNo, d)
			}
		}
	}
	n := 0
	for _, id := range simkit.SortedIntKeys(ref.removed) {
		if n++; n > 12 {
			break
		}
		if m, ok, err := st.(MessageLookup).LookupMessageByID(ctx, id); err != nil || ok {
			return adV(s, "lookup-message-id:"+ref.removed[id]+"-row-returned", "LookupMessageByID(%s,%d) = seq %d found %v err %v for a %s row", c.key, id, m.MessageSeq, ok, err, ref.removed[id])
		}
	}
	froms := map[string]bool{}
	for _, r := range all {
		if r.FromUID != "" {
			froms[r.FromUID] = true
		}
	}
	for _, from := range simkit.SortedKeys(froms) {
		for _, through := range []uint64{leo, ref.hw, leo/2 + 1} {
			if through == 0 {
				continue
			}
			got, ok, err := st.(SenderSequenceLookup).GetLastSenderMessageSeq(ctx, from, through)
			want, wok := ref.lastSender(from, through)
			if err != nil || ok != wok || got != want {
				return adV(s, "lookup-sender-seq", "GetLastSenderMessageSeq(%s,%q,%d) = %d %v err %v, the stored rows say %d %v", c.key, from, through, got, ok, err, want, wok)
			}
		}
	}
	if !c.exact {
		return nil
	}
	return w.checkExactReads(c, s, draw)
}

// checkCommittedReads: pages are prefixes of the rows in range, in order, and
// the cursor lets a reader make progress without skipping a row.
func (w *adWorld) checkCommittedReads(c *adChan, s *adSide, draw bool) *adViolation {
	tp, ref := w.r.Tape, s.ref
	leo, hw := ref.leo, minUint64(ref.hw, ref.leo)
	var qs []ReadCommittedRequest
	if hw > 0 {
		qs = append(qs, ReadCommittedRequest{FromSeq: 1, MaxSeq: hw, Limit: 100, MaxBytes: 1 << 20}, ReadCommittedRequest{FromSeq: hw, MaxSeq: hw, Limit: 3, MaxBytes: 1 << 20, Reverse: true})
	}
	if draw && leo > 0 {
		qs = append(qs, ReadCommittedRequest{FromSeq: 1 + uint64(tp.Intn(int(leo))), MaxSeq: uint64(tp.Intn(int(leo) + 2)), MinSeq: uint64(tp.Intn(3)) * uint64(tp.Intn(int(leo)+1)),
			Limit: 1 + tp.Intn(5), MaxBytes: []int{1 << 20, 50, 5000}[tp.Intn(3)], Reverse: tp.Intn(2) == 0})
	}
	if n := len(qs); draw && n > 0 && qs[n-1].Reverse && qs[n-1].MaxSeq > 0 && qs[n-1].FromSeq > qs[n-1].MaxSeq && tp.Intn(6) != 5 {
		// a reverse read that starts above its upper bound is kept to one drawn request in six
		qs[n-1].MaxSeq = qs[n-1].FromSeq
	}
	for _, q := range qs {
		res, err := s.store.ReadCommitted(w.ctx, q)
		if err != nil {
			return adV(s, "read-committed:error", "ReadCommitted(%s,%+v): %v", c.key, q, err)
		}
		var want []ch.Record
		shape := "forward"
		if !q.Reverse {
			lo := q.FromSeq
			if lo == 0 {
				lo = 1
			}
			if q.MinSeq > lo {
				lo = q.MinSeq
			}
			hi := q.MaxSeq
			if hi == 0 || hi > leo {
				hi = leo
			}
			want = ref.between(lo, hi)
		} else {
			shape = "reverse"
			hi := q.FromSeq
			if hi == 0 || hi > leo {
				hi = leo
			}
			if q.MaxSeq > 0 && hi > q.MaxSeq {
				shape = "reverse-from-above-max"
				hi = q.MaxSeq
			}
			lo := q.MinSeq
			if lo == 0 {
				lo = 1
			}
			asc := ref.between(lo, hi)
			for i := len(asc) - 1; i >= 0; i-- {
				want = append(want, asc[i])
			}
		}
		got := res.Messages
		if len(got) > len(want) {
			return adV(s, "read-committed-"+shape+":outside-range", "ReadCommitted(%s,%+v) returns %d messages, %d acknowledged rows are in range", c.key, q, len(got), len(want))
		}
		for i, m := range got {
			if d := msgDiff(c, want[i], m); d != "" {
				why := "different-or-skipped-row"
				if r, gone := ref.removed[m.MessageID]; gone {
					why = r + "-row-returned"
				}
				return adV(s, "read-committed-"+shape+":"+why, "ReadCommitted(%s,%+v)[%d]: %s", c.key, q, i, d)
			}
		}
		if len(got) == 0 && len(want) > 0 {
			return adV(s, "read-committed-"+shape+":empty-page", "ReadCommitted(%s,%+v) returns no message (cursor %d) while %d acknowledged rows are in range, first %d", c.key, q, res.NextSeq, len(want), want[0].Index)
		}
		if len(got) > 0 {
			last := got[len(got)-1].MessageSeq
			stuck := (!q.Reverse && res.NextSeq <= last) || (q.Reverse && res.NextSeq >= last)
			skips := len(got) < len(want) && ((!q.Reverse && res.NextSeq > want[len(got)].Index) || (q.Reverse && res.NextSeq < want[len(got)].Index))
			if stuck {
				return adV(s, "read-committed-"+shape+":cursor-no-progress", "ReadCommitted(%s,%+v) returned %d messages ending at %d with cursor %d", c.key, q, len(got), last, res.NextSeq)
			}
			if skips {
				return adV(s, "read-committed-"+shape+":cursor-skips-row", "ReadCommitted(%s,%+v) returned %d messages ending at %d with cursor %d although row %d is next in range", c.key, q, len(got), last, res.NextSeq, want[len(got)].Index)
			}
		}
	}
	return nil
}

// checkExactReads: frontier, identities (hash chain), proposals by command
// and donor pages against the acknowledged proposal chain.
func (w *adWorld) checkExactReads(c *adChan, s *adSide, draw bool) *adViolation {
	ctx, tp, ref, st := w.ctx, w.r.Tape, s.ref, s.store
	tail, haveTail := ref.tail()
	ex, err := st.(ExactStateLoader).LoadExactState(ctx)
	if err == nil {
		if ex.LEO != ref.leo || ex.HW > ex.LEO {
			return adV(s, "exact-state:log-end-or-watermark", "LoadExactState(%s) = leo %d hw %d, acknowledged log end %d", c.key, ex.LEO, ex.HW, ref.leo)
		}
		if ex.HW != ref.hw {
			return adV(s, "watermark:value", "LoadExactState(%s) reports committed watermark %d, the highest acknowledged watermark is %d", c.key, ex.HW, ref.hw)
		}
		if ref.leo > 0 && (!haveTail || ex.TailIdentity != tail) {
			return adV(s, "hash-chain:tail-identity", "LoadExactState(%s) returns a tail identity that is not the acknowledged one at %d (known: %v)", c.key, ref.leo, haveTail)
		}
	}
	// every identity of the stored chain (position-aligned), plus one past the end
	var idx []uint64
	for _, p := range ref.chain {
		for _, e := range p.entries {
			idx = append(idx, e.Index)
		}
	}
	if len(idx) > 60 {
		idx = idx[len(idx)-60:]
	}
	idx = append(idx, ref.leo+1)
	if rs, err := st.(ExactRecoveryStateLoader).LoadExactRecoveryState(ctx, idx); err == nil {
		for i, probe := range rs.Entries {
			want, have := ref.identityAt(idx[i])
			if probe.Present != (have && idx[i] <= ref.leo) || (probe.Present && probe.Identity != want) {
				return adV(s, "hash-chain:entry-identity", "LoadExactRecoveryState(%s) index %d: present=%v, acknowledged identity present=%v equal=%v", c.key, idx[i], probe.Present, have, probe.Identity == want)
			}
		}
	}
	// proposals by command: live ones complete, replaced ones gone
	for i := len(ref.chain) - 1; i >= 0 && i >= len(ref.chain)-4; i-- {
		p := ref.chain[i]
		if p.manifest.BaseOffset < ref.trimmed {
			continue
		}
		got, ok, err := st.(ExactProposalLookup).LoadExactProposal(ctx, ExactProposalRequest{CommandID: p.manifest.CommandID, MaxRecords: 64, MaxBytes: 1 << 24})
		if err != nil || !ok {
			return adV(s, "exact-proposal:missing", "LoadExactProposal(%s,%x) = found %v err %v for the stored proposal %d..%d", c.key, p.manifest.CommandID[8:16], ok, err, p.manifest.BaseOffset+1, p.manifest.LastOffset)
		}
		if got.Manifest != p.manifest || len(got.Records) != len(p.records) {
			return adV(s, "exact-proposal:different", "LoadExactProposal(%s,%x) returns %d records / another manifest for the stored proposal %d..%d", c.key, p.manifest.CommandID[8:16], len(got.Records), p.manifest.BaseOffset+1, p.manifest.LastOffset)
		}
		for j := range got.Records {
			if d := recDiff(p.records[j], got.Records[j], true); d != "" {
				return adV(s, "exact-proposal:different-row", "LoadExactProposal(%s,%x)[%d]: %s", c.key, p.manifest.CommandID[8:16], j, d)
			}
		}
	}
	for i, p := range ref.retired {
		if i >= 6 {
			break
		}
		live := false
		for _, q := range ref.chain {
			if q.manifest.CommandID == p.manifest.CommandID {
				live = true
			}
		}
		if live {
			continue
		}
		if _, ok, err := st.(ExactProposalLookup).LoadExactProposal(ctx, ExactProposalRequest{CommandID: p.manifest.CommandID, MaxRecords: 64, MaxBytes: 1 << 24}); err == nil && ok {
			return adV(s, "exact-proposal:replaced-proposal-returned", "LoadExactProposal(%s,%x) still returns the replaced proposal %d..%d", c.key, p.manifest.CommandID[8:16], p.manifest.BaseOffset+1, p.manifest.LastOffset)
		}
	}
	// donor page from a live proposal boundary to the log end
	var live []adProp
	for _, p := range ref.chain {
		if p.manifest.BaseOffset >= ref.trimmed {
			live = append(live, p)
		}
	}
	if len(live) == 0 || !haveTail || err != nil {
		return nil
	}
	start := live[0]
	if draw {
		start = live[tp.Intn(len(live))]
	}
	from := start.manifest.BaseOffset + 1
	if ref.leo < from || ref.leo-from >= 256 {
		return nil
	}
	q := ExactRecoveryPageRequest{From: from, Through: ref.leo, MaxBytes: 1 << 24}
	if draw && tp.Intn(3) == 0 {
		q.MaxBytes = 200 + tp.Intn(3000)
	}
	page, perr := st.(ExactRecoveryPageReader).ReadExactRecoveryPage(ctx, q)
	if perr != nil {
		return nil // a refused page tells the reader so (budget, readiness); not a content clause
	}
	want := ref.between(from, ref.leo)
	if len(page.Records) == 0 || len(page.Records) > len(want) || len(page.Entries) != len(page.Records) {
		return adV(s, "recovery-page:empty-or-outside-range", "ReadExactRecoveryPage(%s,%+v) returns %d records / %d entries, %d acknowledged rows are in range", c.key, q, len(page.Records), len(page.Entries), len(want))
	}
	for j, rec := range page.Records {
		if d := recDiff(want[j], rec, true); d != "" {
			return adV(s, "recovery-page:different-or-skipped-row", "ReadExactRecoveryPage(%s,%+v)[%d]: %s", c.key, q, j, d)
		}
		id, _ := ref.identityAt(rec.Index)
		if !page.Entries[j].Present || page.Entries[j].Identity != id {
			return adV(s, "hash-chain:page-identity", "ReadExactRecoveryPage(%s,%+v)[%d]: identity of index %d is not the acknowledged one", c.key, q, j, rec.Index)
		}
	}
	return nil
}

// compareStores notes differences between the two stores that are outside the
// listed properties (only called while both references describe the same log).
func (w *adWorld) compareStores(c *adChan, deep bool) {
	ctx := w.ctx
	d, m := c.sides[sideDB].store, c.sides[sideMem].store
	ref := c.sides[sideDB].ref
	dr, de := d.LoadRetentionState(ctx)
	mr, me := m.LoadRetentionState(ctx)
	if adErrClass(de) != adErrClass(me) || dr != mr {
		detail := "physical-boundary"
		if dr.PhysicalRetentionThroughSeq == mr.PhysicalRetentionThroughSeq {
			detail = "retained-max"
		}
		w.diverge("LoadRetentionState", detail, "memory %+v err=%v, message db %+v err=%v", mr, me, dr, de)
	}
	ds, de := d.(ExactStateLoader).LoadExactState(ctx)
	ms, me := m.(ExactStateLoader).LoadExactState(ctx)
	if adErrClass(de) != adErrClass(me) || (de == nil && ds != ms) {
		w.diverge("LoadExactState", "", "memory err=%v leo=%d hw=%d, message db err=%v leo=%d hw=%d", me, ms.LEO, ms.HW, de, ds.LEO, ds.HW)
	}
	if !deep {
		return
	}
	leo, hw := ref.leo, minUint64(ref.hw, ref.leo)
	qs := []ReadCommittedRequest{{FromSeq: 1, MaxSeq: leo, Limit: 2, MaxBytes: 1 << 20}, {FromSeq: leo, MaxSeq: leo, Limit: 3, MaxBytes: 1 << 20, Reverse: true},
		{FromSeq: hw + 1, MaxSeq: hw, Limit: 3, MaxBytes: 1 << 20}, {FromSeq: 0, MaxSeq: leo, Limit: 3, MaxBytes: 1 << 20}}
	for _, q := range qs {
		a, ae := m.ReadCommitted(ctx, q)
		b, be := d.ReadCommitted(ctx, q)
		if adErrClass(ae) != adErrClass(be) {
			w.diverge("ReadCommitted", "error-class", "%+v: memory err=%v, message db err=%v", q, ae, be)
		} else if ae == nil && len(a.Messages) == len(b.Messages) && a.NextSeq != b.NextSeq {
			kind := "next-seq-forward"
			if q.Reverse {
				kind = "next-seq-reverse"
			}
			w.diverge("ReadCommitted", kind, "%+v: same %d messages, memory cursor %d, message db cursor %d", q, len(a.Messages), a.NextSeq, b.NextSeq)
		} else if ae == nil && len(a.Messages) != len(b.Messages) {
			w.diverge("ReadCommitted", "page-length", "%+v: memory %d messages, message db %d", q, len(a.Messages), len(b.Messages))
		}
	}
	if a, ae := m.ReadLog(ctx, ReadLogRequest{FromOffset: 1}); true {
		b, be := d.ReadLog(ctx, ReadLogRequest{FromOffset: 1})
		if adErrClass(ae) != adErrClass(be) || len(a.Records) != len(b.Records) {
			w.diverge("ReadLog", "unlimited-byte-budget", "MaxBytes=0: memory %d records err=%v, message db %d records err=%v", len(a.Records), ae, len(b.Records), be)
		}
	}
	if !c.exact || len(ref.chain) == 0 {
		return
	}
	first := ref.chain[0]
	from := first.manifest.BaseOffset + 1
	if leo >= from && leo-from < 256 {
		for _, budget := range []int{1 << 24, 700} {
			q := ExactRecoveryPageRequest{From: from, Through: leo, MaxBytes: budget}
			a, ae := m.(ExactRecoveryPageReader).ReadExactRecoveryPage(ctx, q)
			b, be := d.(ExactRecoveryPageReader).ReadExactRecoveryPage(ctx, q)
			if adErrClass(ae) != adErrClass(be) || len(a.Records) != len(b.Records) {
				detail := "byte-budget"
				if first.manifest.BaseOffset < ref.trimmed {
					detail = "trimmed-range"
				}
				w.diverge("ReadExactRecoveryPage", detail, "%+v: memory %d records err=%v, message db %d records err=%v", q, len(a.Records), ae, len(b.Records), be)
			}
		}
	}
}
