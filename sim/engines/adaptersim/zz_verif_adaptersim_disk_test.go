package store

// Simulated disk of the adaptersim engine: pebble's crashable in-memory file
// system behind a gate that numbers every mutating call and, while cloning is
// switched on, takes a process-kill and a power-loss clone before the call.

import (
	"math/rand/v2"
	"os"
	"strings"
	"sync"

	"github.com/cockroachdb/pebble/v2/vfs"
)

type adCrashPoint struct {
	k     int
	kind  string
	kill  *vfs.MemFS
	power *vfs.MemFS
}

type adDisk struct {
	mem     *vfs.MemFS
	mu      sync.Mutex
	ops     int
	cloning bool
	points  []*adCrashPoint
}

func newAdDisk(mem *vfs.MemFS) *adDisk {
	if mem == nil {
		mem = vfs.NewCrashableMem()
		mem.MkdirAll("/db", 0o755)
		if root, err := mem.OpenDir("/"); err == nil {
			root.Sync()
			root.Close()
		}
	}
	return &adDisk{mem: mem}
}

func (d *adDisk) gate(kind string, op func()) {
	d.mu.Lock()
	defer d.mu.Unlock()
	if d.cloning {
		d.takeLocked(kind)
	}
	d.ops++
	op()
}

func (d *adDisk) takeLocked(kind string) {
	d.points = append(d.points, &adCrashPoint{k: d.ops, kind: kind,
		kill:  d.mem.CrashClone(vfs.CrashCloneCfg{UnsyncedDataPercent: 100, RNG: rand.New(rand.NewPCG(1, 1))}),
		power: d.mem.CrashClone(vfs.CrashCloneCfg{UnsyncedDataPercent: 0})})
}

func (d *adDisk) takeNow(kind string) {
	d.mu.Lock()
	defer d.mu.Unlock()
	d.takeLocked(kind)
}

func (d *adDisk) drain() []*adCrashPoint {
	d.mu.Lock()
	defer d.mu.Unlock()
	ps := d.points
	d.points = nil
	return ps
}

func (d *adDisk) setCloning(on bool) {
	d.mu.Lock()
	d.cloning = on
	d.mu.Unlock()
}

func (d *adDisk) fs() vfs.FS { return &adGateFS{FS: d.mem, d: d} }

type adGateFS struct {
	vfs.FS
	d    *adDisk
	last string // name of the file being opened (set under the disk mutex)
}

func (g *adGateFS) wrap(f vfs.File, err error, dir bool) (vfs.File, error) {
	if err != nil {
		return nil, err
	}
	return &adGateFile{File: f, d: g.d, dir: dir, name: g.last}, nil
}

func (g *adGateFS) Create(name string, c vfs.DiskWriteCategory) (f vfs.File, err error) {
	g.d.gate("create", func() { g.last = name; f, err = g.wrapPair(g.FS.Create(name, c)) })
	return f, err
}

func (g *adGateFS) wrapPair(f vfs.File, err error) (vfs.File, error) { return g.wrap(f, err, false) }

func (g *adGateFS) Link(oldname, newname string) (err error) {
	g.d.gate("link", func() { err = g.FS.Link(oldname, newname) })
	return err
}

func (g *adGateFS) OpenReadWrite(name string, c vfs.DiskWriteCategory, opts ...vfs.OpenOption) (f vfs.File, err error) {
	g.d.gate("openrw", func() { g.last = name; f, err = g.wrapPair(g.FS.OpenReadWrite(name, c, opts...)) })
	return f, err
}

func (g *adGateFS) OpenDir(name string) (vfs.File, error) {
	f, err := g.FS.OpenDir(name)
	return g.wrap(f, err, true)
}

func (g *adGateFS) Remove(name string) (err error) {
	g.d.gate("remove", func() { err = g.FS.Remove(name) })
	return err
}

func (g *adGateFS) RemoveAll(name string) (err error) {
	g.d.gate("removeall", func() { err = g.FS.RemoveAll(name) })
	return err
}

func (g *adGateFS) Rename(oldname, newname string) (err error) {
	g.d.gate("rename", func() { err = g.FS.Rename(oldname, newname) })
	return err
}

func (g *adGateFS) ReuseForWrite(oldname, newname string, c vfs.DiskWriteCategory) (f vfs.File, err error) {
	g.d.gate("reuse", func() { g.last = newname; f, err = g.wrapPair(g.FS.ReuseForWrite(oldname, newname, c)) })
	return f, err
}

func (g *adGateFS) MkdirAll(dir string, perm os.FileMode) (err error) {
	g.d.gate("mkdir", func() { err = g.FS.MkdirAll(dir, perm) })
	return err
}

func (g *adGateFS) Unwrap() vfs.FS { return g.FS }

type adGateFile struct {
	vfs.File
	d    *adDisk
	dir  bool
	name string
}

func (f *adGateFile) Write(p []byte) (n int, err error) {
	f.d.gate("write", func() { n, err = f.File.Write(p) })
	return n, err
}

func (f *adGateFile) WriteAt(p []byte, off int64) (n int, err error) {
	f.d.gate("writeat", func() { n, err = f.File.WriteAt(p, off) })
	return n, err
}

func (f *adGateFile) Sync() (err error) {
	kind := "sync"
	if f.dir {
		kind = "syncdir"
	}
	if !f.dir && strings.HasSuffix(f.name, ".log") {
		kind = "walsync"
	}
	f.d.gate(kind, func() { err = f.File.Sync() })
	return err
}

func (f *adGateFile) SyncData() (err error) {
	kind := "syncdata"
	if strings.HasSuffix(f.name, ".log") {
		kind = "walsync"
	}
	f.d.gate(kind, func() { err = f.File.SyncData() })
	return err
}
