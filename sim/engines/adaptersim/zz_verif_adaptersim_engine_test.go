package store

// adaptersim (part C07adapter of C07): the two implementations of the channel
// store interface consumed by the replication layer - MessageDBFactory /
// messageDBChannelStoreAdapter (production, over pkg/db/message on a simulated
// disk) and MemoryFactory / MemoryChannelStore (the in-memory double used by
// the repo's tests and by other simulators) - are driven through the interface
// by the same tape-chosen operation sequence.
//
// VIOLATIONS are only raised for clauses of the property statement, and each
// store is judged against the sequential reference the harness keeps from what
// THAT store acknowledged (never against the other store):
//   - read content: ReadLog, ReadCommitted forward / reverse, exact proposal
//     and recovery page reads return exactly the acknowledged rows of the
//     requested range, byte-identical, no removed row, no row of a replaced
//     suffix; a short page must let the reader make progress through its
//     cursor (an empty page while rows exist in range is a violation);
//   - lookups by message id, by (sender, client number) and by sender sequence
//     agree with the stored rows;
//   - log end, retained start and committed watermark are consistent with the
//     acknowledged history (contiguity above the retained start), also after
//     close / reopen and crash-restart of the MessageDB side;
//   - (C02, cheap) stored entry identities equal the acknowledged hash chain,
//     watermark <= log end, no committed entry is replaced.
// Everything else that differs between the two stores (outcome / error
// classes of malformed requests, cursor conventions, More flags, page byte
// accounting, retention bookkeeping) is a probe divergence.<operation> plus a
// NOTE trace line; it never ends a run.

import (
	"context"
	"errors"
	"fmt"
	"runtime"
	"testing"
	"time"

	"github.com/WuKongIM/WuKongIM/internal/verifsim/simkit"
	ch "github.com/WuKongIM/WuKongIM/pkg/channel"
	channelcompat "github.com/WuKongIM/WuKongIM/pkg/db/message/channelcompat"
	"github.com/WuKongIM/WuKongIM/pkg/db/verifhook"
	"github.com/cockroachdb/pebble/v2"
	"github.com/cockroachdb/pebble/v2/vfs"
)

func TestVerifSimAdapter(t *testing.T) {
	simkit.Main(t, simkit.Engine{
		Name:  "adaptersim",
		Props: map[string]simkit.PropFunc{"C07adapter": runAdapter},
		Real: []string{"store.MessageDBFactory + messageDBChannelStoreAdapter (AppendLeader, AppendLeaderBatch, ApplyFollower, ApplyFollowerBatch, StoreCheckpoint, StoreCheckpointBatch, retention adopt/trim, ReplaceRecoverySuffix, Load, LoadExactState, LoadExactRecoveryState, LoadExactProposal, ReadExactRecoveryPage, ReadLog, ReadCommitted, lookups)",
			"pkg/db/message engine, commit coordinator and Pebble underneath it", "store.MemoryFactory + MemoryChannelStore (same interface)"},
		Stub: []string{"disk of the MessageDB side: pebble vfs.NewCrashableMem behind a counting/cloning gate (crash = CrashClone 100% / 0%)", "the replication layer (tape-driven caller of the interface)", "clock (synctest)"},
		Rule: "One run = one synctest bubble, 1-3 channels (exact-proposal or plain), 15-45 tape-chosen interface operations applied to both stores (each request instantiated against the store's own acknowledged log), with reopen and crash-restart of the MessageDB side. " +
			"Non-trivial = at least 6 mutations acknowledged by the MessageDB side and 6 by the memory side, at least one awkward request answered, and a full read-back after a reopen or crash-restart (one run in four has no reopen / crash and needs 10 mutations per side).",
		Assumptions: []string{"testing/synctest fake clock and quiescence (go1.26.8)", "pebble vfs.MemFS crash clones model process kill and power loss",
			"the caller honours the contracts both stores rely on: message ids and (sender, client message number) keys are unique, server timestamps are positive, Record.SizeBytes is the payload length, command ids are content-derived (a reused command id is only sent without the allocator-issued-ids flag)",
			"the reference follows acknowledgements: a store that refuses a valid request is not a violation of this part"},
	})
}

type adCfg struct {
	Channels int
	Exact    []bool
	Ops      int
	NoFaults bool
	Awkward  int
	Window   time.Duration
	Shards   int
	MemTable int
	Batch    int
	Retain   int
}

func drawAdCfg(r *simkit.Run) adCfg {
	tp := r.Tape
	c := adCfg{}
	c.Channels = 1 + tp.Weighted([]int{3, 3, 2})
	for i := 0; i < c.Channels; i++ {
		c.Exact = append(c.Exact, tp.Intn(4) != 3)
	}
	c.Ops = 15 + tp.Intn(31)
	c.NoFaults = tp.Intn(4) == 0
	c.Awkward = 1 + tp.Intn(4)
	c.Window = []time.Duration{0, -1, 2 * time.Millisecond}[tp.Intn(3)]
	c.Shards = []int{1, 2, 0}[tp.Intn(3)]
	c.MemTable = []int{1 << 20, 32 << 10, 128 << 10}[tp.Intn(3)]
	c.Batch = tp.Intn(3)
	c.Retain = 1 + tp.Intn(3)
	return c
}

const (
	sideDB  = 0
	sideMem = 1
)

var sideName = [2]string{"messagedb", "memory"}

type adSide struct {
	which int
	store ChannelStore
	ref   *adRef
}

type adChan struct {
	idx                int
	key                ch.ChannelKey
	id                 ch.ChannelID
	exact              bool
	epoch, term, fence uint64
	sides              [2]*adSide
}

type adWorld struct {
	t    *testing.T
	r    *simkit.Run
	c    adCfg
	ctx  context.Context
	disk *adDisk
	fs   vfs.FS
	db   *MessageDBFactory
	mem  *MemoryFactory
	ch   []*adChan

	nextID uint64
	cmdSeq uint64
	uniq   int

	muts             [2]int
	awkward          int
	fulls            int
	disturbed        bool
	fullAfterDisturb bool
	noted            map[string]bool
}

func (w *adWorld) hook(o *pebble.Options) {
	o.FS = w.fs
	o.MemTableSize = uint64(w.c.MemTable)
	o.CacheSize = 256 << 10
	o.Logger = verifhook.QuietLogger{}
	o.DisableTableStats = true
	o.Experimental.ReadSamplingMultiplier = -1
}

// adViolation is one broken clause of the statement on one store.
type adViolation struct {
	sig    string
	detail string
}

func adV(s *adSide, sig, format string, args ...any) *adViolation {
	return &adViolation{sig: sideName[s.which] + "/" + sig, detail: sideName[s.which] + " store: " + fmt.Sprintf(format, args...)}
}

func (w *adWorld) violate(v *adViolation) {
	if v != nil && !w.r.Failed() {
		w.r.FailSig("seqlog-violation", v.sig, v.detail, nil)
	}
}

// diverge records a difference between the two stores that is outside the
// listed properties: a probe and (once per kind and run) a NOTE trace line.
func (w *adWorld) diverge(op, detail, format string, args ...any) {
	name := "divergence." + op
	if detail != "" {
		name += ":" + detail
	}
	w.r.Probe(name)
	if !w.noted[name] {
		w.noted[name] = true
		w.r.Logf("  NOTE %s: %s", name, fmt.Sprintf(format, args...))
	}
}

func (w *adWorld) stop() bool { return w.r.Failed() || w.r.InfraErr != "" }

func adErrClass(err error) string {
	switch {
	case err == nil:
		return "ok"
	case errors.Is(err, ch.ErrLogConflict):
		return "conflict"
	case errors.Is(err, ch.ErrInvalidConfig), errors.Is(err, channelcompat.ErrInvalidArgument):
		return "invalid"
	case errors.Is(err, ch.ErrStaleMeta):
		return "stale"
	case errors.Is(err, ch.ErrBackpressured):
		return "backpressured"
	case errors.Is(err, ch.ErrNotReady):
		return "not-ready"
	case errors.Is(err, ch.ErrClosed):
		return "closed"
	case errors.Is(err, context.Canceled), errors.Is(err, context.DeadlineExceeded):
		return "context"
	}
	return "other"
}

func (w *adWorld) openDB() bool {
	w.fs = w.disk.fs()
	f := NewMessageDBFactoryWithOptions("/db", MessageDBFactoryOptions{CommitFlushWindow: w.c.Window, CommitShards: w.c.Shards})
	if f == nil || f.engine == nil {
		w.r.Infra("open message db factory failed")
		return false
	}
	w.db = f
	for _, c := range w.ch {
		s, err := f.ChannelStore(c.key, c.id)
		if err != nil {
			w.r.Infra("ChannelStore(%s): %v", c.key, err)
			return false
		}
		c.sides[sideDB].store = s
	}
	return true
}

func (w *adWorld) closeDB() {
	if w.db == nil {
		return
	}
	for _, c := range w.ch {
		if s := c.sides[sideDB].store; s != nil {
			s.Close()
			c.sides[sideDB].store = nil
		}
	}
	if err := w.db.Close(); err != nil {
		w.r.Infra("close message db factory: %v", err)
	}
	w.db = nil
	simkit.Wait()
}

func runAdapter(t *testing.T, r *simkit.Run) {
	c := drawAdCfg(r)
	r.Config = map[string]any{"channels": c.Channels, "exact": fmt.Sprint(c.Exact), "ops": c.Ops, "nofaults": c.NoFaults, "awkward": c.Awkward,
		"window_us": c.Window.Microseconds(), "shards": c.Shards, "memtable": c.MemTable, "batch": c.Batch}
	r.Logf("cfg channels=%d exact=%v ops=%d nofaults=%v awkward=%d window=%v shards=%d memtable=%d batch=%d", c.Channels, c.Exact, c.Ops, c.NoFaults, c.Awkward, c.Window, c.Shards, c.MemTable, c.Batch)
	w := &adWorld{t: t, r: r, c: c, ctx: context.Background(), disk: newAdDisk(nil), mem: NewMemoryFactory(), nextID: 5000, noted: map[string]bool{}}
	simkit.Bubble(t, r, func() {
		verifhook.SetPebbleHook(w.hook)
		defer verifhook.SetPebbleHook(nil)
		defer w.closeDB()
		w.run()
	})
	// see storesim: pooled Pebble objects must not cross bubbles
	runtime.GC()
	runtime.GC()
	if !r.Failed() {
		need := 6
		ok := w.fullAfterDisturb
		if c.NoFaults {
			need, ok = 10, true
		}
		r.Nontrivial = w.fulls > 0 && w.awkward >= 1 && w.muts[sideDB] >= need && w.muts[sideMem] >= need && ok
	}
}

func (w *adWorld) run() {
	for i := 0; i < w.c.Channels; i++ {
		c := &adChan{idx: i, key: ch.ChannelKey(fmt.Sprintf("k%d", i)), id: ch.ChannelID{ID: fmt.Sprintf("ch%d", i), Type: uint8(1 + i%2)}, exact: w.c.Exact[i],
			epoch: 3, term: 5, fence: 7}
		ms, _ := w.mem.ChannelStore(c.key, c.id)
		c.sides[sideDB] = &adSide{which: sideDB, ref: newAdRef()}
		c.sides[sideMem] = &adSide{which: sideMem, store: ms, ref: newAdRef()}
		w.ch = append(w.ch, c)
	}
	if !w.openDB() {
		return
	}
	simkit.Wait()
	for op := 1; op <= w.c.Ops && !w.stop(); op++ {
		w.r.Steps++
		w.step(op)
		simkit.Wait()
		for _, c := range w.ch {
			d := c.sides[sideDB].ref
			w.r.State(c.exact, len(d.chain), d.leo, d.trimmed, len(d.rows), d.sameAs(c.sides[sideMem].ref))
		}
	}
	if !w.stop() {
		w.checkAll("final")
	}
}

func (w *adWorld) step(op int) {
	tp := w.r.Tape
	c := w.ch[tp.Intn(len(w.ch))]
	wReopen, wCrash := 1, 2
	if w.c.NoFaults {
		wReopen, wCrash = 0, 0
	}
	switch tp.Weighted([]int{14, 4, 3, 2 * w.c.Retain, 3, wReopen, wCrash, 2}) {
	case 0:
		w.mutate(op, c)
	case 1:
		w.opCheckpoint(op, c)
	case 2:
		w.opAdopt(op, c)
	case 3:
		w.opTrim(op, c)
	case 4:
		if c.exact {
			w.opReplace(op, c)
		} else {
			w.opApply(op, c)
		}
	case 5:
		w.r.Logf("op %d reopen the message db", op)
		w.closeDB()
		if w.stop() || !w.openDB() {
			return
		}
		w.r.Fault("reopen")
		w.disturbed = true
		w.quietLeases()
		if !w.stop() {
			w.checkAll("after-reopen")
		}
		return
	case 6:
		w.opCrash(op, c)
		return
	default:
		w.checkAll("periodic")
		return
	}
	if !w.stop() {
		w.checkChannel(c, w.r.Tape.Intn(3) == 0)
	}
}

// quietLeases: right after the MessageDB side was (re)opened no channel has
// recovered its log end yet. For some channels the sole lease is then used only
// for operations that never look at the log end (forward committed read, log
// read, message lookup, a non-advancing checkpoint through the lease or through
// the factory's batch entry point with its transient lease), closed and
// reacquired - the first Load / append of the new lease must still see the log.
func (w *adWorld) quietLeases() {
	tp := w.r.Tape
	for _, c := range w.ch {
		mode := tp.Intn(4) // 0 = not for this channel
		if mode == 0 {
			continue
		}
		s := c.sides[sideDB]
		ref := s.ref
		w.r.Logf("  %s quiet lease (mode %d): reads/lookups only, then close and reacquire", c.key, mode)
		lg, err := s.store.ReadLog(w.ctx, ReadLogRequest{FromOffset: 1, MaxBytes: 1 << 30})
		if err != nil {
			w.violate(adV(s, "read-log:error", "ReadLog(%s,1..): %v", c.key, err))
			return
		}
		if v := rowsProblem(s, "read-log", ref.sorted(), lg.Records); v != nil {
			w.violate(v)
			return
		}
		if rows := ref.sorted(); len(rows) > 0 {
			r := rows[len(rows)-1]
			if m, ok, err := s.store.(MessageLookup).LookupMessageByID(w.ctx, r.ID); err != nil || !ok || msgDiff(c, r, m) != "" {
				w.violate(adV(s, "lookup-message-id:missing", "LookupMessageByID(%s,%d) = found %v err %v %s", c.key, r.ID, ok, err, msgDiff(c, r, m)))
				return
			}
			s.store.ReadCommitted(w.ctx, ReadCommittedRequest{FromSeq: 1, MaxSeq: r.Index, Limit: 2, MaxBytes: 1 << 20})
		}
		hw := minUint64(ref.hw, ref.leo)
		switch mode {
		case 2:
			s.store.StoreCheckpoint(w.ctx, ch.Checkpoint{HW: hw})
		case 3:
			s.store.Close()
			s.store = nil
			w.db.StoreCheckpointBatch(w.ctx, []StoreCheckpointBatchItem{{ChannelKey: c.key, ChannelID: c.id, Checkpoint: ch.Checkpoint{HW: hw}}})
		}
		if s.store != nil {
			s.store.Close()
		}
		st, err := w.db.ChannelStore(c.key, c.id)
		if err != nil {
			w.r.Infra("reacquire %s: %v", c.key, err)
			return
		}
		s.store = st
		w.r.Probe("lease.quiet_cycle")
	}
}

func (w *adWorld) mutate(op int, c *adChan) {
	if c.exact {
		w.opExact(op, c)
		return
	}
	if w.r.Tape.Intn(3) == 0 {
		w.opApply(op, c)
		return
	}
	w.opPlainAppend(op, c)
}

// opCrash performs one mutation while the MessageDB disk is cloned before each
// of its calls, then restarts the MessageDB side from the clone taken at one of
// three reproducible instants. Its reference is rolled back to the side of the
// in-flight mutation the recovered disk shows; the memory store is untouched.
func (w *adWorld) opCrash(op int, c *adChan) {
	tp := w.r.Tape
	before := make([]*adRef, len(w.ch))
	for i, x := range w.ch {
		before[i] = x.sides[sideDB].ref.clone()
	}
	w.disk.setCloning(true)
	w.r.Logf("op %d crash window opens", op)
	w.mutate(op, c)
	w.disk.takeNow("acknowledged")
	w.disk.setCloning(false)
	if w.stop() {
		return
	}
	points := w.disk.drain()
	pt := points[0]
	where := "before the first disk call"
	switch tp.Intn(3) {
	case 1:
		for _, x := range points {
			if x.kind == "walsync" {
				pt, where = x, "before the first WAL sync"
				break
			}
		}
	case 2:
		pt, where = points[len(points)-1], "after the acknowledgement"
	}
	acked := pt.kind == "acknowledged"
	img, mode := pt.kill, "kill"
	if tp.Intn(2) == 1 {
		img, mode = pt.power, "powerloss"
	}
	w.r.Logf("  crash (%s) %s", mode, where)
	w.r.Fault("crash." + mode)
	old := w.db
	oldStores := make([]ChannelStore, len(w.ch))
	for i, x := range w.ch {
		oldStores[i], x.sides[sideDB].store = x.sides[sideDB].store, nil
	}
	w.disk = newAdDisk(img)
	w.db = nil
	if !w.openDB() {
		return
	}
	for _, s := range oldStores {
		if s != nil {
			s.Close()
		}
	}
	old.Close()
	simkit.Wait()
	for i, x := range w.ch {
		s := x.sides[sideDB]
		after := s.ref
		vAfter := w.checkSide(x, s, true, false)
		if vAfter == nil {
			w.r.Probe("crash.recovered_after")
			continue
		}
		if acked {
			w.violate(&adViolation{sig: "messagedb/crash-recovery:acknowledged-mutation-lost", detail: fmt.Sprintf("after a %s crash %s, %s no longer matches its acknowledged history: [%s] %s", mode, where, x.key, vAfter.sig, vAfter.detail)})
			return
		}
		s.ref = before[i]
		if vBefore := w.checkSide(x, s, true, false); vBefore != nil {
			s.ref = after
			w.violate(&adViolation{sig: "messagedb/crash-recovery:neither-side-of-inflight-mutation", detail: fmt.Sprintf("after a %s crash %s, %s matches neither side of the in-flight mutation:\n  vs after: [%s] %s\n  vs before: [%s] %s", mode, where, x.key, vAfter.sig, vAfter.detail, vBefore.sig, vBefore.detail)})
			return
		}
		w.r.Probe("crash.recovered_before")
	}
	w.disturbed = true
	w.checkAll("after-crash")
}
