package idsim

import (
	"fmt"
	"sort"
	"strings"
	"testing"
	"time"

	"github.com/WuKongIM/WuKongIM/internal/app"
	"github.com/WuKongIM/WuKongIM/internal/verifsim/simkit"
)

func TestVerifSim(t *testing.T) {
	simkit.Main(t, simkit.Engine{
		Name:  "idsim",
		Props: map[string]simkit.PropFunc{"C30": runC30},
		Real:  []string{"internal/app nodeMessageIDs.Next and SetFloor (lock-free floor CAS loop)", "bwmarrin/snowflake Node.Generate reading the synctest fake clock"},
		Stub:  []string{"callers (2-6 tasks)", "the Go scheduler between yield points: app.VerifYieldHook parks every task at every yield site and the tape decides who proceeds", "the clock (fake time advanced in 50 us / 1 ms / 3 s steps between decisions)"},
		Rule: "One run = one synctest bubble. Sampling runs: k in 2..6 tasks with 1-4 calls each (Next; one task also calls SetFloor), every interleaving decision and clock step drawn from the tape. " +
			"Exhaustive runs: a small program (2 callers x 2 calls, 3 callers x 1 call, two allocators plus a fence-setting third task; fences in the past, at the current millisecond, at or just above ids already drawn but not yet published, and in the future) whose first three scheduling decisions come from the tape and whose remaining interleavings are ALL enumerated by depth-first search inside the run (probe exh.chunk.* names every chunk covered). " +
			"Non-trivial = at least one call started while another call was between two of its yield points.",
		Assumptions: []string{"testing/synctest fake clock (monotone; go1.26.8)", "interleavings are explored at the granularity of the H4 yield sites (after Generate, after each floor load); atomics between two sites execute as one step",
			"never more than 4096 ids per fake millisecond (Snowflake would spin on the frozen clock)"},
	})
}

// snowflake layout of bwmarrin/snowflake v0.3.0 with default settings
const (
	sfEpochMS   = int64(1288834974657)
	sfTimeShift = 22
	sfNodeShift = 12
)

type opSpec struct {
	kind  byte // 'N' next, 'F' setFloor
	fkind int  // how the floor value is chosen
	delta int  // small adjustment for id-relative floors
}

type call struct {
	task, idx  int
	kind       byte
	floor      uint64
	start, end int
	id         uint64
	err        error
	done       bool
}

type task struct {
	id     int
	prog   []opSpec
	pc     int
	active *call
}

// exec is one execution of a program on a fresh allocator.
type exec struct {
	r        *simkit.Run
	w        *simkit.World
	node     int64
	next     func() uint64
	setFloor func(uint64) error
	tasks    []*task
	calls    []*call
	events   int
	current  int
	overlap  bool
	// fenceRace: a SetFloor was in progress while two Next calls had drawn but not published
	fenceRace bool
	maxID     uint64
	lastID    uint64
}

func nowSnowMS() int64 { return time.Since(time.UnixMilli(sfEpochMS)).Milliseconds() }

func (e *exec) floorValue(s opSpec) uint64 {
	mk := func(ms int64, step int64) uint64 {
		if ms < 0 {
			ms = 0
		}
		return uint64(ms<<sfTimeShift | e.node<<sfNodeShift | step)
	}
	now := nowSnowMS()
	switch s.fkind {
	case 0:
		return 0
	case 1:
		return mk(now-1000, 7)
	case 2:
		return mk(now, 0) // the first id of this very millisecond
	case 3:
		return mk(now+2, 0)
	case 4:
		return mk(now+10000, 0)
	case 6:
		// one of the first ids of the current millisecond: at or just above ids
		// that concurrent Next calls have already drawn but not yet published,
		// and below the probe SetFloor is about to draw (a restored maximum of
		// another incarnation may well exceed everything issued here so far)
		d := int64(s.delta)
		if d < 0 {
			d = 0
		}
		return mk(now, d)
	case 7:
		// numeric edges of the id space: a restored maximum is an arbitrary uint64
		// (caller-supplied message ids reach the backup manifest unchanged). Above
		// every clock-derived id the fence must be REFUSED; accepting it would let
		// Next keep issuing ids below it.
		edges := []uint64{1<<63 - 1, 1 << 63, 1<<63 + 3, ^uint64(0) - 2, ^uint64(0), 1}
		return edges[(s.delta+2+len(edges))%len(edges)]
	default:
		// around the greatest id returned so far; with positive deltas this again
		// lands on ids that are drawn but unpublished (same millisecond: consecutive)
		if e.maxID == 0 {
			return mk(now, 1)
		}
		return uint64(int64(e.maxID) + int64(s.delta))
	}
}

func newExec(r *simkit.Run, node int64, progs [][]opSpec) (*exec, error) {
	next, setFloor, err := app.VerifNewMessageIDs(uint64(node))
	if err != nil {
		return nil, err
	}
	e := &exec{r: r, w: simkit.NewWorld(r), node: node, next: next, setFloor: setFloor}
	for i, p := range progs {
		e.tasks = append(e.tasks, &task{id: i, prog: p})
	}
	return e, nil
}

func (e *exec) hook(site string) {
	e.w.Park(fmt.Sprintf("t%d %s", e.current, site), e.current)
}

type action struct {
	key  string
	task int
	do   func()
}

// enabled returns the scheduling decisions available now, in canonical order.
func (e *exec) enabled() []action {
	parked := map[int]*simkit.Parked{}
	for _, p := range e.w.Pending() {
		parked[p.Info.(int)] = p
	}
	var acts []action
	drawn, fencing := 0, false
	for _, t := range e.tasks {
		if t.active != nil && t.active.kind == 'N' {
			drawn++ // parked after Generate, id not yet published
		}
		if t.active != nil && t.active.kind == 'F' {
			fencing = true
		}
	}
	if fencing && drawn >= 2 {
		e.fenceRace = true
	}
	for _, t := range e.tasks {
		t := t
		switch {
		case t.active != nil:
			p := parked[t.id]
			if p == nil {
				e.r.Infra("task %d is inside a call but not parked at a yield site", t.id)
				return nil
			}
			acts = append(acts, action{key: "resume " + p.Key, task: t.id, do: func() {
				e.current = t.id
				e.w.Release(p, 0)
			}})
		case t.pc < len(t.prog):
			s := t.prog[t.pc]
			acts = append(acts, action{key: fmt.Sprintf("start t%d %c%d", t.id, s.kind, t.pc), task: t.id, do: func() { e.startCall(t) }})
		}
	}
	sort.Slice(acts, func(i, j int) bool { return acts[i].key < acts[j].key })
	return acts
}

func (e *exec) startCall(t *task) {
	s := t.prog[t.pc]
	c := &call{task: t.id, idx: t.pc, kind: s.kind}
	if s.kind == 'F' {
		c.floor = e.floorValue(s)
	}
	for _, o := range e.tasks {
		if o != t && o.active != nil {
			e.overlap = true
		}
	}
	e.events++
	c.start = e.events
	t.pc++
	t.active = c
	e.current = t.id
	e.calls = append(e.calls, c)
	go func() {
		if c.kind == 'N' {
			c.id = e.next()
		} else {
			c.err = e.setFloor(c.floor)
		}
		// only one task runs between two scheduler decisions
		e.events++
		c.end = e.events
		c.done = true
		if c.kind == 'N' {
			e.lastID = c.id
			if c.id > e.maxID {
				e.maxID = c.id
			}
		}
		t.active = nil
	}()
}

func (e *exec) finished() bool {
	for _, t := range e.tasks {
		if t.active != nil || t.pc < len(t.prog) {
			return false
		}
	}
	return true
}

// check evaluates the three clauses of C30 over the completed calls.
func (e *exec) check() (class, detail string) {
	seen := map[uint64]*call{}
	for _, c := range e.calls {
		if !c.done || c.kind != 'N' {
			continue
		}
		if c.id == 0 {
			return "zero-id", fmt.Sprintf("t%d call %d returned id 0", c.task, c.idx)
		}
		if o := seen[c.id]; o != nil {
			return "duplicate-id", fmt.Sprintf("t%d call %d and t%d call %d both returned id %d", o.task, o.idx, c.task, c.idx, c.id)
		}
		seen[c.id] = c
	}
	for _, a := range e.calls {
		if !a.done {
			continue
		}
		for _, b := range e.calls {
			if !b.done || b.kind != 'N' || a == b {
				continue
			}
			// "once a restore floor is set no id at or below the restored maximum is
			// issued": an id ISSUED (returned) after SetFloor(f) returned nil must be
			// above f, whenever that Next call started
			if a.kind == 'F' && a.err == nil && a.end < b.end && b.id <= a.floor {
				when := "started earlier but returned later"
				if a.end < b.start {
					when = "started later"
				}
				return "id-at-or-below-floor", fmt.Sprintf("SetFloor(%d) by t%d returned nil at event %d; t%d call %d (%s, events %d-%d) then returned %d", a.floor, a.task, a.end, b.task, b.idx, when, b.start, b.end, b.id)
			}
			// a returned before b started
			if a.kind == 'N' && a.end < b.start && a.id >= b.id {
				return "not-increasing", fmt.Sprintf("t%d call %d returned %d before t%d call %d started, which returned %d", a.task, a.idx, a.id, b.task, b.idx, b.id)
			}
		}
	}
	return "", ""
}

func (e *exec) summary() string {
	parts := make([]string, 0, len(e.calls))
	for _, c := range e.calls {
		if c.kind == 'N' {
			parts = append(parts, fmt.Sprintf("t%d.N[%d,%d]=%d", c.task, c.start, c.end, c.id))
		} else {
			parts = append(parts, fmt.Sprintf("t%d.F(%d)[%d,%d]=%v", c.task, c.floor, c.start, c.end, c.err == nil))
		}
	}
	return strings.Join(parts, " ")
}

// pattern abstracts an execution to its observable outcome: the rank of every
// returned id, the real-time shape of the calls and which fences were accepted.
func (e *exec) pattern() string {
	ids := make([]uint64, 0, len(e.calls))
	for _, c := range e.calls {
		if c.kind == 'N' {
			ids = append(ids, c.id)
		}
	}
	sort.Slice(ids, func(i, j int) bool { return ids[i] < ids[j] })
	var b strings.Builder
	for _, c := range e.calls {
		if c.kind == 'N' {
			fmt.Fprintf(&b, "t%d.N%d[%d,%d];", c.task, sort.Search(len(ids), func(i int) bool { return ids[i] >= c.id }), c.start, c.end)
		} else {
			fmt.Fprintf(&b, "t%d.F%v[%d,%d];", c.task, c.err == nil, c.start, c.end)
		}
	}
	return b.String()
}

func (e *exec) noteProbes() {
	if e.fenceRace {
		e.r.Probe("setfloor.while_two_ids_drawn_unpublished")
	}
	for _, a := range e.calls {
		if a.kind != 'F' || a.err != nil || !a.done {
			continue
		}
		for _, b := range e.calls {
			if b.kind == 'N' && b.done && b.start < a.end && b.end > a.end {
				e.r.Probe("setfloor.accepted_with_next_in_flight")
				break
			}
		}
	}
	for _, c := range e.calls {
		if c.kind == 'F' {
			if c.err == nil {
				e.r.Probe("setfloor.accepted")
			} else {
				e.r.Probe("setfloor.rejected_clock_not_above_fence")
			}
			if c.floor >= 1<<63-1 {
				if c.err != nil {
					e.r.Probe("setfloor.numeric_edge_fence_refused")
				} else {
					e.r.Probe("setfloor.numeric_edge_fence_accepted")
				}
			}
		}
	}
}

var exhaustivePrograms = [][][]opSpec{
	{{{kind: 'N'}, {kind: 'N'}}, {{kind: 'N'}, {kind: 'N'}}},
	{{{kind: 'N'}, {kind: 'N'}}, {{kind: 'F'}, {kind: 'N'}}},
	{{{kind: 'N'}, {kind: 'N'}}, {{kind: 'N'}, {kind: 'F'}}},
	{{{kind: 'N'}}, {{kind: 'N'}}, {{kind: 'N'}}},
	{{{kind: 'N'}, {kind: 'N'}}, {{kind: 'F'}}},
	{{{kind: 'N'}, {kind: 'F'}}, {{kind: 'N'}, {kind: 'N'}}},
	// three parties: two allocators can sit between drawing and publishing their
	// ids while the fence is being set
	{{{kind: 'N'}}, {{kind: 'N'}}, {{kind: 'F'}}},
}

// shapeWeights favours the 2 x 2 program (whose 8 chunks the registration
// expects to be covered in every quick check) and the three-party fence race.
var shapeWeights = []int{3, 1, 1, 1, 1, 1, 2}

func cloneProgs(in [][]opSpec, fkind, delta int) [][]opSpec {
	out := make([][]opSpec, len(in))
	for i, p := range in {
		out[i] = append([]opSpec(nil), p...)
		for j := range out[i] {
			if out[i][j].kind == 'F' {
				out[i][j].fkind, out[i][j].delta = fkind, delta
			}
		}
	}
	return out
}

func runC30(t *testing.T, r *simkit.Run) {
	tp := r.Tape
	exhaustive := tp.Weighted([]int{3, 1}) == 1
	simkit.Bubble(t, r, func() {
		// fake time starts in 2000; Snowflake's epoch is in 2010
		time.Sleep(time.Until(time.UnixMilli(sfEpochMS)) + 5*365*24*time.Hour + time.Duration(tp.Intn(1000))*time.Millisecond)
		var cur *exec
		app.VerifYieldHook = func(site string) { cur.hook(site) }
		defer func() { app.VerifYieldHook = nil }()
		if exhaustive {
			runExhaustive(r, &cur)
		} else {
			runSample(r, &cur)
		}
	})
}

// runExhaustive fixes the first decisions from the tape and enumerates every
// completion of the schedule by depth-first search (stateless re-execution).
func runExhaustive(r *simkit.Run, cur **exec) {
	tp := r.Tape
	shape := tp.Weighted(shapeWeights)
	fkind := []int{1, 2, 5, 3, 6, 7}[tp.Intn(6)]
	delta := tp.Intn(6) - 2 // -2..3 (also selects which numeric edge fkind 7 uses: all six)
	// clock: 0 frozen, 1 = 300us after every decision, 2 = 1ms after every decision
	clock := tp.Intn(3)
	node := int64(1 + tp.Intn(3))
	const prefixLen = 3
	prefix := make([]int, prefixLen)
	for i := range prefix {
		prefix[i] = tp.Intn(6) // reduced modulo the 2 or 3 options available: uniform for both
	}
	r.Config = map[string]any{"mode": "exhaustive", "shape": shape, "fkind": fkind, "delta": delta, "clock": clock, "node": node, "prefix": fmt.Sprint(prefix)}
	type point struct{ chosen, n int }
	var stack []point
	execs, overlap := 0, false
	prefixTaken := ""
	began := time.Now()
	for {
		// every execution starts at the same clock phase (a whole second), so an
		// execution is a function of its decisions only and the search can replay prefixes
		time.Sleep(time.Until(time.Now().Truncate(time.Second).Add(time.Second)))
		e, err := newExec(r, node, cloneProgs(exhaustivePrograms[shape], fkind, delta))
		if err != nil {
			r.Infra("allocator: %v", err)
			return
		}
		*cur = e
		depth := 0
		path := make([]byte, 0, 32)
		taken := make([]byte, 0, prefixLen)
		for {
			simkit.Wait()
			acts := e.enabled()
			if r.InfraErr != "" {
				return
			}
			if len(acts) == 0 {
				break
			}
			var pick int
			switch {
			case depth < prefixLen:
				pick = prefix[depth] % len(acts)
				taken = append(taken, byte('0'+pick))
			case depth-prefixLen < len(stack):
				pick = stack[depth-prefixLen].chosen
			default:
				stack = append(stack, point{0, len(acts)})
			}
			if pick >= len(acts) {
				r.Infra("exhaustive replay diverged at depth %d (%d options, wanted %d)", depth, len(acts), pick)
				return
			}
			path = append(path, byte('0'+pick))
			acts[pick].do()
			r.Steps++
			depth++
			switch clock {
			case 1:
				time.Sleep(300 * time.Microsecond)
			case 2:
				time.Sleep(time.Millisecond)
			}
			if depth > 200 {
				r.Infra("exhaustive execution did not terminate")
				return
			}
		}
		execs++
		prefixTaken = string(taken)
		overlap = overlap || e.overlap
		e.noteProbes()
		r.Logf("x%d %s | %s", execs, path, e.summary())
		if !e.finished() {
			r.Infra("execution ended with unfinished tasks")
			return
		}
		if class, detail := e.check(); class != "" {
			r.Fail(class, detail+" ["+e.summary()+"]", map[string]any{"path": string(path)})
			return
		}
		r.State("x", shape, fkind, e.pattern())
		// backtrack to the deepest decision with an untried alternative
		for len(stack) > 0 && stack[len(stack)-1].chosen+1 >= stack[len(stack)-1].n {
			stack = stack[:len(stack)-1]
		}
		if len(stack) == 0 {
			break
		}
		stack[len(stack)-1].chosen++
		if execs >= 20000 {
			r.Probe("exh.truncated")
			break
		}
	}
	r.SimTime += time.Since(began)
	r.Probe(fmt.Sprintf("exh.chunk.shape%d.prefix%s", shape, prefixTaken))
	r.ProbeN("exh.executions", execs)
	r.Nontrivial = overlap
}

func runSample(r *simkit.Run, cur **exec) {
	tp := r.Tape
	k := 2 + tp.Weighted([]int{1, 3, 3, 2, 2}) // 3+ tasks: two allocators can be mid-call while the third sets the fence
	node := int64(1 + tp.Intn(3))
	jumps := tp.Intn(4) != 0
	setter := tp.Intn(k)
	progs := make([][]opSpec, k)
	total := 0
	for i := range progs {
		n := 1 + tp.Intn(4)
		for j := 0; j < n; j++ {
			progs[i] = append(progs[i], opSpec{kind: 'N'})
		}
		total += n
	}
	at := tp.Intn(len(progs[setter]) + 1)
	f := opSpec{kind: 'F', fkind: tp.Weighted([]int{1, 2, 2, 2, 1, 4, 4, 1}), delta: tp.Intn(7) - 2}
	progs[setter] = append(progs[setter][:at], append([]opSpec{f}, progs[setter][at:]...)...)
	if tp.Chance(1, 3) { // a second fence from the same task
		f2 := opSpec{kind: 'F', fkind: tp.Weighted([]int{1, 2, 2, 2, 1, 4, 4, 1}), delta: tp.Intn(7) - 2}
		progs[setter] = append(progs[setter], f2)
	}
	r.Config = map[string]any{"mode": "sample", "tasks": k, "calls": total, "setter": setter, "node": node, "jumps": jumps}
	e, err := newExec(r, node, progs)
	if err != nil {
		r.Infra("allocator: %v", err)
		return
	}
	*cur = e
	start := time.Now()
	for step := 0; step < 400; step++ {
		simkit.Wait()
		acts := e.enabled()
		if r.InfraErr != "" {
			return
		}
		if len(acts) == 0 {
			break
		}
		// decisions first (choice 0 = first by key), then clock steps
		ws := make([]int, 0, len(acts)+3)
		for range acts {
			ws = append(ws, 6)
		}
		ws = append(ws, 2, 2)
		if jumps {
			ws = append(ws, 1)
		}
		i := tp.Weighted(ws)
		r.Steps++
		switch {
		case i < len(acts):
			r.Logf("s%d %s", r.Steps, acts[i].key)
			acts[i].do()
		case i == len(acts):
			r.Logf("s%d tick 50us", r.Steps)
			time.Sleep(50 * time.Microsecond)
		case i == len(acts)+1:
			r.Logf("s%d tick 1ms", r.Steps)
			time.Sleep(time.Millisecond)
		default:
			r.Logf("s%d tick 3s", r.Steps)
			r.Fault("clock_jump_3s")
			time.Sleep(3 * time.Second)
		}
	}
	simkit.Wait()
	// finish benignly whatever the step bound left over
	for guard := 0; guard < 2000 && !e.finished(); guard++ {
		acts := e.enabled()
		if len(acts) == 0 {
			break
		}
		acts[0].do()
		simkit.Wait()
	}
	r.SimTime += time.Since(start)
	e.noteProbes()
	r.Logf("result %s", e.summary())
	if !e.finished() {
		r.Infra("sample execution ended with unfinished tasks")
		return
	}
	if class, detail := e.check(); class != "" {
		r.Fail(class, detail+" ["+e.summary()+"]", nil)
		return
	}
	r.State("s", k, total, e.overlap)
	r.Nontrivial = e.overlap
}
