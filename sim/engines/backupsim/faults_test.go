package backupsim

import (
	"bytes"
	"crypto/sha256"
	"encoding/hex"
	"encoding/json"
	"fmt"
	"runtime"
	"strings"

	ucbackup "github.com/WuKongIM/WuKongIM/internal/usecase/backup"
	backup "github.com/WuKongIM/WuKongIM/pkg/backup"
)

// ---- decoder oracle ---------------------------------------------------------

type decoder struct {
	name string
	// load decodes body; canon re-encodes the decoded value when load succeeded
	load func(body []byte) (canon []byte, err error)
	// extra is the size of further input the call reads (the manifest a COMPLETE marker is checked against)
	extra int
}

func (w *world) decoders() map[string]decoder {
	manifestBody := w.pub.objects[w.root+"manifest.json"].body
	return map[string]decoder{
		"archive": {name: "archive", load: func(b []byte) ([]byte, error) {
			m, err := backup.LoadArchiveManifest(b)
			if err != nil {
				return nil, err
			}
			return backup.MarshalArchiveManifest(m)
		}},
		"slot": {name: "slot", load: func(b []byte) ([]byte, error) {
			m, err := backup.LoadSlotManifest(b)
			if err != nil {
				return nil, err
			}
			return backup.MarshalSlotManifest(m)
		}},
		"marker": {name: "marker", extra: len(manifestBody), load: func(b []byte) ([]byte, error) {
			m, err := backup.LoadCompleteMarker(b, manifestBody)
			if err != nil {
				return nil, err
			}
			return backup.MarshalCompleteMarker(m)
		}},
		"msgchunks": {name: "msgchunks", load: func(b []byte) ([]byte, error) {
			m, err := backup.LoadMessageChunkManifest(b)
			if err != nil {
				return nil, err
			}
			return backup.MarshalMessageChunkManifest(m)
		}},
		"repository": {name: "repository", load: func(b []byte) ([]byte, error) {
			m, err := backup.LoadRepositoryMarker(b)
			if err != nil {
				return nil, err
			}
			return backup.MarshalRepositoryMarker(m)
		}},
	}
}

// decode runs one decoder call under the allocation meter and applies the
// decoder oracle. mustFail is set for inputs that are non-canonical, carry an
// unknown field or are otherwise invalid by construction.
func (w *world) decode(d decoder, body []byte, original []byte, mustFail bool, what string) {
	r := w.r
	if r.Failed() {
		return
	}
	w.decCalls++
	var before, after runtime.MemStats
	runtime.ReadMemStats(&before)
	canon, err := d.load(body)
	runtime.ReadMemStats(&after)
	alloc := after.TotalAlloc - before.TotalAlloc
	bound := uint64(allocSlack + allocPerByte*(len(body)+d.extra))
	if alloc > bound {
		w.fail("decoder-allocation-unbounded", d.name, "%s decoder allocated %d bytes for a %d-byte input (%s), bound %d", d.name, alloc, len(body), what, bound)
		return
	}
	switch {
	case err != nil:
		if original != nil && bytes.Equal(body, original) {
			w.fail("decoder-rejects-canonical", d.name, "%s decoder rejected the writer's own bytes (%s): %v", d.name, what, err)
		}
		r.Probe("decoder_rejected_" + d.name)
	case mustFail:
		w.fail("decoder-accepts-invalid", d.name+"/"+what, "%s decoder accepted %s input", d.name, what)
	default:
		// accepted: the input must be exactly the canonical encoding of what was decoded
		if !bytes.Equal(canon, body) {
			w.fail("decoder-accepts-noncanonical", d.name, "%s decoder accepted bytes that are not the canonical encoding of the decoded value (%s)", d.name, what)
			return
		}
		if original != nil && !bytes.Equal(body, original) {
			r.Probe("decoder_accepted_other_valid_" + d.name)
		}
	}
}

// structural JSON mutations: each result is non-canonical, has an unknown field
// or is not a single JSON value, so every decoder must reject it.
func structuralMutants(body []byte, pick int) (string, []byte) {
	s := string(body)
	switch pick % 9 {
	case 0:
		return "unknown-field", []byte(`{"zz_unknown":1,` + s[1:])
	case 1:
		return "leading-whitespace", []byte(" " + s)
	case 2:
		return "inner-whitespace", []byte(strings.Replace(s, ":", ": ", 1))
	case 3:
		return "trailing-value", []byte(s + "{}")
	case 4:
		return "duplicate-key", []byte(`{"format":"x",` + s[1:])
	case 5:
		return "key-case", []byte(strings.Replace(s, `"format"`, `"Format"`, 1))
	case 6:
		return "escaped-string", []byte(strings.Replace(s, `"format":"w`, `"format":"\`+`u0077`, 1))
	case 7:
		return "number-format", []byte(strings.Replace(s, `"version":1`, `"version":1.0`, 1))
	default:
		return "trailing-garbage", []byte(s + "x")
	}
}

func (w *world) classOfKey(key string) string {
	rel := strings.TrimPrefix(key, w.root)
	switch {
	case strings.HasSuffix(rel, ".zst"):
		return "chunk"
	case rel == "manifest.json":
		return "archive"
	case rel == "COMPLETE":
		return "marker"
	case strings.HasSuffix(rel, "/manifest.json"):
		return "slot"
	case strings.HasSuffix(rel, "messages-index.json"):
		return "msgchunks"
	}
	return "other"
}

// decoderBaseline feeds the pristine bodies and their structural mutants to the decoders.
func (w *world) decoderBaseline() {
	r := w.r
	tp := r.Tape
	ds := w.decoders()
	bodies := map[string][]byte{
		"archive":    w.pub.objects[w.root+"manifest.json"].body,
		"marker":     w.pub.objects[w.root+"COMPLETE"].body,
		"repository": w.pub.objects[backup.RepositoryMarkerKey].body,
	}
	slot := w.rich[tp.Intn(len(w.rich))]
	bodies["slot"] = w.pub.objects[fmt.Sprintf("%sslots/%03d/manifest.json", w.root, slot)].body
	// a message-chunk index built by the real constructor from one message stream of a rich slot
	if man, err := backup.LoadSlotManifest(bodies["slot"]); err == nil {
		var stream []backup.ChunkReference
		for _, c := range man.Chunks {
			if c.Kind == backup.ChunkKindMessages && (len(stream) == 0 || c.Stream == stream[0].Stream) {
				stream = append(stream, c)
			}
		}
		if len(stream) > 0 {
			idx, err := backup.NewMessageChunkManifest(uint16(slot), stream)
			if err != nil {
				w.fail("message-chunk-manifest-rejected", "new", "NewMessageChunkManifest on the writer's own chunk references: %v", err)
				return
			}
			body, err := backup.MarshalMessageChunkManifest(idx)
			if err != nil {
				w.fail("message-chunk-manifest-rejected", "marshal", "MarshalMessageChunkManifest: %v", err)
				return
			}
			bodies["msgchunks"] = body
			// stored form: bound to its digest
			key := fmt.Sprintf("slots/%03d/attempts/00000001/messages-index.json", slot)
			st := w.pub.clone()
			st.objects[w.root+key] = object{body: body}
			sum := sha256.Sum256(body)
			if _, err := backup.LoadStoredMessageChunkManifest(w.ctx, st, w.id, key, hex.EncodeToString(sum[:])); err != nil {
				w.fail("message-chunk-manifest-rejected", "stored", "LoadStoredMessageChunkManifest on unfaulted bytes: %v", err)
				return
			}
			flipped := append([]byte(nil), body...)
			flipped[tp.Intn(len(flipped))] ^= byte(1 + tp.Intn(255))
			st.objects[w.root+key] = object{body: flipped}
			if _, err := backup.LoadStoredMessageChunkManifest(w.ctx, st, w.id, key, hex.EncodeToString(sum[:])); err == nil {
				w.fail("fault-not-detected", "msgchunks/flip", "LoadStoredMessageChunkManifest accepted a flipped index object")
				return
			}
			r.Probe("message_chunk_index_checked")
		}
	}
	for _, name := range []string{"archive", "marker", "msgchunks", "repository", "slot"} {
		body, ok := bodies[name]
		if !ok || len(body) == 0 {
			continue
		}
		d := ds[name]
		w.decode(d, body, body, false, "pristine")
		what, mut := structuralMutants(body, tp.Intn(9))
		if !bytes.Equal(mut, body) {
			w.decode(d, mut, body, true, what)
		}
		// one byte-level mutation per decoder as well
		bm := append([]byte(nil), body...)
		switch tp.Intn(3) {
		case 0:
			bm[tp.Intn(len(bm))] ^= byte(1 + tp.Intn(255))
			what = "flip"
		case 1:
			bm = bm[:tp.Intn(len(bm))]
			what = "truncate"
		default:
			bm = append(bm, tp.Bytes(1+tp.Intn(8))...)
			what = "extend"
		}
		w.decode(d, bm, body, false, what)
	}
}

// ---- storage faults -----------------------------------------------------------

func (w *world) keysOfClass(class string) []string {
	var ks []string
	for _, k := range w.pub.keys(w.root) {
		if w.classOfKey(k) == class {
			ks = append(ks, k)
		}
	}
	return ks
}

func (w *world) faultTrial(n int) {
	r := w.r
	tp := r.Tape
	st := w.pub.clone()
	class := []string{"chunk", "slot", "archive", "marker", "other"}[tp.Weighted([]int{4, 4, 2, 2, 1})]
	var key, op, detail string
	var mutated []byte // new body of a manifest-class object, fed to its decoder afterwards
	if class == "other" {
		switch tp.Intn(3) {
		case 0:
			op, key = "add-corrupt-marker", w.root+"CORRUPT"
			st.objects[key] = object{body: []byte(`{"marked_at_unix_ms":1,"error_code":"x"}`)}
		case 1:
			op, key = "drop-catalog-entry", "catalog/"+w.id
			delete(st.objects, key)
		default:
			op, key = "flip-repository-marker", backup.RepositoryMarkerKey
			b := append([]byte(nil), st.objects[key].body...)
			b[tp.Intn(len(b))] ^= byte(1 + tp.Intn(255))
			st.objects[key] = object{body: b}
		}
	} else {
		ks := w.keysOfClass(class)
		key = ks[tp.Intn(len(ks))]
		if class == "chunk" || class == "slot" {
			// prefer the slots with real content half of the time
			if len(w.rich) > 0 && tp.Intn(2) == 1 {
				pre := fmt.Sprintf("%sslots/%03d/", w.root, w.rich[tp.Intn(len(w.rich))])
				var sub []string
				for _, k := range ks {
					if strings.HasPrefix(k, pre) {
						sub = append(sub, k)
					}
				}
				if len(sub) > 0 {
					key = sub[tp.Intn(len(sub))]
				}
			}
		}
		orig := st.objects[key].body
		ops := []string{"flip", "truncate", "extend", "extend-huge", "drop", "swap", "copy-over-peer", "copy-to-new-key", "rename", "rewrite", "flip-bit"}
		opw := []int{2, 2, 2, 2, 2, 2, 2, 1, 2, 0, 2}
		if class != "chunk" {
			opw[9] = 5 // well-formed semantic rewrites only exist for manifests and markers
		}
		op = ops[tp.Weighted(opw)]
		peer := func() string {
			ps := ks
			if class == "archive" {
				ps = []string{w.root + "COMPLETE"}
			} else if class == "marker" {
				ps = []string{w.root + "manifest.json"}
			}
			p := ps[tp.Intn(len(ps))]
			return p
		}
		switch op {
		case "flip":
			b := append([]byte(nil), orig...)
			i := tp.Intn(len(b))
			b[i] ^= byte(1 + tp.Intn(255))
			st.objects[key] = object{body: b}
			mutated, detail = b, fmt.Sprintf("byte %d", i)
		case "flip-bit":
			// a single bit. In a chunk: one bit of the zstd frame-header descriptor, whose bit 4 no decoder
			// interprets - the decoded payload stays the same, only the stored-bytes digest can notice.
			b := append([]byte(nil), orig...)
			i, bit := tp.Intn(len(b)), tp.Intn(8)
			if class == "chunk" && len(b) > 4 {
				i, bit = 4, []int{4, 0, 1, 2, 3, 5, 6, 7}[tp.Weighted([]int{4, 1, 1, 1, 1, 1, 1, 1})]
			}
			b[i] ^= 1 << uint(bit)
			st.objects[key] = object{body: b}
			mutated, detail = b, fmt.Sprintf("byte %d bit %d", i, bit)
		case "truncate":
			b := append([]byte(nil), orig[:tp.Intn(len(orig))]...)
			st.objects[key] = object{body: b}
			mutated, detail = b, fmt.Sprintf("to %d", len(b))
		case "extend":
			b := append(append([]byte(nil), orig...), tp.Bytes(1+tp.Intn(16))...)
			st.objects[key] = object{body: b}
			mutated, detail = b, fmt.Sprintf("to %d", len(b))
		case "extend-huge":
			tail := []uint64{1, 1 << 20, backup.MaxSlotManifestBytes, 1 << 40}[tp.Intn(4)]
			st.objects[key] = object{body: orig, tail: tail}
			detail = fmt.Sprintf("virtual tail %d", tail)
		case "drop":
			delete(st.objects, key)
		case "swap":
			p := peer()
			st.objects[key], st.objects[p] = st.objects[p], st.objects[key]
			detail = "with " + strings.TrimPrefix(p, w.root)
		case "copy-over-peer":
			p := peer()
			st.objects[p] = st.objects[key]
			detail = "onto " + strings.TrimPrefix(p, w.root)
		case "copy-to-new-key":
			st.objects[key+".copy"] = st.objects[key]
		case "rename":
			nk := key + ".moved"
			if class == "chunk" {
				nk = strings.Replace(key, "-0000", "-9000", 1)
			}
			st.objects[nk] = st.objects[key]
			delete(st.objects, key)
			detail = "to " + strings.TrimPrefix(nk, w.root)
		case "rewrite":
			b, how := w.rewrite(class, orig)
			if b == nil {
				op = "flip"
				b = append([]byte(nil), orig...)
				b[tp.Intn(len(b))] ^= byte(1 + tp.Intn(255))
			}
			st.objects[key] = object{body: b}
			mutated, detail = b, how
		}
	}
	identical := w.semanticallyIdentical(st)
	_, verr := backup.VerifyPublishedArchive(w.ctx, st, w.id)
	r.Logf("fault %d: %s %s %s %s -> verify=%s identical=%v", n, class, op, strings.TrimPrefix(key, w.root), detail, errClass(verr), identical)
	r.State(class, op, errClass(verr), identical)
	if identical {
		r.Probe("fault_left_archive_identical")
		if verr != nil {
			w.fail("published-archive-rejected", "identical-after-"+op, "the stored archive objects are byte-identical after %s %s but verification fails: %v", op, key, verr)
		}
		return
	}
	w.changed++
	r.Fault(class + "_" + op)
	if verr == nil {
		w.fail("fault-not-detected", class+"/"+op, "VerifyPublishedArchive succeeded after %s of %s (%s)", op, key, detail)
		return
	}
	if class == "archive" || class == "marker" || op == "add-corrupt-marker" {
		// metadata damage must also be visible to discovery: never listed as healthy
		if _, err := backup.LoadPublishedArchiveMetadata(w.ctx, st, w.id); err == nil {
			w.fail("fault-not-detected", class+"/"+op+"/metadata", "LoadPublishedArchiveMetadata succeeded after %s of %s", op, key)
			return
		}
		list, err := ucbackup.ListArchives(w.ctx, st)
		if err == nil {
			for _, a := range list {
				if a.ID == w.id && a.Health == ucbackup.ArchiveHealthHealthy {
					w.fail("fault-not-detected", class+"/"+op+"/listed-healthy", "ListArchives shows the archive as healthy after %s of %s", op, key)
					return
				}
			}
		}
	}
	if mutated != nil && class != "chunk" {
		ds := w.decoders()
		w.decode(ds[class], mutated, w.pub.objects[key].body, false, op)
	}
}

// rewrite produces a semantically different but well-formed body of the object.
func (w *world) rewrite(class string, orig []byte) ([]byte, string) {
	tp := w.r.Tape
	switch class {
	case "slot":
		var m backup.SlotManifest
		if json.Unmarshal(orig, &m) != nil {
			return nil, ""
		}
		m.Chunks = append([]backup.ChunkReference(nil), m.Chunks...)
		switch tp.Intn(4) {
		case 0: // reorder two chunks
			if len(m.Chunks) < 2 {
				return nil, ""
			}
			i := tp.Intn(len(m.Chunks) - 1)
			m.Chunks[i], m.Chunks[i+1] = m.Chunks[i+1], m.Chunks[i]
			b, _ := json.Marshal(m)
			return b, fmt.Sprintf("reorder chunks %d,%d", i, i+1)
		case 1: // reorder AND renumber so that the manifest validates: the payload order changes
			var idx []int
			for i := 0; i+1 < len(m.Chunks); i++ {
				a, c := m.Chunks[i], m.Chunks[i+1]
				if a.Kind == backup.ChunkKindMessages && c.Kind == backup.ChunkKindMessages && a.Part == 1 && a.Final && c.Part == 1 && c.Final {
					idx = append(idx, i)
				}
			}
			if len(idx) == 0 {
				return nil, ""
			}
			i := idx[tp.Intn(len(idx))]
			a, c := m.Chunks[i], m.Chunks[i+1]
			// keys stay bound to their sequence numbers; descriptors and record summaries move
			a.Descriptor, c.Descriptor = c.Descriptor, a.Descriptor
			a.Records, c.Records = c.Records, a.Records
			a.MaxMessageID, c.MaxMessageID = c.MaxMessageID, a.MaxMessageID
			m.Chunks[i], m.Chunks[i+1] = a, c
			b, err := backup.MarshalSlotManifest(m)
			if err != nil {
				return nil, ""
			}
			return b, fmt.Sprintf("swap payloads of streams at %d,%d (valid manifest)", i, i+1)
		case 2: // change a declared size and keep the totals consistent
			i := tp.Intn(len(m.Chunks))
			m.Chunks[i].Descriptor.StoredBytes++
			m.StoredBytes++
			b, err := backup.MarshalSlotManifest(m)
			if err != nil {
				return nil, ""
			}
			return b, fmt.Sprintf("stored_bytes+1 on chunk %d (valid manifest)", i)
		default: // change the record summary
			i := tp.Intn(len(m.Chunks))
			m.Chunks[i].Records += 7
			m.Records += 7
			b, err := backup.MarshalSlotManifest(m)
			if err != nil {
				return nil, ""
			}
			return b, fmt.Sprintf("records+7 on chunk %d (valid manifest)", i)
		}
	case "archive":
		var m backup.ArchiveManifest
		if json.Unmarshal(orig, &m) != nil {
			return nil, ""
		}
		m.Slots = append([]backup.SlotReference(nil), m.Slots...)
		i, j := tp.Intn(len(m.Slots)), tp.Intn(len(m.Slots))
		switch tp.Intn(3) {
		case 0:
			m.Slots[i].ManifestSHA256, m.Slots[j].ManifestSHA256 = m.Slots[j].ManifestSHA256, m.Slots[i].ManifestSHA256
			b, err := backup.MarshalArchiveManifest(m)
			if err != nil {
				return nil, ""
			}
			return b, fmt.Sprintf("swap slot digests %d,%d (valid manifest)", i, j)
		case 1:
			m.Slots[i], m.Slots[j] = m.Slots[j], m.Slots[i]
			b, _ := json.Marshal(m)
			return b, fmt.Sprintf("reorder slot references %d,%d", i, j)
		default:
			m.CompletedAtUnixMillis++
			b, err := backup.MarshalArchiveManifest(m)
			if err != nil {
				return nil, ""
			}
			return b, "completed_at+1 (valid manifest)"
		}
	case "marker":
		var m backup.CompleteMarker
		if json.Unmarshal(orig, &m) != nil {
			return nil, ""
		}
		if tp.Intn(2) == 0 {
			sum := sha256.Sum256([]byte("another manifest"))
			m.ManifestSHA256 = hex.EncodeToString(sum[:])
		} else {
			m.ManifestBytes++
		}
		b, err := backup.MarshalCompleteMarker(m)
		if err != nil {
			return nil, ""
		}
		return b, "marker for another manifest (valid marker)"
	}
	return nil, ""
}
