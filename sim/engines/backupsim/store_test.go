package backupsim

import (
	"bytes"
	"context"
	"crypto/sha256"
	"encoding/hex"
	"errors"
	"io"
	"sort"
	"strings"
	"time"

	backup "github.com/WuKongIM/WuKongIM/pkg/backup"
)

var errCrashed = errors.New("sim: archive store crashed")

// object is one stored repository object. tail is a virtual run of zero bytes
// appended to body (lets a fault make an object larger than any declared limit
// without holding it in memory). Bodies are never mutated in place.
type object struct {
	body []byte
	tail uint64
}

func (o object) size() uint64 { return uint64(len(o.body)) + o.tail }

// simStore is the simulator-owned ArchiveStore: an ordered key/value map with a
// crash point (the k-th Put is torn, everything afterwards fails until reboot).
type simStore struct {
	objects map[string]object
	puts    int      // Puts attempted since creation / last resetCount
	putLog  []string // keys of attempted Puts
	crashAt int      // 1-based Put number to tear; 0 = never
	tornNum int      // torn length = len*tornNum/tornDen (strictly shorter than the body)
	tornDen int
	tornFull bool // the crashing Put is stored completely (crash between two Puts)
	crashed bool
	tornKey string
	tornLen int
	fullLen int
}

func newSimStore() *simStore { return &simStore{objects: map[string]object{}} }

func (s *simStore) clone() *simStore {
	c := newSimStore()
	for k, v := range s.objects {
		c.objects[k] = v
	}
	return c
}

func (s *simStore) reboot() { s.crashed, s.crashAt = false, 0 }

func (s *simStore) Put(_ context.Context, put backup.PutObject) error {
	if s.crashed {
		return errCrashed
	}
	if err := backup.ValidateRepositoryKey(put.Key); err != nil {
		return err
	}
	body, err := io.ReadAll(put.Body)
	if err != nil {
		return err
	}
	if uint64(len(body)) != put.ExpectedBytes {
		return errors.New("sim store: body size differs from ExpectedBytes")
	}
	if put.IfAbsent {
		if _, ok := s.objects[put.Key]; ok {
			return backup.ErrObjectExists
		}
	}
	s.puts++
	s.putLog = append(s.putLog, put.Key)
	if s.crashAt > 0 && s.puts == s.crashAt {
		n := 0
		if s.tornDen > 0 {
			n = len(body) * s.tornNum / s.tornDen
		}
		if n >= len(body) && len(body) > 0 && !s.tornFull {
			n = len(body) - 1
		}
		if s.tornFull {
			n = len(body) // the object reached the store completely; the process died before it learnt so
		}
		s.objects[put.Key] = object{body: append([]byte(nil), body[:n]...)}
		s.crashed, s.tornKey, s.tornLen, s.fullLen = true, put.Key, n, len(body)
		return errCrashed
	}
	s.objects[put.Key] = object{body: body}
	return nil
}

type objReader struct {
	r    io.Reader
	tail uint64
}

func (o *objReader) Read(p []byte) (int, error) {
	n, err := o.r.Read(p)
	if n > 0 || err != io.EOF {
		return n, err
	}
	if o.tail == 0 {
		return 0, io.EOF
	}
	m := uint64(len(p))
	if m > o.tail {
		m = o.tail
	}
	for i := uint64(0); i < m; i++ {
		p[i] = 0
	}
	o.tail -= m
	return int(m), nil
}
func (o *objReader) Close() error { return nil }

func (s *simStore) Open(_ context.Context, key string) (io.ReadCloser, backup.ArchiveObject, error) {
	if s.crashed {
		return nil, backup.ArchiveObject{}, errCrashed
	}
	o, ok := s.objects[key]
	if !ok {
		return nil, backup.ArchiveObject{}, backup.ErrObjectNotFound
	}
	return &objReader{r: bytes.NewReader(o.body), tail: o.tail},
		backup.ArchiveObject{Key: key, Bytes: o.size(), Modified: time.Unix(1_800_000_000, 0)}, nil
}

func (s *simStore) List(_ context.Context, prefix string) ([]backup.ArchiveObject, error) {
	if s.crashed {
		return nil, errCrashed
	}
	var out []backup.ArchiveObject
	for k, o := range s.objects {
		if strings.HasPrefix(k, prefix) {
			out = append(out, backup.ArchiveObject{Key: k, Bytes: o.size(), Modified: time.Unix(1_800_000_000, 0)})
		}
	}
	sort.Slice(out, func(i, j int) bool { return out[i].Key < out[j].Key })
	return out, nil
}

func (s *simStore) Delete(_ context.Context, key string) error {
	if s.crashed {
		return errCrashed
	}
	delete(s.objects, key)
	return nil
}

func (s *simStore) DeletePrefix(_ context.Context, prefix string) error {
	if s.crashed {
		return errCrashed
	}
	for k := range s.objects {
		if strings.HasPrefix(k, prefix) {
			delete(s.objects, k)
		}
	}
	return nil
}

func (s *simStore) keys(prefix string) []string {
	var ks []string
	for k := range s.objects {
		if strings.HasPrefix(k, prefix) {
			ks = append(ks, k)
		}
	}
	sort.Strings(ks)
	return ks
}

func digestOf(o object) string {
	h := sha256.New()
	h.Write(o.body)
	if o.tail > 0 {
		// virtual tails only ever come from faults; fold the length in
		var z [8]byte
		for i := 0; i < 8; i++ {
			z[i] = byte(o.tail >> (8 * i))
		}
		h.Write([]byte("tail"))
		h.Write(z[:])
	}
	return hex.EncodeToString(h.Sum(nil))
}

// fingerprint maps every key under prefix to the digest of its bytes.
func (s *simStore) fingerprint(prefix string) map[string]string {
	fp := map[string]string{}
	for k, o := range s.objects {
		if strings.HasPrefix(k, prefix) {
			fp[k] = digestOf(o)
		}
	}
	return fp
}
