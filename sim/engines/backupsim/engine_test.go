package backupsim

import (
	"bytes"
	"context"
	"crypto/sha256"
	"encoding/hex"
	"errors"
	"fmt"
	"io"
	"reflect"
	"runtime/debug"
	"strings"
	"sync"
	"testing"

	runtimebackup "github.com/WuKongIM/WuKongIM/internal/runtime/backup"
	ucbackup "github.com/WuKongIM/WuKongIM/internal/usecase/backup"
	"github.com/WuKongIM/WuKongIM/internal/verifsim/simkit"
	backup "github.com/WuKongIM/WuKongIM/pkg/backup"
)

func TestVerifSim(t *testing.T) {
	simkit.Main(t, simkit.Engine{
		Name:  "backupsim",
		Props: map[string]simkit.PropFunc{"C38": runArchive},
		Real: []string{"runtime/backup.FullExporter + FullStreamWriter (slot artifacts, zstd chunks, slot manifests)", "runtime/backup.PublishArchive (top-level manifest, COMPLETE, catalog entry)",
			"pkg/backup VerifyPublishedArchive / LoadStoredSlot / LoadPublishedArchiveMetadata / ReadStoredObject / DecodeChunk",
			"pkg/backup manifest codecs (archive, slot, message-chunk, COMPLETE, repository marker)", "usecase/backup.ListArchives (discoverability)", "klauspost zstd", "OS temp files of the exporter"},
		Stub: []string{"ArchiveStore (in-memory object map owned by the simulator: torn k-th Put, single-object storage faults)", "FullSlotSource (tape-generated slot cuts and streams)"},
		Rule: "One run = one 256-slot archive written by the real exporter and publisher onto the simulated store (optionally with a crash in the export phase that is resumed), " +
			"then (half of the faulty runs) a crash-during-publication trial with a retry, and 4-8 single-storage-fault trials, each on a fresh clone of the published store, each followed by the real verification; " +
			"every manifest-class body the traffic produces (pristine, byte-mutated, structurally mutated) is also fed to its decoder with the allocation of the call measured. " +
			"Non-trivial = the archive was published and verified AND at least one fault trial changed stored bytes.",
		Assumptions: []string{"a storage fault changes ONE object (or moves/copies one object); the store reports object sizes truthfully",
			"a crashed Put leaves a strict prefix of the body under the final key", "runtime.MemStats.TotalAlloc deltas are attributed to the measured call (GOMAXPROCS=1, no other goroutine runs)",
			"the manifest-decoder clause is input-quantified: it is covered through the corruptions this traffic produces plus a fixed family of structural JSON mutations, not through arbitrary JSON"},
	})
}

var (
	tempOnce sync.Once
	tempDir  string
	// slotMemo: what the real exporter wrote for a plain slot (content fixed by slot number), per process
	slotMemo = map[string]*memoSlot{}
)

type recordedPut struct {
	rel      string
	body     []byte
	ifAbsent bool
}

type memoSlot struct {
	puts []recordedPut
	ref  backup.SlotReference
}

// recordingStore passes everything to the simulated store and notes the Puts of one ExportSlot call.
type recordingStore struct {
	*simStore
	root string
	rec  *[]recordedPut
}

func (s *recordingStore) Put(ctx context.Context, put backup.PutObject) error {
	if s.rec == nil {
		return s.simStore.Put(ctx, put)
	}
	body, err := io.ReadAll(put.Body)
	if err != nil {
		return err
	}
	*s.rec = append(*s.rec, recordedPut{rel: strings.TrimPrefix(put.Key, s.root), body: body, ifAbsent: put.IfAbsent})
	put.Body = bytes.NewReader(body)
	return s.simStore.Put(ctx, put)
}

const (
	maxChunk     = int(backup.MaxChunkLogicalBytes)
	clusterID    = "cluster-sim"
	application  = "wukongim-sim"
	startedMs    = int64(1_800_000_000_000)
	completedMs  = int64(1_800_000_090_000)
	allocSlack   = 96 << 10 // fixed part of the per-call allocation bound
	allocPerByte = 48       // input-proportional part
)

type streamSpec struct {
	kind    backup.ChunkKind
	pattern []byte
	size    int // logical bytes (pattern repeated / cut to size)
	records uint64
	maxMsg  uint64
}

type slotSpec struct {
	cut     backup.SlotCut
	streams []streamSpec
}

type patternReader struct {
	pattern []byte
	off     int
	left    int
}

func (p *patternReader) Read(b []byte) (int, error) {
	if p.left == 0 {
		return 0, io.EOF
	}
	n := 0
	for n < len(b) && p.left > 0 {
		c := copy(b[n:], p.pattern[p.off:])
		if c > p.left {
			c = p.left
		}
		n += c
		p.left -= c
		p.off = (p.off + c) % len(p.pattern)
	}
	return n, nil
}
func (p *patternReader) Close() error { return nil }

func (s streamSpec) reader() io.ReadCloser {
	pat := s.pattern
	if len(pat) == 0 {
		pat = []byte{0}
	}
	return &patternReader{pattern: pat, left: s.size}
}

// partDigests returns (sha256, bytes) of every 64 MiB part of the stream.
func (s streamSpec) partDigests() (shas []string, sizes []int) {
	r := s.reader()
	left := s.size
	for {
		n := left
		if n > maxChunk {
			n = maxChunk
		}
		h := sha256.New()
		io.CopyN(h, r, int64(n))
		shas = append(shas, hex.EncodeToString(h.Sum(nil)))
		sizes = append(sizes, n)
		left -= n
		if left == 0 {
			return
		}
	}
}

type simSource struct{ slots []slotSpec }

func (s *simSource) OpenFullSlot(_ context.Context, slot uint16) (runtimebackup.FullSlotCapture, error) {
	return &simCapture{spec: s.slots[slot]}, nil
}

type simCapture struct {
	spec slotSpec
	next int
}

func (c *simCapture) Cut() backup.SlotCut { return c.spec.cut }
func (c *simCapture) Next(context.Context) (runtimebackup.FullSlotStream, error) {
	if c.next == len(c.spec.streams) {
		return runtimebackup.FullSlotStream{}, io.EOF
	}
	s := c.spec.streams[c.next]
	c.next++
	return runtimebackup.FullSlotStream{Kind: s.kind, Reader: s.reader(), Records: s.records, MaxMessageID: s.maxMsg}, nil
}
func (c *simCapture) Close() error { return nil }

type world struct {
	r      *simkit.Run
	ctx    context.Context
	id     string
	slots  []slotSpec
	rich   []int // slots with message streams
	refs   []backup.SlotReference
	pub    *simStore // published store
	man    backup.ArchiveManifest
	root   string
	origFP map[string]string
	// decoder statistics
	decCalls  int
	changed   int
	bigStream bool
	identical bool
}

func errClass(err error) string {
	switch {
	case err == nil:
		return "ok"
	case errors.Is(err, errCrashed):
		return "crashed"
	case errors.Is(err, backup.ErrObjectNotFound):
		return "not-found"
	case errors.Is(err, backup.ErrObjectCorrupt):
		return "corrupt"
	case errors.Is(err, backup.ErrInvalidManifest):
		return "invalid-manifest"
	case errors.Is(err, backup.ErrUnsupportedVersion):
		return "unsupported-version"
	case errors.Is(err, backup.ErrInvalidObject):
		return "invalid-object"
	case errors.Is(err, backup.ErrObjectExists):
		return "exists"
	case errors.Is(err, backup.ErrRepositoryIncomplete):
		return "repository-incomplete"
	}
	return "other"
}

func (w *world) drawArchive() {
	tp := w.r.Tape
	w.id = fmt.Sprintf("bk_%04d", tp.Intn(10000))
	w.root = "backups/" + w.id + "/"
	identical := tp.Intn(3) == 1 // every plain slot carries the same metadata bytes
	w.identical = identical
	nRich := 1 + tp.Intn(5)
	richSet := map[int]bool{}
	for i := 0; i < nRich; i++ {
		richSet[tp.Intn(backup.DefaultHashSlotCount)] = true
	}
	bigSlot := -1
	// a stream above MaxChunkLogicalBytes (two parts) costs seconds per run: rare in the quick tier
	bigDen := 256
	if w.r.Tier == "thorough" {
		bigDen = 48
	}
	if tp.Chance(1, bigDen) {
		bigSlot = tp.Intn(backup.DefaultHashSlotCount)
		richSet[bigSlot] = true
		w.bigStream = true
	}
	w.slots = make([]slotSpec, backup.DefaultHashSlotCount)
	for slot := range w.slots {
		sp := slotSpec{cut: backup.SlotCut{PhysicalSlotID: uint32(1 + slot%7), LeaderTerm: 3, AppliedTerm: 3, ConfigurationVersion: 2,
			AppliedIndex: uint64(100 + slot), CapturedAtUnixMillis: startedMs + 1000 + int64(slot)}}
		meta := []byte(fmt.Sprintf("meta-of-slot-%03d;", slot))
		if identical {
			meta = []byte("shared-metadata;")
		}
		sp.streams = append(sp.streams, streamSpec{kind: backup.ChunkKindMetadata, pattern: meta, size: len(meta), records: 1})
		if richSet[slot] {
			w.rich = append(w.rich, slot)
			// metadata of a rich slot: tape-chosen size, possibly empty
			msz := []int{0, 1, 17, 300, 5000, 70000}[tp.Intn(6)]
			sp.streams[0] = streamSpec{kind: backup.ChunkKindMetadata, pattern: tp.Bytes(1 + tp.Intn(12)), size: msz, records: uint64(tp.Intn(50))}
			nStreams := tp.Intn(4)
			if slot == bigSlot && nStreams == 0 {
				nStreams = 1
			}
			var maxID uint64 = 1000 * uint64(slot+1)
			for k := 0; k < nStreams; k++ {
				sz := []int{0, 3, 64, 900, 20000, 200000}[tp.Intn(6)]
				if slot == bigSlot && k == 0 {
					sz = maxChunk + []int{0, 1, 4097}[tp.Intn(3)]
				}
				recs := uint64(tp.Intn(100))
				maxID += uint64(1 + tp.Intn(500))
				st := streamSpec{kind: backup.ChunkKindMessages, pattern: tp.Bytes(1 + tp.Intn(24)), size: sz, records: recs, maxMsg: maxID}
				if recs == 0 {
					st.maxMsg = 0
				}
				sp.streams = append(sp.streams, st)
			}
		}
		w.slots[slot] = sp
	}
	w.r.Logf("archive %s identical_meta=%v rich=%v big=%d", w.id, identical, w.rich, bigSlot)
}

// expectedChunks is the reference model of one slot's chunk list (stored digests excluded).
func (w *world) expectedChunks(slot int) []backup.ChunkReference {
	var out []backup.ChunkReference
	seq := map[backup.ChunkKind]uint32{backup.ChunkKindMetadata: 1, backup.ChunkKindMessages: 1}
	stream := map[backup.ChunkKind]uint32{backup.ChunkKindMetadata: 0, backup.ChunkKindMessages: 1}
	for _, s := range w.slots[slot].streams {
		shas, sizes := s.partDigests()
		name := "meta"
		if s.kind == backup.ChunkKindMessages {
			name = "messages"
		}
		for i := range shas {
			ref := backup.ChunkReference{Kind: s.kind, Sequence: seq[s.kind], Stream: stream[s.kind], Part: uint32(i + 1), Final: i == len(shas)-1,
				Key:        fmt.Sprintf("slots/%03d/%s-%06d.zst", slot, name, seq[s.kind]),
				Descriptor: backup.ChunkDescriptor{LogicalSHA256: shas[i], LogicalBytes: uint64(sizes[i]), Compression: backup.CompressionZstd}}
			if i == 0 {
				ref.Records, ref.MaxMessageID = s.records, s.maxMsg
			}
			out = append(out, ref)
			seq[s.kind]++
		}
		stream[s.kind]++
	}
	return out
}

func (w *world) fail(class, sig, format string, args ...any) {
	w.r.FailSig(class, sig, fmt.Sprintf(format, args...), nil)
}

func runArchive(t *testing.T, r *simkit.Run) {
	tempOnce.Do(func() {
		tempDir = t.TempDir()
		debug.SetGCPercent(400) // every chunk codec call allocates megabytes; collect less often
	})
	tp := r.Tape
	w := &world{r: r, ctx: context.Background()}
	noFaults := tp.Intn(4) == 0
	exportCrash := !noFaults && tp.Intn(6) == 1
	publishCrash := !noFaults && tp.Intn(2) == 1
	r.Config["nofaults"] = noFaults
	r.Config["export_crash"] = exportCrash
	w.drawArchive()
	r.Config["archive"] = w.id
	r.Config["rich_slots"] = len(w.rich)
	r.Config["big_stream"] = w.bigStream

	store := newSimStore()
	if !w.export(store, exportCrash) {
		return
	}
	r.Steps++
	// --- crash during publication (on a clone of the exported store) ---
	r.Config["publish_crash"] = publishCrash
	if publishCrash {
		if !w.publishCrashTrial(store.clone()) {
			return
		}
	}
	// --- publication without faults ---
	if !w.publishAndVerify(store) {
		return
	}
	w.decoderBaseline()
	if r.Failed() {
		return
	}
	if !noFaults {
		trials := 4 + tp.Intn(5)
		for i := 0; i < trials && !r.Failed(); i++ {
			r.Steps++
			w.faultTrial(i)
		}
	}
	r.ProbeN("decoder_calls", w.decCalls)
	if w.bigStream {
		r.Probe("multi_part_stream")
	}
	r.Nontrivial = !r.Failed() && (noFaults || w.changed > 0)
}

func (w *world) request() runtimebackup.PublishArchiveRequest {
	return runtimebackup.PublishArchiveRequest{ID: w.id, Trigger: backup.TriggerScheduled, SourceClusterID: clusterID, SourceApplication: application,
		StartedUnixMillis: startedMs, CompletedUnixMillis: completedMs, Slots: w.refs}
}

// export writes every slot through the real exporter; with crash=true one Put of
// the export phase is torn, the "process" restarts and resumes at that slot.
func (w *world) export(store *simStore, crash bool) bool {
	r := w.r
	rs := &recordingStore{simStore: store, root: w.root}
	exp, err := runtimebackup.NewFullExporter(runtimebackup.FullExporterOptions{Store: rs, Source: &simSource{slots: w.slots}, TempDir: tempDir})
	if err != nil {
		r.Infra("exporter: %v", err)
		return false
	}
	isRich := map[int]bool{}
	for _, s := range w.rich {
		isRich[s] = true
	}
	// plain slots (fixed content per slot number) go through the real exporter once per
	// process; afterwards the Puts it issued are replayed verbatim (same keys, bodies, order,
	// so crash points behave the same). A few tape-chosen plain slots are always exported for real.
	forceReal := map[int]bool{}
	for i := 0; i < 4; i++ {
		forceReal[r.Tape.Intn(backup.DefaultHashSlotCount)] = true
	}
	exportOne := func(slot int) (backup.SlotReference, error) {
		mk := fmt.Sprintf("%d/%v", slot, w.identical)
		m := slotMemo[mk]
		if isRich[slot] || forceReal[slot] || m == nil {
			var puts []recordedPut
			rs.rec = nil
			if !isRich[slot] {
				rs.rec = &puts
			}
			ref, err := exp.ExportSlot(w.ctx, w.id, uint16(slot))
			rs.rec = nil
			if err == nil && !isRich[slot] {
				if m != nil && (m.ref != ref || len(m.puts) != len(puts)) {
					r.Infra("exporter is not deterministic for plain slot %d", slot)
				}
				slotMemo[mk] = &memoSlot{puts: puts, ref: ref}
			}
			return ref, err
		}
		if err := store.DeletePrefix(w.ctx, fmt.Sprintf("%sslots/%03d", w.root, slot)); err != nil {
			return backup.SlotReference{}, err
		}
		for _, p := range m.puts {
			if err := store.Put(w.ctx, backup.PutObject{Key: w.root + p.rel, Body: bytes.NewReader(p.body), ExpectedBytes: uint64(len(p.body)), IfAbsent: p.ifAbsent}); err != nil {
				return backup.SlotReference{}, err
			}
		}
		return m.ref, nil
	}
	if crash {
		total := 0
		for s := range w.slots {
			total += len(w.expectedChunks(s)) + 1
		}
		store.crashAt = 1 + r.Tape.Intn(total)
		store.tornNum, store.tornDen = r.Tape.Intn(4), 4
	}
	w.refs = make([]backup.SlotReference, backup.DefaultHashSlotCount)
	for slot := 0; slot < backup.DefaultHashSlotCount; slot++ {
		ref, err := exportOne(slot)
		if err != nil {
			if !errors.Is(err, errCrashed) {
				w.fail("export-failed", "slot", "ExportSlot(%d) on a healthy store: %v", slot, err)
				return false
			}
			r.Fault("crash_during_export")
			r.Logf("export crashed at put %d key=%s torn=%d/%d (slot %d)", store.crashAt, store.tornKey, store.tornLen, store.fullLen, slot)
			store.reboot()
			if !w.mustBeUnpublished(store, "export-crash") {
				return false
			}
			// a publisher that is handed references for slots that were never completed must refuse
			req := w.request()
			req.Slots = append([]backup.SlotReference(nil), w.refs...)
			for s := slot; s < backup.DefaultHashSlotCount; s++ {
				sum := sha256.Sum256([]byte{byte(s)})
				req.Slots[s] = backup.SlotReference{HashSlot: uint16(s), ManifestKey: fmt.Sprintf("slots/%03d/manifest.json", s), ManifestSHA256: hex.EncodeToString(sum[:])}
			}
			if _, perr := runtimebackup.PublishArchive(w.ctx, store, req); perr == nil {
				w.fail("published-incomplete-archive", "export-crash", "PublishArchive succeeded although slot %d was never exported completely", slot)
				return false
			}
			if !w.mustBeUnpublished(store, "export-crash-after-refused-publish") {
				return false
			}
			slot-- // resume: the crashed slot is exported again from scratch
			continue
		}
		w.refs[slot] = ref
	}
	// the slot artifacts must reproduce the model
	check := append([]int(nil), w.rich...)
	for i := 0; i < 3; i++ {
		check = append(check, r.Tape.Intn(backup.DefaultHashSlotCount))
	}
	for _, slot := range check {
		if !w.checkSlot(store, slot) {
			return false
		}
	}
	return true
}

func (w *world) checkSlot(store *simStore, slot int) bool {
	ref, man, err := backup.LoadStoredSlot(w.ctx, store, w.id, uint16(slot), true)
	if err != nil {
		w.fail("unfaulted-slot-rejected", "load", "LoadStoredSlot(%d) on an unfaulted store: %v", slot, err)
		return false
	}
	if ref != w.refs[slot] {
		w.fail("slot-reference-not-reproduced", "ref", "slot %d: exporter returned %+v, store yields %+v", slot, w.refs[slot], ref)
		return false
	}
	want := w.expectedChunks(slot)
	if len(man.Chunks) != len(want) || man.Cut != w.slots[slot].cut || man.HashSlot != uint16(slot) {
		w.fail("slot-manifest-not-reproduced", "shape", "slot %d: %d chunks / cut %+v, model has %d chunks / cut %+v", slot, len(man.Chunks), man.Cut, len(want), w.slots[slot].cut)
		return false
	}
	for i, got := range man.Chunks {
		o := store.objects[w.root+got.Key]
		sum := sha256.Sum256(o.body)
		if got.Descriptor.StoredSHA256 != hex.EncodeToString(sum[:]) || got.Descriptor.StoredBytes != uint64(len(o.body)) {
			w.fail("slot-manifest-not-reproduced", "stored-digest", "slot %d chunk %d: descriptor does not describe the stored object", slot, i)
			return false
		}
		got.Descriptor.StoredSHA256, got.Descriptor.StoredBytes = "", 0
		if got != want[i] {
			w.fail("slot-manifest-not-reproduced", "chunk", "slot %d chunk %d: got %+v want %+v", slot, i, got, want[i])
			return false
		}
		if len(man.Chunks) > 1 && got.Part > 1 {
			w.r.Probe("verified_multi_part_chunk")
		}
	}
	return true
}

// mustBeUnpublished: without an intact COMPLETE the archive must neither verify nor be listed as healthy.
func (w *world) mustBeUnpublished(store *simStore, where string) bool {
	if _, err := backup.VerifyPublishedArchive(w.ctx, store, w.id); err == nil {
		w.fail("unpublished-archive-verifies", where, "VerifyPublishedArchive succeeded without an intact COMPLETE marker (%s)", where)
		return false
	}
	if _, err := backup.LoadPublishedArchiveMetadata(w.ctx, store, w.id); err == nil {
		w.fail("unpublished-archive-verifies", where+"/metadata", "LoadPublishedArchiveMetadata succeeded without an intact COMPLETE marker (%s)", where)
		return false
	}
	list, err := ucbackup.ListArchives(w.ctx, store)
	if err != nil {
		w.r.Logf("  list(%s) -> %s", where, errClass(err))
		return true
	}
	for _, a := range list {
		if a.ID == w.id && a.Health == ucbackup.ArchiveHealthHealthy {
			w.fail("unpublished-archive-discoverable", where, "ListArchives shows %s as healthy without an intact COMPLETE marker (%s)", w.id, where)
			return false
		}
	}
	return true
}

func (w *world) mustBePublished(store *simStore, man backup.ArchiveManifest, where string) bool {
	got, err := backup.VerifyPublishedArchive(w.ctx, store, w.id)
	if err != nil {
		w.fail("published-archive-rejected", where, "VerifyPublishedArchive on an unfaulted published archive (%s): %v", where, err)
		return false
	}
	if !reflect.DeepEqual(got, man) {
		w.fail("manifest-not-reproduced", where, "verification returned a manifest different from the published one (%s)", where)
		return false
	}
	for i, ref := range got.Slots {
		if ref != w.refs[i] {
			w.fail("manifest-not-reproduced", where+"/slot-ref", "slot reference %d differs from the exporter's (%s)", i, where)
			return false
		}
	}
	return true
}

func (w *world) publishCrashTrial(store *simStore) bool {
	r := w.r
	tp := r.Tape
	store.puts = 0
	store.crashAt = 1 + tp.Intn(4)
	torn := tp.Intn(6) // fraction of the body that reaches the store: 0, 1/4, 1/2, 3/4, all but the last byte, all of it
	store.tornNum, store.tornDen = []int{0, 1, 2, 3, 999, 1}[torn], []int{1, 4, 4, 4, 1000, 1}[torn]
	store.tornFull = torn == 5
	man, err := runtimebackup.PublishArchive(w.ctx, store, w.request())
	if err == nil {
		// the crash point lay beyond the last Put
		r.Logf("publish-crash: crash point %d not reached", store.crashAt)
		store.reboot()
		return w.mustBePublished(store, man, "crash-not-reached")
	}
	if !errors.Is(err, errCrashed) {
		w.fail("publish-failed", "crash-trial", "PublishArchive failed before the crash point: %v", err)
		return false
	}
	r.Fault("crash_during_publication")
	r.Logf("publish crashed at put %d key=%s torn=%d/%d", store.crashAt, store.tornKey, store.tornLen, store.fullLen)
	store.reboot()
	_, hasComplete := store.objects[w.root+"COMPLETE"]
	completeIntact := hasComplete && (store.tornKey != w.root+"COMPLETE" || store.tornLen == store.fullLen)
	if completeIntact {
		r.Probe("crash_after_complete")
		// COMPLETE is fully written: the archive is published whatever happened to the catalog entry
		if _, err := backup.VerifyPublishedArchive(w.ctx, store, w.id); err != nil {
			w.fail("published-archive-rejected", "crash-after-complete", "COMPLETE intact but verification fails: %v", err)
			return false
		}
	} else {
		if hasComplete {
			r.Probe("torn_complete_marker")
		}
		if !w.mustBeUnpublished(store, "publish-crash") {
			return false
		}
	}
	// the restarted publisher retries
	man2, err2 := runtimebackup.PublishArchive(w.ctx, store, w.request())
	r.Logf("  retry publish -> %s", errClass(err2))
	if err2 == nil {
		r.Probe("publish_retry_succeeded")
		return w.mustBePublished(store, man2, "publish-retry")
	}
	r.Probe("publish_retry_refused")
	if !completeIntact {
		return w.mustBeUnpublished(store, "publish-retry-refused")
	}
	return true
}

func (w *world) publishAndVerify(store *simStore) bool {
	r := w.r
	man, err := runtimebackup.PublishArchive(w.ctx, store, w.request())
	if err != nil {
		w.fail("publish-failed", "healthy", "PublishArchive on a healthy store: %v", err)
		return false
	}
	if !w.mustBePublished(store, man, "healthy") {
		return false
	}
	list, err := ucbackup.ListArchives(w.ctx, store)
	if err != nil || len(list) != 1 || list[0].ID != w.id || list[0].Health != ucbackup.ArchiveHealthHealthy ||
		list[0].LogicalBytes != man.LogicalBytes || list[0].Records != man.Records {
		w.fail("published-archive-not-listed", "healthy", "ListArchives = %+v, %v", list, err)
		return false
	}
	// publication is idempotent (checked in a quarter of the runs: it costs a full verification pass)
	if r.Tape.Intn(4) == 1 {
		before := store.fingerprint("")
		again, err := runtimebackup.PublishArchive(w.ctx, store, w.request())
		if err != nil || !reflect.DeepEqual(again, man) || !reflect.DeepEqual(before, store.fingerprint("")) {
			w.fail("publish-retry-changed-archive", "healthy", "second PublishArchive: %v", err)
			return false
		}
		r.Probe("idempotent_republish")
	}
	w.pub, w.man = store, man
	w.origFP = store.fingerprint(w.root)
	r.Logf("published %s: logical=%d stored=%d records=%d objects=%d", w.id, man.LogicalBytes, man.StoredBytes, man.Records, len(w.origFP))
	return true
}

// semanticallyIdentical: every object of the published archive is present with
// identical bytes and no CORRUPT marker was added (extra unreferenced objects do not matter).
func (w *world) semanticallyIdentical(store *simStore) bool {
	for k, d := range w.origFP {
		o, ok := store.objects[k]
		if !ok || digestOf(o) != d {
			return false
		}
	}
	_, corrupt := store.objects[w.root+"CORRUPT"]
	return !corrupt
}
