package gatesim

// C23client: the real pkg/client session (Connect handshake through
// codec.DecodePacketWithConn, reader loop with its own accumulation buffer,
// writer loop) runs against the real gateway server. The harness owns the
// connection in between: one net.Pipe per client whose far end is bridged into
// the simulated server transport, so both directions can be cut, coalesced,
// corrupted and closed at tape-chosen points.

import (
	"context"
	"fmt"
	"io"
	"net"
	"os"
	"regexp"
	"runtime"
	"sort"
	"strings"
	"sync"
	"sync/atomic"
	"time"

	"github.com/WuKongIM/WuKongIM/internal/verifsim/simkit"
	wkclient "github.com/WuKongIM/WuKongIM/pkg/client"
	"github.com/WuKongIM/WuKongIM/pkg/protocol/frame"
)

type rcResult struct {
	kind string // "connect", "send", "recv", "ping", "close"
	idx  int
	enc  []byte            // connect: the CONNACK returned; recv: the RECV packet returned (re-encoded)
	pkt  *frame.RecvPacket // recv: the packet itself, kept by the caller without copying
	res  wkclient.SendResult
	err  error
}

type rcSend struct {
	msgNo string
	done  bool
	ok    bool
}

type realClient struct {
	k   int
	e   *engine
	cli *wkclient.Client
	far net.Conn
	// near is handed to the client by the dialer
	near net.Conn

	mu      sync.Mutex
	out     []byte // bytes written by the client, not yet moved to the server-bound socket
	pumpEOF bool
	results []rcResult

	wire     chan []byte
	wireBusy atomic.Bool

	// scheduler side
	parseBuf       []byte
	parsedOff      int
	connectStarted bool
	connectDone    bool
	connectOK      bool
	opsLeft        int
	sends          []*rcSend
	unresolved     int
	recvWaiting    bool
	recvGot        int
	recvErr        bool
	pings          int
	userClosed     bool
	farClosed      bool
	dead           bool   // the client reported a terminal read/connect error or was closed
	wq             []byte // server-to-client bytes prepared for the wire (possibly corrupted)
	nextWrite      int    // conn.writes loaded into wq so far
	taintWrite     int    // first corrupted write (-1 none)
	disconnectAt   int    // index of a DISCONNECT write (-1 none)
	eofSeen        bool
	held           []heldRecv // clean packets Recv returned, still referenced by the caller
	explicitAck    bool       // the caller acknowledges every packet Recv returned
	ackQueue       []int64    // message ids waiting for their RECVACK
}

type rcDialer struct{ rc *realClient }

func (d rcDialer) DialContext(context.Context, string, string) (net.Conn, error) {
	return d.rc.near, nil
}

func (rc *realClient) post(res rcResult) {
	rc.mu.Lock()
	rc.results = append(rc.results, res)
	rc.mu.Unlock()
}

// pump drains everything the client writes, like a socket with a large send
// buffer; the scheduler moves the bytes on at the next quiescent point.
func (rc *realClient) pump() {
	defer rc.e.q.readers.Done()
	buf := make([]byte, 32*1024)
	for {
		n, err := rc.far.Read(buf)
		rc.mu.Lock()
		rc.out = append(rc.out, buf[:n]...)
		if err != nil {
			rc.pumpEOF = true
		}
		rc.mu.Unlock()
		if err != nil {
			return
		}
	}
}

// wirer hands one tape-chosen chunk at a time to the client's side of the pipe.
func (rc *realClient) wirer() {
	defer rc.e.q.readers.Done()
	for chunk := range rc.wire {
		_, _ = rc.far.Write(chunk)
		rc.wireBusy.Store(false)
	}
}

func (e *engine) setupRealClients() {
	q := e.q
	tp := q.r.Tape
	for _, cl := range q.clients {
		near, far := net.Pipe()
		rc := &realClient{k: cl.k, e: e, near: near, far: far, wire: make(chan []byte, 1), taintWrite: -1, disconnectAt: -1, opsLeft: q.cfg.Frames}
		ccfg := wkclient.Config{Addr: fmt.Sprintf("sim:%d", cl.k), Dialer: rcDialer{rc}, OperationTimeout: time.Hour, AckTimeout: time.Hour,
			SendQueueCapacity: 64, MaxInflight: 64, // the defaults (8192) cost megabytes of zeroed channel buffers per client

			ReadBufferSize:         []int{4096, 1, 2, 5, 64}[tp.Weighted([]int{3, 2, 1, 1, 2})],
			InboundFrameBufferSize: []int{1024, 1, 2}[tp.Weighted([]int{2, 2, 1})],
			BatchMaxWait:           []time.Duration{time.Millisecond, -1}[tp.Intn(2)],
			BatchMaxRecords:        []int{512, 1, 3}[tp.Intn(3)],
			// AutoRecvAck stays off: the reader queues the RECVACK for the writer goroutine and
			// may fail and close the connection before the writer ran; which of the two wins is
			// the client's own scheduling and not reproducible. RECVACKs are sent explicitly.
			AutoRecvAck: false}
		rc.explicitAck = tp.Intn(2) == 1
		cli, err := wkclient.New(ccfg)
		if err != nil {
			q.r.Infra("client.New: %v", err)
			return
		}
		rc.cli = cli
		q.r.Logf("  client c%d read_buffer=%d inbound_queue=%d auto_recvack=%v", cl.k, ccfg.ReadBufferSize, ccfg.InboundFrameBufferSize, ccfg.AutoRecvAck)
		cl.rc = rc
		cl.inVersion, cl.outVersion, cl.reqVersion = frame.LatestVersion, frame.LatestVersion, frame.LatestVersion
		q.readers.Add(2)
		go rc.pump()
		go rc.wirer()
	}
}

func (e *engine) closeFar(cl *client) {
	rc := cl.rc
	if rc.farClosed {
		return
	}
	rc.farClosed = true
	_ = rc.far.Close()
}

func (e *engine) teardownRealClients() {
	q := e.q
	for _, cl := range q.clients {
		if cl.rc == nil {
			continue
		}
		if !cl.rc.userClosed {
			cl.rc.userClosed = true
			_ = cl.rc.cli.Close()
		}
		e.closeFar(cl)
		close(cl.rc.wire)
	}
}

// rcPendingOut: server-written bytes the client has not been given yet.
func (cl *client) rcPendingOut() int { return cl.pendingOut() + len(cl.rc.wq) }

func (e *engine) rcAlive(cl *client) bool {
	rc := cl.rc
	return rc.connectOK && !rc.dead && !rc.userClosed && !rc.farClosed
}

// collectRC adds the actions of one real client.
func (e *engine) collectRC(cl *client, acts *[]simkit.Action, faults bool) {
	q := e.q
	c := q.cfg
	rc := cl.rc
	k := cl.k
	add := func(a simkit.Action) { *acts = append(*acts, a) }
	if !cl.opened {
		if !e.final && !e.stopping {
			add(simkit.Action{Prio: 0, Key: fmt.Sprintf("cconnect c%d", k), Weight: 10, Do: func() { e.doRCConnect(cl) }})
		}
		return
	}
	busy := cl.conn.busy.Load()
	if !busy && !cl.closeSent && !cl.closed && len(cl.sock) > 0 {
		add(simkit.Action{Prio: 0, Key: fmt.Sprintf("deliver c%d", k), Weight: 8, Do: func() { e.doDeliver(cl) }})
	}
	if !busy && cl.finPending && !cl.closeSent && (len(cl.sock) == 0 || cl.closed) {
		add(simkit.Action{Prio: 0, Key: fmt.Sprintf("eof c%d", k), Weight: 8, Do: func() { e.sendClose(cl, io.EOF, "half-close") }})
	}
	if cl.rcPendingOut() > 0 && !rc.wireBusy.Load() && !rc.farClosed && (!cl.stalled || e.final) {
		add(simkit.Action{Prio: 0, Key: fmt.Sprintf("wire c%d", k), Weight: 8, Do: func() { e.doWire(cl, faults) }})
	}
	if cl.closed && !rc.farClosed && cl.rcPendingOut() == 0 && !rc.wireBusy.Load() {
		// the server closed the connection and everything it wrote was delivered
		add(simkit.Action{Prio: 0, Key: fmt.Sprintf("fin-to-client c%d", k), Weight: 8, Do: func() { e.closeFar(cl) }})
	}
	alive := e.rcAlive(cl)
	if alive && !rc.recvWaiting && !rc.recvErr {
		add(simkit.Action{Prio: 0, Key: fmt.Sprintf("crecv c%d", k), Weight: 4, Do: func() { e.doRCRecv(cl) }})
	}
	if alive && len(rc.ackQueue) > 0 {
		add(simkit.Action{Prio: 0, Key: fmt.Sprintf("crecvack c%d", k), Weight: 4, Do: func() {
			id := rc.ackQueue[0]
			rc.ackQueue = rc.ackQueue[1:]
			cli := rc.cli
			go func() {
				err := cli.RecvAck(context.Background(), id, uint64(id))
				rc.post(rcResult{kind: "ping", idx: int(1000 + id), err: err})
			}()
		}})
	}
	if alive && !e.final && !e.quiet && rc.opsLeft > 0 {
		add(simkit.Action{Prio: 0, Key: fmt.Sprintf("csendasync c%d", k), Weight: 4, Do: func() { e.doRCSend(cl) }})
		add(simkit.Action{Prio: 1, Key: fmt.Sprintf("cping c%d", k), Weight: 1, Do: func() { e.doRCPing(cl) }})
	}
	if !e.final && !cl.closed && cl.seenOpen > 0 && cl.pushes < 8 {
		add(simkit.Action{Prio: 1, Key: fmt.Sprintf("push c%d", k), Weight: 5, Do: func() { e.doRCPush(cl) }})
	}
	if !faults {
		return
	}
	killsLeft := e.kills < (c.Sessions+1)/2
	if c.FReset && killsLeft && !cl.closeSent && !rc.farClosed && !cl.closed {
		add(simkit.Action{Prio: 6, Key: fmt.Sprintf("cut c%d", k), Weight: 1, Do: func() {
			// the connection dies in both directions, whatever is in flight is lost
			q.r.Fault("conn_reset")
			e.kills++
			cl.sock = nil
			e.closeFar(cl)
			e.sendClose(cl, errSimReset, "reset")
		}})
		add(simkit.Action{Prio: 6, Key: fmt.Sprintf("eof-to-client c%d", k), Weight: 1, Do: func() {
			// the client's read side ends, possibly in the middle of a frame
			q.r.Fault("client_stream_eof")
			e.kills++
			e.closeFar(cl)
		}})
	}
	if c.FStall && !cl.closed {
		if cl.stalled {
			add(simkit.Action{Prio: 4, Key: fmt.Sprintf("unstall c%d", k), Weight: 2, Do: func() { cl.stalled = false }})
		} else if cl.stalls < 2 {
			add(simkit.Action{Prio: 6, Key: fmt.Sprintf("stall c%d", k), Weight: 1, Do: func() { q.r.Fault("peer_read_stall"); cl.stalls++; cl.stalled = true }})
		}
	}
	if c.FKick && killsLeft && !cl.closed && cl.seenOpen > 0 {
		add(simkit.Action{Prio: 6, Key: fmt.Sprintf("kick c%d", k), Weight: 1, Do: func() { e.kills++; e.doKick(cl) }})
		if rc.disconnectAt < 0 {
			add(simkit.Action{Prio: 6, Key: fmt.Sprintf("srv-disconnect c%d", k), Weight: 1, Do: func() { e.kills++; e.doRCDisconnect(cl) }})
		}
	}
	if alive && killsLeft && c.FKick {
		add(simkit.Action{Prio: 6, Key: fmt.Sprintf("cclose c%d", k), Weight: 1, Do: func() { e.kills++; e.doRCClose(cl) }})
	}
}

func (e *engine) doRCConnect(cl *client) {
	rc := cl.rc
	e.doOpen(cl)
	rc.connectStarted = true
	cli := rc.cli
	k := cl.k
	go func() {
		ack, err := cli.Connect(context.Background(), wkclient.ConnectOptions{UID: fmt.Sprintf("u%d", k), DeviceID: fmt.Sprintf("d%d", k), DeviceFlag: frame.APP, Token: "t"})
		res := rcResult{kind: "connect", err: err}
		if err == nil && ack != nil {
			res.enc, _ = rc.e.q.codec.EncodeFrame(ack, frame.LatestVersion)
		}
		rc.post(res)
	}()
}

func (e *engine) doRCSend(cl *client) {
	q := e.q
	tp := q.r.Tape
	rc := cl.rc
	rc.opsLeft--
	idx := len(rc.sends)
	s := &rcSend{msgNo: fmt.Sprintf("m%d-%d", cl.k, idx+1)}
	rc.sends = append(rc.sends, s)
	rc.unresolved++
	n := []int{5, 0, 40, 130, 300}[tp.Weighted([]int{4, 1, 2, 1, 1})]
	msg := wkclient.Message{ClientMsgNo: s.msgNo, ChannelID: []string{"ch1", "ch2"}[tp.Intn(2)], ChannelType: uint8(1 + tp.Intn(2)), Payload: pattern(n, idx+cl.k), Setting: frame.SettingNoEncrypt}
	q.r.Logf("  csendasync c%d #%d no=%s payload=%d", cl.k, idx, s.msgNo, n)
	cli := rc.cli
	go func() {
		fut, err := cli.SendAsync(context.Background(), msg)
		if err != nil {
			rc.post(rcResult{kind: "send", idx: idx, err: err})
			return
		}
		res, err := fut.Wait(context.Background())
		rc.post(rcResult{kind: "send", idx: idx, res: res, err: err})
	}()
}

func (e *engine) doRCPing(cl *client) {
	rc := cl.rc
	rc.opsLeft--
	rc.pings++
	idx := rc.pings
	cli := rc.cli
	go func() {
		err := cli.Ping(context.Background())
		rc.post(rcResult{kind: "ping", idx: idx, err: err})
	}()
}

func (e *engine) doRCRecv(cl *client) {
	rc := cl.rc
	rc.recvWaiting = true
	cli := rc.cli
	go func() {
		pkt, err := cli.Recv(context.Background())
		res := rcResult{kind: "recv", err: err}
		if err == nil && pkt != nil {
			res.enc, _ = rc.e.q.codec.EncodeFrame(pkt, frame.LatestVersion)
			res.pkt = pkt // the application keeps the packet while the reader goes on reading
		}
		rc.post(res)
	}()
}

type heldRecv struct {
	pkt   *frame.RecvPacket
	write int // index of the RECV frame in the server's writes
	idx   int
}

// recheckHeld: a packet handed to the caller must keep the content of the frame
// that was written, whatever the reader decodes afterwards.
func (e *engine) recheckHeld(cl *client, writes []outWrite) bool {
	q := e.q
	rc := cl.rc
	for _, h := range rc.held {
		enc, err := q.codec.EncodeFrame(h.pkt, frame.LatestVersion)
		if err != nil || string(enc) != string(writes[h.write].data) {
			q.fail("client-frames-mismatch", "recv-changed-after-delivery", fmt.Sprintf("c%d: packet #%d returned by Recv matched the RECV frame written when it was delivered but differs now, after the reader processed more of the stream: now %s, written %s", cl.k, h.idx, short(enc), short(writes[h.write].data)), nil)
			return false
		}
	}
	return true
}

func (e *engine) doRCClose(cl *client) {
	q := e.q
	rc := cl.rc
	rc.userClosed = true
	q.r.Fault("client_close")
	cli := rc.cli
	go func() {
		err := cli.Close()
		rc.post(rcResult{kind: "close", err: err})
	}()
}

// doRCPush makes the server write an unsolicited frame to the session.
func (e *engine) doRCPush(cl *client) {
	q := e.q
	tp := q.r.Tape
	c := cl.conn
	c.mu.Lock()
	sess := c.sess
	c.mu.Unlock()
	if sess == nil {
		return
	}
	cl.pushes++
	n := cl.pushes
	var f frame.Frame
	switch tp.Weighted([]int{8, 1, 1}) {
	case 1:
		f = &frame.EventPacket{Id: fmt.Sprintf("e%d", n), Type: "custom", Timestamp: int64(n), Data: pattern(tp.Intn(20), n)}
	case 2:
		f = &frame.SubackPacket{SubNo: fmt.Sprintf("s%d", n), ChannelID: "ch1", ChannelType: 2, Action: frame.Subscribe, ReasonCode: frame.ReasonSuccess}
	default:
		size := []int{6, 0, 60, 130, 5000}[tp.Weighted([]int{4, 1, 2, 2, 1})]
		p := &frame.RecvPacket{Setting: frame.SettingNoEncrypt, MessageID: int64(n), MessageSeq: uint64(n), ClientMsgNo: fmt.Sprintf("p%d", n), Timestamp: 1,
			ChannelID: "push", ChannelType: 2, FromUID: "srv", Payload: pattern(size, n+cl.k)}
		if tp.Weighted([]int{2, 3}) == 1 {
			// any combination of setting bits; the session is plaintext either way
			p.Setting = 0
			for _, s := range []frame.Setting{frame.SettingNoEncrypt, frame.SettingReceiptEnabled, frame.SettingSignal, frame.SettingTopic, frame.SettingStream} {
				if tp.Intn(2) == 1 {
					p.Setting.Set(s)
				}
			}
			if p.Setting.IsSet(frame.SettingTopic) {
				p.Topic = fmt.Sprintf("topic%d", n)
			}
			if tp.Intn(3) == 0 {
				p.NoPersist, p.RedDot, p.SyncOnce = tp.Intn(2) == 1, tp.Intn(2) == 1, tp.Intn(2) == 1
				p.MsgKey = fmt.Sprintf("key%d", n)
			}
		}
		f = p
	}
	err := q.issue(c, "push", fmt.Sprint(n), func() error { return sess.WriteFrame(f) })
	q.r.Logf("  push c%d #%d %v err=%v", cl.k, n, f.GetFrameType(), err != nil)
}

func (e *engine) doRCDisconnect(cl *client) {
	q := e.q
	c := cl.conn
	c.mu.Lock()
	sess := c.sess
	nw := len(c.writes)
	c.mu.Unlock()
	if sess == nil {
		return
	}
	q.r.Fault("server_disconnect_frame")
	if err := sess.WriteFrame(&frame.DisconnectPacket{ReasonCode: frame.ReasonConnectKick, Reason: "bye"}); err == nil {
		cl.rc.disconnectAt = nw
	}
}

func corruptBytes(tp *simkit.Tape, r *simkit.Run, data []byte) []byte {
	wire := append([]byte(nil), data...)
	switch tp.Intn(4) {
	case 0:
		i := tp.Intn(len(wire))
		wire[i] ^= 1 << uint(tp.Intn(8))
		r.Fault("corrupt_bitflip")
	case 1:
		if len(wire) > 1 {
			wire = wire[:1+tp.Intn(len(wire)-1)]
		}
		r.Fault("corrupt_truncate")
	case 2:
		if len(wire) > 2 {
			huge := [][]byte{{0xff, 0xff, 0xff, 0x7f}, {0xff, 0xff, 0xff, 0xff}, {0x80, 0x80, 0x80, 0x01}, {0xff, 0xff, 0x7f}}[tp.Intn(4)]
			wire = append(append([]byte{wire[0]}, huge...), wire[2:]...)
		}
		r.Fault("corrupt_oversize_length")
	default:
		wire = append(tp.Bytes(1+tp.Intn(6)), wire...)
		r.Fault("corrupt_garbage")
	}
	return wire
}

// doWire gives the client the next chunk of what the server wrote.
func (e *engine) doWire(cl *client, faults bool) {
	q := e.q
	tp := q.r.Tape
	rc := cl.rc
	c := cl.conn
	c.mu.Lock()
	var fresh [][]byte
	for rc.nextWrite+len(fresh) < len(c.writes) {
		w := c.writes[rc.nextWrite+len(fresh)].data
		fresh = append(fresh, w)
		c.outPending -= len(w)
	}
	c.mu.Unlock()
	bounds := []int{}
	for _, w := range fresh {
		data := w
		if faults && q.cfg.FCorrupt && tp.Chance(1, 9) {
			data = corruptBytes(tp, q.r, w)
			if rc.taintWrite < 0 {
				rc.taintWrite = rc.nextWrite
				q.r.Logf("  server-to-client stream of c%d corrupted from write #%d on", cl.k, rc.nextWrite)
			}
		}
		rc.wq = append(rc.wq, data...)
		rc.nextWrite++
	}
	// frame edges inside the queue are only known while it is clean; good enough to aim cuts
	if rc.taintWrite < 0 {
		off := len(rc.wq)
		for i := len(fresh) - 1; i >= 0; i-- {
			bounds = append(bounds, off)
			off -= len(fresh[i])
		}
	}
	avail := len(rc.wq)
	n := avail
	if !e.final {
		w := []int{4, 3, 2, 2, 2}
		if q.cfg.SplitBias == 0 {
			w = []int{10, 1, 1, 1, 1}
		}
		switch tp.Weighted(w) {
		case 1:
			n = 1
		case 2:
			n = 2 + tp.Intn(6)
		case 3:
			if len(bounds) > 0 {
				n = bounds[tp.Intn(len(bounds))] + tp.Intn(4) // at or just past a frame edge: inside the next header
			}
		case 4:
			n = 1 + tp.Intn(avail)
		}
		if n <= 0 || n > avail {
			n = avail
		}
	}
	chunk := append([]byte(nil), rc.wq[:n]...)
	rc.wq = rc.wq[n:]
	if n < avail {
		e.splitSeen = true
	}
	q.r.Logf("  wire c%d %d of %d bytes", cl.k, n, avail)
	rc.wireBusy.Store(true)
	rc.wire <- chunk
}

func totalAlloc() uint64 {
	var ms runtime.MemStats
	runtime.ReadMemStats(&ms)
	return ms.TotalAlloc
}

// allocBound: a run moves a few hundred kilobytes; the largest legal frame is
// 1 MiB. Anything near the 256 MiB an oversized length prefix declares means
// the client sized a buffer from an unchecked length.
const allocBound = 96 << 20

var bubbleRe = regexp.MustCompile(`synctest bubble (\d+)`)

// stackBuf is reused by every run of the process (runs never overlap).
var stackBuf = make([]byte, 1<<19)

// clientGoroutinesLeft counts goroutines of this bubble that are still inside pkg/client.
func clientGoroutinesLeft() (int, string) {
	buf := stackBuf[:runtime.Stack(stackBuf, true)]
	blocks := strings.Split(string(buf), "\n\n")
	if len(blocks) == 0 {
		return 0, ""
	}
	me := bubbleRe.FindString(strings.SplitN(blocks[0], "\n", 2)[0])
	n, sample := 0, ""
	for _, b := range blocks[1:] {
		head := strings.SplitN(b, "\n", 2)[0]
		if me != "" && bubbleRe.FindString(head) != me {
			continue
		}
		if strings.Contains(b, "/pkg/client.") {
			n++
			if sample == "" {
				sample = b
				if len(sample) > 900 {
					sample = sample[:900]
				}
			}
		}
	}
	return n, sample
}

// checkClientResidue runs at the very end of a run, after every client was
// closed, the pipes are gone and the server is stopped.
func (e *engine) checkClientResidue() {
	q := e.q
	if q.r.Failed() || q.r.InfraErr != "" || q.tainted {
		return
	}
	simkit.Wait()
	// (runtime.NumGoroutine is no shortcut here: the count taken when the run began can
	// include a goroutine of the test runner that is about to exit)
	n, sample := clientGoroutinesLeft()
	if os.Getenv("GATESIM_DEBUG") != "" {
		fmt.Fprintf(os.Stderr, "residue: goroutines=%d base=%d client=%d\n%s\n", runtime.NumGoroutine(), e.goroutineBase, n, sample)
	}
	if n == 0 {
		q.r.Probe("client.no_goroutine_left")
	} else {
		q.fail("client-goroutine-left-after-close", "", fmt.Sprintf("%d goroutine(s) of pkg/client still exist after Close, connection shutdown and 1 s of simulated time:\n%s", n, sample), nil)
		return
	}
	if d := totalAlloc() - e.allocBase; d > allocBound {
		q.fail("client-unbounded-allocation", "", fmt.Sprintf("the run allocated %d MiB; the largest legal frame is 1 MiB and the server wrote a few kilobytes", d>>20), map[string]any{"allocated_mib": d >> 20})
	}
}

// rcPending: client-side work that is still moving.
func (e *engine) rcPending(cl *client) bool {
	rc := cl.rc
	if rc.connectStarted && !rc.connectDone && !rc.farClosed && rc.taintWrite < 0 {
		return true
	}
	if e.rcAlive(cl) && !cl.closed && rc.taintWrite < 0 && rc.unresolved > 0 {
		return true
	}
	return false
}

// observeRC moves the client's output towards the server and checks everything
// the client reported since the last quiescent point.
func (e *engine) observeRC(cl *client) {
	q := e.q
	rc := cl.rc
	k := cl.k
	rc.mu.Lock()
	out := rc.out
	rc.out = nil
	eof := rc.pumpEOF
	results := rc.results
	rc.results = nil
	rc.mu.Unlock()

	if len(out) > 0 {
		cl.sock = append(cl.sock, out...)
		cl.streamLen += len(out)
		rc.parseBuf = append(rc.parseBuf, out...)
		for len(rc.parseBuf) > 0 {
			f, n, err := q.codec.DecodeFrame(rc.parseBuf, frame.LatestVersion)
			if err != nil || f == nil || n == 0 {
				break
			}
			sf := &sentFrame{f: f, typ: f.GetFrameType(), enc: append([]byte(nil), rc.parseBuf[:n]...), start: rc.parsedOff, end: rc.parsedOff + n}
			if s, ok := f.(*frame.SendPacket); ok {
				sf.seq, sf.msgNo = s.ClientSeq, s.ClientMsgNo
			}
			cl.sent = append(cl.sent, sf)
			q.r.Logf("  client c%d wrote %v seq=%d len=%d [%d,%d)", k, sf.typ, sf.seq, n, sf.start, sf.end)
			rc.parseBuf = rc.parseBuf[n:]
			rc.parsedOff += n
		}
	}
	if eof && !rc.eofSeen {
		rc.eofSeen = true
		q.r.Logf("  client c%d closed its side", k)
		if !cl.closeSent && !cl.closed {
			cl.finPending = true // the server sees EOF after the bytes already written
		}
	}

	c := cl.conn
	c.mu.Lock()
	writes := append([]outWrite(nil), c.writes...)
	c.mu.Unlock()
	clean := func(i int) bool { return rc.taintWrite < 0 || i < rc.taintWrite }
	var recvWrites, ackWrites []int
	ackByNo := map[string]int{}
	for i, w := range writes {
		f, _, err := q.codec.DecodeFrame(w.data, frame.LatestVersion)
		if err != nil || f == nil {
			continue
		}
		switch p := f.(type) {
		case *frame.RecvPacket:
			recvWrites = append(recvWrites, i)
		case *frame.SendackPacket:
			ackWrites = append(ackWrites, i)
			ackByNo[p.ClientMsgNo] = i
		}
	}

	// packets delivered earlier are compared again after every step: the reader may
	// have read more of the stream since
	if !e.recheckHeld(cl, writes) {
		return
	}

	sort.SliceStable(results, func(i, j int) bool {
		if results[i].kind != results[j].kind {
			return results[i].kind < results[j].kind
		}
		return results[i].idx < results[j].idx
	})
	for _, res := range results {
		switch res.kind {
		case "connect":
			rc.connectDone = true
			if res.err != nil {
				rc.dead = true
				q.r.Logf("  client c%d connect failed", k)
				q.r.Probe("client.connect_error")
				continue
			}
			rc.connectOK = true
			q.r.Logf("  client c%d connected", k)
			q.r.Probe("client.connected")
			if len(writes) == 0 {
				q.fail("client-frames-mismatch", "connack", fmt.Sprintf("c%d: Connect succeeded although the server wrote nothing", k), nil)
				return
			}
			if clean(0) && string(res.enc) != string(writes[0].data) {
				q.fail("client-frames-mismatch", "connack", fmt.Sprintf("c%d: CONNACK returned by Connect differs from the CONNACK written: got %s want %s", k, short(res.enc), short(writes[0].data)), nil)
				return
			}
		case "send":
			s := rc.sends[res.idx]
			if s.done {
				q.fail("client-frames-mismatch", "sendack-twice", fmt.Sprintf("c%d: send #%d resolved twice", k, res.idx), nil)
				return
			}
			s.done = true
			rc.unresolved--
			if res.res.ClientMsgNo == "" && res.err != nil {
				q.r.Logf("  client c%d send #%d failed without SENDACK", k, res.idx)
				q.r.Probe("client.send_failed")
				continue
			}
			s.ok = true
			q.r.Logf("  client c%d send #%d acked id=%d seq=%d reason=%d", k, res.idx, res.res.MessageID, res.res.MessageSeq, res.res.ReasonCode)
			q.r.Probe("client.sendack_delivered")
			wi, ok := ackByNo[s.msgNo]
			if !ok {
				if rc.taintWrite < 0 {
					q.fail("client-frames-mismatch", "sendack-invented", fmt.Sprintf("c%d: send %s resolved with a SENDACK the server never wrote", k, s.msgNo), nil)
					return
				}
				continue
			}
			if !clean(wi) {
				continue
			}
			f, _, _ := q.codec.DecodeFrame(writes[wi].data, frame.LatestVersion)
			ack := f.(*frame.SendackPacket)
			if res.res.ClientMsgNo != ack.ClientMsgNo || res.res.ClientSeq != ack.ClientSeq || res.res.MessageID != ack.MessageID || res.res.MessageSeq != ack.MessageSeq || res.res.ReasonCode != ack.ReasonCode {
				q.fail("client-frames-mismatch", "sendack", fmt.Sprintf("c%d: send %s resolved with {seq %d id %d mseq %d reason %d} but the SENDACK written is {seq %d id %d mseq %d reason %d}", k, s.msgNo,
					res.res.ClientSeq, res.res.MessageID, res.res.MessageSeq, res.res.ReasonCode, ack.ClientSeq, ack.MessageID, ack.MessageSeq, ack.ReasonCode), nil)
				return
			}
			if rc.disconnectAt >= 0 && wi > rc.disconnectAt {
				q.fail("client-frame-after-disconnect", "", fmt.Sprintf("c%d: a SENDACK written after the DISCONNECT frame was delivered to the caller", k), nil)
				return
			}
		case "recv":
			rc.recvWaiting = false
			if res.err != nil {
				rc.recvErr = true
				rc.dead = true
				q.r.Logf("  client c%d Recv failed", k)
				q.r.Probe("client.read_error")
				continue
			}
			i := rc.recvGot
			rc.recvGot++
			q.r.Logf("  client c%d Recv #%d len=%d", k, i, len(res.enc))
			q.r.Probe("client.recv_delivered")
			if rc.explicitAck {
				if f, _, err := q.codec.DecodeFrame(res.enc, frame.LatestVersion); err == nil && f != nil {
					if p, ok := f.(*frame.RecvPacket); ok {
						rc.ackQueue = append(rc.ackQueue, p.MessageID)
					}
				}
			}
			if i >= len(recvWrites) {
				if rc.taintWrite < 0 {
					q.fail("client-frames-mismatch", "recv-invented", fmt.Sprintf("c%d: Recv returned packet #%d but the server wrote only %d RECV frames", k, i, len(recvWrites)), nil)
					return
				}
				continue
			}
			wi := recvWrites[i]
			if !clean(wi) {
				continue
			}
			if string(res.enc) != string(writes[wi].data) {
				cls := "client-frames-mismatch"
				detail := fmt.Sprintf("c%d: Recv #%d differs from RECV frame written: got %s want %s", k, i, short(res.enc), short(writes[wi].data))
				q.fail(cls, "recv", detail, nil)
				return
			}
			if rc.disconnectAt >= 0 && wi > rc.disconnectAt {
				q.fail("client-frame-after-disconnect", "", fmt.Sprintf("c%d: RECV #%d written after the DISCONNECT frame was delivered to the caller", k, i), nil)
				return
			}
			if res.pkt != nil {
				rc.held = append(rc.held, heldRecv{pkt: res.pkt, write: wi, idx: i})
			}
		case "ping":
			if res.err != nil {
				q.r.Probe("client.ping_error")
			}
		case "close":
			rc.dead = true
			q.r.Logf("  client c%d Close returned", k)
		}
	}
	_ = ackWrites
}

// finalRC: with everything delivered and nothing corrupted the client must have
// handed over every frame the server wrote.
func (e *engine) finalRC(cl *client) bool {
	q := e.q
	rc := cl.rc
	if rc == nil || !rc.connectOK {
		return true
	}
	c := cl.conn
	c.mu.Lock()
	writes := append([]outWrite(nil), c.writes...)
	c.mu.Unlock()
	nRecv, acks := 0, map[string]bool{}
	for _, w := range writes {
		if f, _, err := q.codec.DecodeFrame(w.data, frame.LatestVersion); err == nil && f != nil {
			switch p := f.(type) {
			case *frame.RecvPacket:
				nRecv++
			case *frame.SendackPacket:
				acks[p.ClientMsgNo] = true
			}
		}
	}
	q.r.Logf("final client c%d alive=%v tainted_from=%d recv=%d/%d sends=%d unresolved=%d", cl.k, e.rcAlive(cl), rc.taintWrite, rc.recvGot, nRecv, len(rc.sends), rc.unresolved)
	if rc.taintWrite >= 0 || rc.disconnectAt >= 0 || !e.rcAlive(cl) || cl.closed || cl.rcPendingOut() > 0 || rc.wireBusy.Load() {
		return true
	}
	q.r.Probe("client.clean_session_checked")
	if rc.recvGot != nRecv {
		q.fail("client-frames-missing", "recv", fmt.Sprintf("c%d: the server wrote %d RECV frames, all bytes were delivered, but Recv returned %d", cl.k, nRecv, rc.recvGot), nil)
		return false
	}
	for i, s := range rc.sends {
		if acks[s.msgNo] && !s.ok {
			q.fail("client-frames-missing", "sendack", fmt.Sprintf("c%d: the SENDACK for send #%d (%s) was written and delivered but the caller never got it (resolved=%v)", cl.k, i, s.msgNo, s.done), nil)
			return false
		}
	}
	return true
}
