package gatesim

import (
	"fmt"
	"runtime/debug"
	"strings"

	"github.com/WuKongIM/WuKongIM/internal/verifsim/simkit"
	wkadapter "github.com/WuKongIM/WuKongIM/pkg/gateway/protocol/wkproto"
	"github.com/WuKongIM/WuKongIM/pkg/gateway/session"
	gatewaytypes "github.com/WuKongIM/WuKongIM/pkg/gateway/types"
	codec "github.com/WuKongIM/WuKongIM/pkg/protocol/codec"
	"github.com/WuKongIM/WuKongIM/pkg/protocol/frame"
)

type directResult struct {
	consumed int
	encs     [][]byte
	err      bool
	panicked string
}

// directDecode calls the real adapter on an exact-capacity copy of in.
func directDecode(a *wkadapter.Adapter, c *codec.WKProto, sess session.Session, version uint8, in []byte) (res directResult, mutated bool, aliased bool) {
	buf := newExactBuf(in)
	defer func() {
		if p := recover(); p != nil {
			st := strings.Split(string(debug.Stack()), "\n")
			if len(st) > 24 {
				st = st[:24]
			}
			res.panicked = fmt.Sprint(p) + "\n" + strings.Join(st, "\n")
		}
	}()
	frames, consumed, err := a.Decode(sess, buf.data)
	res.consumed = consumed
	res.err = err != nil
	mutated = string(buf.data) != string(in) || !buf.guardsIntact()
	for _, f := range frames {
		b, eerr := c.EncodeFrame(f, version)
		if eerr != nil {
			b = []byte("unencodable:" + eerr.Error())
		}
		res.encs = append(res.encs, b)
	}
	// the transport reuses its read buffer: SEND payloads must not alias it
	for i := range buf.data {
		buf.data[i] = poison
	}
	for i, f := range frames {
		if s, ok := f.(*frame.SendPacket); ok {
			if b, eerr := c.EncodeFrame(s, version); eerr == nil && string(b) != string(res.encs[i]) {
				aliased = true
			}
		}
	}
	return res, mutated, aliased
}

// directCompanion decodes every prefix of a clean client stream and of a
// mutated copy straight through Adapter.Decode (no server in between).
func directCompanion(r *simkit.Run) {
	tp := r.Tape
	c := codec.New()
	a := wkadapter.New()
	version := uint8(tp.Weighted([]int{4, 1, 1, 1, 1, 2, 3, 1}))
	sess := session.New(session.Config{ID: 1, Listener: "direct", RemoteAddr: "c0"})
	inV := uint8(frame.LatestVersion)
	if version != 0 {
		sess.SetValue(gatewaytypes.SessionValueProtocolVersion, version)
		inV = version
	}
	nframes := 2 + tp.Intn(7)
	big := tp.Intn(12) == 0
	var stream []byte
	var bounds []int
	var encs [][]byte
	seq := uint64(1)
	for i := 0; i < nframes; i++ {
		kind := []int{int(frame.SEND), int(frame.PING), int(frame.RECVACK), int(frame.SUB), int(frame.DISCONNECT), int(frame.CONNECT), int(frame.EVENT), int(frame.PONG),
			int(frame.CONNACK), int(frame.SENDACK), int(frame.RECV), int(frame.SUBACK)}[tp.Weighted([]int{8, 3, 3, 2, 2, 2, 1, 1, 0, 0, 0, 0})]
		f := genFrame(tp, kind, 0, version, seq, big && i == 0)
		seq++
		enc, err := c.EncodeFrame(f, inV)
		if err != nil {
			r.Probe("client_encode_error")
			continue
		}
		stream = append(stream, enc...)
		bounds = append(bounds, len(stream))
		encs = append(encs, enc)
	}
	r.Logf("direct: version=%d frames=%d bytes=%d", version, len(encs), len(stream))
	if len(stream) == 0 {
		return
	}
	prefixes := func(n int) []int {
		if n <= 700 {
			out := make([]int, 0, n+1)
			for i := 0; i <= n; i++ {
				out = append(out, i)
			}
			return out
		}
		// long stream: every prefix near a frame edge and in the first bytes of a frame, a stride elsewhere
		mark := map[int]bool{0: true, n: true}
		prev := 0
		for _, b := range bounds {
			for d := -6; d <= 8; d++ {
				if p := b + d; p >= 0 && p <= n {
					mark[p] = true
				}
				if p := prev + d; p >= 0 && p <= n {
					mark[p] = true
				}
			}
			prev = b
		}
		for i := 0; i <= n; i += 97 {
			mark[i] = true
		}
		return simkit.SortedIntKeys(mark)
	}
	// clean stream: the result of every prefix is fully determined
	for _, i := range prefixes(len(stream)) {
		res, mutated, aliased := directDecode(a, c, sess, inV, stream[:i])
		if res.panicked != "" {
			r.Fail("panic", fmt.Sprintf("direct: Decode panicked on the %d-byte prefix of a clean stream: %s", i, res.panicked), nil)
			return
		}
		want, nf := 0, 0
		for j, b := range bounds {
			if b <= i {
				want, nf = b, j+1
			}
		}
		switch {
		case mutated:
			r.FailSig("direct-mutated-input", "", fmt.Sprintf("direct: Decode modified its input (prefix %d)", i), nil)
		case aliased:
			r.FailSig("direct-payload-aliases-input", "", fmt.Sprintf("direct: a decoded SEND payload changed when the input buffer was overwritten (prefix %d)", i), nil)
		case res.err:
			r.FailSig("direct-error-on-clean", "", fmt.Sprintf("direct: Decode reported an error on the %d-byte prefix of a clean stream", i), nil)
		case res.consumed > want:
			r.FailSig("direct-progress-on-incomplete", "", fmt.Sprintf("direct: Decode consumed %d bytes of a %d-byte prefix whose last complete frame ends at %d", res.consumed, i, want), map[string]any{"prefix": i, "consumed": res.consumed, "want": want})
		case res.consumed != want || len(res.encs) != nf:
			r.FailSig("direct-frames-mismatch", "", fmt.Sprintf("direct: prefix %d: consumed=%d frames=%d, want consumed=%d frames=%d", i, res.consumed, len(res.encs), want, nf), nil)
		default:
			for j := 0; j < nf; j++ {
				if string(res.encs[j]) != string(encs[j]) {
					r.FailSig("direct-frames-mismatch", "", fmt.Sprintf("direct: prefix %d: frame %d differs: got %s want %s", i, j, short(res.encs[j]), short(encs[j])), nil)
					break
				}
			}
		}
		if r.Failed() {
			return
		}
	}
	r.Probe("direct_clean_stream")
	// mutated copies: no panic, sane step, and results stable under extension
	for v := 0; v < 2; v++ {
		m := append([]byte(nil), stream...)
		nmut := 1 + tp.Intn(3)
		for x := 0; x < nmut && len(m) > 0; x++ {
			switch tp.Intn(5) {
			case 0:
				i := tp.Intn(len(m))
				m[i] ^= 1 << uint(tp.Intn(8))
			case 1:
				m = m[:tp.Intn(len(m))+1]
			case 2: // oversize length prefix on some frame
				at := 0
				if len(bounds) > 1 {
					at = bounds[tp.Intn(len(bounds)-1)]
				}
				if at < len(m) {
					huge := [][]byte{{0xff, 0xff, 0xff, 0x7f}, {0xff, 0xff, 0xff, 0xff}, {0x80, 0x80, 0x80, 0x01}, {0xff, 0xff, 0x7f}, {0x80}}[tp.Intn(5)]
					rest := append([]byte(nil), m[at+1:]...)
					m = append(append(m[:at+1], huge...), rest...)
				}
			case 3: // garbage between frames
				at := 0
				if len(bounds) > 0 {
					at = bounds[tp.Intn(len(bounds))]
				}
				if at > len(m) {
					at = len(m)
				}
				g := tp.Bytes(1 + tp.Intn(6))
				rest := append([]byte(nil), m[at:]...)
				m = append(append(m[:at], g...), rest...)
			default: // overwrite a byte with a tape value (e.g. a header nibble)
				i := tp.Intn(len(m))
				m[i] = byte(tp.Intn(256))
			}
		}
		var prev *directResult
		prevLen := 0
		errAt := -1
		for _, i := range prefixes(len(m)) {
			res, mutated, aliased := directDecode(a, c, sess, inV, m[:i])
			if res.panicked != "" {
				r.Fail("panic", fmt.Sprintf("direct: Decode panicked on the %d-byte prefix of a mutated stream %s: %s", i, short(m), res.panicked), nil)
				return
			}
			switch {
			case mutated:
				r.FailSig("direct-mutated-input", "", fmt.Sprintf("direct: Decode modified its input (mutated stream, prefix %d)", i), nil)
			case aliased:
				r.FailSig("direct-payload-aliases-input", "", fmt.Sprintf("direct: a decoded SEND payload aliases the input (mutated stream, prefix %d)", i), nil)
			case res.consumed < 0 || res.consumed > i || (!res.err && (res.consumed == 0) != (len(res.encs) == 0)) || (res.err && (res.consumed != 0 || len(res.encs) != 0)):
				r.FailSig("direct-invalid-step", "", fmt.Sprintf("direct: prefix %d of a mutated stream: consumed=%d frames=%d err=%v", i, res.consumed, len(res.encs), res.err), nil)
			case errAt >= 0 && !res.err:
				r.FailSig("direct-unstable-prefix", "error-not-sticky", fmt.Sprintf("direct: mutated stream %s: prefix %d was rejected but the longer prefix %d decodes (consumed=%d)", short(m), errAt, i, res.consumed), nil)
			case prev != nil && !res.err && !prev.err:
				// whatever was decoded from a shorter prefix must be decoded again, unchanged, from a longer one
				bad := res.consumed < prev.consumed || len(res.encs) < len(prev.encs)
				for j := 0; !bad && j < len(prev.encs); j++ {
					bad = string(prev.encs[j]) != string(res.encs[j])
				}
				if bad {
					r.FailSig("direct-unstable-prefix", "", fmt.Sprintf("direct: mutated stream %s: prefix %d gave consumed=%d frames=%d, prefix %d gave consumed=%d frames=%d", short(m), prevLen, prev.consumed, len(prev.encs), i, res.consumed, len(res.encs)), nil)
				}
			}
			if r.Failed() {
				return
			}
			if res.err {
				if errAt < 0 {
					errAt = i
					r.Probe("direct_mutated_error")
				}
			} else {
				cp := res
				prev, prevLen = &cp, i
			}
		}
		r.Fault("direct_mutated_stream")
	}
}
