package gatesim

import (
	"context"
	"fmt"
	"strings"

	accessgateway "github.com/WuKongIM/WuKongIM/internal/access/gateway"
	"github.com/WuKongIM/WuKongIM/internal/usecase/delivery"
	"github.com/WuKongIM/WuKongIM/internal/usecase/message"
	"github.com/WuKongIM/WuKongIM/internal/usecase/presence"
	coregateway "github.com/WuKongIM/WuKongIM/pkg/gateway"
	gatewaytypes "github.com/WuKongIM/WuKongIM/pkg/gateway/types"
	"github.com/WuKongIM/WuKongIM/pkg/protocol/frame"
)

// ---- recording shared by every handler flavour ------------------------------

func (q *gworld) connOfCtx(ctx *gatewaytypes.Context) *simConn {
	if ctx == nil || ctx.Session == nil {
		return nil
	}
	return q.conns[connOfAddr(ctx.Session.RemoteAddr())]
}

func (q *gworld) encodeSeen(ctx *gatewaytypes.Context, f frame.Frame) []byte {
	b, err := q.codec.EncodeFrame(f, sessionInVersion(ctx.Session))
	if err != nil {
		return []byte("unencodable:" + err.Error())
	}
	return b
}

func (q *gworld) recordSend(ctx *gatewaytypes.Context, pkt *frame.SendPacket, newBatch bool) *simConn {
	c := q.connOfCtx(ctx)
	if c == nil || pkt == nil {
		return c
	}
	enc := q.encodeSeen(ctx, pkt)
	c.mu.Lock()
	if newBatch {
		c.batchNo++
	}
	c.hSends = append(c.hSends, hSend{seq: pkt.ClientSeq, msgNo: pkt.ClientMsgNo, enc: enc, batch: c.batchNo, ref: pkt, ver: sessionInVersion(ctx.Session)})
	c.mu.Unlock()
	return c
}

func (q *gworld) recordOther(ctx *gatewaytypes.Context, f frame.Frame) (*simConn, int) {
	c := q.connOfCtx(ctx)
	if c == nil || f == nil {
		return c, 0
	}
	enc := q.encodeSeen(ctx, f)
	c.mu.Lock()
	c.hOthers = append(c.hOthers, hOther{typ: f.GetFrameType(), enc: enc, ref: f, ver: sessionInVersion(ctx.Session)})
	n := len(c.hOthers)
	c.mu.Unlock()
	return c, n
}

func (q *gworld) recordOpen(ctx *gatewaytypes.Context) *simConn {
	c := q.connOfCtx(ctx)
	if c == nil {
		return nil
	}
	c.mu.Lock()
	c.hOpen++
	c.sess = ctx.Session
	c.closeFn = ctx.CloseSessionFn
	c.mu.Unlock()
	return c
}

func (q *gworld) recordClose(ctx *gatewaytypes.Context) {
	c := q.connOfCtx(ctx)
	if c == nil {
		return
	}
	c.mu.Lock()
	c.hClose++
	c.hCloseWhy = string(ctx.CloseReason)
	c.mu.Unlock()
}

func (q *gworld) recordErr(ctx *gatewaytypes.Context, err error) {
	c := q.connOfCtx(ctx)
	if c == nil || err == nil {
		return
	}
	c.mu.Lock()
	if len(c.hErrs) < 8 {
		c.hErrs = append(c.hErrs, string(ctx.CloseReason)+": "+err.Error())
	}
	c.mu.Unlock()
}

// issue performs one outbound write request and records the stamp interval in
// which it ran, so the oracle can check that the frame went through to the
// transport synchronously (exactly one transport write inside the interval).
func (q *gworld) issue(c *simConn, kind, ident string, fn func() error) error {
	st := q.stamp.Add(1)
	err := fn()
	en := q.stamp.Add(1)
	if c != nil {
		c.mu.Lock()
		c.issues = append(c.issues, issueRec{start: st, end: en, ok: err == nil, kind: kind, ident: ident})
		c.mu.Unlock()
	}
	return err
}

func ackIdent(seq uint64, msgNo string) string { return fmt.Sprintf("%d/%s", seq, msgNo) }

// noAuthOpen emulates a negotiation done elsewhere when no authenticator is
// configured: the session gets its uid and (optionally) its protocol version.
func (q *gworld) noAuthOpen(ctx *gatewaytypes.Context, c *simConn) {
	if q.cfg.Auth || c == nil {
		return
	}
	cl := q.clients[c.k-1]
	if q.cfg.SetUID {
		ctx.Session.SetValue(gatewaytypes.SessionValueUID, fmt.Sprintf("u%d", c.k))
	}
	if cl.reqVersion != 0 {
		ctx.Session.SetValue(gatewaytypes.SessionValueProtocolVersion, cl.reqVersion)
	}
}

// ---- simulated handler --------------------------------------------------------

type simCore struct{ q *gworld }

func (h *simCore) OnListenerError(string, error) {}

func (h *simCore) OnSessionOpen(ctx gatewaytypes.Context) error {
	c := h.q.recordOpen(&ctx)
	h.q.noAuthOpen(&ctx, c)
	if c != nil && h.q.cfg.ParkOpen {
		if d := h.q.w.Park(fmt.Sprintf("HOPEN c%d", c.k), &parkInfo{kind: "open", conn: c.k}); d == decFail {
			return errSimHandler
		}
	}
	return nil
}

func (h *simCore) OnSessionClose(ctx gatewaytypes.Context) error { h.q.recordClose(&ctx); return nil }
func (h *simCore) OnSessionError(ctx gatewaytypes.Context, err error) {
	h.q.recordErr(&ctx, err)
}

func (h *simCore) writeAck(ctx *gatewaytypes.Context, c *simConn, pkt *frame.SendPacket, reason frame.ReasonCode, n int) error {
	ack := &frame.SendackPacket{MessageID: int64(1000 + n), MessageSeq: uint64(n), ClientSeq: pkt.ClientSeq, ClientMsgNo: pkt.ClientMsgNo, ReasonCode: reason}
	return h.q.issue(c, "sendack", ackIdent(pkt.ClientSeq, pkt.ClientMsgNo), func() error { return ctx.WriteFrame(ack) })
}

func (h *simCore) OnFrame(ctx gatewaytypes.Context, f frame.Frame) error {
	if send, ok := f.(*frame.SendPacket); ok {
		// handler without batch support: SENDs arrive one by one from the send worker
		c := h.q.recordSend(&ctx, send, true)
		if c == nil {
			return nil
		}
		h.q.inflightSend.Add(1)
		defer h.q.inflightSend.Add(-1)
		info := &parkInfo{kind: "batch", conn: c.k, conns: []int{c.k}, n: 1}
		d := h.q.w.Park(fmt.Sprintf("HSEND c%d:%d", c.k, send.ClientSeq), info)
		if d == decClosed {
			return nil
		}
		p := info.plan
		if p == nil {
			p = &plan{errAt: -1}
		}
		if p.errAt == 0 {
			return errSimHandler
		}
		reason := frame.ReasonSuccess
		if len(p.reasons) > 0 {
			reason = p.reasons[0]
		}
		if err := h.writeAck(&ctx, c, send, reason, int(send.ClientSeq)); err != nil && h.q.cfg.CloseOnErr {
			return err
		}
		if p.errAt >= 1 {
			return errSimHandler
		}
		return nil
	}
	c, n := h.q.recordOther(&ctx, f)
	if c == nil {
		return nil
	}
	if h.q.cfg.ParkFrames {
		d := h.q.w.Park(fmt.Sprintf("HFRAME c%d %s #%d", c.k, f.GetFrameType(), n), &parkInfo{kind: "frame", conn: c.k})
		if d == decFail {
			return errSimHandler
		}
		if d == decClosed {
			return nil
		}
	}
	if f.GetFrameType() == frame.PING {
		return h.q.issue(c, "pong", "", func() error { return ctx.WriteFrame(&frame.PongPacket{}) })
	}
	return nil
}

type simBatchHandler struct{ *simCore }

func (h *simBatchHandler) OnSendBatch(items []gatewaytypes.SendBatchItem) error {
	if len(items) == 0 {
		return nil
	}
	q := h.q
	parts := make([]string, 0, len(items))
	conns := make([]*simConn, len(items))
	seen := map[int]bool{}
	var ks []int
	for i := range items {
		ctx := &items[i].Context
		c := q.connOfCtx(ctx)
		newBatch := c != nil && !seen[c.k]
		c = q.recordSend(ctx, items[i].Frame, newBatch)
		conns[i] = c
		if c != nil {
			if !seen[c.k] {
				seen[c.k] = true
				ks = append(ks, c.k)
			}
			parts = append(parts, fmt.Sprintf("c%d:%d", c.k, items[i].Frame.ClientSeq))
		}
	}
	q.inflightSend.Add(1)
	defer q.inflightSend.Add(-1)
	info := &parkInfo{kind: "batch", conns: ks, n: len(items)}
	if len(ks) > 0 {
		info.conn = ks[0]
	}
	d := q.w.Park("HBATCH "+strings.Join(parts, ","), info)
	if d == decClosed {
		return nil
	}
	p := info.plan
	if p == nil {
		p = &plan{errAt: -1}
	}
	for i := range items {
		if p.errAt == i {
			return errSimHandler
		}
		reason := frame.ReasonSuccess
		if i < len(p.reasons) {
			reason = p.reasons[i]
		}
		if conns[i] == nil {
			continue
		}
		if err := h.writeAck(&items[i].Context, conns[i], items[i].Frame, reason, int(items[i].Frame.ClientSeq)); err != nil && q.cfg.CloseOnErr {
			// like the real access handler: a failed write aborts the batch; the
			// server then closes every session of the batch. Without
			// CloseOnHandlerError the stub keeps answering the other items.
			return err
		}
	}
	if p.errAt >= len(items) {
		return errSimHandler
	}
	return nil
}

// ---- real access handler behind a recording tap --------------------------------

type tapHandler struct {
	q     *gworld
	inner *accessgateway.Handler
}

var (
	_ gatewaytypes.Handler                     = (*tapHandler)(nil)
	_ gatewaytypes.SendBatchHandler            = (*tapHandler)(nil)
	_ gatewaytypes.SessionActivator            = (*tapHandler)(nil)
	_ gatewaytypes.SessionActivationRollbacker = (*tapHandler)(nil)
	_ gatewaytypes.Handler                     = (*simBatchHandler)(nil)
	_ gatewaytypes.SendBatchHandler            = (*simBatchHandler)(nil)
	_ gatewaytypes.Handler                     = (*simCore)(nil)
)

func (h *tapHandler) OnListenerError(l string, err error) { h.inner.OnListenerError(l, err) }
func (h *tapHandler) OnSessionOpen(ctx gatewaytypes.Context) error {
	c := h.q.recordOpen(&ctx)
	h.q.noAuthOpen(&ctx, c)
	return h.inner.OnSessionOpen(ctx)
}
func (h *tapHandler) OnSessionClose(ctx gatewaytypes.Context) error {
	h.q.recordClose(&ctx)
	return h.inner.OnSessionClose(ctx)
}
func (h *tapHandler) OnSessionError(ctx gatewaytypes.Context, err error) {
	h.q.recordErr(&ctx, err)
	h.inner.OnSessionError(ctx, err)
}
func (h *tapHandler) OnSessionActivate(ctx *gatewaytypes.Context) (*frame.ConnackPacket, error) {
	return h.inner.OnSessionActivate(ctx)
}
func (h *tapHandler) OnSessionActivateRollback(ctx gatewaytypes.Context, err error) {
	h.inner.OnSessionActivateRollback(ctx, err)
}
func (h *tapHandler) OnFrame(ctx gatewaytypes.Context, f frame.Frame) error {
	if send, ok := f.(*frame.SendPacket); ok {
		h.q.recordSend(&ctx, send, true)
	} else {
		h.q.recordOther(&ctx, f)
	}
	return h.inner.OnFrame(ctx, f)
}
func (h *tapHandler) OnSendBatch(items []gatewaytypes.SendBatchItem) error {
	seen := map[int]bool{}
	for i := range items {
		ctx := &items[i].Context
		c := h.q.connOfCtx(ctx)
		newBatch := c != nil && !seen[c.k]
		if c != nil {
			seen[c.k] = true
		}
		h.q.recordSend(ctx, items[i].Frame, newBatch)
	}
	h.q.inflightSend.Add(1)
	defer h.q.inflightSend.Add(-1)
	return h.inner.OnSendBatch(items)
}

// stub use-case ports -----------------------------------------------------------

type stubMessages struct{ q *gworld }

var stubItemErrs = []error{nil, message.ErrChannelNotFound, message.ErrNotLeader, message.ErrInvalidCommand, context.DeadlineExceeded, context.Canceled, errSimHandler}

func (m *stubMessages) SendBatchEach(items []message.SendBatchItem, emit func(int, message.SendBatchItemResult) error) error {
	parts := make([]string, 0, len(items))
	seen := map[int]bool{}
	var ks []int
	for _, it := range items {
		parts = append(parts, fmt.Sprintf("%s:%d", it.Command.FromUID, it.Command.ClientSeq))
		k := connOfAddr("c" + strings.TrimPrefix(it.Command.FromUID, "u"))
		if k > 0 && !seen[k] {
			seen[k] = true
			ks = append(ks, k)
		}
	}
	key := strings.Join(parts, ",")
	info := &parkInfo{kind: "ubatch", conns: ks, n: len(items)}
	if len(ks) > 0 {
		info.conn = ks[0]
	}
	d := m.q.w.Park("UBATCH "+key, info)
	p := info.plan
	if d == decClosed || p == nil {
		p = &plan{errAt: -1, skip: -1, midPark: -1}
	}
	emitted := 0
	for pos := 0; pos < len(items); pos++ {
		idx := pos
		if pos < len(p.perm) {
			idx = p.perm[pos]
		}
		if idx == p.skip {
			continue
		}
		if emitted == p.errAt {
			return errSimHandler
		}
		if emitted == p.midPark && emitted > 0 {
			if d2 := m.q.w.Park("UMID "+key, &parkInfo{kind: "umid", conns: ks, conn: info.conn}); d2 == decFail {
				return errSimHandler
			}
		}
		res := message.SendBatchItemResult{Result: message.SendResult{MessageID: uint64(5000 + idx), MessageSeq: uint64(items[idx].Command.ClientSeq) & 0xffff, Reason: message.ReasonSuccess}}
		if idx < len(p.itemErr) && p.itemErr[idx] > 0 {
			res = message.SendBatchItemResult{Err: stubItemErrs[p.itemErr[idx]%len(stubItemErrs)]}
		}
		if err := emit(idx, res); err != nil {
			return err
		}
		emitted++
	}
	if p.errAt >= 0 && emitted <= p.errAt {
		return errSimHandler
	}
	return nil
}

type stubPresence struct{ q *gworld }

func (s *stubPresence) Activate(_ context.Context, cmd presence.ActivateCommand) error {
	if !s.q.cfg.ParkActivate {
		return nil
	}
	k := connOfListener(cmd.Listener)
	if d := s.q.w.Park(fmt.Sprintf("ACT c%d", k), &parkInfo{kind: "activate", conn: k}); d == decFail {
		return errSimHandler
	}
	return nil
}
func (s *stubPresence) Deactivate(context.Context, presence.DeactivateCommand) error { return nil }
func (s *stubPresence) Touch(context.Context, presence.TouchCommand) error           { return nil }

type stubDelivery struct{ q *gworld }

func (s *stubDelivery) Recvack(_ context.Context, cmd delivery.RecvackCommand) error {
	if s.q.cfg.RecvackFails && cmd.MessageID%5 == 3 {
		return errSimHandler
	}
	return nil
}
func (s *stubDelivery) SessionClosed(context.Context, delivery.SessionClosedCommand) error {
	return nil
}

// ---- authenticator wrapper ---------------------------------------------------------

type simAuthenticator struct {
	q     *gworld
	inner coregateway.Authenticator
}

func (a *simAuthenticator) Authenticate(ctx *gatewaytypes.Context, connect *frame.ConnectPacket) (*gatewaytypes.AuthResult, error) {
	c := a.q.connOfCtx(ctx)
	if c != nil {
		enc, err := a.q.codec.EncodeFrame(connect, frame.LatestVersion)
		if err != nil {
			enc = []byte("unencodable")
		}
		c.mu.Lock()
		c.hConnects = append(c.hConnects, enc)
		c.mu.Unlock()
		switch a.q.w.Park(fmt.Sprintf("AUTH c%d", c.k), &parkInfo{kind: "auth", conn: c.k}) {
		case decFail:
			return nil, errSimAuth
		case decReject:
			return &gatewaytypes.AuthResult{Connack: &frame.ConnackPacket{ReasonCode: frame.ReasonAuthFail}}, nil
		}
	}
	return a.inner.Authenticate(ctx, connect)
}
