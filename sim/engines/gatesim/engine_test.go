package gatesim

import (
	"context"
	"fmt"
	"io"
	"os"
	"runtime"
	"sort"
	"strings"
	"testing"
	"time"

	accessgateway "github.com/WuKongIM/WuKongIM/internal/access/gateway"
	"github.com/WuKongIM/WuKongIM/internal/verifsim/simkit"
	coregateway "github.com/WuKongIM/WuKongIM/pkg/gateway"
	"github.com/WuKongIM/WuKongIM/pkg/gateway/core"
	wkadapter "github.com/WuKongIM/WuKongIM/pkg/gateway/protocol/wkproto"
	gatewaytypes "github.com/WuKongIM/WuKongIM/pkg/gateway/types"
	goruntimeregistry "github.com/WuKongIM/WuKongIM/pkg/goroutine"
	codec "github.com/WuKongIM/WuKongIM/pkg/protocol/codec"
	"github.com/WuKongIM/WuKongIM/pkg/protocol/frame"
)

func TestVerifSim(t *testing.T) {
	simkit.Main(t, simkit.Engine{
		Name: "gatesim",
		Props: map[string]simkit.PropFunc{
			"C23": func(t *testing.T, r *simkit.Run) { runC23(t, r) },
			"C28": func(t *testing.T, r *simkit.Run) { runWorld(t, r) },
			// gateway part of C41 (stopping the send pipeline never drops accepted sends)
			"C41gate": func(t *testing.T, r *simkit.Run) { runWorld(t, r) },
			// client part of C23: real pkg/client sessions against the real gateway
			"C23client": func(t *testing.T, r *simkit.Run) { runWorld(t, r) },
		},
		Real: []string{"pkg/gateway/core.Server (onOpen/onData inbound buffering, auth gate, async send executor, DrainSends, Stop, close paths)",
			"pkg/gateway/protocol/wkproto.Adapter behind a pass-through recording tap", "pkg/protocol/codec (frame codec, all versions 1-6)",
			"pkg/gateway/session", "pkg/workqueue ShardedMailbox / BoundedPool on ants", "pkg/gateway.NewWKProtoAuthenticator (encryption disabled)",
			"internal/access/gateway.Handler (in 40% of the runs) incl. per-session sendack ordering", "timers via synctest fake clock"},
		Stub: []string{"transport.Factory/Listener/Conn (per-connection actor, chunk splits, coalescing, reset, half-close, bounded non-blocking outbound buffer = back-pressure)",
			"clients (real codec for encoding, tape-driven bursts)", "SendBatch/frame handler with parked calls (60% of the runs)",
			"message/presence/delivery use-case ports behind the real access handler", "gateway Observer used as a per-frame scheduling gate"},
		Rule: "One run = one synctest bubble with one real core.Server, 1-6 client connections on a simulated transport, a tape-driven handler. " +
			"C28 non-trivial = at least one SENDACK written AND (a fault fired OR two sessions had handler calls in flight together OR a drain/stop ran). " +
			"C23 non-trivial = the decoder was called on a buffer ending inside a frame AND at least three frames reached the handler, or a corruption fault fired; " +
			"every C23 run also decodes every prefix of a clean and of a mutated stream directly through Adapter.Decode. " +
			"C41gate: 1-4 send workers with more ordering shards than workers and at most one shard more in use than there are workers, Server.Stop at a tape-chosen step with a release budget of 2-100 ms; " +
			"non-trivial = Stop ran while at least one admitted SEND had not reached the handler or was parked in it. " +
			"C23client: every peer is a real pkg/client session over a pipe the harness owns; non-trivial = the server-to-client stream was cut inside a delivery AND the client handed at least three RECV/SENDACK results to its caller, or a corruption fault fired.",
		Assumptions: []string{"testing/synctest fake clock and quiescence semantics (go1.26.8)",
			"transport writes never block (as with the asynchronous gnet transport): back-pressure is a bounded outbound buffer that rejects writes",
			"one OnData call at a time per connection (per-connection actor, as in the gnet transport)",
			"payload encryption is disabled (key agreement draws OS randomness)",
			"handler errors on SEND batches are only injected when CloseOnHandlerError is on (otherwise a lost SENDACK is the configured behaviour)"},
	})
}

var classProp = map[string]string{
	"panic": "*", "decode-progress-on-incomplete": "C23", "decode-frames-mismatch": "C23", "handler-frames-mismatch": "C23", "clean-stream-rejected": "C23",
	"decode-error-not-closed": "C23", "decode-invalid-step": "C23", "decode-mutated-input": "C23", "read-beyond-buffer": "C23", "client-stream-mismatch": "C23",
	"direct-progress-on-incomplete": "C23", "direct-frames-mismatch": "C23", "direct-error-on-clean": "C23", "direct-unstable-prefix": "C23",
	"direct-invalid-step": "C23", "direct-payload-aliases-input": "C23", "direct-mutated-input": "C23",
	"sendack-mismatch": "C28", "sendack-missing": "C28", "send-dispatch-order": "C28", "send-dispatched-after-drain": "C28",
	"drain-returned-with-work-inflight": "C28", "dispatch-after-drain-complete": "C28", "write-not-through": "C28", "send-unanswered": "C28",
	"outbound-garbled": "C28", "drain-not-completing": "C28", "push-order": "C28",
	"send-admitted-after-stop": "C41gate", "send-dispatched-after-stop": "C41gate", "admitted-send-never-dispatched": "C41gate",
	"dispatch-without-admission": "C41gate", "client-frames-mismatch": "C23client", "client-frame-after-disconnect": "C23client",
	"client-frames-missing": "C23client", "client-goroutine-left-after-close": "C23client", "client-unbounded-allocation": "C23client",
}

// sharedClass: classes of the C28 oracle that are also C41 clauses at the gateway
// (exactly-once dispatch of what was admitted).
var sharedC41 = map[string]bool{"send-dispatch-order": true, "handler-frames-mismatch": true}

func (q *gworld) fail(class, sig, detail string, facts map[string]any) {
	p := classProp[class]
	if q.r.Property == "C41gate" && sharedC41[class] {
		p = "C41gate" // a SEND dispatched twice, out of order or altered is not "exactly once"
	}
	if q.r.Property == "C23client" && p == "C23" {
		p = "C23client" // end to end: the gateway decodes what the real client wrote
	}
	if p != "*" && p != q.r.Property {
		q.r.Probe("run_ended_by_other_property:" + class)
		if !q.tainted {
			q.r.Logf("run ends: violation of another property's class %s: %s", class, detail)
		}
		q.tainted = true
		return
	}
	q.r.FailSig(class, sig, detail, facts)
}

// ---- configuration -----------------------------------------------------------

type cfg struct {
	Sessions     int
	HandlerMode  int // 0 sim batch handler, 1 sim frame handler (no batch support), 2 real access handler over stub ports
	Auth         bool
	SetUID       bool
	QueueCap     int
	Workers      int
	BatchWait    time.Duration
	BatchRecords int
	BatchBytes   int
	MaxInbound   int
	MaxOutbound  int
	CloseOnErr   bool
	IdleTimeout  time.Duration
	ReleaseTO    time.Duration
	ParkFrames   bool
	ParkOpen     bool
	ParkActivate bool
	RecvackFails bool
	NoFaults     bool
	FCorrupt     bool
	FReset       bool
	FStall       bool
	FHandlerFail bool
	FDrain       bool
	FStop        bool
	FKick        bool
	FEager       bool
	Push         bool
	SplitBias    int // 0 mostly whole buffers, 1 mixed, 2 dribble-heavy
	Frames       int
	Burst        int
	BigFrames    bool
	FinalDrain   bool
	SendBias     int
	Saturable    bool // more ordering shards in use than send workers (C41gate only)
	StopHold     bool // handlers stay parked while Stop waits (slower than any release budget)
	RealClient   bool // every peer is a real pkg/client session (C23client)
}

// drawCfgClient draws the world of the C23 client part.
func drawCfgClient(r *simkit.Run) cfg {
	tp := r.Tape
	c := cfg{RealClient: true, Auth: true, SetUID: true, CloseOnErr: true}
	c.Sessions = 1 + tp.Weighted([]int{3, 2, 1})
	c.HandlerMode = []int{0, 2}[tp.Weighted([]int{3, 2})]
	c.QueueCap = 8
	c.Workers = []int{1, 8}[tp.Intn(2)]
	c.BatchWait = []time.Duration{time.Millisecond, -1}[tp.Intn(2)]
	c.BatchRecords = []int{128, 1, 3}[tp.Intn(3)]
	c.BatchBytes = 512 * 1024
	c.MaxInbound, c.MaxOutbound = 1<<20, 1<<20
	c.IdleTimeout = 3 * time.Minute
	c.ReleaseTO = 100 * time.Millisecond
	c.ParkFrames = tp.Intn(3) == 0
	c.NoFaults = tp.Intn(4) == 0
	if !c.NoFaults {
		c.FCorrupt = tp.Intn(2) == 0
		c.FReset = tp.Intn(3) == 0
		c.FStall = tp.Intn(4) == 0
		c.FKick = tp.Intn(3) == 0
	}
	c.Push = true
	c.SplitBias = tp.Weighted([]int{1, 3, 2})
	c.Frames = 3 + tp.Intn(8)
	c.Burst = 1
	c.SendBias = 10
	return c
}

// drawCfg41 draws the world of the C41 gateway part: the send worker pool may be
// saturated, but by at most one shard. With one waiting shard the mailbox's
// 10 us pool re-tries have nobody to tie with, so the run stays reproducible.
func drawCfg41(r *simkit.Run) cfg {
	tp := r.Tape
	c := cfg{}
	c.Workers = 1 + tp.Weighted([]int{2, 5, 3, 2})
	c.Sessions = 1 + tp.Intn(c.Workers+1) // <= workers+1 sessions, one ordering shard each
	if c.Workers == 1 {
		c.Sessions = 1 + tp.Intn(4) // a single shard: any number of sessions
	}
	if tp.Intn(4) != 0 && c.Workers > 1 {
		c.Sessions = c.Workers + 1
	}
	c.QueueCap = []int{8, 16, 32}[tp.Intn(3)] // >= 8 shards for 2-4 workers
	c.Saturable = c.Workers > 1 && c.Sessions > c.Workers
	c.HandlerMode = []int{0, 2, 1}[tp.Weighted([]int{3, 2, 1})]
	c.Auth = c.HandlerMode == 2 || tp.Intn(2) == 0 // the real handler answers at once without a uid
	c.SetUID = true
	c.BatchWait = []time.Duration{time.Millisecond, -1, 5 * time.Millisecond}[tp.Weighted([]int{3, 2, 1})]
	c.BatchRecords = []int{128, 1, 2, 8}[tp.Intn(4)]
	c.BatchBytes = 512 * 1024
	c.MaxInbound, c.MaxOutbound = 1<<20, 1<<20
	c.CloseOnErr = true
	c.IdleTimeout = 3 * time.Minute
	c.ReleaseTO = []time.Duration{100 * time.Millisecond, 2 * time.Millisecond, 20 * time.Millisecond}[tp.Intn(3)]
	c.ParkOpen = tp.Intn(6) == 0
	c.NoFaults = tp.Intn(4) == 0
	if !c.NoFaults {
		c.FStop = tp.Intn(8) != 0
		c.StopHold = tp.Weighted([]int{1, 2}) == 1
		c.FDrain = tp.Intn(4) == 0
		c.FReset = tp.Intn(4) == 0
		c.FKick = tp.Intn(5) == 0
		c.FHandlerFail = tp.Intn(3) == 0
	}
	c.SplitBias = tp.Weighted([]int{4, 2, 1})
	c.Frames = 3 + tp.Intn(8)
	c.Burst = 1 + tp.Intn(4)
	c.SendBias = 10
	return c
}

func drawCfg(r *simkit.Run) cfg {
	if r.Property == "C41gate" {
		return drawCfg41(r)
	}
	if r.Property == "C23client" {
		return drawCfgClient(r)
	}
	tp := r.Tape
	c28 := r.Property == "C28"
	c := cfg{}
	c.Sessions = 1 + tp.Weighted([]int{3, 3, 2, 2, 1, 1})
	c.HandlerMode = tp.Weighted([]int{4, 2, 4})
	c.Auth = tp.Intn(4) != 3
	c.SetUID = tp.Intn(4) != 3
	c.QueueCap = 8 - tp.Weighted([]int{5, 1, 1, 1, 2, 1, 2, 1}) // 8..1
	c.Workers = []int{1, 8, 2}[tp.Weighted([]int{6, 2, 1})]
	if c.Workers == 2 && c.Sessions > 2 {
		// more active shards than workers makes the mailbox retry its pool every
		// 10 us of fake time; those retry timers tie and the winner is not
		// reproducible, so the worker pool is never saturated here
		c.Workers = 8
	}
	c.BatchWait = []time.Duration{time.Millisecond, -1, 5 * time.Millisecond}[tp.Weighted([]int{3, 2, 1})]
	c.BatchRecords = []int{128, 1, 2, 3, 8}[tp.Intn(5)]
	c.BatchBytes = []int{512 * 1024, 24, 100}[tp.Weighted([]int{4, 1, 1})]
	c.MaxInbound = []int{1 << 20, 64, 300}[tp.Weighted([]int{8, 1, 1})]
	// CloseOnHandlerError=false is only explored with the simulated handler: the
	// real access handler aborts a batch on the first failed write, which in
	// that (non-default) configuration leaves other SENDs unanswered by design.
	c.CloseOnErr = tp.Intn(5) != 4 || c.HandlerMode == 2
	c.MaxOutbound = 1 << 20
	if c.CloseOnErr {
		c.MaxOutbound = []int{1 << 20, 48, 160, 600}[tp.Weighted([]int{5, 1, 1, 1})]
	}
	c.IdleTimeout = []time.Duration{3 * time.Minute, 40 * time.Millisecond}[tp.Weighted([]int{15, 1})]
	c.ReleaseTO = []time.Duration{100 * time.Millisecond, 5 * time.Millisecond}[tp.Intn(2)]
	c.ParkFrames = tp.Intn(3) == 0
	c.ParkOpen = tp.Intn(4) == 0
	c.ParkActivate = tp.Intn(3) == 0
	c.RecvackFails = tp.Intn(4) == 0
	c.NoFaults = tp.Intn(4) == 0
	if !c.NoFaults {
		c.FCorrupt = !c28 && tp.Intn(2) == 0
		c.FReset = tp.Intn(3) == 0
		c.FStall = tp.Intn(3) == 0
		c.FHandlerFail = c.CloseOnErr && tp.Intn(2) == 0
		c.FDrain = tp.Intn(3) != 2
		c.FStop = tp.Intn(4) == 0
		c.FKick = tp.Intn(4) == 0
		c.FEager = c.Auth && tp.Intn(6) == 0
		if !c28 {
			c.FDrain = tp.Intn(5) == 0
			c.FStop = tp.Intn(8) == 0
		}
	} else {
		c.RecvackFails = false
		c.MaxOutbound = 1 << 20
		c.IdleTimeout = 3 * time.Minute
		c.MaxInbound = 1 << 20
	}
	c.Push = tp.Intn(3) == 0
	c.SplitBias = tp.Weighted([]int{2, 3, 2})
	c.Frames = 3 + tp.Intn(10)
	c.Burst = 1 + tp.Intn(6)
	c.BigFrames = c.MaxInbound >= 1<<20 && c.SplitBias != 2 && tp.Intn(6) == 0
	c.FinalDrain = tp.Intn(2) == 0
	c.SendBias = 2 + tp.Intn(4)
	if c28 {
		c.SendBias += 6
		c.SplitBias = tp.Weighted([]int{4, 2, 1})
	}
	return c
}

func (c cfg) overloadPossible() bool { return c.Saturable || (c.Workers == 2 && c.Sessions > 2) }

// ---- run -------------------------------------------------------------------------

func runC23(t *testing.T, r *simkit.Run) {
	// GATESIM_NODIRECT=1 (sensitivity experiments only) leaves the world oracle alone
	if os.Getenv("GATESIM_NODIRECT") == "" {
		directCompanion(r)
		if r.Failed() {
			return
		}
	}
	runWorld(t, r)
}

// dumpTrace is a debugging aid: GATESIM_TRACE=<file> writes the trace of the
// last executed run.
func dumpTrace(r *simkit.Run) {
	if p := os.Getenv("GATESIM_TRACE"); p != "" {
		_ = os.WriteFile(p, []byte(strings.Join(r.Trace(), "\n")+"\n"), 0o644)
	}
}

type engine struct {
	q   *gworld
	srv *core.Server

	final       bool
	stopping    bool
	stopped     bool
	drainSeq    int
	drainActive int
	drainStep   int // step of the first DrainSends call (0 = none)
	drainDoneOK bool
	drainDoneAt int // handler-seen SENDs when DrainSends first returned nil
	drainAcksAt int // SENDACKs written when DrainSends first returned nil
	idles       int
	acksTotal   int
	overlapSeen bool
	splitSeen   bool
	handlerSeen int
	kills       int
	quiet       bool

	c41          bool // the run decides the gateway part of C41
	stopStep     int  // step of the Server.Stop call (0 = none)
	stopWithWork bool // Stop began while an admitted SEND was queued or parked in the handler
	leakExpected bool // a recorded violation explains goroutines that can never finish

	allocBase     uint64 // C23client: runtime TotalAlloc and goroutine count when the run began
	goroutineBase int
}

func runWorld(t *testing.T, r *simkit.Run) {
	c := drawCfg(r)
	r.Config = map[string]any{"sessions": c.Sessions, "handler": []string{"sim-batch", "sim-frame", "real-access"}[c.HandlerMode], "auth": c.Auth,
		"queue_cap": c.QueueCap, "workers": c.Workers, "batch_wait_us": c.BatchWait.Microseconds(), "batch_records": c.BatchRecords, "batch_bytes": c.BatchBytes,
		"max_inbound": c.MaxInbound, "max_outbound": c.MaxOutbound, "close_on_handler_error": c.CloseOnErr, "nofaults": c.NoFaults,
		"corrupt": c.FCorrupt, "reset": c.FReset, "stall": c.FStall, "handler_fail": c.FHandlerFail, "drain": c.FDrain, "stop": c.FStop, "kick": c.FKick,
		"eager": c.FEager, "push": c.Push, "split": c.SplitBias, "frames": c.Frames, "burst": c.Burst, "park_frames": c.ParkFrames, "park_open": c.ParkOpen,
		"idle_ms": c.IdleTimeout.Milliseconds(), "final_drain": c.FinalDrain, "release_ms": c.ReleaseTO.Milliseconds(), "saturable": c.Saturable, "stop_hold": c.StopHold}
	defer dumpTrace(r)
	defer func() {
		// Work the gateway discarded leaves its own drain goroutine waiting for
		// ever; the bubble then cannot end. When the discarded work was already
		// reported as the violation, that is its consequence, not harness trouble.
		if p := recover(); p != nil {
			if r.Failed() && strings.Contains(fmt.Sprint(p), "deadlock") {
				r.Probe("goroutines_left_blocked_by_the_violation")
				return
			}
			panic(p)
		}
	}()
	simkit.Bubble(t, r, func() {
		q := &gworld{r: r, w: simkit.NewWorld(r), cfg: c, codec: codec.New(), listeners: map[string]*simListener{}, conns: map[int]*simConn{}}
		e := &engine{q: q, c41: r.Property == "C41gate"}
		if c.RealClient {
			e.allocBase = totalAlloc()
			e.goroutineBase = runtime.NumGoroutine()
		}
		defer e.teardown()
		if !e.setup() {
			return
		}
		total := c.Sessions * c.Frames
		s := &simkit.Scheduler{R: r, MaxSteps: 120 + total*14, Collect: e.collect,
			StepTime: func() time.Duration {
				if r.Tape.Chance(1, 6) {
					return 0
				}
				return 50 * time.Microsecond
			},
			Done: func() bool { return q.tainted || e.stopped || e.workDone() },
			Idle: e.idle}
		s.Run()
		if !r.Failed() && r.InfraErr == "" && !q.tainted {
			e.finalPhase()
		}
		faults := 0
		for _, v := range r.Faults {
			faults += v
		}
		if e.c41 {
			r.Nontrivial = e.stopWithWork
		} else if c.RealClient {
			r.Nontrivial = (e.splitSeen && r.Probes["client.recv_delivered"]+r.Probes["client.sendack_delivered"] >= 3) || r.Faults["corrupt_bitflip"]+r.Faults["corrupt_truncate"]+r.Faults["corrupt_oversize_length"]+r.Faults["corrupt_garbage"] > 0
		} else if r.Property == "C28" {
			r.Nontrivial = e.acksTotal > 0 && (faults > 0 || e.overlapSeen || e.drainStep > 0)
		} else {
			r.Nontrivial = (e.splitSeen && e.handlerSeen >= 3) || r.Faults["corrupt_bitflip"]+r.Faults["corrupt_truncate"]+r.Faults["corrupt_oversize_length"]+r.Faults["corrupt_garbage"] > 0
		}
	})
}

func (e *engine) setup() bool {
	q, c := e.q, e.q.cfg
	reg := core.NewRegistry()
	if err := reg.RegisterTransport(&simFactory{w: q}); err != nil {
		q.r.Infra("register transport: %v", err)
		return false
	}
	if err := reg.RegisterProtocol(&tapAdapter{w: q, inner: wkadapter.New(), codec: q.codec}); err != nil {
		q.r.Infra("register protocol: %v", err)
		return false
	}
	var handler gatewaytypes.Handler
	switch c.HandlerMode {
	case 0:
		handler = &simBatchHandler{&simCore{q: q}}
	case 1:
		handler = &simCore{q: q}
	default:
		handler = &tapHandler{q: q, inner: accessgateway.New(accessgateway.Options{
			Messages: &stubMessages{q: q}, Presence: &stubPresence{q: q}, Delivery: &stubDelivery{q: q}, OwnerNodeID: 1, SendTimeout: 5 * time.Second})}
	}
	closeOnErr := c.CloseOnErr
	opts := &gatewaytypes.Options{Handler: handler, Observer: &gateObserver{w: q},
		DefaultSession: gatewaytypes.SessionOptions{MaxInboundBytes: c.MaxInbound, MaxOutboundBytes: c.MaxOutbound, IdleTimeout: c.IdleTimeout,
			AsyncSendBatchMaxWait: c.BatchWait, AsyncSendBatchMaxRecords: c.BatchRecords, AsyncSendBatchMaxBytes: c.BatchBytes, CloseOnHandlerError: &closeOnErr},
		Runtime: gatewaytypes.RuntimeOptions{Goroutines: goruntimeregistry.New(), AsyncSendWorkers: c.Workers, AsyncSendQueueCapacity: c.QueueCap,
			AsyncAuthWorkers: 8, AsyncAuthQueueCapacity: 8, AsyncPoolReleaseTimeout: c.ReleaseTO}}
	if c.Auth {
		opts.Authenticator = &simAuthenticator{q: q, inner: coregateway.NewWKProtoAuthenticator(coregateway.WKProtoAuthOptions{DisableEncryption: true, NodeID: 1})}
	}
	for k := 1; k <= c.Sessions; k++ {
		opts.Listeners = append(opts.Listeners, gatewaytypes.ListenerOptions{Name: listenerName(k), Network: "tcp", Address: fmt.Sprintf("sim:%d", k), Transport: "sim", Protocol: "wkproto"})
	}
	srv, err := core.NewServer(reg, opts)
	if err != nil {
		q.r.Infra("new server: %v", err)
		return false
	}
	e.srv = srv
	if err := srv.Start(); err != nil {
		q.r.Infra("start: %v", err)
		return false
	}
	tp := q.r.Tape
	for k := 1; k <= c.Sessions; k++ {
		l := q.listeners[listenerName(k)]
		if l == nil {
			q.r.Infra("listener %d not built", k)
			return false
		}
		conn := &simConn{w: q, k: k, lst: l, events: make(chan connEvent, 8), maxOut: c.MaxOutbound}
		q.conns[k] = conn
		cl := &client{k: k, conn: conn, auth: c.Auth, planLeft: c.Frames, nextSeq: 1, realFrames: c.HandlerMode == 2}
		cl.reqVersion = uint8(tp.Weighted([]int{4, 1, 1, 1, 1, 2, 3, 1})) // 0 = latest by default .. 7 = above latest
		if c.Auth {
			cl.inVersion = serverVersionFor(cl.reqVersion)
			cl.outVersion = cl.inVersion
		} else {
			cl.inVersion = frame.LatestVersion
			cl.outVersion = frame.LegacyMessageSeqVersion
			if cl.reqVersion != 0 {
				cl.inVersion, cl.outVersion = cl.reqVersion, cl.reqVersion
			}
		}
		cl.eager = c.FEager && tp.Intn(2) == 0
		q.clients = append(q.clients, cl)
		q.readers.Add(1)
		go conn.reader()
	}
	if c.RealClient {
		e.setupRealClients()
	}
	return q.r.InfraErr == ""
}

func (e *engine) teardown() {
	q := e.q
	q.w.CloseAll(decClosed)
	if q.cfg.RealClient {
		e.teardownRealClients()
		defer e.checkClientResidue()
	}
	if e.srv != nil {
		if !e.stopping {
			e.stopping = true
			srv := e.srv
			go func() {
				err := srv.Stop()
				q.post(asyncResult{kind: "stop", err: err})
			}()
		}
		for i := 0; i < 1000 && !e.stopped; i++ {
			time.Sleep(5 * time.Millisecond)
			simkit.Wait()
			q.mu.Lock()
			rest := q.asyncRes[:0]
			for _, a := range q.asyncRes {
				if a.kind == "stop" {
					e.stopped = true
				} else {
					rest = append(rest, a)
				}
			}
			q.asyncRes = rest
			q.mu.Unlock()
		}
		if !e.stopped {
			q.r.Infra("teardown: Server.Stop did not return")
		}
	}
	for _, k := range simkit.SortedIntKeys(q.conns) {
		c := q.conns[k]
		for i := 0; i < 100 && c.busy.Load(); i++ {
			time.Sleep(10 * time.Millisecond)
		}
		c.busy.Store(true)
		c.events <- connEvent{kind: evQuit}
	}
	q.readers.Wait()
	// drain / stop goroutines finish once the server is stopped
	for i := 0; i < 200 && (e.drainActive > 0); i++ {
		time.Sleep(10 * time.Millisecond)
		simkit.Wait()
		q.mu.Lock()
		for _, a := range q.asyncRes {
			if a.kind == "drain" {
				e.drainActive--
			}
		}
		q.asyncRes = nil
		q.mu.Unlock()
	}
	time.Sleep(time.Second)
}

func (e *engine) pendingWork() bool {
	q := e.q
	if e.drainActive > 0 || (e.stopping && !e.stopped) {
		return true
	}
	for _, cl := range q.clients {
		if cl.conn.busy.Load() {
			return true
		}
		if cl.rc != nil && e.rcPending(cl) {
			return true
		}
		if e.c41 && cl.admitted > cl.nHSends {
			return true // admitted work must reach the handler whatever happened to the session
		}
		if cl.closed {
			continue
		}
		if cl.nHSends > cl.nAcks {
			return true
		}
		if !cl.tainted {
			delivered := 0
			for _, s := range cl.sends() {
				if s.doneStep > 0 {
					delivered++
				}
			}
			if delivered > cl.nHSends {
				return true
			}
		}
	}
	return false
}

// workDone: every client wrote its whole plan (or lost its connection), every
// byte was delivered both ways and nothing is in flight.
func (e *engine) workDone() bool {
	q := e.q
	if q.w.NumPending() > 0 || e.stopping {
		return false
	}
	for _, cl := range q.clients {
		if !cl.opened {
			return false
		}
		if cl.rc != nil {
			rc := cl.rc
			if len(cl.sock) > 0 && !cl.closed && !cl.closeSent {
				return false
			}
			if !rc.farClosed && (cl.rcPendingOut() > 0 || rc.wireBusy.Load()) && !cl.stalled {
				return false
			}
			if e.rcAlive(cl) && !cl.closed && rc.opsLeft > 0 && !e.quiet {
				return false
			}
			if cl.closed && !rc.farClosed {
				return false
			}
			continue
		}
		if cl.closed {
			continue
		}
		if cl.closeSent || cl.finPending {
			return false
		}
		stuckAuth := cl.auth && cl.connectSent && cl.gotConnack && !cl.connackOK
		if (cl.planLeft > 0 && !stuckAuth && !e.quiet) || len(cl.sock) > 0 || cl.pendingOut() > 0 {
			return false
		}
	}
	return !e.pendingWork()
}

func (e *engine) idle() time.Duration {
	if !e.pendingWork() {
		return 0
	}
	e.idles++
	if e.idles > 400 {
		return 0
	}
	if e.stopping || e.drainActive > 0 {
		return 10 * time.Millisecond
	}
	return time.Millisecond
}

// ---- actions -------------------------------------------------------------------------

func (e *engine) collect() []simkit.Action {
	q := e.q
	e.observe()
	if q.r.Failed() || q.tainted {
		return nil
	}
	c := q.cfg
	faults := !c.NoFaults && !e.final
	var acts []simkit.Action
	parkedByKind := map[string]int{}
	handlerConns := map[int]bool{}
	// handlers slower than any release budget: nothing parked in a SEND handler is
	// released while Stop is waiting
	hold := c.StopHold && e.stopping && !e.stopped && !e.final
	for _, p := range q.w.Pending() {
		p := p
		info := p.Info.(*parkInfo)
		parkedByKind[info.kind]++
		if hold && (info.kind == "batch" || info.kind == "ubatch" || info.kind == "umid") {
			continue
		}
		switch info.kind {
		case "gate":
			acts = append(acts, simkit.Action{Prio: 0, Key: "go " + p.Key, Weight: 10, Do: func() { q.w.Release(p, decOK) }})
		case "batch", "ubatch":
			for _, k := range info.conns {
				handlerConns[k] = true
			}
			rw := 9
			if c.Saturable && !e.final {
				rw = 3 // slow handlers: let the worker pool fill up
			}
			acts = append(acts, simkit.Action{Prio: 0, Key: "release " + p.Key, Weight: rw, Do: func() {
				info.plan = e.drawPlan(info, faults)
				q.w.Release(p, decOK)
			}})
		case "umid":
			acts = append(acts, simkit.Action{Prio: 0, Key: "release " + p.Key, Weight: 9, Do: func() { q.w.Release(p, decOK) }})
		case "frame", "open", "activate":
			acts = append(acts, simkit.Action{Prio: 0, Key: "release " + p.Key, Weight: 9, Do: func() { q.w.Release(p, decOK) }})
			if faults && c.FHandlerFail {
				acts = append(acts, simkit.Action{Prio: 5, Key: "fail " + p.Key, Weight: 1, Do: func() { q.r.Fault("handler_error_" + info.kind); q.w.Release(p, decFail) }})
			}
		case "auth":
			acts = append(acts, simkit.Action{Prio: 0, Key: "release " + p.Key, Weight: 9, Do: func() { q.w.Release(p, decOK) }})
			if faults && c.FHandlerFail {
				acts = append(acts, simkit.Action{Prio: 5, Key: "fail " + p.Key, Weight: 1, Do: func() { q.r.Fault("auth_error"); q.w.Release(p, decFail) }})
				acts = append(acts, simkit.Action{Prio: 5, Key: "reject " + p.Key, Weight: 1, Do: func() { q.r.Fault("auth_reject"); q.w.Release(p, decReject) }})
			}
		}
	}
	if len(handlerConns) >= 2 || parkedByKind["batch"]+parkedByKind["ubatch"] >= 2 {
		e.overlapSeen = true
		q.r.Probe("handler_calls_overlap")
	}
	open := 0
	for _, cl := range q.clients {
		cl := cl
		k := cl.k
		conn := cl.conn
		if cl.opened && !cl.closed {
			open++
		}
		if cl.rc != nil {
			e.collectRC(cl, &acts, faults)
			continue
		}
		if !cl.opened {
			if !e.final && !e.stopping {
				acts = append(acts, simkit.Action{Prio: 0, Key: fmt.Sprintf("open c%d", k), Weight: 10, Do: func() { e.doOpen(cl) }})
			}
			continue
		}
		busy := conn.busy.Load()
		// client writes more frames into its socket
		if !e.final && !e.quiet && !cl.closeSent && !cl.closed && cl.planLeft > 0 && len(cl.sock) < 4096 && cl.maySend() {
			acts = append(acts, simkit.Action{Prio: 0, Key: fmt.Sprintf("csend c%d", k), Weight: 3, Do: func() { e.doClientSend(cl, faults) }})
		}
		if !busy && !cl.closeSent && !cl.closed && len(cl.sock) > 0 {
			acts = append(acts, simkit.Action{Prio: 0, Key: fmt.Sprintf("deliver c%d", k), Weight: 8, Do: func() { e.doDeliver(cl) }})
		}
		if !busy && cl.finPending && !cl.closeSent && (len(cl.sock) == 0 || cl.closed) {
			acts = append(acts, simkit.Action{Prio: 0, Key: fmt.Sprintf("eof c%d", k), Weight: 8, Do: func() { e.sendClose(cl, io.EOF, "half-close") }})
		}
		if cl.pendingOut() > 0 && (!cl.stalled || e.final) {
			acts = append(acts, simkit.Action{Prio: 0, Key: fmt.Sprintf("cread c%d", k), Weight: 4, Do: func() { e.doClientRead(cl) }})
		}
		if c.Push && !e.final && !cl.closed && cl.seenOpen > 0 && cl.pushes < 6 {
			acts = append(acts, simkit.Action{Prio: 1, Key: fmt.Sprintf("push c%d", k), Weight: 2, Do: func() { e.doPush(cl) }})
		}
		if !faults {
			continue
		}
		killsLeft := e.kills < (c.Sessions+1)/2
		if c.FReset && killsLeft && !cl.closeSent && !cl.finPending && !cl.closed {
			acts = append(acts, simkit.Action{Prio: 6, Key: fmt.Sprintf("reset c%d", k), Weight: 1, Do: func() {
				q.r.Fault("conn_reset")
				e.kills++
				cl.sock = nil
				e.sendClose(cl, errSimReset, "reset")
			}})
			acts = append(acts, simkit.Action{Prio: 6, Key: fmt.Sprintf("halfclose c%d", k), Weight: 1, Do: func() {
				q.r.Fault("conn_half_close")
				e.kills++
				cl.finPending = true
			}})
		}
		if c.FStall && !cl.closed {
			if cl.stalled {
				acts = append(acts, simkit.Action{Prio: 4, Key: fmt.Sprintf("unstall c%d", k), Weight: 2, Do: func() { cl.stalled = false }})
			} else if cl.stalls < 2 {
				acts = append(acts, simkit.Action{Prio: 6, Key: fmt.Sprintf("stall c%d", k), Weight: 1, Do: func() { q.r.Fault("peer_read_stall"); cl.stalls++; cl.stalled = true }})
			}
		}
		if c.FKick && killsLeft && !cl.closed && cl.seenOpen > 0 {
			acts = append(acts, simkit.Action{Prio: 6, Key: fmt.Sprintf("kick c%d", k), Weight: 1, Do: func() { e.kills++; e.doKick(cl) }})
		}
	}
	if faults && !e.stopping {
		if c.FDrain && e.drainActive == 0 && e.drainSeq < 4 {
			for _, to := range []time.Duration{0, 3 * time.Millisecond, 300 * time.Millisecond} {
				to := to
				if to == 300*time.Millisecond && c.overloadPossible() {
					continue
				}
				w := 1
				if to > 0 && parkedByKind["batch"]+parkedByKind["ubatch"]+parkedByKind["umid"] > 0 {
					w = 3 // a drain whose context expires while SEND work is parked
				}
				acts = append(acts, simkit.Action{Prio: 6, Key: fmt.Sprintf("drain timeout=%v", to), Weight: w, Do: func() { e.doDrain(to) }})
			}
		}
		if c.FStop {
			w := 1
			if e.c41 {
				w = 2
				busyHandlers := parkedByKind["batch"] + parkedByKind["ubatch"] + parkedByKind["umid"]
				if busyHandlers > 0 {
					w = 6
				}
				if e.shardWaitingForWorker() {
					w = 60 // every worker stuck in a handler and another shard's admitted work waiting for one
				}
			}
			acts = append(acts, simkit.Action{Prio: 7, Key: "stop server", Weight: w, Do: func() { e.doStop() }})
		}
	}
	inflight := len(q.w.Pending()) > 0 || e.pendingWork()
	if len(acts) > 0 && inflight && !e.final {
		acts = append(acts, simkit.Action{Prio: 3, Key: "tick 200us", Weight: 2, Do: func() { time.Sleep(200 * time.Microsecond) }})
		acts = append(acts, simkit.Action{Prio: 3, Key: "tick 2ms", Weight: 2, Do: func() { time.Sleep(2 * time.Millisecond) }})
		if !c.overloadPossible() {
			acts = append(acts, simkit.Action{Prio: 3, Key: "tick 60ms", Weight: 1, Do: func() { time.Sleep(60 * time.Millisecond) }})
		}
	}
	if len(acts) == 0 {
		// nothing schedulable: Idle decides whether work is still in flight
		return nil
	}
	e.idles = 0
	for i := range acts {
		if acts[i].Prio <= 3 {
			acts[i].Weight *= 4 // faults are the rare choice
		}
	}
	q.r.State(open, parkedByKind["gate"], parkedByKind["batch"]+parkedByKind["ubatch"], parkedByKind["frame"], parkedByKind["auth"], e.drainActive, e.drainStep > 0, e.stopping, e.backlogBucket())
	return acts
}

// shardWaitingForWorker: every send worker is parked in a handler call and some
// other connection (= another ordering shard) has admitted SENDs that no handler
// call has picked up.
func (e *engine) shardWaitingForWorker() bool {
	q := e.q
	if q.cfg.Workers < 2 {
		return false
	}
	parked := 0
	inHandler := map[int]bool{}
	for _, p := range q.w.Pending() {
		info := p.Info.(*parkInfo)
		if info.kind == "batch" || info.kind == "ubatch" || info.kind == "umid" {
			parked++
			for _, k := range info.conns {
				inHandler[k] = true
			}
		}
	}
	if parked < q.cfg.Workers {
		return false
	}
	for _, cl := range q.clients {
		if cl.admitted > cl.nHSends && !inHandler[cl.k] {
			return true
		}
	}
	return false
}

func (e *engine) backlogBucket() int {
	m := 0
	for _, cl := range e.q.clients {
		if d := cl.nHSends - cl.nAcks; d > m {
			m = d
		}
	}
	if m > 3 {
		m = 3
	}
	return m
}

func (cl *client) maySend() bool {
	if !cl.auth {
		return true
	}
	if !cl.connectSent {
		return true
	}
	if cl.gotConnack {
		return cl.connackOK
	}
	return cl.eager
}

func (cl *client) pendingOut() int {
	c := cl.conn
	c.mu.Lock()
	defer c.mu.Unlock()
	return c.outPending
}

func (e *engine) drawPlan(info *parkInfo, faults bool) *plan {
	q := e.q
	tp := q.r.Tape
	p := &plan{errAt: -1, skip: -1, midPark: -1}
	n := info.n
	kind := 0
	if faults {
		w := []int{8, 3, 0, 0, 0}
		if info.kind == "ubatch" {
			w = []int{6, 3, 0, 0, 3}
			if n > 1 {
				w[4] = 5
			}
		}
		if q.cfg.FHandlerFail {
			w[2] = 2
			if info.kind == "ubatch" {
				w[3] = 1
			}
		}
		kind = tp.Weighted(w)
	} else if info.kind == "ubatch" && n > 1 {
		// emission order and latency are not faults: the use case may finish items in any order
		kind = []int{0, 4}[tp.Weighted([]int{3, 2})]
	}
	switch kind {
	case 1: // some items answered with a failure reason
		if info.kind == "ubatch" {
			p.itemErr = make([]int, n)
			for i := range p.itemErr {
				if tp.Chance(1, 2) {
					p.itemErr[i] = 1 + tp.Intn(len(stubItemErrs)-1)
				}
			}
		} else {
			p.reasons = make([]frame.ReasonCode, n)
			for i := range p.reasons {
				p.reasons[i] = frame.ReasonSuccess
				if tp.Chance(1, 2) {
					p.reasons[i] = []frame.ReasonCode{frame.ReasonSystemError, frame.ReasonChannelNotExist, frame.ReasonNotAllowSend}[tp.Intn(3)]
				}
			}
		}
		q.r.Fault("send_failure_reason")
	case 2: // the call fails after answering errAt items
		p.errAt = tp.Intn(n + 1)
		q.r.Fault("handler_error_batch")
	case 3: // one result is never emitted
		p.skip = tp.Intn(n)
		q.r.Fault("usecase_result_missing")
	case 4: // results emitted out of order, optionally with a pause in the middle
		p.perm = make([]int, n)
		for i := range p.perm {
			p.perm[i] = i
		}
		for i := n - 1; i > 0; i-- {
			j := tp.Intn(i + 1)
			p.perm[i], p.perm[j] = p.perm[j], p.perm[i]
		}
		if n > 1 && tp.Chance(1, 2) {
			p.midPark = 1 + tp.Intn(n-1)
		}
		q.r.Probe("usecase_out_of_order_results")
	}
	q.r.Logf("  plan kind=%d errAt=%d skip=%d mid=%d perm=%v reasons=%v itemErr=%v", kind, p.errAt, p.skip, p.midPark, p.perm, p.reasons, p.itemErr)
	return p
}

func (e *engine) doOpen(cl *client) {
	cl.opened = true
	cl.conn.busy.Store(true)
	cl.conn.events <- connEvent{kind: evOpen}
}

func (e *engine) sendClose(cl *client, err error, kind string) {
	cl.closeSent = true
	cl.closeKind = kind
	// the close event queues behind the event the actor is handling now
	cl.conn.busy.Store(true)
	cl.conn.events <- connEvent{kind: evClose, err: err}
}

func (e *engine) doKick(cl *client) {
	q := e.q
	cl.conn.mu.Lock()
	fn := cl.conn.closeFn
	cl.conn.mu.Unlock()
	if fn == nil {
		return
	}
	q.r.Fault("server_kick")
	fn(gatewaytypes.CloseReasonPolicyViolation, nil)
}

func (e *engine) doPush(cl *client) {
	q := e.q
	c := cl.conn
	c.mu.Lock()
	sess := c.sess
	c.mu.Unlock()
	if sess == nil {
		return
	}
	cl.pushes++
	n := cl.pushes
	pkt := &frame.RecvPacket{Setting: frame.SettingNoEncrypt, MessageID: int64(n), MessageSeq: uint64(n), ClientMsgNo: fmt.Sprintf("p%d", n), Timestamp: 1,
		ChannelID: "push", ChannelType: 2, FromUID: "srv", Payload: []byte(fmt.Sprintf("push-%d-%d", cl.k, n))}
	err := q.issue(c, "recv", fmt.Sprint(n), func() error { return sess.WriteFrame(pkt) })
	q.r.Logf("  push c%d #%d err=%v", cl.k, n, err != nil)
}

func (e *engine) doDrain(timeout time.Duration) {
	q := e.q
	e.drainSeq++
	id := e.drainSeq
	e.drainActive++
	if e.drainStep == 0 {
		e.drainStep = q.r.Steps
	}
	if !e.final {
		q.r.Fault("drain_sends")
		if !e.quiet && q.r.Tape.Weighted([]int{1, 2}) == 1 {
			// clients learn about the maintenance and stop sending: their sessions
			// stay open, so everything admitted before the drain must be answered
			e.quiet = true
			q.r.Logf("  clients stop sending new frames")
		}
	}
	srv := e.srv
	go func() {
		ctx := context.Background()
		cancel := func() {}
		if timeout > 0 {
			ctx, cancel = context.WithTimeout(ctx, timeout)
		}
		err := srv.DrainSends(ctx)
		cancel()
		q.post(asyncResult{kind: "drain", id: id, err: err})
	}()
}

func (e *engine) doStop() {
	q := e.q
	e.stopping = true
	e.stopStep = q.r.Steps
	q.r.Fault("server_stop")
	if e.c41 {
		queued, parked := 0, 0
		for _, cl := range q.clients {
			queued += cl.admitted - cl.nHSends
		}
		for _, p := range q.w.Pending() {
			if k := p.Info.(*parkInfo).kind; k == "batch" || k == "ubatch" || k == "umid" {
				parked++
			}
		}
		q.r.Logf("  stop begins: %d admitted SENDs not yet at the handler, %d handler calls parked, release budget %v", queued, parked, q.cfg.ReleaseTO)
		if queued > 0 || parked > 0 {
			e.stopWithWork = true
			q.r.Probe("stop.with_admitted_work_in_flight")
		}
		if e.shardWaitingForWorker() {
			q.r.Probe("stop.with_shard_waiting_for_a_worker")
		}
	}
	srv := e.srv
	go func() {
		err := srv.Stop()
		q.post(asyncResult{kind: "stop", err: err})
	}()
}

// doDeliver hands the next chunk of the client's socket bytes to the server.
func (e *engine) doDeliver(cl *client) {
	q := e.q
	tp := q.r.Tape
	avail := len(cl.sock)
	n := avail
	if !e.final {
		// distance to the next frame boundary after the current position
		nextB := 0
		for _, s := range cl.sent {
			if s.end > cl.sockOff {
				nextB = s.end - cl.sockOff
				break
			}
		}
		var w []int
		switch q.cfg.SplitBias {
		case 0:
			w = []int{10, 1, 1, 1, 1, 1}
		case 1:
			w = []int{4, 2, 2, 2, 2, 2}
		default:
			w = []int{1, 6, 3, 2, 2, 1}
		}
		switch tp.Weighted(w) {
		case 1:
			n = 1
		case 2:
			n = 2 + tp.Intn(6)
		case 3:
			n = nextB // exactly one frame boundary
		case 4:
			n = nextB + 1 + tp.Intn(3) // into the header of the following frame
		case 5:
			n = 1 + tp.Intn(avail)
		}
		if n <= 0 || n > avail {
			n = avail
		}
	}
	chunk := newExactBuf(cl.sock[:n])
	start := cl.sockOff
	cl.sock = cl.sock[n:]
	cl.sockOff += n
	step := q.r.Steps
	for _, s := range cl.sent {
		if s.doneStep == 0 && s.end <= cl.sockOff {
			s.doneStep = step
		}
	}
	if b := cl.boundaryAtOrBefore(cl.sockOff); b != cl.sockOff && !cl.tainted {
		e.splitSeen = true
	}
	q.r.Logf("  deliver c%d bytes [%d,%d)", cl.k, start, cl.sockOff)
	cl.conn.busy.Store(true)
	cl.conn.events <- connEvent{kind: evData, buf: chunk}
}

// ---- client frame generation ------------------------------------------------------------

func pattern(n, seed int) []byte {
	b := make([]byte, n)
	for i := range b {
		b[i] = byte(seed*31 + i*7 + 1)
	}
	return b
}

func genStr(tp *simkit.Tape, prefix string, seed int) string {
	n := []int{0, 3, 8, 12, 130, 300}[tp.Weighted([]int{2, 5, 3, 2, 1, 1})]
	if n == 0 {
		return ""
	}
	s := prefix + string(pattern(n, seed))
	b := []byte(s)
	for i := range b {
		b[i] = 'a' + b[i]%26
	}
	return string(b[:n])
}

func genFrame(tp *simkit.Tape, kind int, k int, version uint8, seq uint64, big bool) frame.Frame {
	var fr frame.Framer
	if tp.Chance(1, 3) {
		fr.NoPersist = tp.Intn(2) == 1
		fr.RedDot = tp.Intn(2) == 1
		fr.SyncOnce = tp.Intn(2) == 1
		fr.DUP = tp.Intn(2) == 1
	}
	switch kind {
	case int(frame.CONNECT):
		return &frame.ConnectPacket{Framer: fr, Version: version, DeviceID: genStr(tp, "d", k), DeviceFlag: frame.DeviceFlag(tp.Intn(3)),
			ClientTimestamp: int64(946684800000 + tp.Intn(1000)), UID: fmt.Sprintf("u%d", k), Token: genStr(tp, "t", k+1), ClientKey: genStr(tp, "k", k+2)}
	case int(frame.SEND):
		p := &frame.SendPacket{Framer: fr, ClientSeq: seq, ClientMsgNo: fmt.Sprintf("m%d-%d", k, seq), ChannelID: []string{"ch1", "ch2", "", "u9"}[tp.Weighted([]int{4, 2, 1, 1})],
			ChannelType: uint8(1 + tp.Intn(2)), MsgKey: genStr(tp, "mk", int(seq))}
		if tp.Chance(1, 3) {
			for _, s := range []frame.Setting{frame.SettingReceiptEnabled, frame.SettingSignal, frame.SettingNoEncrypt, frame.SettingTopic, frame.SettingStream} {
				if tp.Intn(2) == 1 {
					p.Setting.Set(s)
				}
			}
		}
		if p.Setting.IsSet(frame.SettingTopic) {
			p.Topic = genStr(tp, "tp", int(seq)+3)
		}
		if p.Setting.IsSet(frame.SettingStream) && version >= 2 && version < 5 {
			p.StreamNo = genStr(tp, "sn", int(seq)+5)
		}
		if version >= 3 && tp.Chance(1, 3) {
			p.Expire = uint32(tp.Intn(100000))
		}
		if tp.Chance(1, 8) {
			p.ClientSeq = uint64(4294967295 - tp.Intn(3)) // top of the 32-bit wire field
		}
		sizes := []int{0, 5, 20, 60, 100, 126, 200}
		w := []int{1, 4, 4, 2, 2, 2, 1}
		if big {
			sizes = append(sizes, 16360)
			w = append(w, 2)
		}
		n := sizes[tp.Weighted(w)]
		if n >= 100 {
			n += tp.Intn(40) // straddle the 127/128 and 16383/16384 remaining-length edges
		}
		p.Payload = pattern(n, int(seq)+k)
		return p
	case int(frame.RECVACK):
		return &frame.RecvackPacket{Framer: fr, MessageID: int64(1 + tp.Intn(50)), MessageSeq: uint64(tp.Intn(1000))}
	case int(frame.PING):
		return &frame.PingPacket{}
	case int(frame.PONG):
		return &frame.PongPacket{}
	case int(frame.DISCONNECT):
		return &frame.DisconnectPacket{Framer: fr, ReasonCode: frame.ReasonCode(tp.Intn(30)), Reason: genStr(tp, "r", k)}
	case int(frame.SUB):
		return &frame.SubPacket{Framer: fr, Setting: frame.Setting(tp.Intn(2) * 8), SubNo: genStr(tp, "s", k), ChannelID: "ch1", ChannelType: 2, Action: frame.Action(tp.Intn(2)), Param: genStr(tp, "p", k+4)}
	case int(frame.EVENT):
		return &frame.EventPacket{Framer: fr, Id: genStr(tp, "e", k), Type: "custom", Timestamp: int64(tp.Intn(1 << 20)), Data: pattern(tp.Intn(30), k)}
	}
	return &frame.PingPacket{}
}

// doClientSend makes the client write its next burst of frames into the socket.
func (e *engine) doClientSend(cl *client, faults bool) {
	q := e.q
	tp := q.r.Tape
	burst := 1
	if q.cfg.Burst > 1 {
		burst = 1 + tp.Intn(q.cfg.Burst)
	}
	for i := 0; i < burst && cl.planLeft > 0; i++ {
		kind := int(frame.SEND)
		if cl.auth && !cl.connectSent {
			kind = int(frame.CONNECT)
		} else {
			sb := q.cfg.SendBias
			if cl.realFrames {
				kind = []int{int(frame.SEND), int(frame.PING), int(frame.RECVACK), int(frame.SUB), int(frame.DISCONNECT)}[tp.Weighted([]int{sb * 2, 3, 3, 0, 0})]
				if faults && tp.Chance(1, 30) {
					kind = []int{int(frame.SUB), int(frame.DISCONNECT), int(frame.EVENT)}[tp.Intn(3)]
					cl.unsupportedSent = true
				}
			} else {
				kind = []int{int(frame.SEND), int(frame.PING), int(frame.RECVACK), int(frame.SUB), int(frame.DISCONNECT), int(frame.CONNECT), int(frame.EVENT), int(frame.PONG)}[tp.Weighted([]int{sb * 2, 3, 3, 2, 1, 1, 1, 1})]
			}
		}
		var seq uint64
		if kind == int(frame.SEND) {
			seq = cl.nextSeq
			cl.nextSeq++
		}
		ver := cl.inVersion
		connVer := cl.reqVersion
		f := genFrame(tp, kind, cl.k, connVer, seq, q.cfg.BigFrames)
		if kind == int(frame.CONNECT) {
			// CONNECT is decoded before any version is negotiated
			ver = frame.LatestVersion
		}
		enc, err := q.codec.EncodeFrame(f, ver)
		if err != nil {
			q.r.Probe("client_encode_error")
			continue
		}
		if back, n, derr := q.codec.DecodeFrame(append([]byte(nil), enc...), ver); derr != nil || back == nil || n != len(enc) {
			q.r.Probe("codec_roundtrip_decode_failed")
			q.r.Logf("  roundtrip failed type=%v v=%d err=%v n=%d/%d", f.GetFrameType(), ver, derr, n, len(enc))
			continue
		} else if re, rerr := q.codec.EncodeFrame(back, ver); rerr != nil || string(re) != string(enc) {
			q.r.Probe("codec_roundtrip_not_canonical")
			continue
		}
		cl.planLeft--
		if kind == int(frame.CONNECT) && cl.auth {
			cl.connectSent = true
		}
		sf := &sentFrame{f: f, typ: f.GetFrameType(), enc: enc, start: cl.streamLen}
		if s, ok := f.(*frame.SendPacket); ok {
			sf.seq, sf.msgNo = s.ClientSeq, s.ClientMsgNo
		}
		wire := enc
		if cl.auth && kind != int(frame.CONNECT) && !cl.gotConnack && !cl.tainted {
			// an eager client speaks before the version is negotiated: the server may
			// legitimately decode these bytes differently (or refuse them)
			cl.tainted = true
			cl.taintOff = cl.streamLen
			q.r.Fault("client_sends_before_connack")
		}
		if faults && q.cfg.FCorrupt && tp.Chance(1, 7) {
			wire = e.corrupt(cl, sf, enc)
		}
		cl.sock = append(cl.sock, wire...)
		cl.streamLen += len(wire)
		sf.end = cl.streamLen
		cl.sent = append(cl.sent, sf)
		q.r.Logf("  csend c%d %v seq=%d len=%d [%d,%d) corrupted=%v", cl.k, sf.typ, sf.seq, len(wire), sf.start, sf.end, sf.corrupted)
		if kind == int(frame.CONNECT) && cl.auth && !cl.eager {
			break
		}
	}
}

func (e *engine) corrupt(cl *client, sf *sentFrame, enc []byte) []byte {
	q := e.q
	tp := q.r.Tape
	wire := append([]byte(nil), enc...)
	sf.corrupted = true
	if !cl.tainted {
		cl.tainted = true
		cl.taintOff = cl.streamLen
	}
	switch tp.Intn(4) {
	case 0:
		i := tp.Intn(len(wire))
		wire[i] ^= 1 << uint(tp.Intn(8))
		q.r.Fault("corrupt_bitflip")
	case 1:
		if len(wire) > 1 {
			wire = wire[:1+tp.Intn(len(wire)-1)]
		}
		q.r.Fault("corrupt_truncate")
	case 2:
		if len(wire) > 2 {
			huge := [][]byte{{0xff, 0xff, 0xff, 0x7f}, {0xff, 0xff, 0xff, 0xff}, {0x80, 0x80, 0x80, 0x01}, {0xff, 0xff, 0x7f}}[tp.Intn(4)]
			wire = append(append([]byte{wire[0]}, huge...), wire[2:]...)
		}
		q.r.Fault("corrupt_oversize_length")
	default:
		g := tp.Bytes(1 + tp.Intn(6))
		wire = append(g, wire...)
		q.r.Fault("corrupt_garbage")
	}
	return wire
}

// doClientRead lets the client read some of the bytes the server wrote and
// decode them the way pkg/client's reader loop does.
func (e *engine) doClientRead(cl *client) {
	q := e.q
	tp := q.r.Tape
	c := cl.conn
	c.mu.Lock()
	avail := c.outPending
	n := avail
	if !e.final {
		switch tp.Weighted([]int{6, 1, 2}) {
		case 1:
			n = 1
		case 2:
			n = 1 + tp.Intn(avail)
		}
	}
	var got []byte
	for len(got) < n && cl.readWrites < len(c.writes) {
		w := c.writes[cl.readWrites].data
		take := len(w) - cl.readOff
		if take > n-len(got) {
			take = n - len(got)
		}
		got = append(got, w[cl.readOff:cl.readOff+take]...)
		cl.readOff += take
		if cl.readOff == len(w) {
			cl.readWrites++
			cl.readOff = 0
		}
	}
	c.outPending -= len(got)
	c.mu.Unlock()
	cl.rbuf = append(cl.rbuf, got...)
	for len(cl.rbuf) > 0 && !cl.recvBad {
		buf := newExactBuf(cl.rbuf)
		f, used, err := q.codec.DecodeFrame(buf.data, cl.outVersion)
		if err != nil {
			cl.recvBad = true
			q.r.Probe("client_decode_error")
			break
		}
		if f == nil || used == 0 {
			break
		}
		cl.recvTypes = append(cl.recvTypes, f.GetFrameType())
		if ack, ok := f.(*frame.ConnackPacket); ok && !cl.gotConnack {
			cl.gotConnack = true
			cl.connackOK = ack.ReasonCode == frame.ReasonSuccess
		}
		cl.rbuf = cl.rbuf[used:]
	}
	q.r.Logf("  cread c%d %d bytes, frames so far %d", cl.k, len(got), len(cl.recvTypes))
}

// ---- observation and oracles ------------------------------------------------------------------

func short(b []byte) string {
	if len(b) > 24 {
		return fmt.Sprintf("%x..(%d)", b[:24], len(b))
	}
	return fmt.Sprintf("%x", b)
}

func (e *engine) observe() {
	q := e.q
	step := q.r.Steps
	q.mu.Lock()
	res := q.asyncRes
	q.asyncRes = nil
	q.mu.Unlock()
	sort.Slice(res, func(i, j int) bool {
		if res[i].kind != res[j].kind {
			return res[i].kind < res[j].kind
		}
		return res[i].id < res[j].id
	})
	for _, cl := range q.clients {
		if cl.rc != nil {
			e.observeRC(cl)
			if q.r.Failed() || q.tainted {
				return
			}
		}
		e.observeConn(cl, step)
		if q.r.Failed() || q.tainted {
			return
		}
	}
	for _, a := range res {
		switch a.kind {
		case "drain":
			e.drainActive--
			q.r.Logf("  drain#%d returned err=%v", a.id, a.err)
			if a.err == nil {
				if n := q.inflightSend.Load(); n != 0 {
					q.fail("drain-returned-with-work-inflight", "", fmt.Sprintf("DrainSends returned nil while %d SEND handler calls were still running", n), map[string]any{"inflight": n})
					return
				}
				if !e.drainDoneOK {
					e.drainDoneOK = true
					e.drainDoneAt = e.totalHSends()
					e.drainAcksAt = e.acksTotal
				}
				q.r.Probe("drain_completed")
			} else {
				q.r.Probe("drain_context_expired")
			}
		case "stop":
			e.stopped = true
			q.r.Logf("  stop returned err=%v", a.err)
			if e.c41 {
				queued := 0
				for _, cl := range q.clients {
					queued += cl.admitted - cl.nHSends
				}
				if n := q.inflightSend.Load(); n > 0 || queued > 0 {
					q.r.Probe("stop.release_budget_expired_with_work_in_flight")
					if queued > 0 {
						q.r.Probe("stop.returned_with_admitted_send_still_queued")
					}
				} else {
					q.r.Probe("stop.graceful")
				}
			}
		}
	}
	if e.drainDoneOK && e.totalHSends() > e.drainDoneAt {
		q.fail("dispatch-after-drain-complete", "", fmt.Sprintf("a SEND reached the handler after DrainSends had returned nil (%d -> %d)", e.drainDoneAt, e.totalHSends()), nil)
		return
	}
	if e.drainDoneOK && e.acksTotal > e.drainAcksAt {
		// everything admitted before the drain was answered (or its session closed)
		// before nil was returned, and nothing is admitted afterwards
		q.fail("dispatch-after-drain-complete", "sendack", fmt.Sprintf("a SENDACK was written after DrainSends had returned nil (%d -> %d)", e.drainAcksAt, e.acksTotal), nil)
	}
}

// heldFramesIntact re-encodes the frame objects the handler received and
// compares them with their encoding at the moment of delivery.
func (e *engine) heldFramesIntact(cl *client, hSends []hSend, hOthers []hOther) bool {
	q := e.q
	for i, h := range hSends {
		if h.ref == nil {
			continue
		}
		if b, err := q.codec.EncodeFrame(h.ref, h.ver); err != nil || string(b) != string(h.enc) {
			q.fail("handler-frames-mismatch", "changed-after-delivery", fmt.Sprintf("c%d: SEND #%d (seq %d) read %s when the handler received it and reads %s now, after the server processed more of the stream", cl.k, i, h.seq, short(h.enc), short(b)), nil)
			return false
		}
	}
	for _, h := range hOthers {
		if h.ref == nil {
			continue
		}
		if b, err := q.codec.EncodeFrame(h.ref, h.ver); err != nil || string(b) != string(h.enc) {
			// Only SEND frames are handed to an asynchronous consumer (the send
			// worker); the adapter detaches their payload for that reason. Every
			// other frame is dispatched synchronously inside OnData and no handler
			// of the repository keeps it beyond the call, so a payload or data field
			// that still aliases the transport's read buffer (EVENT.Data,
			// RECV.Payload sent by a client, ...) is recorded, not flagged: C23 asks
			// that decoding yields the original frames, which it did at delivery.
			q.r.Probe(strings.ToLower(h.typ.String()) + "_payload_aliases_read_buffer")
			continue
		}
	}
	return true
}

func (e *engine) totalHSends() int {
	n := 0
	for _, cl := range e.q.clients {
		n += cl.nHSends
	}
	return n
}

func (e *engine) observeConn(cl *client, step int) {
	q := e.q
	c := cl.conn
	c.mu.Lock()
	decodes := append([]decodeRec(nil), c.decodes[cl.nDecodes:]...)
	hSends := append([]hSend(nil), c.hSends...)
	hOthers := append([]hOther(nil), c.hOthers...)
	writes := append([]outWrite(nil), c.writes...)
	issues := append([]issueRec(nil), c.issues...)
	panics := append([]string(nil), c.panics...)
	badGuard := c.badGuard
	srvClosed := c.srvClosed
	hOpen, hClose, why := c.hOpen, c.hClose, c.hCloseWhy
	var hConnect []byte
	if len(c.hConnects) > 0 {
		hConnect = c.hConnects[0]
	}
	overflowed := c.overflowed
	c.overflowed = 0
	admits := append([]bool(nil), c.admits[cl.nAdmits:]...)
	c.mu.Unlock()
	k := cl.k

	// 0. admission outcomes (the gateway part of C41 reasons about admitted SENDs)
	for _, ok := range admits {
		cl.nAdmits++
		if !e.c41 {
			if ok {
				cl.admitted++
			}
			continue
		}
		q.r.Logf("  c%d SEND admission #%d ok=%v", k, cl.nAdmits, ok)
		if ok {
			cl.admitted++
			if e.stopStep > 0 && step > e.stopStep {
				q.fail("send-admitted-after-stop", "", fmt.Sprintf("c%d: a SEND was admitted into the async queue at step %d although Server.Stop began at step %d", k, step, e.stopStep), map[string]any{"stop_step": e.stopStep, "step": step})
				return
			}
		} else if e.stopStep > 0 && step > e.stopStep {
			q.r.Probe("stop.submit_after_stop_rejected")
		}
	}

	if len(panics) > 0 {
		q.r.Fail("panic", fmt.Sprintf("c%d: panic in the connection actor: %s", k, panics[0]), nil)
		return
	}
	if badGuard > 0 {
		q.fail("read-beyond-buffer", "", fmt.Sprintf("c%d: guard bytes around an inbound buffer were modified", k), nil)
		return
	}
	if overflowed > 0 {
		q.r.ProbeN("outbound_overflow_rejected", overflowed)
	}
	if hOpen > cl.seenOpen {
		cl.seenOpen = hOpen
		q.r.Logf("  c%d session open", k)
	}
	sends := cl.sends()
	others := cl.others()

	// 1. decoder calls
	for _, d := range decodes {
		cl.nDecodes++
		inStart := cl.decodeOff
		inEnd := inStart + d.inLen
		q.r.Logf("  c%d decode in=[%d,%d) consumed=%d frames=%d err=%q", k, inStart, inEnd, d.consumed, len(d.encs), d.err)
		if !d.inputOK {
			q.fail("decode-mutated-input", "", fmt.Sprintf("c%d: Decode modified its input buffer", k), nil)
			return
		}
		if d.consumed < 0 || d.consumed > d.inLen || (d.consumed == 0) != (len(d.encs) == 0) && d.err == "" {
			q.fail("decode-invalid-step", "", fmt.Sprintf("c%d: Decode returned consumed=%d frames=%d for %d input bytes", k, d.consumed, len(d.encs), d.inLen), nil)
			return
		}
		cleanEnd := inEnd
		if cl.tainted && cl.taintOff < cleanEnd {
			cleanEnd = cl.taintOff
		}
		if cleanEnd == inEnd {
			// the whole input is clean: the result is fully determined
			want := cl.boundaryAtOrBefore(inEnd) - inStart
			if want < 0 {
				want = 0
			}
			if d.err != "" {
				q.fail("clean-stream-rejected", "decode-error", fmt.Sprintf("c%d: Decode reported an error on an uncorrupted stream, input [%d,%d)", k, inStart, inEnd), nil)
				return
			}
			if d.consumed != want {
				cls := "decode-frames-mismatch"
				if d.consumed > want {
					cls = "decode-progress-on-incomplete"
				}
				q.fail(cls, "", fmt.Sprintf("c%d: Decode consumed %d bytes of input [%d,%d), last complete frame ends at +%d", k, d.consumed, inStart, inEnd, want), map[string]any{"consumed": d.consumed, "want": want})
				return
			}
		}
		if d.err == "" && inStart < cleanEnd {
			// frames that lie wholly in the clean prefix must come out exactly
			i := 0
			for _, s := range cl.sent {
				if s.start < inStart || s.corrupted {
					if s.start >= inStart {
						break
					}
					continue
				}
				if s.end > cleanEnd || s.end > inStart+d.consumed {
					break
				}
				if i >= len(d.encs) || string(d.encs[i]) != string(s.enc) {
					got := "none"
					if i < len(d.encs) {
						got = short(d.encs[i])
					}
					q.fail("decode-frames-mismatch", "", fmt.Sprintf("c%d: decoded frame %d of input [%d,%d) differs from the frame sent at [%d,%d): got %s want %s", k, i, inStart, inEnd, s.start, s.end, got, short(s.enc)), nil)
					return
				}
				i++
			}
		}
		if d.err != "" {
			cl.decodeErrStep = step
			q.r.Probe("decode_error")
		} else if d.consumed == 0 {
			q.r.Probe("decode_need_more")
		} else if inStart+d.consumed < inEnd {
			q.r.Probe("decode_partial_tail")
		}
		if len(d.encs) > 1 {
			q.r.Probe("decode_coalesced_frames")
		}
		cl.decodeOff += d.consumed
	}

	if hConnect != nil && !cl.connectSeen {
		cl.connectSeen = true
		e.handlerSeen++
		if len(cl.sent) > 0 && !cl.sent[0].corrupted && string(hConnect) != string(cl.sent[0].enc) {
			q.fail("handler-frames-mismatch", "connect", fmt.Sprintf("c%d: CONNECT seen by the authenticator differs from the CONNECT sent: got %s want %s", k, short(hConnect), short(cl.sent[0].enc)), nil)
			return
		}
	}

	// 2. SENDs seen by the handler
	for i := cl.nHSends; i < len(hSends); i++ {
		h := hSends[i]
		e.handlerSeen++
		q.r.Logf("  c%d handler SEND #%d seq=%d batch=%d", k, i, h.seq, h.batch)
		if i < len(sends) && (!cl.tainted || sends[i].end <= cl.taintOff) {
			s := sends[i]
			if string(h.enc) != string(s.enc) {
				cls, detail := "handler-frames-mismatch", fmt.Sprintf("c%d: SEND #%d seen by the handler differs from SEND #%d sent: got %s want %s", k, i, i, short(h.enc), short(s.enc))
				for j, o := range sends {
					if j != i && string(o.enc) == string(h.enc) {
						cls, detail = "send-dispatch-order", fmt.Sprintf("c%d: dispatch #%d delivered the client's SEND #%d (seq %d) instead of SEND #%d (seq %d)", k, i, j, o.seq, i, s.seq)
					}
				}
				q.fail(cls, "", detail, nil)
				return
			}
			if e.drainStep > 0 && s.doneStep > e.drainStep {
				q.fail("send-dispatched-after-drain", "", fmt.Sprintf("c%d: SEND seq=%d whose last byte reached the server at step %d was dispatched although DrainSends began at step %d", k, s.seq, s.doneStep, e.drainStep), map[string]any{"drain_step": e.drainStep, "arrived": s.doneStep})
				return
			}
		} else if !cl.tainted {
			q.fail("send-dispatch-order", "", fmt.Sprintf("c%d: the handler saw %d SENDs but the client sent only %d", k, i+1, len(sends)), nil)
			return
		}
		if e.c41 {
			if i >= cl.admitted {
				q.fail("dispatch-without-admission", "", fmt.Sprintf("c%d: the handler saw SEND #%d but only %d SENDs of this connection were admitted", k, i, cl.admitted), nil)
				return
			}
			if e.stopStep > 0 && i < len(sends) && sends[i].doneStep > e.stopStep {
				q.fail("send-dispatched-after-stop", "", fmt.Sprintf("c%d: SEND seq=%d whose last byte reached the server at step %d was dispatched although Server.Stop began at step %d", k, sends[i].seq, sends[i].doneStep, e.stopStep), nil)
				return
			}
			if e.stopped {
				q.r.Probe("stop.dispatch_after_stop_returned")
			} else if e.stopStep > 0 {
				q.r.Probe("stop.dispatch_while_stop_waits")
			}
		}
	}
	cl.nHSends = len(hSends)

	// 3. other frames seen by the handler
	for i := cl.nHOthers; i < len(hOthers); i++ {
		h := hOthers[i]
		e.handlerSeen++
		q.r.Logf("  c%d handler %v #%d", k, h.typ, i)
		if i < len(others) && (!cl.tainted || others[i].end <= cl.taintOff) {
			if string(h.enc) != string(others[i].enc) {
				q.fail("handler-frames-mismatch", "", fmt.Sprintf("c%d: frame #%d (%v) seen by the handler differs from the frame sent: got %s want %s", k, i, h.typ, short(h.enc), short(others[i].enc)), nil)
				return
			}
		} else if !cl.tainted {
			q.fail("handler-frames-mismatch", "", fmt.Sprintf("c%d: the handler saw %d non-SEND frames but the client sent only %d", k, i+1, len(others)), nil)
			return
		}
	}
	cl.nHOthers = len(hOthers)

	// 3b. a handler may keep a frame: whenever the server decoded more of the stream
	// (its buffers moved, the transport's read buffer was reused) every frame handed
	// over earlier must still read the same
	if (len(decodes) > 0 || e.final) && !e.heldFramesIntact(cl, hSends, hOthers) {
		return
	}

	// 4. frames written to the transport
	for i := cl.nWrites; i < len(writes); i++ {
		w := writes[i]
		buf := newExactBuf(w.data)
		f, used, err := q.codec.DecodeFrame(buf.data, cl.outVersion)
		if err != nil || f == nil || used != len(w.data) {
			q.fail("outbound-garbled", "", fmt.Sprintf("c%d: transport write #%d is not exactly one frame at version %d: %s (err=%v used=%d)", k, i, cl.outVersion, short(w.data), err, used), nil)
			return
		}
		switch pkt := f.(type) {
		case *frame.SendackPacket:
			j := cl.nAcks
			q.r.Logf("  c%d write SENDACK #%d seq=%d no=%s reason=%d", k, j, pkt.ClientSeq, pkt.ClientMsgNo, pkt.ReasonCode)
			if j >= len(hSends) {
				q.fail("sendack-mismatch", "ack-without-send", fmt.Sprintf("c%d: SENDACK #%d (seq %d) written but only %d SENDs were dispatched", k, j, pkt.ClientSeq, len(hSends)), nil)
				return
			}
			if uint64(uint32(hSends[j].seq)) != pkt.ClientSeq || hSends[j].msgNo != pkt.ClientMsgNo {
				q.fail("sendack-mismatch", "order", fmt.Sprintf("c%d: SENDACK #%d answers seq=%d no=%q but dispatched SEND #%d is seq=%d no=%q", k, j, pkt.ClientSeq, pkt.ClientMsgNo, j, hSends[j].seq, hSends[j].msgNo), nil)
				return
			}
			cl.nAcks++
			e.acksTotal++
		case *frame.PongPacket:
			cl.nPongs++
			q.r.Logf("  c%d write PONG", k)
		case *frame.RecvPacket:
			q.r.Logf("  c%d write RECV seq=%d", k, pkt.MessageSeq)
			if pkt.MessageSeq <= cl.lastPushSeq {
				q.fail("push-order", "", fmt.Sprintf("c%d: pushed frame %d written after %d", k, pkt.MessageSeq, cl.lastPushSeq), nil)
				return
			}
			cl.lastPushSeq = pkt.MessageSeq
		default:
			q.r.Logf("  c%d write %v", k, f.GetFrameType())
		}
	}
	cl.nWrites = len(writes)

	// 5. every successful write request went through to the transport at once
	for i := cl.nIssues; i < len(issues); i++ {
		is := issues[i]
		overlap := false
		for j, o := range issues {
			if j != i && o.start < is.end && is.start < o.end {
				overlap = true
			}
		}
		if overlap {
			q.r.Probe("concurrent_write_requests")
			continue
		}
		n := 0
		for _, w := range writes {
			if w.stamp > is.start && w.stamp < is.end {
				n++
			}
		}
		want := 0
		if is.ok {
			want = 1
		}
		if n != want {
			q.fail("write-not-through", "", fmt.Sprintf("c%d: write request %s %s returned ok=%v but %d transport writes happened during it", k, is.kind, is.ident, is.ok, n), nil)
			return
		}
	}
	cl.nIssues = len(issues)

	// 6. close
	if srvClosed && !cl.closed {
		cl.closed = true
		cl.closeStep = step
		cl.closeWhy = why
		q.r.Logf("  c%d closed reason=%q notified=%v", k, why, hClose > 0)
		if why != "" {
			q.r.Probe("close_" + why)
			if why == string(gatewaytypes.CloseReasonHandlerError) && q.cfg.HandlerMode == 2 && !q.cfg.RecvackFails && !cl.unsupportedSent &&
				q.r.Faults["handler_error_batch"]+q.r.Faults["usecase_result_missing"]+q.r.Faults["handler_error_frame"]+q.r.Faults["handler_error_open"]+q.r.Faults["handler_error_activate"] == 0 {
				// nothing failed in this session's own handling: it shared a SEND
				// micro-batch with a session whose SENDACK could not be written
				q.r.Probe("closed_because_batch_peer_write_failed")
			}
		} else {
			q.r.Probe("close_before_open_notification")
		}
		if why == string(gatewaytypes.CloseReasonProtocolError) && !cl.tainted {
			q.fail("clean-stream-rejected", "protocol-error-close", fmt.Sprintf("c%d: session closed with protocol_error although the client's stream was never corrupted", k), nil)
			return
		}
	}
	if hClose > cl.seenClose {
		cl.seenClose = hClose
		if cl.closeWhy == "" {
			cl.closeWhy = why
			if why == string(gatewaytypes.CloseReasonProtocolError) && !cl.tainted {
				q.fail("clean-stream-rejected", "protocol-error-close", fmt.Sprintf("c%d: session closed with protocol_error although the client's stream was never corrupted", k), nil)
				return
			}
		}
	}
	if cl.decodeErrStep > 0 && !cl.closed {
		q.fail("decode-error-not-closed", "", fmt.Sprintf("c%d: Decode reported an error at step %d but the connection is still open", k, cl.decodeErrStep), nil)
		return
	}
}

// ---- final phase -------------------------------------------------------------------------------

func (e *engine) settle(extra int) bool {
	q := e.q
	e.idles = 0
	s := &simkit.Scheduler{R: q.r, MaxSteps: q.r.Steps + extra, Collect: e.collect, Idle: e.idle,
		Done: func() bool { return q.tainted }}
	s.Run()
	e.observe()
	if q.r.Failed() || q.tainted {
		return false
	}
	return q.w.NumPending() == 0 && e.idles <= 400 && q.r.Steps < s.MaxSteps
}

func (e *engine) finalPhase() {
	q := e.q
	e.final = true
	q.r.Logf("final phase: faults stop")
	settled := e.settle(900)
	if q.r.Failed() || q.tainted {
		return
	}
	if !settled {
		if q.w.NumPending() == 0 && e.pendingWork() {
			e.reportUnanswered()
			return
		}
		q.r.Probe("final_phase_step_bound")
		return
	}
	if e.pendingWork() {
		e.reportUnanswered()
		return
	}
	if !e.finalChecks() {
		return
	}
	if !e.stopped && !e.stopping && q.cfg.FinalDrain {
		e.finalDrain()
	}
}

func (e *engine) reportUnanswered() {
	q := e.q
	if q.cfg.RealClient {
		for _, cl := range q.clients {
			if cl.rc != nil && !e.finalRC(cl) {
				return
			}
		}
		q.r.Probe("client.final_not_settled")
		return
	}
	if e.c41 {
		for _, cl := range q.clients {
			if cl.admitted > cl.nHSends {
				how := "no stop"
				if e.stopStep > 0 {
					how = fmt.Sprintf("Server.Stop began at step %d with a release budget of %v and returned=%v", e.stopStep, q.cfg.ReleaseTO, e.stopped)
				}
				q.fail("admitted-send-never-dispatched", "", fmt.Sprintf("c%d: %d SENDs were admitted but only %d reached the handler; every handler call was released, nothing is parked, and nothing moved for at least 0.4 s of simulated time (%s)", cl.k, cl.admitted, cl.nHSends, how),
					map[string]any{"admitted": cl.admitted, "dispatched": cl.nHSends, "stop_step": e.stopStep, "release_budget_ms": q.cfg.ReleaseTO.Milliseconds()})
				return
			}
		}
	}
	for _, cl := range q.clients {
		if cl.closed {
			continue
		}
		if cl.nHSends > cl.nAcks || cl.conn.busy.Load() {
			q.fail("send-unanswered", "", fmt.Sprintf("c%d: %d dispatched SENDs, %d SENDACKs, connection open, nothing parked at any seam, and no progress for 400 ms after faults stopped", cl.k, cl.nHSends, cl.nAcks), nil)
			return
		}
	}
	for _, cl := range q.clients {
		if !cl.closed {
			q.fail("send-unanswered", "not-dispatched", fmt.Sprintf("c%d: delivered SENDs were neither dispatched nor refused within the bound after faults stopped (dispatched %d)", cl.k, cl.nHSends), nil)
			return
		}
	}
	if e.drainActive > 0 {
		q.fail("drain-not-completing", "", "DrainSends did not return although no SEND work is in flight", nil)
	}
}

func (e *engine) finalChecks() bool {
	q := e.q
	for _, cl := range q.clients {
		if !cl.opened {
			continue
		}
		if cl.rc != nil && !e.finalRC(cl) {
			return false
		}
		sends := cl.sends()
		delivered := 0
		for _, s := range sends {
			if s.doneStep > 0 {
				delivered++
			}
		}
		q.r.Logf("final c%d closed=%v why=%q sent=%d delivered=%d dispatched=%d acks=%d pongs=%d", cl.k, cl.closed, cl.closeWhy, len(sends), delivered, cl.nHSends, cl.nAcks, cl.nPongs)
		q.r.ProbeN("sendacks_written", cl.nAcks)
		q.r.ProbeN("sends_dispatched", cl.nHSends)
		if e.c41 {
			q.r.ProbeN("sends_admitted", cl.admitted)
			if cl.admitted != cl.nHSends {
				q.fail("admitted-send-never-dispatched", "final", fmt.Sprintf("c%d: %d SENDs admitted, %d reached the handler", cl.k, cl.admitted, cl.nHSends), nil)
				return false
			}
			if e.stopStep > 0 && cl.admitted > 0 {
				q.r.Probe("stop.admitted_before_stop_all_dispatched")
			}
		}
		if cl.closed {
			continue
		}
		q.r.Probe("session_open_at_end")
		if cl.nAcks != cl.nHSends {
			q.fail("sendack-missing", "", fmt.Sprintf("c%d: session still open, %d SENDs dispatched but %d SENDACKs written", cl.k, cl.nHSends, cl.nAcks), map[string]any{"dispatched": cl.nHSends, "acks": cl.nAcks})
			return false
		}
		if !cl.tainted && cl.nHSends != delivered {
			q.fail("sendack-missing", "not-dispatched", fmt.Sprintf("c%d: session still open, %d SENDs fully delivered to the server but %d dispatched", cl.k, delivered, cl.nHSends), map[string]any{"delivered": delivered, "dispatched": cl.nHSends})
			return false
		}
		if !cl.tainted && len(cl.sock) == 0 {
			others := cl.others()
			if cl.nHOthers != len(others) {
				q.fail("handler-frames-mismatch", "missing", fmt.Sprintf("c%d: session still open, client sent %d non-SEND frames but the handler saw %d", cl.k, len(others), cl.nHOthers), nil)
				return false
			}
		}
		// the client-side streaming decode must yield the frames that were written
		if cl.rc == nil && !cl.recvBad && len(cl.rbuf) == 0 && cl.pendingOut() == 0 {
			c := cl.conn
			c.mu.Lock()
			var types []frame.FrameType
			for _, w := range c.writes {
				if f, _, err := q.codec.DecodeFrame(w.data, cl.outVersion); err == nil && f != nil {
					types = append(types, f.GetFrameType())
				}
			}
			c.mu.Unlock()
			if fmt.Sprint(types) != fmt.Sprint(cl.recvTypes) {
				q.fail("client-stream-mismatch", "", fmt.Sprintf("c%d: frames decoded by the client from the chunked stream %v differ from the frames written %v", cl.k, cl.recvTypes, types), nil)
				return false
			}
		}
	}
	return true
}

// finalDrain: with everything quiet DrainSends must complete, and a SEND that
// arrives afterwards must not be dispatched.
func (e *engine) finalDrain() {
	q := e.q
	if e.drainStep == 0 {
		q.r.Probe("final_drain_first")
	}
	e.doDrain(0)
	if !e.settle(200) && (q.r.Failed() || q.tainted) {
		return
	}
	if e.drainActive > 0 {
		q.fail("drain-not-completing", "", "DrainSends(background) did not return although every admitted SEND was answered", nil)
		return
	}
	for _, cl := range q.clients {
		if cl.closed || !cl.opened || cl.tainted || cl.closeSent || (cl.auth && !(cl.gotConnack && cl.connackOK)) {
			continue
		}
		f := genFrame(q.r.Tape, int(frame.SEND), cl.k, cl.reqVersion, cl.nextSeq, false)
		cl.nextSeq++
		enc, err := q.codec.EncodeFrame(f, cl.inVersion)
		if err != nil {
			return
		}
		s := f.(*frame.SendPacket)
		sf := &sentFrame{f: f, typ: frame.SEND, enc: enc, start: cl.streamLen, seq: s.ClientSeq, msgNo: s.ClientMsgNo}
		cl.sock = append(cl.sock, enc...)
		cl.streamLen += len(enc)
		sf.end = cl.streamLen
		cl.sent = append(cl.sent, sf)
		q.r.Logf("  late SEND c%d seq=%d after drain", cl.k, sf.seq)
		q.r.Probe("late_send_after_drain")
		break
	}
	e.settle(200)
}
