package gatesim

import (
	"errors"
	"fmt"
	"io"
	"strconv"
	"strings"
	"sync"
	"sync/atomic"

	"github.com/WuKongIM/WuKongIM/internal/verifsim/simkit"
	"github.com/WuKongIM/WuKongIM/pkg/gateway/protocol"
	wkadapter "github.com/WuKongIM/WuKongIM/pkg/gateway/protocol/wkproto"
	"github.com/WuKongIM/WuKongIM/pkg/gateway/session"
	"github.com/WuKongIM/WuKongIM/pkg/gateway/transport"
	gatewaytypes "github.com/WuKongIM/WuKongIM/pkg/gateway/types"
	codec "github.com/WuKongIM/WuKongIM/pkg/protocol/codec"
	"github.com/WuKongIM/WuKongIM/pkg/protocol/frame"
)

// decisions returned by World.Park at the seams of this engine
const (
	decOK     = 0
	decFail   = 1 // the parked call reports an error / rejects
	decReject = 2 // authenticator: CONNACK with a failure reason
	decClosed = -1
)

var (
	errSimHandler = errors.New("sim: injected handler failure")
	errSimAuth    = errors.New("sim: injected authenticator failure")
	errSimReset   = errors.New("sim: connection reset by peer")
	errConnClosed = errors.New("sim: use of closed connection")
)

const (
	guardLen  = 16
	guardByte = 0xA5
	poison    = 0xDD
)

// exactBuf returns a copy of p whose capacity equals its length and that sits
// between guard bytes of one backing array: any code that re-slices beyond len
// panics, and the guards are verified after use.
type exactBuf struct {
	whole []byte
	data  []byte
}

func newExactBuf(p []byte) exactBuf {
	whole := make([]byte, len(p)+2*guardLen)
	for i := range whole {
		whole[i] = guardByte
	}
	copy(whole[guardLen:], p)
	return exactBuf{whole: whole, data: whole[guardLen : guardLen+len(p) : guardLen+len(p)]}
}

func (b exactBuf) guardsIntact() bool {
	for i := 0; i < guardLen; i++ {
		if b.whole[i] != guardByte || b.whole[len(b.whole)-1-i] != guardByte {
			return false
		}
	}
	return true
}

// ---- transport ------------------------------------------------------------

type simFactory struct {
	w *gworld
}

func (f *simFactory) Name() string { return "sim" }

func (f *simFactory) Build(specs []transport.ListenerSpec) ([]transport.Listener, error) {
	out := make([]transport.Listener, 0, len(specs))
	for _, sp := range specs {
		l := &simListener{w: f.w, opts: sp.Options, handler: sp.Handler}
		f.w.listeners[sp.Options.Name] = l
		out = append(out, l)
	}
	return out, nil
}

type simListener struct {
	w       *gworld
	opts    transport.ListenerOptions
	handler transport.ConnHandler
	started atomic.Bool
	stopped atomic.Bool
}

func (l *simListener) Start() error { l.started.Store(true); return nil }
func (l *simListener) Stop() error  { l.stopped.Store(true); return nil }
func (l *simListener) Addr() string { return l.opts.Address }

const (
	evOpen = iota
	evData
	evClose
	evQuit
)

type connEvent struct {
	kind int
	buf  exactBuf
	err  error
}

type outWrite struct {
	data  []byte
	stamp uint64
}

type decodeRec struct {
	inLen    int
	consumed int
	err      string
	encs     [][]byte // every decoded frame re-encoded at decode time
	types    []frame.FrameType
	inputOK  bool // input bytes unchanged by Decode
}

type hSend struct {
	seq   uint64
	msgNo string
	enc   []byte // the frame re-encoded when the handler received it
	batch int
	ref   frame.Frame // the frame object itself, kept like a handler that retains it
	ver   uint8
}

type hOther struct {
	typ frame.FrameType
	enc []byte
	ref frame.Frame
	ver uint8
}

type issueRec struct {
	start, end uint64
	ok         bool
	kind       string // "sendack", "pong", "recv"
	ident      string
}

// simConn is the server-side transport connection of one client. The server
// sees Write/Close (never blocking, like the asynchronous gnet transport);
// inbound bytes are pushed by the per-connection reader goroutine, which is
// the equivalent of the transport's per-connection actor.
type simConn struct {
	w      *gworld
	k      int
	lst    *simListener
	events chan connEvent
	busy   atomic.Bool
	// firstFrame is true from the start of an OnData call until the first
	// frame of that call was observed (reader goroutine only).
	firstFrame bool
	gateN      int
	frameN     int

	mu         sync.Mutex
	srvClosed  bool
	maxOut     int
	outPending int
	writes     []outWrite
	overflowed int
	lateWrites int    // writes attempted after Close
	admits     []bool // outcome of every SEND admission of this connection, in order
	decodes    []decodeRec
	hSends     []hSend
	hOthers    []hOther
	hConnects  [][]byte
	hOpen      int
	hClose     int
	hCloseWhy  string
	hErrs      []string
	issues     []issueRec
	batchNo    int
	panics     []string
	badGuard   int
	sess       session.Session
	closeFn    func(gatewaytypes.CloseReason, error)
	readerDone bool
}

func (c *simConn) ID() uint64         { return uint64(c.k) }
func (c *simConn) LocalAddr() string  { return c.lst.opts.Address }
func (c *simConn) RemoteAddr() string { return "c" + strconv.Itoa(c.k) }
func connOfAddr(addr string) int      { n, _ := strconv.Atoi(strings.TrimPrefix(addr, "c")); return n }
func listenerName(k int) string       { return "l" + strconv.Itoa(k) }
func connOfListener(name string) int  { n, _ := strconv.Atoi(strings.TrimPrefix(name, "l")); return n }

func (c *simConn) Write(p []byte) error {
	c.mu.Lock()
	defer c.mu.Unlock()
	if c.srvClosed {
		c.lateWrites++
		return errConnClosed
	}
	if c.maxOut > 0 && c.outPending+len(p) > c.maxOut {
		c.overflowed++
		return transport.ErrOutboundBytesExceeded
	}
	st := c.w.stamp.Add(1)
	c.writes = append(c.writes, outWrite{data: append([]byte(nil), p...), stamp: st})
	c.outPending += len(p)
	return nil
}

func (c *simConn) Close() error {
	c.mu.Lock()
	c.srvClosed = true
	c.mu.Unlock()
	return nil
}

// reader is the per-connection actor: it handles one event at a time, exactly
// like the real transport serialises OnOpen/OnData/OnClose of one connection.
func (c *simConn) reader() {
	defer func() {
		c.mu.Lock()
		c.readerDone = true
		c.mu.Unlock()
		c.w.readers.Done()
	}()
	for ev := range c.events {
		if ev.kind == evQuit {
			c.busy.Store(false)
			return
		}
		c.handle(ev)
		c.busy.Store(false)
	}
}

func (c *simConn) handle(ev connEvent) {
	defer func() {
		if p := recover(); p != nil {
			c.mu.Lock()
			c.panics = append(c.panics, fmt.Sprint(p))
			c.mu.Unlock()
		}
	}()
	h := c.lst.handler
	switch ev.kind {
	case evOpen:
		_ = h.OnOpen(c)
	case evData:
		c.firstFrame = true
		_ = h.OnData(c, ev.buf.data)
		// the transport's read buffer is only valid during the call
		ok := ev.buf.guardsIntact()
		for i := range ev.buf.data {
			ev.buf.data[i] = poison
		}
		if !ok {
			c.mu.Lock()
			c.badGuard++
			c.mu.Unlock()
		}
	case evClose:
		h.OnClose(c, ev.err)
	}
}

// ---- protocol adapter tap ---------------------------------------------------

// tapAdapter forwards to the real wkproto adapter and records every Decode
// call (input length, consumed bytes, frames re-encoded at once, error).
type tapAdapter struct {
	w     *gworld
	inner *wkadapter.Adapter
	codec *codec.WKProto
}

var _ protocol.DecodedFrameOwner = (*tapAdapter)(nil)

func (a *tapAdapter) Name() string                    { return a.inner.Name() }
func (a *tapAdapter) OwnsDecodedFrames() bool         { return a.inner.OwnsDecodedFrames() }
func (a *tapAdapter) OnOpen(s session.Session) error  { return a.inner.OnOpen(s) }
func (a *tapAdapter) OnClose(s session.Session) error { return a.inner.OnClose(s) }
func (a *tapAdapter) Encode(s session.Session, f frame.Frame, m session.OutboundMeta) ([]byte, error) {
	return a.inner.Encode(s, f, m)
}

func sessionInVersion(s session.Session) uint8 {
	if s != nil {
		if v, ok := s.Value(gatewaytypes.SessionValueProtocolVersion).(uint8); ok && v != 0 {
			return v
		}
	}
	return frame.LatestVersion
}

func (a *tapAdapter) Decode(s session.Session, in []byte) ([]frame.Frame, int, error) {
	before := append([]byte(nil), in...)
	frames, consumed, err := a.inner.Decode(s, in)
	rec := decodeRec{inLen: len(in), consumed: consumed, inputOK: string(before) == string(in)}
	if err != nil {
		rec.err = "error"
	}
	v := sessionInVersion(s)
	for _, f := range frames {
		b, eerr := a.codec.EncodeFrame(f, v)
		if eerr != nil {
			b = []byte("unencodable:" + eerr.Error())
		}
		rec.encs = append(rec.encs, b)
		rec.types = append(rec.types, f.GetFrameType())
	}
	if s != nil {
		if c := a.w.conns[connOfAddr(s.RemoteAddr())]; c != nil {
			c.mu.Lock()
			c.decodes = append(c.decodes, rec)
			c.mu.Unlock()
		}
	}
	return frames, consumed, err
}

// ---- observer: the per-frame gate -----------------------------------------

// gateObserver parks the connection's reader before every decoded frame but
// the first of an OnData call, so that "reader dispatches frame i" and "send
// worker consumes the queue" are separate scheduler steps (this also makes the
// admission outcome independent of the Go scheduler).
type gateObserver struct{ w *gworld }

func (o *gateObserver) OnConnectionOpen(gatewaytypes.ConnectionEvent)  {}
func (o *gateObserver) OnConnectionClose(gatewaytypes.ConnectionEvent) {}
func (o *gateObserver) OnAuth(gatewaytypes.AuthEvent)                  {}
func (o *gateObserver) OnFrameOut(gatewaytypes.FrameEvent)             {}
func (o *gateObserver) OnFrameHandled(gatewaytypes.FrameHandleEvent)   {}
func (o *gateObserver) OnFrameIn(ev gatewaytypes.FrameEvent) {
	c := o.w.conns[connOfListener(ev.Listener)]
	if c == nil {
		return
	}
	c.frameN++
	if c.firstFrame {
		c.firstFrame = false
		o.w.curConn.Store(int32(c.k))
		return
	}
	c.gateN++
	o.w.w.Park(fmt.Sprintf("GATE c%d #%d %s", c.k, c.gateN, ev.FrameType), &parkInfo{kind: "gate", conn: c.k})
	o.w.curConn.Store(int32(c.k))
}

// OnAsyncSendAdmission records whether the SEND the reader just tried to
// enqueue was admitted. The event carries no connection; it is raised by the
// reader goroutine right after OnFrameIn for the same frame, and only one
// reader runs per scheduler step.
func (o *gateObserver) OnAsyncSendAdmission(ev gatewaytypes.AsyncSendAdmissionEvent) {
	c := o.w.conns[int(o.w.curConn.Load())]
	if c == nil {
		return
	}
	c.mu.Lock()
	c.admits = append(c.admits, ev.Result == "ok")
	c.mu.Unlock()
}

// ---- parked call descriptions ----------------------------------------------

type plan struct {
	reasons []frame.ReasonCode // sim handler: reason code per item
	errAt   int                // -1: none; else fail after this many items were answered
	perm    []int              // use-case stub: emission order
	itemErr []int              // use-case stub: 0 ok, 1.. error kinds
	skip    int                // use-case stub: index never emitted (-1 none)
	midPark int                // use-case stub: park again after this many emissions (-1 none)
}

type parkInfo struct {
	kind  string
	conn  int
	conns []int
	n     int
	plan  *plan
}

// ---- client ---------------------------------------------------------------

type sentFrame struct {
	f         frame.Frame
	typ       frame.FrameType
	enc       []byte // clean encoding
	start     int    // absolute stream offsets of the bytes actually put on the wire
	end       int
	corrupted bool
	doneStep  int // scheduler step that handed the frame's last byte to the server (0 = not yet)
	seq       uint64
	msgNo     string
}

type client struct {
	k          int
	conn       *simConn
	opened     bool
	auth       bool
	reqVersion uint8
	inVersion  uint8 // version the server decodes this client's frames with
	outVersion uint8 // version the server encodes frames to this client with
	eager      bool  // sends frames before CONNACK (protocol violation by the client)
	realFrames bool  // restrict frame mix to what the real access handler supports
	planLeft   int
	sent       []*sentFrame
	sock       []byte
	sockOff    int
	streamLen  int
	tainted    bool
	taintOff   int
	finPending bool
	closeSent  bool
	closeKind  string
	nextSeq    uint64
	stalled    bool
	stalls     int

	connectSent     bool
	connectSeen     bool
	gotConnack      bool
	connackOK       bool
	unsupportedSent bool

	readWrites int // number of conn.writes fully consumed
	readOff    int // bytes consumed of the next write
	rbuf       []byte
	recvTypes  []frame.FrameType
	recvBad    bool
	// oracle cursors
	nDecodes  int
	nHSends   int
	nHOthers  int
	nWrites   int
	nIssues   int
	nAcks     int
	nPongs    int
	decodeOff int // absolute stream offset consumed by the server's decoder
	seenOpen  int
	seenClose int
	closed    bool
	closeWhy  string
	closeStep int
	pushes    int
	nAdmits   int // admission outcomes observed
	admitted  int // SENDs admitted into the async queue

	decodeErrStep int
	lastPushSeq   uint64

	rc *realClient // C23client: the peer is a real pkg/client session
}

func (cl *client) sends() []*sentFrame {
	var out []*sentFrame
	for _, s := range cl.sent {
		if s.typ == frame.SEND {
			out = append(out, s)
		}
	}
	return out
}

func (cl *client) others() []*sentFrame {
	var out []*sentFrame
	for _, s := range cl.sent {
		if s.typ == frame.SEND || (cl.auth && s.typ == frame.CONNECT && s == cl.sent[0]) {
			continue
		}
		out = append(out, s)
	}
	return out
}

// boundaryAtOrBefore returns the largest clean frame boundary <= off.
func (cl *client) boundaryAtOrBefore(off int) int {
	b := 0
	for _, s := range cl.sent {
		if s.end <= off {
			b = s.end
		} else {
			break
		}
	}
	return b
}

func serverVersionFor(req uint8) uint8 {
	if req == 0 || req > frame.LatestVersion {
		return frame.LatestVersion
	}
	return req
}

// ---- world -------------------------------------------------------------------

type gworld struct {
	r         *simkit.Run
	w         *simkit.World
	cfg       cfg
	codec     *codec.WKProto
	listeners map[string]*simListener
	conns     map[int]*simConn
	clients   []*client
	readers   sync.WaitGroup
	stamp     atomic.Uint64
	curConn   atomic.Int32 // connection whose reader last passed OnFrameIn

	inflightSend atomic.Int64

	mu       sync.Mutex
	asyncRes []asyncResult

	tainted bool // a violation of the other property's class ended this run
}

type asyncResult struct {
	kind string // "drain", "stop"
	id   int
	err  error
}

func (q *gworld) post(res asyncResult) {
	q.mu.Lock()
	q.asyncRes = append(q.asyncRes, res)
	q.mu.Unlock()
}

var _ = io.EOF
