package machine

// machinesim: deterministic simulation of the pure channel state machine
// (property C06). The simulator plays the reactor, its worker pools and the
// network: it keeps a bag of outstanding effects (store-append / quorum-commit
// tasks emitted by ProposeAppend*), delivers any of them in any order, late,
// duplicated or with a stale fence, interleaved with metadata applies,
// follower acks, waiter cancellations, batch aborts, checkpoints and channel
// reloads. After every transition the C06 invariants are checked against the
// simulator's own bookkeeping.

import (
	"errors"
	"fmt"
	"reflect"
	"sort"
	"strings"
	"testing"
	"time"

	"github.com/WuKongIM/WuKongIM/internal/verifsim/simkit"
	ch "github.com/WuKongIM/WuKongIM/pkg/channel"
)

func TestVerifSim(t *testing.T) {
	simkit.Main(t, simkit.Engine{
		Name:  "machinesim",
		Props: map[string]simkit.PropFunc{"C06": runMachineSim},
		Real:  []string{"machine.ChannelState: ApplyMeta/ValidateMeta, ProposeAppend, ProposeAppendBatch, ApplyAppendStored, ApplyQuorumCommitted, ApplyFollowerAck, AdvanceHW, CancelAppendWaiter, AbortAppendBatchProposal, CheckInvariants"},
		Stub: []string{"reactor (simulator issues the calls the reactor issues, with the guards the reactor applies: follower ack offsets <= LEO, unique op ids, one proposal per flush)",
			"store-append / quorum-commit workers (bag of outstanding effects, any completion order, stale and duplicated results)",
			"control plane (tape-drawn metadata history incl. stale and malformed metadata)",
			"reactor-owned watermark writes (initial load, checkpoint completion, follower apply, reload) modelled with their documented bounds"},
		Rule: "One run = one ChannelState driven by 20-80 tape-chosen events. Non-trivial = at least one successful append reply AND " +
			"(at least one fault fired OR two effects were outstanding at once OR a metadata change happened while an effect was outstanding).",
		Assumptions: []string{"the reactor guarantees listed under Stub (checked by reading pkg/channel/reactor: applyLeaderPullAckOffset/applyLeaderProgressAck reject AckOffset > LEO, op ids come from one atomic counter)",
			"store results carry the contiguous range the store assigned (base = store LEO + 1), or an older already-durable range",
			"quorum receipts carry a fresh range at store LEO + 1 or, for a client retry of a command this leader incarnation already committed (same record ids, same generation/epoch/leader epoch/fence version), the retained receipt with the original range and HW, as replication/quorum_log.go Commit returns it"},
	})
}

type msWaiterState int

const (
	msQueued  msWaiterState = iota // accepted by the reactor, not (or no longer) proposed to the machine
	msPending                      // inside the machine (PendingAppends)
	msReplied                      // answered by a machine Reply
	msReactor                      // answered by the reactor (cancel, propose error, fence, reload)
)

type msWaiter struct {
	op      ch.OpID
	mode    ch.CommitMode // normalised
	raw     ch.CommitMode // as submitted (0 = default)
	ids     []uint64
	st      msWaiterState
	hasRng  bool
	first   uint64
	last    uint64
	why     string
	batchOp ch.OpID
	replay  *msRetained // client retry of this already committed command
}

// msRetained is a command the durable quorum log committed and acknowledged
// under one authority. replication/quorum_log.go Commit answers a retry of
// the same command (same record ids, same authority) with the retained
// receipt: the original range and HW, however far the log has grown since.
type msRetained struct {
	auth  string
	ids   []uint64
	first uint64
	last  uint64
}

type msEffect struct {
	replay    *msRetained
	quorum    bool
	fence     ch.Fence
	nrec      int
	waiters   []ch.OpID
	counts    []int
	executed  bool
	base      uint64
	last      uint64
	failed    bool
	delivered int
	seq       int
}

type msim struct {
	r        *simkit.Run
	s        *ChannelState
	key      ch.ChannelKey
	id       ch.ChannelID
	cur      ch.Meta
	haveMeta bool
	noFaults bool
	qlogMode int // 0 store results, 1 quorum receipts, 2 mixed

	storeLEO    uint64
	persistedHW uint64
	nextOp      uint64
	nextMsg     uint64
	effSeq      int
	bag         []*msEffect
	waiters     map[ch.OpID]*msWaiter
	order       []ch.OpID

	hwGen, hwEpoch, hwLE uint64
	hwLast               uint64
	hwValid              bool

	successes int
	overlap   bool

	// ledger is the simulator's own record of the highest offset each replica
	// acknowledged to this ChannelState instance (the reactor never resets it
	// across fences either); used to bound HW independently of AdvanceHW.
	ledger map[ch.NodeID]uint64

	// retained receipts of the simulated quorum log (bounded, per authority)
	retained []*msRetained
}

// authKey identifies one leader incarnation as the quorum log sees it: the
// log drops its retained receipts whenever the authority (channel epoch,
// leader term, fence version) changes; a reloaded runtime is a new incarnation.
func (m *msim) authKey() string {
	s := m.s
	return fmt.Sprintf("g%d/e%d/l%d/L%d/f%s.%d", s.Generation, s.Epoch, s.LeaderEpoch, s.Leader, s.WriteFence.Token, s.WriteFence.Version)
}

// hwQuorumBound is the MinISR-th highest match among the ISR according to the
// simulator's ledger (the local node counts with its LEO).
func (m *msim) hwQuorumBound() (uint64, bool) {
	s := m.s
	if s.MinISR <= 0 || len(s.ISR) < s.MinISR {
		return 0, false
	}
	ms := make([]uint64, 0, len(s.ISR))
	for _, n := range s.ISR {
		if n == s.LocalNode {
			ms = append(ms, s.LEO)
		} else {
			ms = append(ms, m.ledger[n])
		}
	}
	sort.Slice(ms, func(i, j int) bool { return ms[i] > ms[j] })
	return ms[s.MinISR-1], true
}

// checkHWAdvance: a watermark advance computed from acknowledgements must be
// covered by MinISR members of the ISR.
func (m *msim) checkHWAdvance(what string, oldHW uint64) {
	s := m.s
	if s.HW <= oldHW {
		return
	}
	bound, ok := m.hwQuorumBound()
	if !ok || s.HW > bound {
		m.r.FailSig("hw-above-isr-quorum", what, fmt.Sprintf("%s advanced HW %d -> %d but only offset %d is held by MinISR=%d of ISR %v (acks %v, LEO %d)",
			what, oldHW, s.HW, bound, s.MinISR, s.ISR, m.ledger, s.LEO), map[string]any{"hw": s.HW, "bound": bound})
		return
	}
	m.r.Probe("hw.advanced_by_acks")
}

func runMachineSim(t *testing.T, r *simkit.Run) {
	tp := r.Tape
	m := &msim{r: r, waiters: map[ch.OpID]*msWaiter{}}
	m.id = ch.ChannelID{ID: "c", Type: 2}
	m.key = ch.ChannelKeyForID(m.id)
	m.noFaults = tp.Intn(4) == 0
	m.qlogMode = tp.Weighted([]int{3, 2, 1})
	events := 20 + tp.Intn(61)
	r.Config["nofaults"] = m.noFaults
	r.Config["qlog_mode"] = m.qlogMode
	r.Config["events"] = events
	m.nextOp = 100
	m.nextMsg = 1000

	// initial load, as the reactor does it: watermarks from the store, then ApplyMeta.
	m.storeLEO = uint64(tp.Intn(6))
	m.persistedHW = uint64(tp.Intn(int(m.storeLEO) + 1))
	m.load(1)
	r.Logf("cfg nofaults=%v qlog=%d events=%d storeLEO=%d persistedHW=%d", m.noFaults, m.qlogMode, events, m.storeLEO, m.persistedHW)
	first := m.firstMeta()
	m.applyMeta(first, "initial", false, false)
	if r.Failed() {
		return
	}
	for i := 0; i < events && !r.Failed(); i++ {
		r.Steps++
		m.step()
		if len(m.bag) >= 2 {
			m.overlap = true
		}
		s := m.s
		r.State(s.Role, s.Status, s.LEO-s.HW, s.HW-s.CheckpointHW, s.InflightAppend != nil, len(s.PendingAppends), s.MinISR, len(s.ISR), len(m.bag))
	}
	total := 0
	for _, v := range r.Faults {
		total += v
	}
	r.Nontrivial = m.successes > 0 && (total > 0 || m.overlap)
}

// ---- cloning / comparing --------------------------------------------------

func msDeepCopy(v reflect.Value) reflect.Value {
	switch v.Kind() {
	case reflect.Ptr:
		if v.IsNil() {
			return v
		}
		n := reflect.New(v.Type().Elem())
		n.Elem().Set(msDeepCopy(v.Elem()))
		return n
	case reflect.Slice:
		if v.IsNil() {
			return v
		}
		n := reflect.MakeSlice(v.Type(), v.Len(), v.Len())
		for i := 0; i < v.Len(); i++ {
			n.Index(i).Set(msDeepCopy(v.Index(i)))
		}
		return n
	case reflect.Map:
		if v.IsNil() {
			return v
		}
		n := reflect.MakeMapWithSize(v.Type(), v.Len())
		it := v.MapRange()
		for it.Next() {
			n.SetMapIndex(it.Key(), msDeepCopy(it.Value()))
		}
		return n
	case reflect.Struct:
		n := reflect.New(v.Type()).Elem()
		n.Set(v) // copies unexported fields (time.Time) by value
		for i := 0; i < v.NumField(); i++ {
			if n.Field(i).CanSet() {
				n.Field(i).Set(msDeepCopy(v.Field(i)))
			}
		}
		return n
	default:
		return v
	}
}

func msClone(s *ChannelState) *ChannelState {
	return msDeepCopy(reflect.ValueOf(s)).Interface().(*ChannelState)
}

func (m *msim) summary() string {
	s := m.s
	infl := "-"
	if s.InflightAppend != nil {
		infl = fmt.Sprint(uint64(s.InflightAppend.OpID))
	}
	pend := make([]string, 0, len(s.PendingAppends))
	for op := range s.PendingAppends {
		pend = append(pend, fmt.Sprint(uint64(op)))
	}
	sort.Strings(pend)
	prog := make([]string, 0, len(s.Progress))
	for _, n := range simkit.SortedIntKeys(s.Progress) {
		prog = append(prog, fmt.Sprintf("%d:%d", n, s.Progress[n].Match))
	}
	return fmt.Sprintf("g%d e%d.%d L%d role=%d st=%d isr=%v min=%d ready=%v LEO=%d HW=%d CK=%d infl=%s pend=[%s] prog=[%s]",
		s.Generation, s.Epoch, s.LeaderEpoch, s.Leader, s.Role, s.Status, s.ISR, s.MinISR, s.CommitReady, s.LEO, s.HW, s.CheckpointHW, infl,
		strings.Join(pend, ","), strings.Join(prog, ","))
}

// ---- invariants after every transition ------------------------------------

func (m *msim) after(what string) {
	s := m.s
	m.r.Logf("  -> %s", m.summary())
	if s.CheckpointHW > s.HW || s.HW > s.LEO {
		m.r.FailSig("watermark-order", what, fmt.Sprintf("after %s: CheckpointHW=%d HW=%d LEO=%d", what, s.CheckpointHW, s.HW, s.LEO),
			map[string]any{"ck": s.CheckpointHW, "hw": s.HW, "leo": s.LEO})
		return
	}
	if err := s.CheckInvariants(); err != nil {
		m.r.FailSig("watermark-order", "CheckInvariants", fmt.Sprintf("after %s: CheckInvariants() = %v with consistent watermarks", what, err), nil)
		return
	}
	if m.hwValid && m.hwGen == s.Generation && m.hwEpoch == s.Epoch && m.hwLE == s.LeaderEpoch {
		if s.HW < m.hwLast {
			m.r.FailSig("hw-regressed", what, fmt.Sprintf("after %s: HW %d -> %d within fence (gen %d, epoch %d, leader epoch %d)", what, m.hwLast, s.HW, s.Generation, s.Epoch, s.LeaderEpoch), nil)
			return
		}
	}
	m.hwValid, m.hwGen, m.hwEpoch, m.hwLE, m.hwLast = true, s.Generation, s.Epoch, s.LeaderEpoch, s.HW
}

func (m *msim) sameState(before *ChannelState, class, what string) bool {
	if reflect.DeepEqual(before, m.s) {
		return true
	}
	m.r.FailSig(class, what, fmt.Sprintf("%s changed the state: before {%s} after {%s}", what, msSummaryOf(before), m.summary()), nil)
	return false
}

func msSummaryOf(s *ChannelState) string {
	infl := "-"
	if s.InflightAppend != nil {
		infl = fmt.Sprint(uint64(s.InflightAppend.OpID))
	}
	return fmt.Sprintf("g%d e%d.%d L%d role=%d st=%d LEO=%d HW=%d CK=%d infl=%s pend=%d order=%v prog=%v", s.Generation, s.Epoch, s.LeaderEpoch, s.Leader, s.Role, s.Status,
		s.LEO, s.HW, s.CheckpointHW, infl, len(s.PendingAppends), s.PendingAppendOrder, s.Progress)
}

// replies checks every reply of one decision against the waiter ledger.
func (m *msim) replies(what string, d Decision) {
	for _, rp := range d.Replies {
		w := m.waiters[rp.OpID]
		errs := "ok"
		if rp.Err != nil {
			errs = rp.Err.Error()
		}
		m.r.Logf("  reply op=%d %s items=%d", uint64(rp.OpID), errs, len(rp.AppendItems))
		if w == nil {
			m.r.FailSig("reply-unknown-op", what, fmt.Sprintf("%s replied to op %d which was never proposed", what, uint64(rp.OpID)), nil)
			return
		}
		switch w.st {
		case msReplied:
			m.r.FailSig("reply-twice", what, fmt.Sprintf("%s replied to op %d a second time", what, uint64(rp.OpID)), nil)
			return
		case msReactor:
			m.r.FailSig("reply-after-answer", w.why, fmt.Sprintf("%s replied to op %d which the reactor had already answered (%s)", what, uint64(rp.OpID), w.why), nil)
			return
		case msQueued:
			m.r.FailSig("reply-not-pending", what, fmt.Sprintf("%s replied to op %d which is not inside the machine (aborted proposal)", what, uint64(rp.OpID)), nil)
			return
		}
		w.st = msReplied
		if rp.Err != nil {
			continue
		}
		m.successes++
		if len(rp.AppendItems) == 0 {
			m.r.FailSig("reply-shape", "empty", fmt.Sprintf("%s: success reply for op %d without items", what, uint64(rp.OpID)), nil)
			return
		}
		lastSeq := rp.AppendItems[len(rp.AppendItems)-1].MessageSeq
		if !w.hasRng {
			m.r.FailSig("reply-before-stored", what, fmt.Sprintf("%s: success reply for op %d before any durable result assigned its sequences", what, uint64(rp.OpID)), nil)
			return
		}
		if len(rp.AppendItems) != len(w.ids) || rp.AppendItems[0].MessageSeq != w.first || lastSeq != w.last {
			m.r.FailSig("reply-shape", "range", fmt.Sprintf("%s: op %d answered with %d items seq %d..%d, durable range was %d..%d (%d records)", what, uint64(rp.OpID),
				len(rp.AppendItems), rp.AppendItems[0].MessageSeq, lastSeq, w.first, w.last, len(w.ids)), nil)
			return
		}
		for i, it := range rp.AppendItems {
			if it.MessageID != w.ids[i] || it.MessageSeq != w.first+uint64(i) {
				m.r.FailSig("reply-shape", "alignment", fmt.Sprintf("%s: op %d item %d is (id %d, seq %d), want (id %d, seq %d)", what, uint64(rp.OpID), i, it.MessageID, it.MessageSeq, w.ids[i], w.first+uint64(i)), nil)
				return
			}
		}
		if w.mode == ch.CommitModeQuorum && m.s.HW < w.last {
			m.r.FailSig("quorum-reply-above-hw", what, fmt.Sprintf("%s: quorum-mode op %d answered successfully with last seq %d while HW=%d", what, uint64(rp.OpID), w.last, m.s.HW),
				map[string]any{"hw": m.s.HW, "last": w.last})
			return
		}
		if m.s.LEO < w.last {
			m.r.FailSig("reply-above-leo", what, fmt.Sprintf("%s: op %d answered with last seq %d while LEO=%d", what, uint64(rp.OpID), w.last, m.s.LEO), nil)
			return
		}
	}
}

// ---- reactor-owned pieces --------------------------------------------------

func (m *msim) load(gen uint64) {
	s := NewChannelState(m.key, 1, gen)
	s.LEO = m.storeLEO
	s.HW = m.persistedHW
	s.CheckpointHW = m.persistedHW
	m.s = s
	m.hwValid = false
	m.ledger = map[ch.NodeID]uint64{}
}

func (m *msim) firstMeta() ch.Meta {
	tp := m.r.Tape
	meta := ch.Meta{Key: m.key, ID: m.id, Epoch: 1 + uint64(tp.Intn(3)), LeaderEpoch: 1 + uint64(tp.Intn(3)), Status: ch.StatusActive,
		LeaseUntil: time.Unix(1_000_000, 0)}
	m.drawMembership(&meta)
	if tp.Intn(4) == 3 {
		meta.Leader = meta.Replicas[tp.Intn(len(meta.Replicas))]
	} else {
		meta.Leader = 1
	}
	return meta
}

func (m *msim) drawMembership(meta *ch.Meta) {
	tp := m.r.Tape
	n := 1 + tp.Weighted([]int{1, 1, 4, 1, 1}) // 1..5 replicas, 3 most likely
	meta.Replicas = nil
	for i := 1; i <= n; i++ {
		meta.Replicas = append(meta.Replicas, ch.NodeID(i))
	}
	k := n - tp.Weighted([]int{4, 1, 1})
	if k < 1 {
		k = 1
	}
	meta.ISR = append([]ch.NodeID(nil), meta.Replicas[:k]...)
	if tp.Intn(5) == 4 && k > 1 { // ISR not containing the local node
		meta.ISR = append([]ch.NodeID(nil), meta.Replicas[1:k]...)
	}
	meta.MinISR = 1 + tp.Intn(len(meta.ISR))
}

func msCloneMeta(in ch.Meta) ch.Meta {
	out := in
	out.Replicas = append([]ch.NodeID(nil), in.Replicas...)
	out.ISR = append([]ch.NodeID(nil), in.ISR...)
	return out
}

// failAllByReactor is what the reactor does before an accepted fencing
// metadata change or a reload: every accepted append future is completed.
func (m *msim) failAllByReactor(why string) {
	for _, op := range m.order {
		w := m.waiters[op]
		if w.st == msQueued || w.st == msPending {
			w.st = msReactor
			w.why = why
		}
	}
}

func (m *msim) wouldFence(meta ch.Meta) bool {
	s := m.s
	role := ch.RoleFollower
	if meta.Leader == s.LocalNode {
		role = ch.RoleLeader
	}
	return s.Epoch != meta.Epoch || s.LeaderEpoch != meta.LeaderEpoch || s.Leader != meta.Leader || s.Role != role || s.Status != meta.Status
}

func (m *msim) applyMeta(meta ch.Meta, kind string, mustStale, mustReject bool) {
	r := m.r
	r.Logf("meta[%s] e%d.%d L%d repl=%v isr=%v min=%d st=%d ret=%d id=%s key=%s", kind, meta.Epoch, meta.LeaderEpoch, meta.Leader, meta.Replicas, meta.ISR, meta.MinISR, meta.Status,
		meta.RetentionThroughSeq, meta.ID.ID, meta.Key)
	before := msClone(m.s)
	if len(m.bag) > 0 {
		m.overlap = true
	}
	// the reactor validates first, clears fenced work (AbortAppendBatchProposal
	// for the in-flight proposal) and then applies.
	verr := m.s.ValidateMeta(meta)
	if !m.sameState(before, "validate-meta-mutated", "ValidateMeta["+kind+"]") {
		return
	}
	fenced := false
	if verr == nil && m.haveMeta && m.wouldFence(meta) {
		fenced = true
		if m.s.InflightAppend != nil {
			m.s.AbortAppendBatchProposal(m.s.InflightAppend.OpID)
		}
		before = msClone(m.s)
	}
	d := m.s.ApplyMeta(meta)
	if (d.Err == nil) != (verr == nil) {
		r.FailSig("meta-validate-disagrees", kind, fmt.Sprintf("ValidateMeta=%v but ApplyMeta=%v", verr, d.Err), nil)
		return
	}
	if d.Err != nil {
		r.Logf("  rejected: %v", d.Err)
		if !m.sameState(before, "rejected-meta-mutated", "ApplyMeta["+kind+"] (rejected with "+d.Err.Error()+")") {
			return
		}
		if mustStale && !errors.Is(d.Err, ch.ErrStaleMeta) {
			r.FailSig("stale-meta-wrong-error", kind, fmt.Sprintf("stale metadata (%s) rejected with %v, want ErrStaleMeta", kind, d.Err), nil)
			return
		}
		m.after("ApplyMeta[" + kind + "] rejected")
		return
	}
	if mustStale || mustReject {
		cls := "stale-meta-accepted"
		if !mustStale {
			cls = "invalid-meta-accepted"
		}
		r.FailSig(cls, kind, fmt.Sprintf("metadata %s (e%d.%d leader %d) was accepted over e%d.%d leader %d", kind, meta.Epoch, meta.LeaderEpoch, meta.Leader,
			before.Epoch, before.LeaderEpoch, before.Leader), nil)
		return
	}
	if len(d.Replies) > 0 {
		m.replies("ApplyMeta", d)
	}
	if fenced {
		m.failAllByReactor("fence:" + kind)
		r.Probe("meta.fenced")
	}
	// a machine-side clear without reactor-side fencing would strand waiters;
	// mirror whatever the machine kept.
	for _, op := range m.order {
		w := m.waiters[op]
		if w.st == msPending {
			if _, ok := m.s.PendingAppends[op]; !ok {
				w.st = msReactor
				w.why = "cleared-by-meta"
			}
		}
	}
	m.cur = msCloneMeta(meta)
	m.haveMeta = true
	r.Probe("meta.accepted." + kind)
	m.after("ApplyMeta[" + kind + "]")
}

// ---- events ----------------------------------------------------------------

func (m *msim) step() {
	tp := m.r.Tape
	type ev struct {
		name string
		w    int
		do   func()
	}
	evs := []ev{}
	if len(m.bag) > 0 {
		evs = append(evs, ev{"deliver", 8, m.evDeliver})
	}
	pw, aw := 7, 5
	if m.s.InflightAppend != nil {
		pw = 1 // the reactor flushes one proposal at a time; proposing over an in-flight one is the rare case
	} else if len(m.s.PendingAppends) > 0 {
		aw = 12
	}
	if m.s.Role != ch.RoleLeader {
		pw, aw = 2, 1
	}
	evs = append(evs, ev{"propose", pw, m.evPropose})
	evs = append(evs, ev{"ack", aw, m.evAck})
	evs = append(evs, ev{"meta", 3, m.evMeta})
	evs = append(evs, ev{"checkpoint", 2, m.evCheckpoint})
	if !m.noFaults {
		evs = append(evs, ev{"cancel", 2, m.evCancel})
		evs = append(evs, ev{"followerApply", 1, m.evFollowerApply})
		evs = append(evs, ev{"reload", 1, m.evReload})
		evs = append(evs, ev{"abortStray", 1, m.evAbortStray})
	}
	ws := make([]int, len(evs))
	for i, e := range evs {
		ws[i] = e.w
	}
	i := tp.Weighted(ws)
	m.r.Logf("s%d %s", m.r.Steps, evs[i].name)
	evs[i].do()
}

func (m *msim) newWaiter(mode ch.CommitMode, nrec int) *msWaiter {
	m.nextOp++
	w := &msWaiter{op: ch.OpID(m.nextOp), mode: mode, raw: mode, st: msQueued}
	if w.mode == 0 {
		w.mode = ch.CommitModeQuorum
	}
	for i := 0; i < nrec; i++ {
		m.nextMsg++
		w.ids = append(w.ids, m.nextMsg)
	}
	m.waiters[w.op] = w
	m.order = append(m.order, w.op)
	return w
}

func (m *msim) recordsFor(w *msWaiter) []ch.Record {
	recs := make([]ch.Record, len(w.ids))
	for i, id := range w.ids {
		recs[i] = ch.Record{ID: id, FromUID: "u", ClientMsgNo: fmt.Sprint(id), Payload: []byte{byte(id), byte(id >> 8)}, SizeBytes: 2, SyncOnce: id%7 == 0}
	}
	return recs
}

func (m *msim) evPropose() {
	tp := m.r.Tape
	r := m.r
	// candidates restored to the queue by an aborted proposal come first, as in appendQ.restoreFront
	var batch []*msWaiter
	for _, op := range m.order {
		if w := m.waiters[op]; w.st == msQueued {
			batch = append(batch, w)
		}
	}
	if len(batch) > 4 {
		batch = batch[:4]
	}
	single := false
	if m.qlogMode == 1 || (m.qlogMode == 2 && tp.Intn(2) == 1) {
		single = true // durable-quorum path proposes one caller request per flush
	}
	want := 1 + tp.Weighted([]int{4, 2, 1, 1})
	if single {
		want = 1
	}
	// A client may re-send message ids that were already committed (timeout
	// retry). On the durable-quorum path the command id is derived from the
	// record ids, so the log answers with the retained receipt of the original
	// commit - a range at or below the current HW - as long as the authority
	// is the one that committed it.
	var retry *msRetained
	if single && len(batch) == 0 && !m.noFaults {
		var cands []*msRetained
		for _, rt := range m.retained {
			if rt.auth == m.authKey() {
				cands = append(cands, rt)
			}
		}
		if len(cands) > 0 && tp.Chance(1, 3) {
			retry = cands[tp.PickOldestBiased(len(cands))] // the oldest one is the furthest below the current HW
		}
	}
	for len(batch) < want {
		mode := ch.CommitMode(tp.Weighted([]int{2, 3, 2})) // 0 (defaults to quorum), quorum, local
		if retry != nil && len(batch) == 0 {
			w := m.newWaiter(mode, 0)
			w.ids = append([]uint64(nil), retry.ids...)
			w.replay = retry
			batch = append(batch, w)
			r.Fault("client.retry_of_committed_command")
			continue
		}
		batch = append(batch, m.newWaiter(mode, 1+tp.Weighted([]int{4, 2, 1})))
	}
	if len(batch) > want {
		batch = batch[:want]
	}
	fault := 0
	if !m.noFaults {
		fault = tp.Weighted([]int{24, 1, 1, 1}) // none, empty waiter, duplicate op in batch, op already pending
	}
	m.nextOp++
	batchOp := ch.OpID(1<<63 + m.nextOp)
	useSingleAPI := len(batch) == 1 && fault == 0 && tp.Intn(3) == 0
	cmd := AppendBatchCommand{BatchOpID: batchOp}
	for _, w := range batch {
		cmd.Waiters = append(cmd.Waiters, AppendBatchWaiter{OpID: w.op, CommitMode: w.raw, OmitResultPayload: uint64(w.op)%3 == 0,
			Records: m.recordsFor(w), ServerAllocatedMessageIDs: uint64(w.op)%2 == 0})
	}
	var collide ch.OpID
	switch fault {
	case 1:
		cmd.Waiters[len(cmd.Waiters)-1].Records = nil
		r.Fault("propose.empty_waiter")
	case 2:
		cmd.Waiters = append(cmd.Waiters, cmd.Waiters[0])
		r.Fault("propose.duplicate_op_in_batch")
	case 3:
		for _, op := range m.order {
			if m.waiters[op].st == msPending {
				collide = op
				break
			}
		}
		if collide != 0 {
			cmd.Waiters = append(cmd.Waiters, AppendBatchWaiter{OpID: collide, CommitMode: ch.CommitModeLocal, Records: []ch.Record{{ID: 1, Payload: []byte{1}, SizeBytes: 1}}})
			r.Fault("propose.op_already_pending")
		}
	}
	ops := make([]string, len(cmd.Waiters))
	for i, w := range cmd.Waiters {
		ops[i] = fmt.Sprintf("%d/m%d/n%d", uint64(w.OpID), w.CommitMode, len(w.Records))
	}
	var d Decision
	if useSingleAPI {
		w := batch[0]
		batchOp = w.op
		r.Logf("  ProposeAppend op=%d mode=%d n=%d", uint64(w.op), w.mode, len(w.ids))
		d = m.s.ProposeAppend(AppendCommand{OpID: w.op, CommitMode: cmd.Waiters[0].CommitMode, Records: cmd.Waiters[0].Records})
	} else {
		r.Logf("  ProposeAppendBatch batch=%d waiters=%v", uint64(batchOp)&0xffffff, ops)
		d = m.s.ProposeAppendBatch(cmd)
	}
	if len(d.Replies) > 0 {
		m.replies("ProposeAppendBatch", d)
		if r.Failed() {
			return
		}
	}
	if d.Err != nil {
		r.Logf("  propose error: %v", d.Err)
		r.Probe("propose.err." + d.Err.Error())
		for _, w := range batch { // reactor: failAppendBatch
			w.st = msReactor
			w.why = "propose-error"
		}
		m.after("ProposeAppendBatch(err)")
		return
	}
	if fault != 0 && !(fault == 3 && collide == 0) {
		r.FailSig("malformed-proposal-accepted", fmt.Sprint(fault), fmt.Sprintf("malformed proposal (kind %d) was accepted", fault), nil)
		return
	}
	if len(d.Tasks) != 1 || d.Tasks[0].Kind != TaskKindStoreAppend || d.Tasks[0].StoreAppend == nil {
		r.FailSig("propose-shape", "tasks", fmt.Sprintf("accepted proposal produced %d tasks", len(d.Tasks)), nil)
		return
	}
	task := d.Tasks[0]
	nrec := 0
	e := &msEffect{fence: task.Fence, quorum: single}
	for _, w := range batch {
		w.st = msPending
		w.hasRng = false
		w.batchOp = batchOp
		e.waiters = append(e.waiters, w.op)
		e.counts = append(e.counts, len(w.ids))
		nrec += len(w.ids)
	}
	e.nrec = nrec
	if single && len(batch) == 1 && batch[0].replay != nil && batch[0].replay.auth == m.authKey() && len(batch[0].replay.ids) == nrec {
		e.replay = batch[0].replay // the log will find the command among its retained receipts
	}
	if len(task.StoreAppend.Records) != nrec {
		r.FailSig("propose-shape", "records", fmt.Sprintf("task carries %d records, waiters contributed %d", len(task.StoreAppend.Records), nrec), nil)
		return
	}
	want2 := ch.Fence{ChannelKey: m.s.Key, Generation: m.s.Generation, Epoch: m.s.Epoch, LeaderEpoch: m.s.LeaderEpoch, OpID: batchOp}
	if task.Fence != want2 {
		r.FailSig("propose-shape", "fence", fmt.Sprintf("task fence %+v, want %+v", task.Fence, want2), nil)
		return
	}
	r.Probe("propose.accepted")
	// submit failure (pool backpressure): the reactor aborts the proposal and restores the requests
	if !m.noFaults && tp.Chance(1, 8) {
		m.s.AbortAppendBatchProposal(batchOp)
		for _, w := range batch {
			w.st = msQueued
		}
		r.Fault("submit.backpressure_abort")
		r.Logf("  submit failed: AbortAppendBatchProposal, %d waiters restored", len(batch))
		m.after("AbortAppendBatchProposal(submit)")
		return
	}
	m.effSeq++
	e.seq = m.effSeq
	m.bag = append(m.bag, e)
	m.after("ProposeAppendBatch")
}

func (m *msim) execute(e *msEffect, alreadyDurable bool) {
	if e.executed {
		return
	}
	e.executed = true
	if e.replay != nil {
		e.base, e.last = e.replay.first, e.replay.last // retained receipt: exact original range, HW = last
		return
	}
	if alreadyDurable && m.storeLEO >= uint64(e.nrec) {
		e.base = m.storeLEO - uint64(e.nrec) + 1
		e.last = m.storeLEO
		return
	}
	e.base = m.storeLEO + 1
	e.last = m.storeLEO + uint64(e.nrec)
	m.storeLEO = e.last
}

func (m *msim) expectMatch(f ch.Fence) bool {
	s := m.s
	return f.ChannelKey == s.Key && f.Generation == s.Generation && f.Epoch == s.Epoch && f.LeaderEpoch == s.LeaderEpoch &&
		s.InflightAppend != nil && s.InflightAppend.OpID == f.OpID
}

func (m *msim) evDeliver() {
	tp := m.r.Tape
	r := m.r
	idx := tp.PickOldestBiased(len(m.bag))
	if m.noFaults {
		idx = 0
	}
	e := m.bag[idx]
	if idx != 0 {
		r.Fault("deliver.out_of_order")
	}
	// variant: 0 ok, 1 error, 2 stale generation, 3 stale epoch, 4 stale leader epoch, 5 other op id, 6 other key,
	// 7 malformed range (quorum) / already-durable replay (store)
	variant := 0
	if !m.noFaults {
		variant = tp.Weighted([]int{12, 2, 1, 1, 1, 1, 1, 2})
	}
	keep := !m.noFaults && tp.Chance(1, 6) // duplicated completion: the effect stays in the bag
	fence := e.fence
	var resErr error
	label := "ok"
	switch variant {
	case 1:
		resErr = errors.New("simulated store failure")
		label = "error"
		r.Fault("result.error")
	case 2:
		if tp.Intn(2) == 0 && fence.Generation > 0 {
			fence.Generation--
		} else {
			fence.Generation++
		}
		label = "stale-generation"
		r.Fault("result.stale_generation")
	case 3:
		fence.Epoch += uint64(tp.Intn(2))*2 - 1 // -1 or +1
		label = "stale-epoch"
		r.Fault("result.stale_epoch")
	case 4:
		fence.LeaderEpoch += uint64(tp.Intn(2))*2 - 1
		label = "stale-leader-epoch"
		r.Fault("result.stale_leader_epoch")
	case 5:
		fence.OpID++
		label = "stale-op"
		r.Fault("result.stale_op")
	case 6:
		fence.ChannelKey = "9:other"
		label = "stale-key"
		r.Fault("result.stale_key")
	}
	if variant >= 2 && variant <= 6 && m.expectMatch(fence) {
		// The perturbed fence must really be stale. A duplicated completion of
		// the previous batch whose op id is bumped by one can collide with the op
		// id of the batch now in flight; no worker can produce that, so move the
		// forged id out of the way instead of handing the machine a result that
		// carries the current fence with another batch's range.
		fence.OpID ^= 1 << 40
	}
	if variant != 1 {
		m.execute(e, variant == 7 && !e.quorum)
	}
	if variant == 7 && !e.quorum {
		label = "already-durable"
		r.Fault("result.already_durable_range")
	}
	e.delivered++
	if e.delivered > 1 {
		r.Fault("result.duplicate_delivery")
	}
	if !keep {
		m.bag = append(m.bag[:idx], m.bag[idx+1:]...)
	}
	match := m.expectMatch(fence)
	if fence == e.fence && !match {
		r.Probe("result.late_after_fence_or_abort")
	}
	before := msClone(m.s)
	var d Decision
	what := ""
	malformed := false
	if e.quorum {
		res := QuorumCommittedResult{Fence: fence, First: e.base, Last: e.last, HW: e.last, Err: resErr}
		if variant == 7 {
			malformed = true
			label = "malformed-range"
			r.Fault("result.malformed_range")
			switch tp.Intn(5) {
			case 0:
				res.First = 0
			case 1:
				res.Last = res.First - 1
			case 2:
				res.Last++
			case 3:
				res.HW = res.Last + 1
			case 4:
				res.HW = res.Last - 1
			}
		}
		what = "ApplyQuorumCommitted[" + label + "]"
		r.Logf("  %s batch=%d fence=g%d e%d.%d first=%d last=%d hw=%d err=%v match=%v keep=%v", what, uint64(fence.OpID)&0xffffff, fence.Generation, fence.Epoch, fence.LeaderEpoch,
			res.First, res.Last, res.HW, res.Err, match, keep)
		d = m.s.ApplyQuorumCommitted(res)
	} else {
		res := AppendStoredResult{Fence: fence, BaseOffset: e.base, LastOffset: e.last, Err: resErr}
		what = "ApplyAppendStored[" + label + "]"
		r.Logf("  %s batch=%d fence=g%d e%d.%d base=%d last=%d err=%v match=%v keep=%v", what, uint64(fence.OpID)&0xffffff, fence.Generation, fence.Epoch, fence.LeaderEpoch,
			res.BaseOffset, res.LastOffset, res.Err, match, keep)
		d = m.s.ApplyAppendStored(res)
		if match {
			m.checkHWAdvance(what, before.HW)
			if r.Failed() {
				return
			}
		}
	}
	if !match {
		if len(d.Replies) > 0 || len(d.Tasks) > 0 || d.Err != nil {
			r.FailSig("stale-result-had-effect", label, fmt.Sprintf("%s with a stale fence produced replies=%d tasks=%d err=%v", what, len(d.Replies), len(d.Tasks), d.Err), nil)
			return
		}
		if !m.sameState(before, "stale-result-mutated", what) {
			return
		}
		r.Probe("result.stale_ignored")
		m.after(what)
		return
	}
	// matching fence: record the durable range of each waiter before looking at the replies
	if resErr == nil && !malformed {
		next := e.base
		for i, op := range e.waiters {
			w := m.waiters[op]
			w.hasRng = true
			w.first = next
			w.last = next + uint64(e.counts[i]) - 1
			next += uint64(e.counts[i])
		}
		r.Probe("result.applied")
		if e.quorum && e.replay != nil {
			r.Probe("result.retained_receipt_replayed")
			if e.last < before.HW {
				r.Probe("result.retained_receipt_below_hw")
			}
		} else if e.quorum && len(e.waiters) == 1 {
			// the log retains the receipt of every command it committed under this authority
			w := m.waiters[e.waiters[0]]
			m.retained = append(m.retained, &msRetained{auth: m.authKey(), ids: append([]uint64(nil), w.ids...), first: e.base, last: e.last})
			if len(m.retained) > 8 {
				m.retained = m.retained[1:]
			}
		}
	} else {
		r.Probe("result.failed_inflight")
	}
	m.replies(what, d)
	if r.Failed() {
		return
	}
	if resErr != nil || malformed {
		for _, rp := range d.Replies {
			if rp.Err == nil {
				r.FailSig("failed-result-success-reply", label, fmt.Sprintf("%s produced a success reply for op %d", what, uint64(rp.OpID)), nil)
				return
			}
		}
	}
	if m.s.InflightAppend != nil {
		r.FailSig("inflight-not-cleared", label, fmt.Sprintf("%s with the matching fence left the proposal in flight", what), nil)
		return
	}
	m.after(what)
}

func (m *msim) evAck() {
	tp := m.r.Tape
	r := m.r
	s := m.s
	// the reactor only forwards acks while leader; a small share is fed in any role
	if s.Role != ch.RoleLeader && (m.noFaults || tp.Intn(4) != 0) {
		r.Logf("  ack skipped (not leader)")
		return
	}
	pool := []ch.NodeID{2, 3, 1, 4, 5, 9}
	var follower ch.NodeID
	if m.noFaults {
		if len(s.Replicas) == 0 {
			r.Logf("  ack skipped (no replicas)")
			return
		}
		follower = s.Replicas[tp.Intn(len(s.Replicas))]
	} else {
		follower = pool[tp.Weighted([]int{6, 6, 1, 2, 2, 1})]
	}
	var off uint64
	if tp.Intn(2) == 0 {
		off = s.LEO // benign: caught up
	} else {
		off = uint64(tp.Intn(int(s.LEO) + 1))
	}
	if m.noFaults && off < s.Progress[follower].Match {
		off = s.Progress[follower].Match
	}
	if !s.IsReplica(follower) {
		r.Fault("ack.non_replica")
	}
	if off < s.Progress[follower].Match {
		r.Fault("ack.regressing_offset")
	}
	hadPending := len(s.PendingAppends)
	r.Logf("  ApplyFollowerAck follower=%d match=%d", follower, off)
	oldHW := s.HW
	if s.Role == ch.RoleLeader && s.IsReplica(follower) && off > m.ledger[follower] {
		m.ledger[follower] = off
	}
	d := s.ApplyFollowerAck(FollowerAck{Follower: follower, MatchOffset: off})
	m.checkHWAdvance("ApplyFollowerAck", oldHW)
	if r.Failed() {
		return
	}
	m.replies("ApplyFollowerAck", d)
	if r.Failed() {
		return
	}
	if len(d.Replies) > 0 {
		r.Probe("ack.completed_waiters")
	}
	if hadPending > 0 && s.InflightAppend == nil && len(s.PendingAppends) > 0 {
		r.Probe("ack.waiters_still_pending")
	}
	m.after("ApplyFollowerAck")
}

func (m *msim) evMeta() {
	tp := m.r.Tape
	cur := m.cur
	meta := msCloneMeta(cur)
	kind := 0
	if m.noFaults {
		kind = tp.Weighted([]int{3, 2, 2})
	} else {
		kind = tp.Weighted([]int{3, 3, 3, 2, 2, 2, 2, 1, 1})
	}
	mustStale, mustReject := false, false
	name := ""
	switch kind {
	case 0:
		name = "refresh"
		if tp.Intn(2) == 1 {
			keepLeader := meta.Leader
			m.drawMembership(&meta)
			meta.Leader = keepLeader
		}
		meta.RetentionThroughSeq += uint64(tp.Intn(2))
		meta.LeaseUntil = meta.LeaseUntil.Add(time.Second)
	case 1:
		name = "leader-epoch+1"
		meta.LeaderEpoch++
		meta.Leader = meta.Replicas[tp.Intn(len(meta.Replicas))]
		if tp.Intn(3) != 2 {
			meta.Leader = 1
		}
	case 2:
		name = "epoch+1"
		meta.Epoch++
		m.drawMembership(&meta)
		meta.Leader = meta.Replicas[tp.Intn(len(meta.Replicas))]
		if tp.Intn(3) != 2 {
			meta.Leader = 1
		}
		if tp.Intn(2) == 0 {
			meta.LeaderEpoch++
		}
	case 3:
		name = "status"
		meta.Status = []ch.Status{ch.StatusActive, ch.StatusCreating, ch.StatusDeleting, ch.StatusDeleted}[tp.Intn(4)]
		if tp.Intn(2) == 0 {
			meta.WriteFence = ch.WriteFence{Token: "t", Version: 1}
		} else {
			meta.WriteFence = ch.WriteFence{}
		}
	case 4:
		name = "stale-older-epoch"
		if meta.Epoch == 0 {
			return
		}
		meta.Epoch--
		meta.LeaderEpoch += uint64(tp.Intn(3))
		if tp.Intn(2) == 0 {
			meta.Leader = meta.Replicas[tp.Intn(len(meta.Replicas))]
		}
		mustStale = true
		m.r.Fault("meta.older_epoch")
	case 5:
		name = "stale-older-leader-epoch"
		if meta.LeaderEpoch == 0 {
			return
		}
		meta.LeaderEpoch--
		mustStale = true
		m.r.Fault("meta.older_leader_epoch")
	case 6:
		name = "stale-same-epoch-leader-switch"
		other := ch.NodeID(0)
		for _, n := range []ch.NodeID{1, 2, 3, 4, 5} {
			if n != cur.Leader {
				other = n
				break
			}
		}
		if tp.Intn(2) == 1 {
			other = ch.NodeID(2 + tp.Intn(4))
			if other == cur.Leader {
				other = 1
			}
		}
		meta.Leader = other
		mustStale = true
		m.r.Fault("meta.same_epoch_leader_switch")
	case 7:
		name = "invalid-minisr"
		if tp.Intn(2) == 0 {
			meta.MinISR = 0
		} else {
			meta.MinISR = len(meta.ISR) + 1
		}
		mustReject = true
		m.r.Fault("meta.invalid_minisr")
	case 8:
		name = "other-identity"
		if tp.Intn(2) == 0 {
			meta.ID = ch.ChannelID{ID: "other", Type: 2}
		} else {
			meta.Key = "2:other"
		}
		mustReject = true
		m.r.Fault("meta.other_identity")
	}
	m.applyMeta(meta, name, mustStale, mustReject)
}

func (m *msim) evCheckpoint() {
	s := m.s
	if s.HW <= s.CheckpointHW {
		m.r.Logf("  checkpoint: nothing to do")
		return
	}
	span := int(s.HW - s.CheckpointHW)
	s.CheckpointHW += 1 + uint64(m.r.Tape.Intn(span))
	if s.CheckpointHW > m.persistedHW {
		m.persistedHW = s.CheckpointHW
	}
	m.r.Logf("  checkpoint completed: CheckpointHW=%d", s.CheckpointHW)
	m.r.Probe("reactor.checkpoint")
	m.after("checkpoint")
}

func (m *msim) evCancel() {
	tp := m.r.Tape
	r := m.r
	var cands []ch.OpID
	for _, op := range m.order {
		cands = append(cands, op)
	}
	cands = append(cands, ch.OpID(7)) // never proposed
	lo := 0
	if len(cands) > 6 {
		lo = len(cands) - 6
	}
	op := cands[lo+tp.Intn(len(cands)-lo)]
	w := m.waiters[op]
	_, inMachine := m.s.PendingAppends[op]
	got := m.s.CancelAppendWaiter(op)
	r.Logf("  CancelAppendWaiter op=%d -> %v", uint64(op), got)
	if got != inMachine {
		r.FailSig("cancel-result", "", fmt.Sprintf("CancelAppendWaiter(%d)=%v but pending=%v", uint64(op), got, inMachine), nil)
		return
	}
	if w != nil && (w.st == msPending || w.st == msQueued) {
		if w.st == msPending && m.s.InflightAppend != nil {
			r.Fault("cancel.while_store_inflight")
		} else if w.st == msPending {
			r.Fault("cancel.while_waiting_quorum")
		} else {
			r.Fault("cancel.queued")
		}
		w.st = msReactor
		w.why = "cancel"
	} else {
		r.Fault("cancel.unknown_or_answered")
	}
	m.after("CancelAppendWaiter")
}

func (m *msim) evAbortStray() {
	// AbortAppendBatchProposal with an id that is not the in-flight proposal must not disturb it.
	before := msClone(m.s)
	m.nextOp++
	op := ch.OpID(1<<63 + m.nextOp)
	m.s.AbortAppendBatchProposal(op)
	m.r.Logf("  AbortAppendBatchProposal stray=%d", uint64(op)&0xffffff)
	m.r.Fault("abort.stray_id")
	if !m.sameState(before, "stray-abort-mutated", "AbortAppendBatchProposal(stray)") {
		return
	}
	m.after("AbortAppendBatchProposal(stray)")
}

func (m *msim) evFollowerApply() {
	s := m.s
	if s.Role != ch.RoleFollower || s.Status != ch.StatusActive {
		m.r.Logf("  follower apply skipped")
		return
	}
	tp := m.r.Tape
	m.storeLEO += uint64(tp.Intn(3))
	if s.LEO < m.storeLEO {
		s.LEO = m.storeLEO
	}
	leaderHW := s.HW + uint64(tp.Intn(3))
	if leaderHW > s.LEO {
		leaderHW = s.LEO
	}
	if leaderHW > s.HW {
		s.HW = leaderHW
	}
	m.r.Logf("  follower apply (reactor): LEO=%d HW=%d", s.LEO, s.HW)
	m.r.Fault("reactor.follower_apply")
	m.after("followerApply")
}

func (m *msim) evReload() {
	// idle eviction + reactivation: a fresh ChannelState with the next generation, loaded from the store.
	m.failAllByReactor("reload")
	gen := m.s.Generation + 1
	if m.storeLEO < m.s.LEO {
		m.storeLEO = m.s.LEO
	}
	if m.persistedHW > m.storeLEO {
		m.persistedHW = m.storeLEO
	}
	m.load(gen)
	m.r.Fault("reactor.reload")
	m.r.Logf("  reload: generation %d LEO=%d HW=%d", gen, m.s.LEO, m.s.HW)
	m.haveMeta = false
	m.applyMeta(msCloneMeta(m.cur), "reload", false, false)
}
