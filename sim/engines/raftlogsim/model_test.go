package raftlogsim

import (
	"bytes"
	"context"
	"fmt"
	"hash/fnv"
	"math"
	"sort"
	"strings"

	"github.com/WuKongIM/WuKongIM/pkg/slot/multiraft"
	raft "go.etcd.io/raft/v3"
	"go.etcd.io/raft/v3/confchange"
	"go.etcd.io/raft/v3/raftpb"
	"go.etcd.io/raft/v3/tracker"
)

// refState is the reference for one scope: etcd's raft.MemoryStorage plus the
// two applied marks the repo's storage keeps next to the log.
type refState struct {
	ms         *raft.MemoryStorage
	applied    uint64
	cfgApplied uint64
}

func newRef() *refState { return &refState{ms: raft.NewMemoryStorage()} }

func (s *refState) hs() raftpb.HardState {
	h, _, _ := s.ms.InitialState()
	return h
}
func (s *refState) first() uint64 { v, _ := s.ms.FirstIndex(); return v }
func (s *refState) last() uint64  { v, _ := s.ms.LastIndex(); return v }
func (s *refState) snap() raftpb.Snapshot {
	sn, _ := s.ms.Snapshot()
	return sn
}
func (s *refState) snapIndex() uint64 { return s.snap().Metadata.Index }

// ents returns every entry the reference holds.
func (s *refState) ents() []raftpb.Entry {
	f, l := s.first(), s.last()
	if l < f {
		return nil
	}
	es, err := s.ms.Entries(f, l+1, math.MaxUint64)
	if err != nil {
		panic(fmt.Sprintf("reference entries [%d,%d]: %v", f, l, err))
	}
	return es
}

// term returns the term the reference holds for index i (ok=false when the
// reference answers ErrCompacted / ErrUnavailable).
func (s *refState) term(i uint64) (uint64, bool) {
	t, err := s.ms.Term(i)
	if err != nil {
		return 0, false
	}
	return t, true
}

func (s *refState) lastTerm() uint64 {
	t, _ := s.term(s.last())
	return t
}

func rebuildRef(snap raftpb.Snapshot, ents []raftpb.Entry, hs raftpb.HardState, applied, cfgApplied uint64) *refState {
	n := newRef()
	if !raft.IsEmptySnap(snap) {
		if err := n.ms.ApplySnapshot(cloneSnap(snap)); err != nil {
			panic("reference rebuild snapshot: " + err.Error())
		}
	}
	if len(ents) > 0 {
		if err := n.ms.Append(cloneEnts(ents)); err != nil {
			panic("reference rebuild append: " + err.Error())
		}
	}
	if !raft.IsEmptyHardState(hs) {
		_ = n.ms.SetHardState(hs)
	}
	n.applied, n.cfgApplied = applied, cfgApplied
	return n
}

func (s *refState) clone() *refState {
	return rebuildRef(s.snap(), s.ents(), s.hs(), s.applied, s.cfgApplied)
}

func cloneSnap(sn raftpb.Snapshot) raftpb.Snapshot {
	c := sn
	c.Data = append([]byte(nil), sn.Data...)
	c.Metadata.ConfState = cloneCS(sn.Metadata.ConfState)
	return c
}

func cloneCS(cs raftpb.ConfState) raftpb.ConfState {
	c := cs
	c.Voters = append([]uint64(nil), cs.Voters...)
	c.Learners = append([]uint64(nil), cs.Learners...)
	c.VotersOutgoing = append([]uint64(nil), cs.VotersOutgoing...)
	c.LearnersNext = append([]uint64(nil), cs.LearnersNext...)
	return c
}

func cloneEnts(es []raftpb.Entry) []raftpb.Entry {
	out := make([]raftpb.Entry, len(es))
	for i, e := range es {
		out[i] = e
		out[i].Data = append([]byte(nil), e.Data...)
	}
	return out
}

// foldConf computes the membership after applying, on top of base (valid at
// baseIdx), every configuration-change entry with baseIdx < index <= upTo, the
// way etcd raft applies them.
func foldConf(base raftpb.ConfState, baseIdx uint64, ents []raftpb.Entry, upTo uint64) (raftpb.ConfState, error) {
	trk := tracker.MakeProgressTracker(1, 0)
	if len(base.Voters)+len(base.Learners)+len(base.VotersOutgoing)+len(base.LearnersNext) > 0 || base.AutoLeave {
		cfg, prs, err := confchange.Restore(confchange.Changer{Tracker: trk, LastIndex: baseIdx}, base)
		if err != nil {
			return raftpb.ConfState{}, err
		}
		trk.Config, trk.Progress = cfg, prs
	}
	for _, e := range ents {
		if e.Index <= baseIdx || e.Index > upTo {
			continue
		}
		var cc raftpb.ConfChangeV2
		switch e.Type {
		case raftpb.EntryConfChange:
			var c1 raftpb.ConfChange
			if err := c1.Unmarshal(e.Data); err != nil {
				return raftpb.ConfState{}, err
			}
			cc = c1.AsV2()
		case raftpb.EntryConfChangeV2:
			if err := cc.Unmarshal(e.Data); err != nil {
				return raftpb.ConfState{}, err
			}
		default:
			continue
		}
		ch := confchange.Changer{Tracker: trk, LastIndex: e.Index}
		var (
			cfg tracker.Config
			prs tracker.ProgressMap
			err error
		)
		if cc.LeaveJoint() {
			cfg, prs, err = ch.LeaveJoint()
		} else if auto, ok := cc.EnterJoint(); ok {
			cfg, prs, err = ch.EnterJoint(auto, cc.Changes...)
		} else {
			cfg, prs, err = ch.Simple(cc.Changes...)
		}
		if err != nil {
			return raftpb.ConfState{}, err
		}
		trk.Config, trk.Progress = cfg, prs
	}
	return trk.ConfState(), nil
}

// confAt is the membership the reference derives at index upTo.
func (s *refState) confAt(upTo uint64) raftpb.ConfState {
	sn := s.snap()
	if upTo < sn.Metadata.Index {
		upTo = sn.Metadata.Index
	}
	cs, err := foldConf(sn.Metadata.ConfState, sn.Metadata.Index, s.ents(), upTo)
	if err != nil {
		panic("reference conf fold: " + err.Error())
	}
	return cs
}

func csString(cs raftpb.ConfState) string {
	srt := func(v []uint64) []uint64 {
		c := append([]uint64{}, v...)
		sort.Slice(c, func(i, j int) bool { return c[i] < c[j] })
		return c
	}
	return fmt.Sprintf("v%v l%v o%v n%v a%v", srt(cs.Voters), srt(cs.Learners), srt(cs.VotersOutgoing), srt(cs.LearnersNext), cs.AutoLeave)
}

func dataSig(b []byte) string {
	if len(b) <= 8 {
		return fmt.Sprintf("%x", b)
	}
	h := fnv.New64a()
	h.Write(b)
	return fmt.Sprintf("#%d:%x", len(b), h.Sum64())
}

func entString(e raftpb.Entry) string {
	return fmt.Sprintf("%d:%d:%d:%s", e.Index, e.Term, e.Type, dataSig(e.Data))
}

func entsString(es []raftpb.Entry) string {
	ss := make([]string, len(es))
	for i, e := range es {
		ss[i] = entString(e)
	}
	return "[" + strings.Join(ss, " ") + "]"
}

func entEqual(a, b raftpb.Entry) bool {
	return a.Index == b.Index && a.Term == b.Term && a.Type == b.Type && bytes.Equal(a.Data, b.Data)
}

// obs is the canonical rendering of everything the read API says about one
// scope. Field order is the order mismatches are reported in.
type obs struct {
	names []string
	vals  []string
}

func (o *obs) add(name, val string) { o.names = append(o.names, name); o.vals = append(o.vals, val) }

func (o *obs) String() string {
	var sb strings.Builder
	for i := range o.names {
		fmt.Fprintf(&sb, "%s=%s ", o.names[i], o.vals[i])
	}
	return sb.String()
}

// diff returns the names of the fields in which o and e differ.
func (o *obs) diff(e *obs) []string {
	var out []string
	for i := range o.names {
		if i >= len(e.vals) || o.vals[i] != e.vals[i] {
			out = append(out, o.names[i])
		}
	}
	return out
}

// expected renders what the read API must return for the reference state.
func (s *refState) expected() *obs {
	o := &obs{}
	hs := s.hs()
	o.add("hardstate", fmt.Sprintf("{t%d v%d c%d}", hs.Term, hs.Vote, hs.Commit))
	o.add("confstate", csString(s.confAt(hs.Commit)))
	o.add("applied", fmt.Sprint(s.applied))
	o.add("cfgapplied", fmt.Sprint(s.cfgApplied))
	f, l := s.first(), s.last()
	o.add("first", fmt.Sprint(f))
	o.add("last", fmt.Sprint(l))
	sn := s.snap()
	o.add("snapmeta", fmt.Sprintf("{i%d t%d %s}", sn.Metadata.Index, sn.Metadata.Term, csString(sn.Metadata.ConfState)))
	o.add("snapdata", dataSig(sn.Data))
	o.add("entries", entsString(s.ents()))
	o.add("terms", s.termsString(f, l))
	return o
}

func termWindow(f, l uint64) (uint64, uint64) {
	lo := uint64(0)
	if f > 2 {
		lo = f - 2
	}
	hi := l + 2
	if hi < f+1 {
		hi = f + 1
	}
	return lo, hi
}

func (s *refState) termsString(f, l uint64) string {
	lo, hi := termWindow(f, l)
	var sb strings.Builder
	for i := lo; i <= hi; i++ {
		t, ok := s.term(i)
		if !ok {
			t = 0
		}
		fmt.Fprintf(&sb, "%d:%d ", i, t)
	}
	return sb.String()
}

// observe reads one scope through every read API of the real storage. An
// error from an API is rendered into the field (never equal to an expectation),
// except Term for an index the reference does not hold, where an error is as
// good as the zero term the repo returns.
func observe(st multiraft.Storage, order int) *obs {
	ctx := context.Background()
	o := &obs{}
	var (
		bs    multiraft.BootstrapState
		bsErr error
	)
	initial := func() { bs, bsErr = st.InitialState(ctx) }
	if order%2 == 0 {
		initial()
	}
	f, ferr := st.FirstIndex(ctx)
	l, lerr := st.LastIndex(ctx)
	sn, serr := st.Snapshot(ctx)
	if order%2 == 1 {
		initial()
	}
	if bsErr != nil {
		e := "ERR(" + bsErr.Error() + ")"
		o.add("hardstate", e)
		o.add("confstate", e)
		o.add("applied", e)
		o.add("cfgapplied", e)
	} else {
		o.add("hardstate", fmt.Sprintf("{t%d v%d c%d}", bs.HardState.Term, bs.HardState.Vote, bs.HardState.Commit))
		o.add("confstate", csString(bs.ConfState))
		o.add("applied", fmt.Sprint(bs.AppliedIndex))
		o.add("cfgapplied", fmt.Sprint(bs.ConfigAppliedIndex))
	}
	errOr := func(v uint64, err error) string {
		if err != nil {
			return "ERR(" + err.Error() + ")"
		}
		return fmt.Sprint(v)
	}
	o.add("first", errOr(f, ferr))
	o.add("last", errOr(l, lerr))
	if serr != nil {
		o.add("snapmeta", "ERR("+serr.Error()+")")
		o.add("snapdata", "ERR")
	} else {
		o.add("snapmeta", fmt.Sprintf("{i%d t%d %s}", sn.Metadata.Index, sn.Metadata.Term, csString(sn.Metadata.ConfState)))
		o.add("snapdata", dataSig(sn.Data))
	}
	if ferr != nil || lerr != nil {
		o.add("entries", "ERR(index)")
		o.add("terms", "ERR(index)")
		return o
	}
	var es []raftpb.Entry
	var eerr error
	if l >= f {
		es, eerr = st.Entries(ctx, f, l+1, 0)
	}
	if eerr != nil {
		o.add("entries", "ERR("+eerr.Error()+")")
	} else {
		o.add("entries", entsString(es))
	}
	lo, hi := termWindow(f, l)
	var sb strings.Builder
	for i := lo; i <= hi; i++ {
		t, err := st.Term(ctx, i)
		if err != nil {
			// rendered as a held term that can never match unless the
			// reference does not hold the index either (then 0 is expected)
			fmt.Fprintf(&sb, "%d:ERR ", i)
			continue
		}
		fmt.Fprintf(&sb, "%d:%d ", i, t)
	}
	o.add("terms", sb.String())
	return o
}

// termsCompatible accepts "i:ERR" where the expectation is "i:0".
func termsCompatible(got, want string) bool {
	if got == want {
		return true
	}
	g, w := strings.Fields(got), strings.Fields(want)
	if len(g) != len(w) {
		return false
	}
	for i := range g {
		if g[i] == w[i] {
			continue
		}
		if strings.HasSuffix(g[i], ":ERR") && strings.HasSuffix(w[i], ":0") && strings.TrimSuffix(g[i], "ERR") == strings.TrimSuffix(w[i], "0") {
			continue
		}
		return false
	}
	return true
}

// mismatch returns the fields in which the observation contradicts the expectation.
func mismatch(got, want *obs) []string {
	var out []string
	for _, n := range got.diff(want) {
		if n == "terms" {
			gi, wi := -1, -1
			for i, x := range got.names {
				if x == "terms" {
					gi = i
				}
			}
			for i, x := range want.names {
				if x == "terms" {
					wi = i
				}
			}
			if gi >= 0 && wi >= 0 && termsCompatible(got.vals[gi], want.vals[wi]) {
				continue
			}
		}
		out = append(out, n)
	}
	return out
}
