// Package raftlogsim decides C14: the durable Raft log (pkg/raftlog on Pebble)
// behaves as a correct Raft storage, while open and after a crash at every
// mutating file-system operation.
package raftlogsim

import (
	"context"
	"encoding/json"
	"fmt"
	"math"
	"math/rand/v2"
	"os"
	"path/filepath"
	"runtime"
	"strconv"
	"strings"
	"sync"
	"testing"
	"testing/synctest"
	"time"

	"github.com/WuKongIM/WuKongIM/internal/verifsim/simkit"
	"github.com/WuKongIM/WuKongIM/pkg/raftlog"
	"github.com/WuKongIM/WuKongIM/pkg/slot/multiraft"
	"github.com/cockroachdb/pebble/v2"
	"github.com/cockroachdb/pebble/v2/vfs"
	"go.etcd.io/raft/v3/raftpb"
)

func TestVerifSim(t *testing.T) {
	simkit.Main(t, simkit.Engine{
		Name:  "raftlogsim",
		Props: map[string]simkit.PropFunc{"C14": runC14},
		Real: []string{"raftlog.DB (Open/Close, group write worker, saveOp/markApplied/markConfigApplied, writer state cache, meta, readers)",
			"raftlog snapshot store (prepare/write/publish/read, manifest codec, snapshot GC) on a real temporary directory",
			"Pebble v2.1.4 (WAL, memtable flush, compaction, recovery) on vfs.NewCrashableMem()",
			"etcd raft.MemoryStorage and confchange as the reference", "timers via synctest fake clock"},
		Stub: []string{"Pebble file system: counting wrapper around vfs.NewCrashableMem (crash = CrashClone at an op boundary)",
			"snapshot chunk file writer (TestingSetSnapshotWriteFileHook: same O_EXCL create/write, no fsync, crash points before/mid/after each chunk, injected write failure)",
			"the Raft node producing Ready batches (tape-driven generator of Raft-valid saves)"},
		Rule: "One run = one synctest bubble with one real raftlog.DB shared by 2-4 scopes (controller + slots) and a tape-driven history of Raft-valid " +
			"mutations (append, conflicting-suffix overwrite, hard state, compaction snapshot, snapshot install, ReplaceSnapshot, MarkApplied, MarkConfigApplied), " +
			"some issued concurrently from several scopes so the group writer batches them, plus range reads, clean reopen and crashes. Short histories (3-8 steps) " +
			"take a crash clone after EVERY mutating FS call (and around every snapshot chunk write and at every step boundary) and reopen every distinct clone " +
			"with p=0/50/100 of unsynced data kept; long histories sample. raftlog.Options (SnapshotChunkSize incl. 0=default and 1 byte, WriteBatchMaxWait/Items, " +
			"SnapshotGCGrace) are re-drawn at every clean reopen and crash restart, and every crash clone is reopened with a chunk size that cycles through all values, " +
			"so persisted snapshots must be readable under options other than the ones they were written with. Non-trivial = at least 3 successful mutations including a snapshot save or a " +
			"conflicting overwrite, AND (a crash clone was reopened and compared, or a clean reopen happened, or two scopes shared one WAL sync).",
		Assumptions: []string{
			"vfs.MemFS.CrashClone is a faithful model of power loss for files behind Pebble's VFS (synced data survives; unsynced blocks and directory entries survive with probability p)",
			"snapshot chunk FILES bypass Pebble's VFS (os package): they get process-kill semantics only - a crash keeps exactly the directory content at that instant, fsync of chunk files/directories is not modelled, so a missing fsync in the snapshot store cannot be detected",
			"testing/synctest fake clock and quiescence semantics (go1.26.8); Pebble background work (flush, compaction, obsolete-file deletion) runs on real goroutines inside the bubble, so the order of its FS calls relative to foreground calls is the Go scheduler's (the trace does not depend on it)",
			"p=50 clones use CrashClone's map-ordered RNG draws and are therefore not bit-reproducible; p=0 and p=100 clones are",
			"the reference for InitialState.ConfState is the snapshot membership with every configuration-change entry up to HardState.Commit applied by etcd's confchange package (raft.MemoryStorage alone only returns the snapshot membership)",
			"the repo's read API has no ErrCompacted/ErrUnavailable: for a request outside [FirstIndex, LastIndex] an error, a zero term, or only held entries are all accepted; entries below FirstIndex, entries above LastIndex, or a non-zero term for an index the reference does not hold are violations",
			"reads are never issued concurrently with a write on the same scope (multiraft drives each scope from one goroutine)",
			"at most one snapshot-writing mutation is in flight at a time: publishSnapshotAndCommit holds DB.snapshotLifecycleMu (sync.Mutex) across the group commit, and a goroutine blocked on a sync.Mutex stops a synctest bubble's clock; concurrent steps therefore mix one snapshot writer with appends/marks of other scopes",
		},
	})
}

// ---------------------------------------------------------------- config

type config struct {
	Scopes     int
	Steps      int
	Short      bool
	NoFaults   bool
	Torn       bool // also take p=50 clones
	Diverged   bool // allow snapshot install over a longer diverged log
	MemTable   uint64
	Chunk      uint64
	Wait       time.Duration
	Items      int
	BigData    bool
	ConfBias   int // 1 in ConfBias entries is a configuration change
	WOverwrite int
	WCompact   int
	WInstall   int
	WReplace   int
	ConcBias   int
	ChunkFail  bool
	MaxVerifs  int
}

func drawCfg(r *simkit.Run) config {
	tp := r.Tape
	c := config{}
	c.Scopes = 2 + tp.Weighted([]int{3, 2, 1})
	c.Short = tp.Intn(10) < 7
	if c.Short {
		c.Steps = 3 + tp.Intn(6)
	} else {
		c.Steps = 12 + tp.Intn(28)
	}
	c.NoFaults = tp.Intn(4) == 0
	c.Torn = tp.Intn(2) == 1
	c.Diverged = tp.Intn(2) == 1
	// 64 KiB never fills in these histories (no flush except at recovery);
	// the small sizes force flushes, WAL rotation and compactions mid-history.
	c.MemTable = []uint64{64 << 10, 16 << 10, 4 << 10, 8 << 10}[tp.Intn(4)]
	// Options the DB is FIRST opened with; they are re-drawn at every reopen and
	// crash restart (openOpts.redraw), and every crash clone is reopened with yet
	// another chunk size: whatever a persisted artefact depends on must be read
	// back from the artefact, never from the option of the current incarnation.
	c.Chunk = chunkSizes[tp.Intn(len(chunkSizes))]
	c.Wait = []time.Duration{5 * time.Millisecond, time.Millisecond, 50 * time.Millisecond}[tp.Intn(3)]
	c.Items = []int{128, 2, 1, 3}[tp.Intn(4)]
	c.BigData = tp.Intn(4) == 3
	c.ConfBias = []int{6, 3, 12}[tp.Intn(3)]
	c.WOverwrite = 1 + tp.Intn(4)
	c.WCompact = 2 + tp.Intn(5)
	c.WInstall = tp.Intn(3)
	c.WReplace = tp.Intn(3)
	c.ConcBias = 1 + tp.Intn(4)
	// every draw is made whatever NoFaults says, so that the minimiser can zero
	// the NoFaults choice without shifting the rest of the tape
	chunkFail := tp.Intn(3) == 2
	c.ChunkFail = !c.NoFaults && chunkFail
	c.MaxVerifs = 160
	if r.Tier == "thorough" {
		c.MaxVerifs = 600
	}
	return c
}

// ---------------------------------------------------------------- world

const (
	mSave = iota
	mMarkApplied
	mMarkCfg
	mReplace
)

type mutation struct {
	kind     int
	desc     string
	st       multiraft.PersistentState
	install  bool
	diverged bool
	index    uint64
	snap     raftpb.Snapshot
	// what the mutation exercises (for probes / non-triviality)
	tags []string
}

type cand struct {
	ref *refState
	exp *obs
	tag string
}

func mkCand(ref *refState, tag string) *cand { return &cand{ref: ref, exp: ref.expected(), tag: tag} }

type capture struct {
	label         string
	anchor        bool // made by the foreground commit path itself (WAL, chunk file, step boundary)
	c0, c50, c100 *vfs.MemFS
	dir           *dirTree
	done          []bool
	outcome       map[int][]string // p -> candidate tag matched per scope, once reopened
}

// stepPlan is what a tracked section allows a crash inside it to leave behind.
type stepPlan struct {
	name   string
	in     []bool
	before [][]*cand // allowed states when the scope's mutation has not returned (or the scope has none)
	after  [][]*cand // allowed states once the scope's mutation returned
}

type world struct {
	r   *simkit.Run
	cfg config
	tmp string

	scopes []raftlog.Scope
	names  []string
	refs   []*refState

	liveFS  *vfs.MemFS
	snapDir string
	lastDir *dirTree // previous copy of snapDir (content reuse in readDirTree)
	db      *raftlog.DB
	hookFS  vfs.FS
	opts    openOpts // options of the live incarnation
	stepNo  int
	// lastVerifyOpts: options the most recent crash clone was reopened with (for messages)
	lastVerifyOpts  openOpts
	lastCrashedOpts openOpts // options of the incarnation that clone was taken from

	mu          sync.Mutex
	tracking    bool
	caps        []*capture
	capsDrop    int
	capsSampled int
	stepDone    []bool
	fsOps       int
	walSyncs    int
	sstCreates  int
	chunkArmed  bool
	chunkFired  bool

	rng      *rand.Rand
	seen     map[uint64]bool
	verifs   int
	tmpSeq   int
	restore  func()
	goodMuts int
	hard     bool // a snapshot save or conflicting overwrite succeeded
	witness  bool // crash clone compared, reopen, or group batch
	crashed  int
	// crashStep: the history will continue on a crash clone of the current step
	crashStep bool
}

// skipCrashVerify is set only while the kernel minimises a replay whose
// violation class is not a crash class: the per-crash-point reopen comparisons
// (nine tenths of a run's cost) cannot produce that class, so they are skipped
// to let the minimiser try many more tapes. Crashes the history continues on
// are still taken and checked, so the tape keeps its meaning; the minimised
// tape is confirmed afterwards by a normal replay in a fresh process.
var skipCrashVerify = func() bool {
	if os.Getenv("VERIF_MODE") != "minimise" {
		return false
	}
	b, err := os.ReadFile(os.Getenv("VERIF_REPLAY"))
	if err != nil {
		return false
	}
	var rf struct {
		Expect struct {
			Class string `json:"class"`
		} `json:"expect"`
	}
	if json.Unmarshal(b, &rf) != nil || rf.Expect.Class == "" {
		return false
	}
	return !strings.HasPrefix(rf.Expect.Class, "crash")
}()

type quietLogger struct{}

func (quietLogger) Infof(string, ...interface{})  {}
func (quietLogger) Errorf(string, ...interface{}) {}
func (quietLogger) Fatalf(format string, args ...interface{}) {
	panic("pebble fatal: " + fmt.Sprintf(format, args...))
}

func tmpBase() string {
	if st, err := os.Stat("/dev/shm"); err == nil && st.IsDir() {
		return "/dev/shm"
	}
	return os.TempDir()
}

func runC14(t *testing.T, r *simkit.Run) {
	c := drawCfg(r)
	r.Config = map[string]any{"scopes": c.Scopes, "steps": c.Steps, "short": c.Short, "nofaults": c.NoFaults, "torn": c.Torn,
		"diverged_install": c.Diverged, "memtable": c.MemTable, "chunk": c.Chunk, "wait_ms": c.Wait.Milliseconds(), "items": c.Items,
		"bigdata": c.BigData, "confbias": c.ConfBias, "w_overwrite": c.WOverwrite, "w_compact": c.WCompact, "w_install": c.WInstall,
		"w_replace": c.WReplace, "concbias": c.ConcBias, "chunkfail": c.ChunkFail}
	tmp, err := os.MkdirTemp(tmpBase(), "verif-raftlogsim-")
	if err != nil {
		r.Infra("tmp dir: %v", err)
		return
	}
	defer os.RemoveAll(tmp)
	// Pebble keeps process-wide sync.Pools of objects that own channels
	// (sstable.writeTaskPool); a channel made in one bubble must not be used in
	// the next ("send on synctest channel from outside bubble"). Two GC cycles
	// empty every sync.Pool (primary and victim cache).
	runtime.GC()
	runtime.GC()
	simkit.Bubble(t, r, func() {
		start := time.Now()
		w := &world{r: r, cfg: c, tmp: tmp, seen: map[uint64]bool{}}
		w.rng = rand.New(rand.NewPCG(r.Tape.Uint64(), 0x14))
		defer w.teardown()
		defer func() {
			if p := recover(); p != nil {
				if s, ok := p.(string); ok && strings.HasPrefix(s, "reference") {
					r.Infra("%s", s) // generator / reference trouble is never a violation
					return
				}
				panic(p)
			}
		}()
		w.run()
		r.SimTime += time.Since(start)
	})
}

func (w *world) teardown() {
	w.mu.Lock()
	w.tracking = false
	w.mu.Unlock()
	if os.Getenv("RLS_DEBUG") != "" && w.liveFS != nil {
		names, _ := w.liveFS.List("/raft")
		for _, n := range names {
			if st, err := w.liveFS.Stat("/raft/" + n); err == nil {
				fmt.Fprintf(os.Stderr, "DEBUG file %s %d\n", n, st.Size())
			}
		}
		fmt.Fprintf(os.Stderr, "DEBUG fsops=%d walsyncs=%d sst=%d verifs=%d\n", w.fsOps, w.walSyncs, w.sstCreates, w.verifs)
		for _, l := range w.r.Trace() {
			fmt.Fprintf(os.Stderr, "TRACE %s\n", l)
		}
	}
	if w.db != nil {
		_ = w.db.Close()
		w.db = nil
	}
	synctest.Wait()
	raftlog.VerifPebbleHook = nil
	if w.restore != nil {
		w.restore()
	}
}

func (w *world) newTmpDir() string {
	w.tmpSeq++
	return filepath.Join(w.tmp, fmt.Sprintf("d%d", w.tmpSeq))
}

// chunkSizes are the Options.SnapshotChunkSize values in play: larger than any
// payload (benign, tape value 0), small, tiny, and 0 = the package default.
var chunkSizes = []uint64{1 << 20, 16, 64, 5, 0, 1}

// openOpts are the raftlog.Options of one incarnation of the DB. None of them
// may change what an already persisted artefact means: the chunk layout of a
// snapshot is recorded in its manifest, the batching knobs only shape commits,
// the GC grace only delays removal of unreferenced directories.
type openOpts struct {
	chunk uint64
	wait  time.Duration
	items int
	grace time.Duration
}

func (o openOpts) String() string {
	return fmt.Sprintf("chunk=%d wait=%v items=%d gcgrace=%v", o.chunk, o.wait, o.items, o.grace)
}

// redrawOpts draws the options of the next incarnation from the tape; value 0
// keeps the previous setting.
func (w *world) redrawOpts() {
	tp := w.r.Tape
	if k := tp.Intn(len(chunkSizes) + 1); k > 0 {
		w.opts.chunk = chunkSizes[k-1]
	}
	if k := tp.Intn(4); k > 0 {
		w.opts.wait = []time.Duration{5 * time.Millisecond, time.Millisecond, 50 * time.Millisecond}[k-1]
	}
	if k := tp.Intn(5); k > 0 {
		w.opts.items = []int{128, 2, 1, 3}[k-1]
	}
	if k := tp.Intn(3); k > 0 {
		// with a grace the fake clock (year 2000) never outruns the real mtime of
		// a directory, so unreferenced snapshot directories simply pile up
		w.opts.grace = []time.Duration{0, time.Hour}[k-1]
	}
}

// verifyOpts are the options a crash clone is reopened with: the live ones,
// but a chunk size that walks through chunkSizes with the step number and the
// clone variant (a pure function of the history, so a failure replays).
func (w *world) verifyOpts(p int) openOpts {
	o := w.opts
	o.chunk = chunkSizes[(w.stepNo*3+p/50)%len(chunkSizes)]
	return o
}

// probeOpts records which options differ between the previous incarnation and
// the live one.
func (w *world) probeOpts(prev openOpts) {
	r := w.r
	if prev.chunk != w.opts.chunk {
		r.Probe("reopen_chunk_size_changed")
		for _, ref := range w.refs {
			if n := uint64(len(ref.snap().Data)); n > 0 {
				r.Probe("reopen_chunk_size_changed_with_snapshot")
				eff := func(c uint64) uint64 {
					if c == 0 {
						return 8 << 20
					}
					return c
				}
				if n > min(eff(prev.chunk), eff(w.opts.chunk)) {
					r.Probe("reopen_chunk_size_changed_relayout") // the payload would be cut differently now
				}
				break
			}
		}
		if w.opts.chunk == 0 {
			r.Probe("reopen_default_chunk_size")
		}
	}
	if prev.wait != w.opts.wait || prev.items != w.opts.items {
		r.Probe("reopen_batch_options_changed")
	}
	if prev.grace != w.opts.grace {
		r.Probe("reopen_gc_grace_changed")
	}
}

// effChunk is the chunk size snapshots are written with right now.
func (w *world) effChunk() uint64 {
	if w.opts.chunk == 0 {
		return 8 << 20 // raftlog's defaultSnapshotChunkSize
	}
	return w.opts.chunk
}

func (w *world) open(fs vfs.FS, snapDir string, o openOpts) (*raftlog.DB, error) {
	w.hookFS = fs
	return raftlog.Open("/raft", raftlog.Options{
		SnapshotPath: snapDir, SnapshotChunkSize: o.chunk, SnapshotGCGrace: o.grace,
		WriteBatchMaxWait: o.wait, WriteBatchMaxItems: o.items,
	})
}

func (w *world) wrapLive() vfs.FS {
	return &simFS{inner: w.liveFS, onOp: w.onFSOp}
}

func (w *world) onFSOp(kind, name string) {
	w.mu.Lock()
	defer w.mu.Unlock()
	w.fsOps++
	if kind == "sync" && strings.HasSuffix(name, ".log") {
		w.walSyncs++
	}
	if kind == "create" && strings.HasSuffix(name, ".sst") {
		w.sstCreates++
	}
	if w.tracking {
		w.captureLocked("after " + kind + " " + name)
	}
}

const (
	maxCapsPerStep = 300
	boundaryLabel  = "step boundary"
)

func (w *world) captureLocked(label string) {
	if w.cfg.NoFaults || (skipCrashVerify && !w.crashStep) {
		return
	}
	// anchors are always kept: the continuing crash is chosen among them
	anchor := label == boundaryLabel || strings.HasSuffix(label, ".log") || strings.Contains(label, " chunk ")
	if !anchor && (len(w.caps) >= maxCapsPerStep || w.verifs >= 2*w.cfg.MaxVerifs) {
		w.capsDrop++
		return
	}
	if !w.cfg.Short && !anchor && w.rng.IntN(3) != 0 {
		w.capsSampled++ // long histories sample the crash points of background work
		return
	}
	cp := &capture{label: label, anchor: anchor, done: append([]bool(nil), w.stepDone...)}
	cp.c0 = w.liveFS.CrashClone(vfs.CrashCloneCfg{})
	cp.c100 = w.liveFS.CrashClone(vfs.CrashCloneCfg{UnsyncedDataPercent: 100, RNG: w.rng})
	if w.cfg.Torn {
		cp.c50 = w.liveFS.CrashClone(vfs.CrashCloneCfg{UnsyncedDataPercent: 40 + w.rng.IntN(21), RNG: w.rng})
	}
	cp.dir = readDirTree(w.snapDir, w.lastDir)
	w.lastDir = cp.dir
	w.caps = append(w.caps, cp)
}

func (w *world) capture(label string) {
	w.mu.Lock()
	defer w.mu.Unlock()
	if w.tracking {
		w.captureLocked(label)
	}
}

// chunkWrite replaces raftlog's chunk file writer for the run.
func (w *world) chunkWrite(path string, data []byte) error {
	w.mu.Lock()
	fail := w.chunkArmed
	if fail {
		w.chunkArmed = false
		w.chunkFired = true
	}
	w.mu.Unlock()
	base := filepath.Base(path)
	// crash points around the first three chunk files and every eighth one
	idx, _ := strconv.Atoi(strings.TrimPrefix(base, "chunk-"))
	track := idx < 3 || idx%8 == 7
	if track {
		w.capture("before chunk " + base)
	}
	if fail {
		return errInjectedChunk
	}
	var mid func()
	if track {
		mid = func() { w.capture("mid chunk " + base) }
	}
	err := writeChunkFile(path, data, mid)
	if track {
		w.capture("after chunk " + base)
	}
	return err
}

func (w *world) begin(sp *stepPlan) {
	w.mu.Lock()
	if sp.name != "mutation" {
		w.crashStep = false
	}
	w.caps = nil
	w.capsDrop = 0
	w.stepDone = make([]bool, len(w.scopes))
	w.tracking = true
	w.mu.Unlock()
}

func (w *world) end() []*capture {
	synctest.Wait()
	w.capture(boundaryLabel)
	w.mu.Lock()
	w.tracking = false
	caps := w.caps
	w.caps = nil
	w.r.ProbeN("crash_points_dropped_over_cap", w.capsDrop)
	w.r.ProbeN("crash_points_not_sampled_long_history", w.capsSampled)
	w.capsDrop, w.capsSampled = 0, 0
	w.mu.Unlock()
	return caps
}

func (w *world) currentPlan(name string) *stepPlan {
	sp := &stepPlan{name: name, in: make([]bool, len(w.scopes)), before: make([][]*cand, len(w.scopes)), after: make([][]*cand, len(w.scopes))}
	for i, ref := range w.refs {
		sp.before[i] = []*cand{mkCand(ref, "current")}
	}
	return sp
}

func (w *world) run() {
	r, tp := w.r, w.r.Tape
	pool := []uint64{1, 2, 255, 256, 65536, 3}
	w.scopes = append(w.scopes, raftlog.ControllerScope())
	off := tp.Intn(len(pool))
	for i := 1; i < w.cfg.Scopes; i++ {
		w.scopes = append(w.scopes, raftlog.SlotScope(pool[(off+i-1)%len(pool)]))
	}
	for _, s := range w.scopes {
		w.names = append(w.names, s.String())
		w.refs = append(w.refs, newRef())
	}
	w.restore = raftlog.TestingSetSnapshotWriteFileHook(w.chunkWrite)
	raftlog.VerifPebbleHook = func(o *pebble.Options) {
		o.FS = w.hookFS
		o.Logger = quietLogger{}
		o.MemTableSize = w.cfg.MemTable
		o.L0CompactionThreshold = 2
		// cost only: one file-cache shard (one goroutine) and a small block cache per DB
		o.Experimental.FileCacheShards = 1
		o.CacheSize = 1 << 20
		if _, live := w.hookFS.(*simFS); !live {
			// clones opened only to be read and closed: no table-stats scan, and a
			// memtable arena of at most 16 KiB (the cgo calloc/free of the arena
			// was a fifth of the CPU; WAL replay just flushes more often)
			o.DisableTableStats = true
			o.MemTableSize = min(w.cfg.MemTable, 16<<10)
		}
	}
	w.liveFS = vfs.NewCrashableMem()
	w.snapDir = w.newTmpDir()

	// Creating an empty DB makes the same FS calls in every run; its crash
	// points are enumerated in one run out of eight only.
	sp := w.currentPlan("open")
	trackOpen := tp.Intn(8) == 7
	if trackOpen {
		w.begin(sp)
	}
	w.opts = openOpts{chunk: w.cfg.Chunk, wait: w.cfg.Wait, items: w.cfg.Items}
	db, err := w.open(w.wrapLive(), w.snapDir, w.opts)
	if err != nil {
		r.Infra("initial open: %v", err)
		return
	}
	w.db = db
	if trackOpen {
		w.verifyCaps(w.end(), sp)
	} else {
		synctest.Wait()
	}
	r.Logf("open scopes=%v %s", w.names, w.opts)

	for step := 1; step <= w.cfg.Steps && !r.Failed() && r.InfraErr == ""; step++ {
		r.Steps++
		w.stepNo = step
		kind := tp.Weighted([]int{6, w.cfg.ConcBias, 2, 1})
		switch kind {
		case 0:
			w.mutationStep(step, 1)
		case 1:
			w.mutationStep(step, 2+tp.Intn(len(w.scopes)-1))
		case 2:
			w.readStep(step)
		case 3:
			w.reopenStep(step)
		}
		for i, ref := range w.refs {
			hs := ref.hs()
			r.State(i, bucket(ref.first()), bucket(ref.last()-ref.first()+1), ref.snapIndex() > 0, bucket(hs.Commit-min(hs.Commit, ref.applied)), len(ref.confAt(hs.Commit).Voters))
		}
	}
	if !r.Failed() && r.InfraErr == "" {
		// final clean reopen: everything acknowledged must be there
		w.stepNo = w.cfg.Steps + 1
		w.reopenStep(w.cfg.Steps + 1)
	}
	w.mu.Lock()
	r.ProbeN("pebble_flush_sst_written", w.sstCreates)
	r.ProbeN("pebble_mutating_fs_calls", w.fsOps)
	w.mu.Unlock()
	r.Nontrivial = w.goodMuts >= 3 && w.hard && w.witness
}

func bucket(v uint64) int {
	switch {
	case v == 0:
		return 0
	case v == 1:
		return 1
	case v <= 3:
		return 2
	case v <= 8:
		return 3
	default:
		return 4
	}
}

// ---------------------------------------------------------------- steps

func (w *world) pickScopes(n int) []int {
	tp := w.r.Tape
	idx := make([]int, len(w.scopes))
	for i := range idx {
		idx[i] = i
	}
	out := []int{}
	for k := 0; k < n && len(idx) > 0; k++ {
		j := tp.Intn(len(idx))
		out = append(out, idx[j])
		idx = append(idx[:j], idx[j+1:]...)
	}
	return out
}

func (w *world) mutationStep(step, n int) {
	r, tp := w.r, w.r.Tape
	sis := w.pickScopes(n)
	muts := make([]*mutation, len(sis))
	sp := w.currentPlan("mutation")
	next := make([]*refState, len(sis))
	snapWriter := false
	for k, si := range sis {
		muts[k] = w.genMutation(si, snapWriter)
		if muts[k].kind == mReplace || (muts[k].kind == mSave && muts[k].st.Snapshot != nil) {
			snapWriter = true
		}
		next[k] = muts[k].applyRef(w.refs[si])
		sp.in[si] = true
		r.Logf("step %d %s: %s", step, w.names[si], muts[k].desc)
	}
	armed := false
	if armDraw := tp.Chance(1, 4); w.cfg.ChunkFail && armDraw {
		for _, m := range muts {
			if m.st.Snapshot != nil && m.kind == mSave || m.kind == mReplace {
				armed = true
			}
		}
		if armed {
			w.mu.Lock()
			w.chunkArmed, w.chunkFired = true, false
			w.mu.Unlock()
			r.Logf("step %d arm snapshot chunk write failure", step)
		}
	}
	crashDraw := tp.Chance(1, 6)
	crash := !w.cfg.NoFaults && crashDraw
	crashP := 0
	crashWant := make([]bool, len(w.scopes))
	if crashDraw {
		crashP = tp.Intn(2) // preference 0: power loss (p=0), 1: process kill (p=100)
		for _, si := range sis {
			crashWant[si] = tp.Intn(2) == 1 // should the in-flight mutation survive the crash?
		}
	}
	syncs0 := w.walSyncs
	errs := make([]error, len(sis))
	w.crashStep = crash
	w.begin(sp)
	var wg sync.WaitGroup
	for k := range sis {
		wg.Add(1)
		k := k
		st := w.db.For(w.scopes[sis[k]])
		go func() {
			defer wg.Done()
			err := muts[k].call(st)
			w.mu.Lock()
			errs[k] = err
			w.stepDone[sis[k]] = true
			w.mu.Unlock()
		}()
		synctest.Wait() // deterministic arrival order at the group writer
	}
	wg.Wait()
	caps := w.end()
	w.mu.Lock()
	fired := w.chunkFired
	w.chunkArmed, w.chunkFired = false, false
	w.mu.Unlock()
	if fired {
		r.Fault("snapshot_chunk_write_error")
	}

	// results
	failedOps := 0
	for k, si := range sis {
		m := muts[k]
		if errs[k] != nil {
			failedOps++
			r.Logf("step %d %s -> error %v", step, w.names[si], errs[k])
			if !(fired && strings.Contains(errs[k].Error(), errInjectedChunk.Error())) {
				sig := "other"
				if m.diverged {
					sig = "diverged-install"
				}
				r.FailSig("save-rejected", sig, fmt.Sprintf("%s: Raft-valid mutation %q was rejected: %v", w.names[si], m.desc, errs[k]),
					map[string]any{"scope": w.names[si], "mutation": m.desc})
				return
			}
			// the faulted operation may have had no effect or (never expected) full effect
			sp.after[si] = []*cand{sp.before[si][0], mkCand(next[k], "after-failed")}
			continue
		}
		sp.after[si] = []*cand{mkCand(next[k], "after")}
		w.refs[si] = next[k]
		w.goodMuts++
		for _, t := range m.tags {
			r.Probe("op." + t)
			if t == "overwrite" || t == "compact" || t == "install" || t == "replace_snapshot" {
				w.hard = true
			}
		}
	}
	if len(sis) >= 2 && failedOps == 0 {
		if d := w.walSyncs - syncs0; d < len(sis) {
			r.Probe("group_batch_shared_sync")
			w.witness = true
		}
		r.Probe("concurrent_step")
	}
	// oracle while open: every scope equals its reference
	for si := range w.scopes {
		var m *mutation
		for k, s := range sis {
			if s == si {
				m = muts[k]
			}
		}
		if !w.checkOpen(si, "read-mismatch", m, step) {
			return
		}
	}
	w.verifyCaps(caps, sp)
	if r.Failed() {
		return
	}
	if crash && len(caps) > 0 {
		cp, v := w.pickCrash(caps, sp, crashWant, crashP)
		if cp != nil {
			w.crashTo(step, cp, v, sp)
		}
	}
}

func (w *world) checkOpen(si int, class string, m *mutation, step int) bool {
	ref := w.refs[si]
	st := w.db.For(w.scopes[si])
	got, want := observe(st, step+si), ref.expected()
	if mm := mismatch(got, want); len(mm) > 0 {
		sig := mm[0]
		if m != nil && m.diverged {
			sig = "diverged-install:" + sig
		}
		desc := ""
		if m != nil {
			desc = " after " + m.desc
		}
		w.r.FailSig(class, sig, fmt.Sprintf("%s%s: fields %v differ\n got  %s\n want %s", w.names[si], desc, mm, got, want),
			map[string]any{"scope": w.names[si], "fields": mm})
		return false
	}
	return true
}

func (w *world) readStep(step int) {
	r, tp := w.r, w.r.Tape
	si := tp.Intn(len(w.scopes))
	sp := w.currentPlan("read")
	w.begin(sp)
	st := w.db.For(w.scopes[si])
	n := 2 + tp.Intn(4)
	ok := w.probeReads(st, w.refs[si], w.names[si], n, tp.Intn, "range-read")
	caps := w.end()
	r.Logf("step %d %s: %d range reads ok=%v", step, w.names[si], n, ok)
	if !ok {
		return
	}
	if !w.checkOpen(si, "read-mismatch", nil, step) {
		return
	}
	w.verifyCaps(caps, sp)
}

func (w *world) reopenStep(step int) {
	r := w.r
	sp := w.currentPlan("reopen")
	prev := w.opts
	w.redrawOpts()
	w.begin(sp)
	err := w.db.Close()
	w.db = nil
	if err != nil {
		w.end()
		r.Failf("close-failed", "clean Close returned %v", err)
		return
	}
	db, err := w.open(w.wrapLive(), w.snapDir, w.opts)
	if err != nil {
		w.end()
		r.Failf("reopen-failed", "Open after clean Close returned %v", err)
		return
	}
	w.db = db
	caps := w.end()
	r.Logf("step %d clean close + reopen with %s", step, w.opts)
	r.Probe("reopen_clean")
	w.probeOpts(prev)
	w.witness = true
	for si := range w.scopes {
		if !w.checkOpen(si, "reopen-mismatch", nil, step) {
			return
		}
	}
	w.verifyCaps(caps, sp)
}

// ---------------------------------------------------------------- crash verification

func (sp *stepPlan) candidates(cp *capture, si int) []*cand {
	if !sp.in[si] || sp.after[si] == nil {
		return sp.before[si]
	}
	if si < len(cp.done) && cp.done[si] {
		return sp.after[si]
	}
	out := append([]*cand{}, sp.before[si]...)
	for _, c := range sp.after[si] {
		dup := false
		for _, b := range out {
			if b == c {
				dup = true
			}
		}
		if !dup {
			out = append(out, c)
		}
	}
	return out
}

type variant struct {
	p  int
	fs *vfs.MemFS
}

func (cp *capture) variants() []variant {
	vs := []variant{{0, cp.c0}, {100, cp.c100}}
	if cp.c50 != nil {
		vs = append(vs, variant{50, cp.c50})
	}
	return vs
}

func (w *world) verifyCaps(caps []*capture, sp *stepPlan) {
	if w.cfg.NoFaults || len(caps) == 0 || skipCrashVerify {
		return
	}
	w.r.ProbeN("crash_points_captured", len(caps))
	for _, cp := range caps {
		for _, v := range cp.variants() {
			if w.r.Failed() || w.r.InfraErr != "" {
				return
			}
			w.verifyOne(cp, v, sp, false)
		}
	}
}

func candSig(cs []*cand) string {
	var sb strings.Builder
	for _, c := range cs {
		sb.WriteString(c.exp.String())
		sb.WriteString("|")
	}
	return sb.String()
}

// verifyOne reopens one crash clone and compares every scope with the states
// the crash may leave. force bypasses de-duplication and the budget (used when
// the history is about to continue on that clone). It returns the matched
// candidate tag per scope, or nil when the clone was skipped or rejected.
func (w *world) verifyOne(cp *capture, v variant, sp *stepPlan, force bool) []string {
	r := w.r
	if tags, ok := cp.outcome[v.p]; ok {
		return tags
	}
	key := fsSig(v.fs, "/") ^ (cp.dir.sig() * 1099511628211)
	for si := range w.scopes {
		key = key*31 + strHash(candSig(sp.candidates(cp, si)))
	}
	if !force {
		if w.seen[key] {
			r.Probe("crash_points_identical_state_skipped")
			return nil
		}
		if w.verifs >= w.cfg.MaxVerifs {
			// beyond the budget: one in four, and nothing beyond twice the budget
			if w.verifs >= 2*w.cfg.MaxVerifs || w.rng.IntN(4) != 0 {
				r.Probe("crash_points_sampled_out")
				return nil
			}
		}
	}
	w.seen[key] = true
	w.verifs++
	fs := v.fs.CrashClone(vfs.CrashCloneCfg{UnsyncedDataPercent: 100, RNG: w.rng})
	dir := w.newTmpDir()
	if !cp.dir.empty() { // an absent snapshot root is what a DB without snapshots has anyway
		if err := cp.dir.materialise(dir); err != nil {
			r.Infra("materialise snapshot dir: %v", err)
			return nil
		}
		defer os.RemoveAll(dir)
	}
	vo := w.verifyOpts(v.p)
	w.lastVerifyOpts, w.lastCrashedOpts = vo, w.opts
	if vo.chunk != w.opts.chunk {
		r.Probe("crash_reopen_other_chunk_size")
	}
	db, err := w.open(fs, dir, vo)
	if err != nil && v.p == 50 && strings.Contains(err.Error(), "pebble") {
		// Pebble itself refused a torn clone (e.g. a new manifest marker whose
		// unsynced directory entry survived while the manifest's did not).
		// That is Pebble's recovery over MemFS's independent-directory-entry
		// model, part of the trusted base here, not raftlog behaviour.
		r.Probe("torn_clone_rejected_by_pebble_open")
		if os.Getenv("RLS_DEBUG") != "" {
			fmt.Fprintf(os.Stderr, "DEBUG torn reject at %q during %s: %v\n", cp.label, sp.name, err)
		}
		return nil
	}
	if err != nil {
		r.FailSig("crash-open-failed", sp.name, fmt.Sprintf("Open failed after crash at %q (p=%d, during %s): %v", cp.label, v.p, sp.name, err),
			map[string]any{"crash_point": cp.label, "p": v.p})
		return nil
	}
	defer func() {
		_ = db.Close()
		synctest.Wait()
	}()
	r.Probe("crash_points_reopened")
	r.Probe("crash_points_reopened.during_" + sp.name)
	r.Probe(fmt.Sprintf("crash_reopen_p%d", v.p))
	r.Fault(fmt.Sprintf("crash_clone_p%d", v.p))
	w.witness = true
	tags := make([]string, len(w.scopes))
	for si := range w.scopes {
		st := db.For(w.scopes[si])
		m := w.matchScope(st, sp.candidates(cp, si), si, w.verifs+si)
		if m == nil {
			w.failCrash(cp, v, sp, si, st)
			return nil
		}
		tags[si] = m.tag
		if sp.in[si] && sp.after[si] != nil && !(si < len(cp.done) && cp.done[si]) {
			r.Probe("crash_inflight_" + m.tag)
		}
		if !w.probeReads(st, m.ref, w.names[si], 2, w.rng.IntN, "crash-range-read") {
			return nil
		}
	}
	if cp.outcome == nil {
		cp.outcome = map[int][]string{}
	}
	cp.outcome[v.p] = tags
	return tags
}

// pickCrash chooses the crash the history continues on: the first anchor crash
// point (WAL write/sync, snapshot chunk write, step boundary - the calls the
// foreground commit itself makes, so their sequence does not depend on how
// Pebble's background work interleaves) and the first of p=0 / p=100 whose
// recovered state is the one the tape asked for (per in-flight mutation:
// survives or not). Without such a crash point the step boundary is used.
func (w *world) pickCrash(caps []*capture, sp *stepPlan, want []bool, pPref int) (*capture, variant) {
	for _, cp := range caps {
		if !cp.anchor {
			continue
		}
		vs := []variant{{0, cp.c0}, {100, cp.c100}}
		if pPref == 1 {
			vs[0], vs[1] = vs[1], vs[0]
		}
		for _, v := range vs {
			tags := w.verifyOne(cp, v, sp, true)
			if w.r.Failed() || w.r.InfraErr != "" {
				return nil, variant{}
			}
			if tags == nil {
				continue
			}
			ok := true
			for si := range w.scopes {
				if !sp.in[si] {
					continue
				}
				if (tags[si] != "current") != want[si] {
					ok = false
				}
			}
			if ok {
				return cp, v
			}
		}
	}
	last := caps[len(caps)-1]
	return last, variant{100, last.c100}
}

func strHash(s string) uint64 {
	h := uint64(1469598103934665603)
	for i := 0; i < len(s); i++ {
		h = (h ^ uint64(s[i])) * 1099511628211
	}
	return h
}

func (w *world) matchScope(st multiraft.Storage, cs []*cand, si, order int) *cand {
	got := observe(st, order)
	for _, c := range cs {
		if len(mismatch(got, c.exp)) == 0 {
			return c
		}
	}
	return nil
}

func (w *world) failCrash(cp *capture, v variant, sp *stepPlan, si int, st multiraft.Storage) {
	got := observe(st, 0)
	cs := sp.candidates(cp, si)
	best, bestMM := cs[0], mismatch(got, cs[0].exp)
	for _, c := range cs[1:] {
		if mm := mismatch(got, c.exp); len(mm) < len(bestMM) {
			best, bestMM = c, mm
		}
	}
	acked := si < len(cp.done) && cp.done[si] || !sp.in[si]
	var sb strings.Builder
	fmt.Fprintf(&sb, "%s after crash at %q (p=%d, during %s, mutation returned before crash=%v): state matches no allowed prefix; closest %q differs in %v\n got  %s\n",
		w.names[si], cp.label, v.p, sp.name, acked, best.tag, bestMM, got)
	for _, c := range cs {
		fmt.Fprintf(&sb, " allowed[%s] %s\n", c.tag, c.exp)
	}
	fmt.Fprintf(&sb, " reopened with %s (before the crash: %s)\n snapshot dir: %s", w.lastVerifyOpts, w.lastCrashedOpts, cp.dir.describe())
	sig := bestMM[0]
	if strings.HasPrefix(got.vals[0], "ERR(") || strings.HasPrefix(got.vals[6], "ERR(") {
		sig = "read-error"
	}
	w.r.FailSig("crash-mismatch", sig, sb.String(), map[string]any{"scope": w.names[si], "crash_point": cp.label, "p": v.p, "fields": bestMM})
}

// crashTo abandons the live DB and continues the history on a crash clone.
// The history only continues on the bit-reproducible clones (p=0 / p=100);
// torn clones are compared in verifyOne but never become the live disk.
func (w *world) crashTo(step int, cp *capture, v variant, orig *stepPlan) {
	r := w.r
	_ = w.db.Close() // against the abandoned file system
	w.db = nil
	synctest.Wait()
	_ = os.RemoveAll(w.snapDir)
	w.liveFS = v.fs.CrashClone(vfs.CrashCloneCfg{UnsyncedDataPercent: 100, RNG: w.rng})
	w.snapDir = w.newTmpDir()
	w.lastDir = nil
	if err := cp.dir.materialise(w.snapDir); err != nil {
		r.Infra("materialise snapshot dir: %v", err)
		return
	}
	sp := &stepPlan{name: "recovery", in: make([]bool, len(w.scopes)), before: make([][]*cand, len(w.scopes)), after: make([][]*cand, len(w.scopes))}
	for si := range w.scopes {
		sp.before[si] = orig.candidates(cp, si)
	}
	prev := w.opts
	w.redrawOpts() // the restarted process may come up with other options
	w.lastVerifyOpts, w.lastCrashedOpts = w.opts, prev
	w.begin(sp)
	db, err := w.open(w.wrapLive(), w.snapDir, w.opts)
	if err != nil {
		w.end()
		r.FailSig("crash-open-failed", "continue", fmt.Sprintf("Open failed after crash at %q (p=%d, options %s): %v", cp.label, v.p, w.opts, err), nil)
		return
	}
	w.probeOpts(prev)
	w.db = db
	matched := make([]*cand, len(w.scopes))
	for si := range w.scopes {
		st := db.For(w.scopes[si])
		m := w.matchScope(st, sp.before[si], si, step+si)
		if m == nil {
			w.end()
			w.failCrash(cp, v, sp, si, st)
			return
		}
		matched[si] = m
	}
	caps := w.end()
	tags := make([]string, len(matched))
	for si, m := range matched {
		w.refs[si] = m.ref.clone()
		tags[si] = m.tag
		// from now on only the recovered state is allowed for this scope
		sp.before[si] = []*cand{m}
	}
	w.crashed++
	r.Fault("crash_continue")
	r.Probe(fmt.Sprintf("crash_continue_p%d", v.p))
	r.Logf("step %d CRASH p=%d recovered=%v restarted with %s", step, v.p, tags, w.opts)
	w.verifyCaps(caps, sp)
}

// ---------------------------------------------------------------- range reads

func (w *world) probeReads(st multiraft.Storage, ref *refState, name string, n int, draw func(int) int, class string) bool {
	ctx := context.Background()
	r := w.r
	f, l := ref.first(), ref.last()
	a := uint64(0)
	if f > 2 {
		a = f - 2
	}
	b := l + 3
	held := ref.ents()
	at := func(i uint64) (raftpb.Entry, bool) {
		if i < f || i > l || len(held) == 0 {
			return raftpb.Entry{}, false
		}
		return held[i-held[0].Index], true
	}
	for k := 0; k < n; k++ {
		lo := a + uint64(draw(int(b-a+1)))
		hi := lo + uint64(draw(int(b-lo+2)))
		var maxSize uint64
		switch draw(5) {
		case 1:
			maxSize = 1
		case 2:
			if e, ok := at(max(lo, f)); ok {
				maxSize = uint64(e.Size()) + 1
			}
		case 3:
			maxSize = 64
		case 4:
			maxSize = 1 << 20
		}
		got, err := st.Entries(ctx, lo, hi, maxSize)
		inRange := lo >= f && hi <= l+1
		if inRange {
			var want []raftpb.Entry
			if hi > lo {
				lim := maxSize
				if lim == 0 {
					lim = math.MaxUint64
				}
				want, _ = ref.ms.Entries(lo, hi, lim)
			}
			if err != nil || entsString(got) != entsString(want) {
				r.FailSig(class, "entries", fmt.Sprintf("%s Entries(%d,%d,max=%d) = %s err=%v, reference %s (first=%d last=%d)", name, lo, hi, maxSize, entsString(got), err, entsString(want), f, l),
					map[string]any{"scope": name})
				return false
			}
			r.Probe("read.entries_in_range")
		} else if err == nil {
			prev := uint64(0)
			for i, e := range got {
				want, ok := at(e.Index)
				sig := ""
				switch {
				case e.Index < f:
					sig = "entries-below-compaction-point"
				case !ok:
					sig = "entries-not-held"
				case !entEqual(e, want):
					sig = "entries-content"
				case e.Index < lo || e.Index >= hi && hi > 0:
					sig = "entries-outside-request"
				case i > 0 && e.Index != prev+1:
					sig = "entries-gap"
				}
				if sig != "" {
					r.FailSig(class, sig, fmt.Sprintf("%s Entries(%d,%d,max=%d) = %s but reference holds [%d,%d]", name, lo, hi, maxSize, entsString(got), f, l),
						map[string]any{"scope": name})
					return false
				}
				prev = e.Index
			}
			if lo < f {
				r.Probe("read.entries_below_first")
			} else {
				r.Probe("read.entries_above_last")
			}
		}
		i := a + uint64(draw(int(b-a+1)))
		t, terr := st.Term(ctx, i)
		if want, ok := ref.term(i); ok {
			if terr != nil || t != want {
				r.FailSig(class, "term", fmt.Sprintf("%s Term(%d) = %d err=%v, reference %d", name, i, t, terr, want), map[string]any{"scope": name})
				return false
			}
		} else {
			if terr == nil && t != 0 {
				r.FailSig(class, "term-not-held", fmt.Sprintf("%s Term(%d) = %d but the reference does not hold that index (first=%d last=%d snapshot=%d)", name, i, t, f, l, ref.snapIndex()),
					map[string]any{"scope": name})
				return false
			}
			r.Probe("read.term_not_held")
		}
	}
	return true
}
