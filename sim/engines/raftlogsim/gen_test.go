package raftlogsim

import (
	"context"
	"fmt"

	"github.com/WuKongIM/WuKongIM/pkg/slot/multiraft"
	"go.etcd.io/raft/v3/raftpb"
)

// fillBytes derives n bytes from ONE tape draw (keeps tapes short).
func (w *world) fillBytes(n int) []byte {
	if n <= 0 {
		return nil
	}
	x := uint64(w.r.Tape.Intn(1<<30)) + 1
	b := make([]byte, n)
	for i := range b {
		x += 0x9e3779b97f4a7c15
		z := x
		z = (z ^ (z >> 30)) * 0xbf58476d1ce4e5b9
		z = (z ^ (z >> 27)) * 0x94d049bb133111eb
		b[i] = byte(z ^ (z >> 31))
	}
	return b
}

func (w *world) dataSize() int {
	tp := w.r.Tape
	switch tp.Weighted([]int{4, 3, 1, 1}) {
	case 0:
		return 1 + tp.Intn(8)
	case 1:
		return 8 + tp.Intn(40)
	case 2:
		return 0
	default:
		if w.cfg.BigData {
			return 1500 + tp.Intn(5000)
		}
		return 60 + tp.Intn(100)
	}
}

// genConfChange proposes a membership change that is valid on top of the
// membership reached at the end of chain; ok=false when the proposal is invalid.
func (w *world) genConfChange(base raftpb.ConfState, baseIdx uint64, chain []raftpb.Entry, idx, term uint64) (raftpb.Entry, bool) {
	tp := w.r.Tape
	id := uint64(1 + tp.Intn(5))
	e := raftpb.Entry{Index: idx, Term: term}
	var err error
	switch tp.Intn(7) {
	case 0, 1:
		e.Type = raftpb.EntryConfChange
		e.Data, err = (&raftpb.ConfChange{Type: raftpb.ConfChangeAddNode, NodeID: id}).Marshal()
	case 2:
		e.Type = raftpb.EntryConfChange
		e.Data, err = (&raftpb.ConfChange{Type: raftpb.ConfChangeRemoveNode, NodeID: id}).Marshal()
	case 3:
		e.Type = raftpb.EntryConfChange
		e.Data, err = (&raftpb.ConfChange{Type: raftpb.ConfChangeAddLearnerNode, NodeID: id}).Marshal()
	case 4:
		e.Type = raftpb.EntryConfChangeV2
		e.Data, err = (&raftpb.ConfChangeV2{Changes: []raftpb.ConfChangeSingle{{Type: raftpb.ConfChangeAddNode, NodeID: id}}}).Marshal()
	case 5:
		id2 := uint64(1 + tp.Intn(5))
		tr := []raftpb.ConfChangeTransition{raftpb.ConfChangeTransitionAuto, raftpb.ConfChangeTransitionJointExplicit, raftpb.ConfChangeTransitionJointImplicit}[tp.Intn(3)]
		e.Type = raftpb.EntryConfChangeV2
		e.Data, err = (&raftpb.ConfChangeV2{Transition: tr, Changes: []raftpb.ConfChangeSingle{
			{Type: raftpb.ConfChangeAddNode, NodeID: id}, {Type: raftpb.ConfChangeRemoveNode, NodeID: id2}}}).Marshal()
	default:
		e.Type = raftpb.EntryConfChangeV2 // leave joint (empty payload, as raft's auto-leave proposes it)
		e.Data = nil
	}
	if err != nil {
		return raftpb.Entry{}, false
	}
	if _, ferr := foldConf(base, baseIdx, append(append([]raftpb.Entry{}, chain...), e), idx); ferr != nil {
		return raftpb.Entry{}, false
	}
	return e, true
}

// genEntries builds n entries starting at firstNew (replacing any reference
// entries from firstNew on), all of the given term.
func (w *world) genEntries(ref *refState, base raftpb.Snapshot, keep []raftpb.Entry, firstNew uint64, n int, term uint64) ([]raftpb.Entry, bool) {
	tp := w.r.Tape
	chain := []raftpb.Entry{}
	for _, e := range keep {
		if e.Index < firstNew {
			chain = append(chain, e)
		}
	}
	out := []raftpb.Entry{}
	conf := false
	for i := 0; i < n; i++ {
		idx := firstNew + uint64(i)
		e := raftpb.Entry{Index: idx, Term: term, Type: raftpb.EntryNormal}
		made := false
		if tp.Intn(w.cfg.ConfBias) == w.cfg.ConfBias-1 {
			if ce, ok := w.genConfChange(base.Metadata.ConfState, base.Metadata.Index, chain, idx, term); ok {
				e, made, conf = ce, true, true
			}
		}
		if !made {
			e.Data = w.fillBytes(w.dataSize())
		}
		chain = append(chain, e)
		out = append(out, e)
	}
	return out, conf
}

func hsString(h *raftpb.HardState) string {
	if h == nil {
		return "-"
	}
	return fmt.Sprintf("{t%d v%d c%d}", h.Term, h.Vote, h.Commit)
}

func (w *world) genCS() raftpb.ConfState {
	tp := w.r.Tape
	cs := raftpb.ConfState{}
	mask := 1 + tp.Intn(31)
	for id := uint64(1); id <= 5; id++ {
		if mask&(1<<(id-1)) != 0 {
			cs.Voters = append(cs.Voters, id)
		} else if tp.Intn(4) == 3 {
			cs.Learners = append(cs.Learners, id)
		}
	}
	return cs
}

func (w *world) snapData() []byte {
	tp := w.r.Tape
	n := 0
	switch tp.Weighted([]int{3, 3, 1, 1}) {
	case 0:
		n = 1 + tp.Intn(12)
	case 1:
		n = 10 + tp.Intn(60)
	case 2:
		return nil
	default:
		if w.cfg.BigData {
			n = 2000 + tp.Intn(6000)
		} else {
			n = 100 + tp.Intn(200)
		}
	}
	// at most 24 chunk files per snapshot (each is a real file on a tmpfs)
	if lim := 24*w.effChunk() - 1; uint64(n) > lim {
		n = int(lim)
	}
	return w.fillBytes(n)
}

// genMutation draws one Raft-valid mutation for scope si from the tape. With
// noSnap no snapshot-writing mutation is produced: publishSnapshotAndCommit
// holds DB.snapshotLifecycleMu (a sync.Mutex) across the group commit, so a
// second snapshot writer in the same step would block non-durably and the
// bubble's fake clock (the batch timer) could never advance.
func (w *world) genMutation(si int, noSnap bool) *mutation {
	tp := w.r.Tape
	ref := w.refs[si]
	hs := ref.hs()
	first, last, snapIdx := ref.first(), ref.last(), ref.snapIndex()
	_ = first
	wInstall := w.cfg.WInstall
	if w.cfg.Diverged && last > hs.Commit {
		wInstall += 2 // an uncommitted suffix is what a conflicting leader snapshot must drop
	}
	kind := tp.Weighted([]int{8, 3, 5, w.cfg.WOverwrite, w.cfg.WCompact, wInstall, 1, w.cfg.WReplace, 1})
	if noSnap && (kind == 4 || kind == 5 || kind == 7) {
		kind = 0
	}
	curTerm := max(hs.Term, ref.lastTerm(), 1)
	vote := func(term uint64) uint64 {
		if term == hs.Term && hs.Vote != 0 {
			return hs.Vote
		}
		return uint64(tp.Intn(4))
	}
	advance := func(commit, upTo uint64) uint64 {
		if upTo <= commit {
			return commit
		}
		d := upTo - commit
		switch tp.Weighted([]int{2, 3, 2}) {
		case 0:
			return commit
		case 1:
			return upTo
		default:
			return commit + uint64(tp.Intn(int(d)+1))
		}
	}
	appendMut := func() *mutation {
		term := curTerm
		if tp.Chance(1, 6) {
			term++
		}
		n := 1 + tp.Weighted([]int{4, 3, 2, 1})
		if tp.Chance(1, 12) {
			n += 6
		}
		ents, conf := w.genEntries(ref, ref.snap(), ref.ents(), last+1, n, term)
		m := &mutation{kind: mSave, tags: []string{"append"}}
		m.st.Entries = ents
		if term != hs.Term || tp.Intn(2) == 0 {
			h := raftpb.HardState{Term: term, Vote: vote(term), Commit: advance(hs.Commit, last+uint64(n))}
			m.st.HardState = &h
		}
		if conf {
			m.tags = append(m.tags, "append_confchange")
		}
		m.desc = fmt.Sprintf("Save append %s hs=%s", entsString(ents), hsString(m.st.HardState))
		return m
	}
	switch kind {
	case 1: // hard state only
		term := curTerm
		if tp.Chance(1, 4) {
			term++
		}
		h := raftpb.HardState{Term: term, Vote: vote(term), Commit: advance(hs.Commit, last)}
		m := &mutation{kind: mSave, tags: []string{"hardstate"}}
		m.st.HardState = &h
		m.desc = "Save hs=" + hsString(&h)
		return m
	case 2: // MarkApplied
		lo := max(ref.applied+1, snapIdx)
		if lo > hs.Commit {
			return appendMut()
		}
		j := lo + uint64(tp.Intn(int(hs.Commit-lo)+1))
		if tp.Intn(2) == 0 {
			j = hs.Commit
		}
		return &mutation{kind: mMarkApplied, index: j, desc: fmt.Sprintf("MarkApplied(%d)", j), tags: []string{"mark_applied"}}
	case 3: // conflicting suffix overwrite
		if last <= hs.Commit || last < first {
			return appendMut()
		}
		lo := max(hs.Commit+1, first)
		firstNew := lo + uint64(tp.Intn(int(last-lo)+1))
		term := curTerm + 1
		n := 1 + tp.Weighted([]int{3, 3, 2, 1})
		oldConf := false
		for _, e := range ref.ents() {
			if e.Index >= firstNew && e.Type != raftpb.EntryNormal {
				oldConf = true
			}
		}
		ents, conf := w.genEntries(ref, ref.snap(), ref.ents(), firstNew, n, term)
		h := raftpb.HardState{Term: term, Vote: vote(term), Commit: advance(hs.Commit, firstNew+uint64(n)-1)}
		m := &mutation{kind: mSave, tags: []string{"overwrite"}}
		m.st.Entries, m.st.HardState = ents, &h
		if oldConf || conf {
			m.tags = append(m.tags, "overwrite_confchange")
		}
		if firstNew+uint64(n)-1 < last {
			m.tags = append(m.tags, "overwrite_shorter")
		}
		m.desc = fmt.Sprintf("Save overwrite from %d (last was %d) %s hs=%s", firstNew, last, entsString(ents), hsString(&h))
		return m
	case 4: // compaction snapshot at an applied index
		if ref.applied <= snapIdx || ref.applied > last {
			return appendMut()
		}
		i := snapIdx + 1 + uint64(tp.Intn(int(ref.applied-snapIdx)))
		if tp.Intn(2) == 0 {
			i = ref.applied
		}
		t, ok := ref.term(i)
		if !ok {
			return appendMut()
		}
		sn := raftpb.Snapshot{Data: w.snapData(), Metadata: raftpb.SnapshotMetadata{Index: i, Term: t, ConfState: ref.confAt(i)}}
		m := &mutation{kind: mSave, tags: []string{"compact"}}
		m.st.Snapshot = &sn
		m.tagSnap(w, sn)
		m.desc = fmt.Sprintf("Save compaction snapshot {i%d t%d %s data=%s}", i, t, csString(sn.Metadata.ConfState), dataSig(sn.Data))
		return m
	case 5: // snapshot install from a leader
		// over a longer diverged log whenever the run allows it and the log has an
		// uncommitted suffix (three times in four)
		diverged := w.cfg.Diverged && last > hs.Commit && last >= first && tp.Intn(4) != 0
		var i, t uint64
		if diverged {
			lo := max(hs.Commit+1, first)
			i = lo + uint64(tp.Intn(int(last-lo)+1))
			old, _ := ref.term(i)
			t = max(curTerm, old) + 1
		} else {
			i = last + 1 + uint64(tp.Intn(4))
			t = curTerm + uint64(tp.Intn(2))
		}
		sn := raftpb.Snapshot{Data: w.snapData(), Metadata: raftpb.SnapshotMetadata{Index: i, Term: t, ConfState: w.genCS()}}
		m := &mutation{kind: mSave, install: true, diverged: diverged, tags: []string{"install"}}
		m.st.Snapshot = &sn
		commit := i
		term := max(curTerm, t)
		if tp.Intn(3) == 2 {
			n := 1 + tp.Intn(3)
			ents, _ := w.genEntries(ref, sn, nil, i+1, n, term)
			m.st.Entries = ents
			commit = advance(i, i+uint64(n))
			m.tags = append(m.tags, "install_with_entries")
		}
		h := raftpb.HardState{Term: term, Vote: vote(term), Commit: commit}
		m.st.HardState = &h
		if diverged {
			m.tags = append(m.tags, "install_diverged")
			if i < last && len(m.st.Entries) == 0 {
				// entries of the diverged log lie above the snapshot and nothing in
				// this save overwrites them: the storage itself must drop them
				m.tags = append(m.tags, "install_diverged_stale_suffix")
			}
		}
		m.tagSnap(w, sn)
		m.desc = fmt.Sprintf("Save install snapshot {i%d t%d %s data=%s} diverged=%v ents=%s hs=%s", i, t, csString(sn.Metadata.ConfState), dataSig(sn.Data), diverged, entsString(m.st.Entries), hsString(&h))
		return m
	case 6: // MarkConfigApplied
		if ref.applied == 0 {
			return appendMut()
		}
		j := ref.cfgApplied
		if ref.applied > j {
			j += uint64(tp.Intn(int(ref.applied-j) + 1))
		}
		return &mutation{kind: mMarkCfg, index: j, desc: fmt.Sprintf("MarkConfigApplied(%d)", j), tags: []string{"mark_config_applied"}}
	case 7: // ReplaceSnapshot at the durable applied index
		a := ref.applied
		if a == 0 || a < snapIdx || a > last {
			return appendMut()
		}
		t, ok := ref.term(a)
		if !ok || t == 0 {
			return appendMut()
		}
		sn := raftpb.Snapshot{Data: w.snapData(), Metadata: raftpb.SnapshotMetadata{Index: a, Term: t, ConfState: ref.confAt(a)}}
		m := &mutation{kind: mReplace, snap: sn, tags: []string{"replace_snapshot"}}
		if a == snapIdx {
			m.tags = append(m.tags, "replace_same_index")
		}
		m.tagSnap(w, sn)
		m.desc = fmt.Sprintf("ReplaceSnapshot {i%d t%d %s data=%s}", a, t, csString(sn.Metadata.ConfState), dataSig(sn.Data))
		return m
	case 8: // idempotent re-save of the current snapshot
		if snapIdx == 0 {
			return appendMut()
		}
		sn := cloneSnap(ref.snap())
		m := &mutation{kind: mSave, tags: []string{"resave_same_snapshot"}}
		m.st.Snapshot = &sn
		m.desc = fmt.Sprintf("Save same snapshot again {i%d t%d}", sn.Metadata.Index, sn.Metadata.Term)
		return m
	}
	return appendMut()
}

func (m *mutation) tagSnap(w *world, sn raftpb.Snapshot) {
	switch {
	case len(sn.Data) == 0:
		m.tags = append(m.tags, "snapshot_empty_payload")
	case uint64(len(sn.Data)) > w.effChunk():
		m.tags = append(m.tags, "snapshot_multi_chunk")
	}
}

func must(err error, what string) {
	if err != nil {
		panic("reference model: " + what + ": " + err.Error())
	}
}

// applyRef returns the reference state after the mutation (s is not modified).
func (m *mutation) applyRef(s *refState) *refState {
	n := s.clone()
	switch m.kind {
	case mSave:
		if m.st.Snapshot != nil {
			sn := cloneSnap(*m.st.Snapshot)
			if m.install {
				must(n.ms.ApplySnapshot(sn), "ApplySnapshot")
			} else if sn.Metadata.Index > n.snapIndex() {
				cs := sn.Metadata.ConfState
				_, err := n.ms.CreateSnapshot(sn.Metadata.Index, &cs, sn.Data)
				must(err, "CreateSnapshot")
				must(n.ms.Compact(sn.Metadata.Index), "Compact")
			}
		}
		if len(m.st.Entries) > 0 {
			must(n.ms.Append(cloneEnts(m.st.Entries)), "Append")
		}
		if m.st.HardState != nil {
			must(n.ms.SetHardState(*m.st.HardState), "SetHardState")
		}
	case mMarkApplied:
		n.applied = m.index
	case mMarkCfg:
		n.cfgApplied = m.index
	case mReplace:
		var keep []raftpb.Entry
		for _, e := range s.ents() {
			if e.Index > m.snap.Metadata.Index {
				keep = append(keep, e)
			}
		}
		n = rebuildRef(m.snap, keep, s.hs(), s.applied, s.cfgApplied)
	}
	return n
}

// call performs the mutation on the real storage (with private copies of every buffer).
func (m *mutation) call(st multiraft.Storage) error {
	ctx := context.Background()
	switch m.kind {
	case mSave:
		ps := multiraft.PersistentState{Entries: cloneEnts(m.st.Entries)}
		if len(ps.Entries) == 0 {
			ps.Entries = nil
		}
		if m.st.HardState != nil {
			h := *m.st.HardState
			ps.HardState = &h
		}
		if m.st.Snapshot != nil {
			sn := cloneSnap(*m.st.Snapshot)
			ps.Snapshot = &sn
		}
		return st.Save(ctx, ps)
	case mMarkApplied:
		return st.MarkApplied(ctx, m.index)
	case mMarkCfg:
		return st.(multiraft.ConfigAppliedIndexStorage).MarkConfigApplied(ctx, m.index)
	case mReplace:
		return st.(multiraft.ExternalSnapshotStorage).ReplaceSnapshot(ctx, cloneSnap(m.snap))
	}
	return nil
}
