package raftlogsim

import (
	"errors"
	"fmt"
	"hash/fnv"
	"io"
	"os"
	"path/filepath"
	"sort"
	"strings"

	"github.com/cockroachdb/pebble/v2/vfs"
)

// simFS wraps the crashable in-memory file system handed to Pebble through
// raftlog.VerifPebbleHook. It numbers every mutating call (create, write,
// sync, rename, remove, link, mkdir, dir-sync) and reports it to the world
// *after* the call completed; the world takes a crash clone there. Reads are
// passed through untouched.
type simFS struct {
	inner *vfs.MemFS
	onOp  func(kind, name string)
}

var _ vfs.FS = (*simFS)(nil)

func (f *simFS) op(kind, name string) {
	if f.onOp != nil {
		f.onOp(kind, f.inner.PathBase(name))
	}
}

func (f *simFS) wrap(fl vfs.File, err error, name string, dir bool) (vfs.File, error) {
	if err != nil {
		return nil, err
	}
	return &simFile{File: fl, fs: f, name: name, dir: dir}, nil
}

func (f *simFS) Create(name string, c vfs.DiskWriteCategory) (vfs.File, error) {
	fl, err := f.inner.Create(name, c)
	f.op("create", name)
	return f.wrap(fl, err, name, false)
}

func (f *simFS) Link(oldname, newname string) error {
	err := f.inner.Link(oldname, newname)
	f.op("link", newname)
	return err
}

func (f *simFS) Open(name string, opts ...vfs.OpenOption) (vfs.File, error) {
	return f.inner.Open(name, opts...)
}

func (f *simFS) OpenReadWrite(name string, c vfs.DiskWriteCategory, opts ...vfs.OpenOption) (vfs.File, error) {
	fl, err := f.inner.OpenReadWrite(name, c, opts...)
	f.op("openrw", name)
	return f.wrap(fl, err, name, false)
}

func (f *simFS) OpenDir(name string) (vfs.File, error) {
	fl, err := f.inner.OpenDir(name)
	return f.wrap(fl, err, name, true)
}

func (f *simFS) Remove(name string) error {
	err := f.inner.Remove(name)
	f.op("remove", name)
	return err
}

func (f *simFS) RemoveAll(name string) error {
	err := f.inner.RemoveAll(name)
	f.op("removeall", name)
	return err
}

func (f *simFS) Rename(oldname, newname string) error {
	err := f.inner.Rename(oldname, newname)
	f.op("rename", newname)
	return err
}

func (f *simFS) ReuseForWrite(oldname, newname string, c vfs.DiskWriteCategory) (vfs.File, error) {
	fl, err := f.inner.ReuseForWrite(oldname, newname, c)
	f.op("reuse", newname)
	return f.wrap(fl, err, newname, false)
}

func (f *simFS) MkdirAll(dir string, perm os.FileMode) error {
	err := f.inner.MkdirAll(dir, perm)
	f.op("mkdir", dir)
	return err
}

func (f *simFS) Lock(name string) (io.Closer, error) {
	c, err := f.inner.Lock(name)
	f.op("lock", name)
	return c, err
}

func (f *simFS) List(dir string) ([]string, error)            { return f.inner.List(dir) }
func (f *simFS) Stat(name string) (vfs.FileInfo, error)       { return f.inner.Stat(name) }
func (f *simFS) PathBase(path string) string                  { return f.inner.PathBase(path) }
func (f *simFS) PathJoin(elem ...string) string               { return f.inner.PathJoin(elem...) }
func (f *simFS) PathDir(path string) string                   { return f.inner.PathDir(path) }
func (f *simFS) GetDiskUsage(p string) (vfs.DiskUsage, error) { return f.inner.GetDiskUsage(p) }
func (f *simFS) Unwrap() vfs.FS                               { return f.inner }

type simFile struct {
	vfs.File
	fs   *simFS
	name string
	dir  bool
}

func (s *simFile) Write(p []byte) (int, error) {
	n, err := s.File.Write(p)
	s.fs.op("write", s.name)
	return n, err
}

func (s *simFile) WriteAt(p []byte, off int64) (int, error) {
	n, err := s.File.WriteAt(p, off)
	s.fs.op("write", s.name)
	return n, err
}

func (s *simFile) syncKind() string {
	if s.dir {
		return "dirsync"
	}
	return "sync"
}

func (s *simFile) Sync() error {
	err := s.File.Sync()
	s.fs.op(s.syncKind(), s.name)
	return err
}

func (s *simFile) SyncData() error {
	err := s.File.SyncData()
	s.fs.op(s.syncKind(), s.name)
	return err
}

func (s *simFile) SyncTo(length int64) (bool, error) {
	full, err := s.File.SyncTo(length)
	s.fs.op(s.syncKind(), s.name)
	return full, err
}

// fsSig hashes the whole content of a (cloned, quiescent) file system.
func fsSig(fs vfs.FS, root string) uint64 {
	h := fnv.New64a()
	var walk func(dir string)
	walk = func(dir string) {
		names, err := fs.List(dir)
		if err != nil {
			fmt.Fprintf(h, "E%s|", dir)
			return
		}
		sort.Strings(names)
		for _, n := range names {
			p := fs.PathJoin(dir, n)
			st, err := fs.Stat(p)
			if err != nil {
				fmt.Fprintf(h, "E%s|", p)
				continue
			}
			if st.IsDir() {
				fmt.Fprintf(h, "D%s|", p)
				walk(p)
				continue
			}
			fmt.Fprintf(h, "F%s:%d|", p, st.Size())
			fl, err := fs.Open(p)
			if err != nil {
				continue
			}
			buf := make([]byte, st.Size())
			if len(buf) > 0 {
				_, _ = fl.ReadAt(buf, 0)
			}
			_ = fl.Close()
			h.Write(buf)
		}
	}
	walk(root)
	return h.Sum64()
}

// dirTree is an in-memory copy of the (real, OS-level) snapshot chunk
// directory tree. Chunk files bypass Pebble's VFS, so they get process-kill
// semantics only: a crash keeps exactly what the directory held at that moment.
type dirTree struct {
	dirs  []string          // relative paths, sorted
	files map[string][]byte // relative path -> content
}

// readDirTree copies the tree under root. Chunk files are created with O_EXCL
// and never rewritten, so a file whose size equals the copy in prev is taken
// from prev instead of being read again.
func readDirTree(root string, prev *dirTree) *dirTree {
	t := &dirTree{files: map[string][]byte{}}
	var walk func(rel string)
	walk = func(rel string) {
		ents, err := os.ReadDir(filepath.Join(root, rel))
		if err != nil {
			return // vanished concurrently (GC / cleanup): a legal process-kill view
		}
		for _, e := range ents {
			p := filepath.Join(rel, e.Name())
			if e.IsDir() {
				t.dirs = append(t.dirs, p)
				walk(p)
				continue
			}
			if prev != nil {
				if old, ok := prev.files[p]; ok {
					if info, err := e.Info(); err == nil && info.Size() == int64(len(old)) {
						t.files[p] = old
						continue
					}
				}
			}
			b, err := os.ReadFile(filepath.Join(root, p))
			if err != nil {
				continue
			}
			t.files[p] = b
		}
	}
	walk("")
	sort.Strings(t.dirs)
	return t
}

func (t *dirTree) empty() bool { return len(t.dirs) == 0 && len(t.files) == 0 }

func (t *dirTree) sig() uint64 {
	h := fnv.New64a()
	for _, d := range t.dirs {
		fmt.Fprintf(h, "D%s|", d)
	}
	names := make([]string, 0, len(t.files))
	for n := range t.files {
		names = append(names, n)
	}
	sort.Strings(names)
	for _, n := range names {
		fmt.Fprintf(h, "F%s:%d|", n, len(t.files[n]))
		h.Write(t.files[n])
	}
	return h.Sum64()
}

func (t *dirTree) materialise(dst string) error {
	if err := os.MkdirAll(dst, 0o755); err != nil {
		return err
	}
	for _, d := range t.dirs {
		if err := os.MkdirAll(filepath.Join(dst, d), 0o755); err != nil {
			return err
		}
	}
	for n, b := range t.files {
		if err := os.MkdirAll(filepath.Dir(filepath.Join(dst, n)), 0o755); err != nil {
			return err
		}
		if err := os.WriteFile(filepath.Join(dst, n), b, 0o600); err != nil {
			return err
		}
	}
	return nil
}

func (t *dirTree) describe() string {
	var sb strings.Builder
	for _, d := range t.dirs {
		sb.WriteString(d + "/ ")
	}
	names := make([]string, 0, len(t.files))
	for n := range t.files {
		names = append(names, n)
	}
	sort.Strings(names)
	for _, n := range names {
		fmt.Fprintf(&sb, "%s(%d) ", n, len(t.files[n]))
	}
	return sb.String()
}

var errInjectedChunk = errors.New("raftlogsim: injected snapshot chunk write failure")

// writeChunkFile is the harness replacement for raftlog's writeSyncedFile
// (same O_EXCL semantics; the fsync is dropped because chunk files only get
// process-kill semantics here). mid is called when half of the data is written.
func writeChunkFile(path string, data []byte, mid func()) error {
	file, err := os.OpenFile(path, os.O_WRONLY|os.O_CREATE|os.O_EXCL, 0o600)
	if err != nil {
		return err
	}
	half := len(data) / 2
	_, werr := file.Write(data[:half])
	if werr == nil && mid != nil && half > 0 {
		mid()
	}
	if werr == nil {
		_, werr = file.Write(data[half:])
	}
	cerr := file.Close()
	if werr != nil {
		return werr
	}
	return cerr
}
