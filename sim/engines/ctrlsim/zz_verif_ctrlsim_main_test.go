package raft

// Engine ctrlsim: Controller state machine (C18) and Controller state file (C19).
// White-box in pkg/controller/raft because the apply scheduler is unexported;
// everything else is used through exported APIs.

import (
	"fmt"
	"os"
	"testing"

	"github.com/WuKongIM/WuKongIM/internal/verifsim/simkit"
)

// vsTraced prints every trace line of every run when VERIF_CTRLSIM_TRACE is set
// (development aid for search mode; replay mode has VERIF_VERBOSE=1).
func vsTraced(fn simkit.PropFunc) simkit.PropFunc {
	if os.Getenv("VERIF_CTRLSIM_TRACE") == "" {
		return fn
	}
	return func(t *testing.T, r *simkit.Run) {
		fn(t, r)
		fmt.Printf("=== run %d config %v\n", r.Index, r.Config)
		for _, l := range r.Trace() {
			fmt.Println(l)
		}
	}
}

func TestVerifSimCtrl(t *testing.T) {
	simkit.Main(t, simkit.Engine{
		Name: "ctrlsim",
		Props: map[string]simkit.PropFunc{
			"C18": vsTraced(runC18),
			"C19": vsTraced(runC19),
		},
		Real: []string{
			"controller/command codec (Encode/Decode of every command)",
			"controller/fsm.StateMachine (ApplyBatch, Load, Restore, Snapshot; every mutation handler and guard)",
			"controller/state (Normalize, Validate, Checksum, Encode, Decode)",
			"controller/raft applyScheduler (applyJob/applyEntries: batching by MaxEntries/MaxBytes, empty and conf-change entries, snapshot install, completions, task-transition notifications), driven synchronously as Service.recoverStartup does",
			"controller/statefile.Store (Save, Load) on real OS files under /root/scratch/ctrlsim",
		},
		Stub: []string{
			"raft log and applied marker (a recording marker that can fail once; entries are handed to the scheduler directly)",
			"C18 reference lineage uses a memory fsm.Store with the same state codec; batched and restarted lineages use the real state file",
			"C19 power loss: the disk after the crash is constructed by the harness from the directory captured at the crash point (unsynced temp content -> prefix / zero tail / empty; directory operations durable only after the directory fsync)",
		},
		Rule: "C18: one run = one tape-generated log of 4-36 raft entries (all 15 command kinds + unknown kind + verbatim repeats; valid / stale-fence / invalid variants; empty and conf-change entries) applied " +
			"(a) one entry at a time, (b) through the real apply scheduler under tape-chosen job splits and MaxEntries/MaxBytes, (c) the same with up to 3 restarts (clean stop, applied-marker error, save error, process kill captured at a crash point of Save, snapshot install on an empty disk - of a prefix state, of a compactLogAt-shaped one with the applied index advanced, or of one built by a manual compaction racing the scheduler between publish and applied-marker update so that the embedded state is ahead of the snapshot's metadata index) and re-delivery from a tape-chosen earlier index. " +
			"Non-trivial = at least 3 state-changing commands after init, at least one multi-command batch in (b), and (when faults are on, 3 runs in 4) at least one restart. " +
			"C19: one run = one (previous | none, new) pair of valid states produced by the real state machine, each handed to Save either as published (tape value 0) or as a read-modify-write caller would (checksum unset; applied index / revision / node / health report changed with the old checksum still in the struct; a foreign or garbage checksum), compared by logical content with the loaded checksum validated against that content; a compaction-style Encode (applied index advanced on a loaded state) must Decode; real Save with all 6 crash points captured, every site x {kill, power loss variants} materialised and loaded, a later Save+Load on crashed disks, then 6-15 corruptions of the saved file. " +
			"Non-trivial = all six crash sites reached and enumerated. One run in four has no faults (plain save/load chain).",
		Assumptions: []string{
			"POSIX crash model used for power loss: file data durable after fsync of the file, directory entries (create, rename) durable after fsync of the directory, rename atomic, unsynced file data may be any prefix, empty, or a zero-filled tail",
			"process kill = directory content as seen through the page cache at the crash point (copied file by file)",
			"the crash-point hook (build tag verif) marks the positions between system calls faithfully; durability flags are derived from the order in which sites are actually reached, not from their names",
			"commands reach the state machine only through command.Decode(command.Encode(cmd)), as in production",
		},
	})
}
