package raft

// Tape-driven generator of Controller commands (all kinds; valid, stale and
// invalid variants). The generator is adaptive: it looks at the state the
// reference lineage has reached so that fences (revision, attempt, epoch,
// phase) can be made to match or to be stale on purpose.

import (
	"fmt"
	"strings"
	"time"

	"github.com/WuKongIM/WuKongIM/internal/verifsim/simkit"
	"github.com/WuKongIM/WuKongIM/pkg/controller/command"
	"github.com/WuKongIM/WuKongIM/pkg/controller/state"
)

const (
	vsVarValid   = 0
	vsVarStale   = 1
	vsVarInvalid = 2
)

var vsVariantNames = []string{"valid", "stale", "invalid"}

// vsMeta is what the generator knows about a command it produced.
type vsMeta struct {
	kind    string
	variant string
	// stale: the command carries a fence (expected revision, task attempt,
	// config epoch, phase index, participant attempt, previous voter set) that
	// deliberately does not match the current state; it must never change state.
	stale bool
	note  string
}

type vsGen struct {
	t       *simkit.Tape
	clock   int64
	seq     int
	initCmd *command.Command
	log     []command.Command
	logMeta []vsMeta
	wKind   []int
	wVar    []int
	bigOK   bool
	burst    bool
	lastKind int
}

var vsKinds = []command.Kind{
	command.KindReportNodeHealth, // index 0: benign default once initialised
	command.KindInitClusterState,
	command.KindUpsertNode,
	command.KindUpdateControllerVoters,
	command.KindPromoteControllerVoter,
	command.KindReplaceHashSlotTable,
	command.KindReplaceScheduledBackupState,
	command.KindReplaceOpsMCPState,
	command.KindUpsertSlotAssignmentAndTask,
	command.KindUpsertSlotReplicaMoveTask,
	command.KindAdvanceSlotReplicaMovePhase,
	command.KindCommitSlotReplicaMove,
	command.KindCompleteTask,
	command.KindFailTask,
	command.KindReportTaskProgress,
	command.Kind("verif_unknown_kind"),
	command.Kind("verif_repeat"), // pseudo kind: re-issue an earlier command verbatim
}

func vsNewGen(t *simkit.Tape, cfg map[string]any) *vsGen {
	g := &vsGen{t: t}
	g.wKind = make([]int, len(vsKinds))
	for i := range g.wKind {
		g.wKind[i] = []int{2, 1, 4, 0}[t.Intn(4)]
	}
	// node upserts and the task workflow kinds are needed for anything deep to happen
	for _, i := range []int{2, 8, 9, 10, 11, 12, 13, 14} {
		if g.wKind[i] == 0 {
			g.wKind[i] = 2
		}
	}
	g.wVar = []int{[]int{6, 8, 4, 10}[t.Intn(4)], []int{2, 1, 4, 0}[t.Intn(4)], []int{2, 1, 4, 0}[t.Intn(4)]}
	g.bigOK = t.Chance(1, 3)
	g.burst = t.Intn(3) != 0
	g.lastKind = -1
	cfg["bursts"] = g.burst
	cfg["w_kind"] = fmt.Sprint(g.wKind)
	cfg["w_variant"] = fmt.Sprint(g.wVar)
	cfg["big_payloads"] = g.bigOK
	return g
}

// ---- small helpers -------------------------------------------------------

func (g *vsGen) issuedAt() time.Time {
	g.clock += int64(1 + g.t.Intn(5))
	switch g.t.Weighted([]int{5, 1, 2}) {
	case 1:
		return time.Time{}
	case 2:
		return time.Unix(1767225600+g.clock, int64(g.t.Intn(1000))*1000).In(time.FixedZone("", (g.t.Intn(25)-12)*3600))
	}
	return time.Unix(1767225600+g.clock, 0).UTC()
}

func vsAddr(id uint64) string { return fmt.Sprintf("10.0.0.%d:7000", id) }

func (g *vsGen) shuffleU64(in []uint64) []uint64 {
	out := append([]uint64(nil), in...)
	for i := len(out) - 1; i > 0; i-- {
		j := g.t.Intn(i + 1)
		out[i], out[j] = out[j], out[i]
	}
	return out
}

func vsContains(xs []uint64, v uint64) bool {
	for _, x := range xs {
		if x == v {
			return true
		}
	}
	return false
}

func vsReplace(peers []uint64, src, dst uint64) []uint64 {
	out := append([]uint64(nil), peers...)
	for i := range out {
		if out[i] == src {
			out[i] = dst
			break
		}
	}
	return out
}

func vsNodeByID(cur state.ClusterState, id uint64) (state.Node, bool) {
	for _, n := range cur.Nodes {
		if n.NodeID == id {
			return n, true
		}
	}
	return state.Node{}, false
}

func vsDataNodes(cur state.ClusterState, activeOnly bool) []uint64 {
	var out []uint64
	for _, n := range cur.Nodes {
		if !n.HasRole(state.NodeRoleData) {
			continue
		}
		if n.JoinState == state.NodeJoinStateActive || (!activeOnly && n.JoinState == state.NodeJoinStateLeaving) {
			out = append(out, n.NodeID)
		}
	}
	return out
}

func vsVoterIDs(cur state.ClusterState) []uint64 {
	var out []uint64
	for _, c := range cur.Controllers {
		out = append(out, c.NodeID)
	}
	return out
}

func vsTaskForSlot(cur state.ClusterState, slot uint32) (state.ReconcileTask, bool) {
	for _, t := range cur.Tasks {
		if t.SlotID == slot {
			return t, true
		}
	}
	return state.ReconcileTask{}, false
}

func vsAssignment(cur state.ClusterState, slot uint32) (state.SlotAssignment, bool) {
	for _, a := range cur.Slots {
		if a.SlotID == slot {
			return a, true
		}
	}
	return state.SlotAssignment{}, false
}

func (g *vsGen) otherU64(v uint64) uint64 {
	if v > 0 && g.t.Intn(2) == 0 {
		return v - 1
	}
	return v + 1 + uint64(g.t.Intn(2))
}

func (g *vsGen) otherU32(v uint32) uint32 {
	if v > 0 && g.t.Intn(2) == 0 {
		return v - 1
	}
	return v + 1 + uint32(g.t.Intn(2))
}

// expRev returns an ExpectedRevision pointer: matching (or absent) when
// stale is false, guaranteed different from the current revision otherwise.
func (g *vsGen) expRev(cur state.ClusterState, stale bool) *uint64 {
	if stale {
		v := g.otherU64(cur.Revision)
		return &v
	}
	if g.t.Intn(2) == 0 {
		return nil
	}
	v := cur.Revision
	return &v
}

func (g *vsGen) taskID(prefix string, slot uint32) string {
	g.seq++
	return fmt.Sprintf("%s-%d-%d", prefix, slot, g.seq)
}

func (g *vsGen) longErr() string {
	if !g.t.Chance(1, 4) {
		return []string{"boom", "", "disk full", "timeout"}[g.t.Intn(4)]
	}
	// longer than fsm.MaxTaskLastErrorBytes with multi-byte runes so that the
	// UTF-8 aware truncation is exercised
	return strings.Repeat("é汉x", 180+g.t.Intn(40))
}

// ---- top level ------------------------------------------------------------

// next produces the next command given the current state of the reference lineage.
func (g *vsGen) next(cur state.ClusterState) (command.Command, vsMeta) {
	w := append([]int(nil), g.wKind...)
	if cur.Revision == 0 {
		// before init: mostly the init command (first, so that tape value 0 is
		// the benign choice), sometimes anything else (must be rejected)
		order, ws := []int{1}, []int{40}
		for i := range vsKinds {
			if i == 1 || (vsKinds[i] == "verif_repeat" && len(g.log) == 0) {
				continue
			}
			order, ws = append(order, i), append(ws, 1)
		}
		return g.gen(order[g.t.Weighted(ws)], cur)
	}
	// bursts: now and then the same kind again, so that commands of one kind
	// that depend on each other's effect (enable then move an owner, upsert then
	// update, ...) land next to each other and, in lineages (b)/(c), in one batch
	if g.burst && g.lastKind >= 2 && vsKinds[g.lastKind] != "verif_repeat" && g.t.Chance(1, 4) {
		return g.gen(g.lastKind, cur)
	}
	w[1] = 1
	// bias towards kinds that can make progress on what exists
	hasMove, hasTask, hasProgress := false, len(cur.Tasks) > 0, false
	for _, t := range cur.Tasks {
		if t.Kind == state.TaskKindSlotReplicaMove {
			hasMove = true
		}
		if len(t.ParticipantProgress) > 0 {
			hasProgress = true
		}
	}
	boost := func(i int) {
		if w[i] > 0 {
			w[i] *= 3
		} else {
			w[i] = 1
		}
	}
	damp := func(i int) {
		if w[i] > 1 {
			w[i] = 1
		}
	}
	total := 0
	for _, x := range w {
		total += x
	}
	if hasMove {
		w[10] += total / 2 // about a third of the picks drive the move forward
	} else {
		damp(10)
	}
	damp(11)
	for _, t := range cur.Tasks {
		if t.Kind == state.TaskKindSlotReplicaMove && t.Step == state.TaskStepCommitAssignment {
			w[11] += total / 2
			break
		}
	}
	if hasTask {
		boost(12)
		boost(13)
	} else {
		damp(12)
		damp(13)
	}
	if hasProgress {
		boost(14)
	} else {
		damp(14)
	}
	if len(cur.Slots) == 0 {
		boost(8)
	}
	for _, a := range cur.Slots {
		if _, busy := vsTaskForSlot(cur, a.SlotID); !busy && len(vsDataNodes(cur, true)) > len(a.DesiredPeers) {
			boost(9) // a replica move could start here
			break
		}
	}
	if len(g.log) == 0 {
		w[16] = 0
	}
	return g.gen(g.t.Weighted(w), cur)
}

func (g *vsGen) gen(kindIdx int, cur state.ClusterState) (command.Command, vsMeta) {
	kind := vsKinds[kindIdx]
	g.lastKind = kindIdx
	if kind == "verif_repeat" {
		k := g.t.Intn(len(g.log))
		m := g.logMeta[k]
		// a repeated command makes no promise about staleness any more
		return g.record(g.log[k], vsMeta{kind: "repeat(" + m.kind + ")", variant: "repeat", note: fmt.Sprintf("of #%d", k)})
	}
	wv := g.wVar
	if kind == command.KindAdvanceSlotReplicaMovePhase || kind == command.KindCommitSlotReplicaMove {
		// the move workflow needs four or five valid steps in a row to finish
		wv = []int{3 * g.wVar[0], g.wVar[1], g.wVar[2]}
	}
	variant := g.t.Weighted(wv)
	cmd := command.Command{Kind: kind, IssuedAt: g.issuedAt()}
	meta := vsMeta{kind: string(kind), variant: vsVariantNames[variant]}
	switch kind {
	case command.KindInitClusterState:
		g.genInit(&cmd, &meta, cur, variant)
	case command.KindUpsertNode:
		g.genUpsertNode(&cmd, &meta, cur, variant)
	case command.KindUpdateControllerVoters:
		g.genUpdateVoters(&cmd, &meta, cur, variant)
	case command.KindPromoteControllerVoter:
		g.genPromote(&cmd, &meta, cur, variant)
	case command.KindReplaceHashSlotTable:
		g.genHashSlots(&cmd, &meta, cur, variant)
	case command.KindReplaceScheduledBackupState:
		g.genBackup(&cmd, &meta, cur, variant)
	case command.KindReplaceOpsMCPState:
		g.genOpsMCP(&cmd, &meta, cur, variant)
	case command.KindUpsertSlotAssignmentAndTask:
		g.genAssignTask(&cmd, &meta, cur, variant)
	case command.KindUpsertSlotReplicaMoveTask:
		g.genMoveTask(&cmd, &meta, cur, variant)
	case command.KindAdvanceSlotReplicaMovePhase:
		g.genAdvance(&cmd, &meta, cur, variant)
	case command.KindCommitSlotReplicaMove:
		g.genCommit(&cmd, &meta, cur, variant)
	case command.KindCompleteTask, command.KindFailTask:
		g.genTaskResult(&cmd, &meta, cur, variant)
	case command.KindReportTaskProgress:
		g.genProgress(&cmd, &meta, cur, variant)
	case command.KindReportNodeHealth:
		g.genHealth(&cmd, &meta, cur, variant)
	default:
		// unknown kind with a random real payload attached
		cmd.Node = &state.Node{NodeID: 1, Addr: vsAddr(1), Roles: []state.NodeRole{state.NodeRoleData}, JoinState: state.NodeJoinStateActive, Status: state.NodeStatusAlive}
		if variant == vsVarStale {
			g.staleByRevision(&cmd, &meta, cur)
		}
	}
	return g.record(cmd, meta)
}

func (g *vsGen) record(cmd command.Command, meta vsMeta) (command.Command, vsMeta) {
	g.log = append(g.log, cmd)
	g.logMeta = append(g.logMeta, meta)
	return cmd, meta
}

// staleByRevision applies the generic stale variant: a compare-and-set guard
// that does not match. Sound for every kind except init (which ignores it).
func (g *vsGen) staleByRevision(cmd *command.Command, meta *vsMeta, cur state.ClusterState) {
	cmd.ExpectedRevision = g.expRev(cur, true)
	meta.stale = true
	meta.note = "expected_revision"
}

// ---- init -------------------------------------------------------------------

func (g *vsGen) freshInit() command.Command {
	n := []int{3, 4, 5, 6, 1, 2}[g.t.Intn(6)]
	voters := 1 + g.t.Intn(vsMin(3, n))
	rc := 1 + g.t.Intn(vsMin(3, n))
	sc := 1 + g.t.Intn(4)
	hsc := []int{16, 8, 256, sc}[g.t.Intn(4)]
	init := &command.InitClusterState{ClusterID: "verif-c1",
		Config: state.ClusterConfig{SlotCount: uint32(sc), HashSlotCount: uint16(hsc), ReplicaCount: uint16(rc), DefaultCapacityWeight: uint32(g.t.Intn(3))}}
	for id := uint64(1); id <= uint64(n); id++ {
		roles := []state.NodeRole{state.NodeRoleData}
		if id <= uint64(voters) {
			roles = []state.NodeRole{state.NodeRoleData, state.NodeRoleControllerVoter}
			if g.t.Chance(1, 4) {
				roles = []state.NodeRole{state.NodeRoleControllerVoter}
			}
			init.Controllers = append(init.Controllers, state.ControllerVoter{NodeID: id, Addr: vsAddr(id), Role: state.ControllerRoleVoter})
		} else if g.t.Chance(1, 3) {
			roles = []state.NodeRole{state.NodeRoleData, state.NodeRoleControllerVoter}
		}
		init.Nodes = append(init.Nodes, state.Node{NodeID: id, Name: fmt.Sprintf("n%d", id), Addr: vsAddr(id), Roles: roles,
			JoinState: state.NodeJoinStateActive, Status: state.NodeStatusAlive, CapacityWeight: uint32(g.t.Intn(3))})
	}
	// order of the lists must not matter
	if g.t.Chance(1, 2) && len(init.Nodes) > 1 {
		init.Nodes[0], init.Nodes[len(init.Nodes)-1] = init.Nodes[len(init.Nodes)-1], init.Nodes[0]
	}
	return command.Command{Kind: command.KindInitClusterState, Init: init}
}

func vsMin(a, b int) int {
	if a < b {
		return a
	}
	return b
}

func (g *vsGen) genInit(cmd *command.Command, meta *vsMeta, cur state.ClusterState, variant int) {
	if g.initCmd == nil {
		c := g.freshInit()
		g.initCmd = &c
	}
	base := *g.initCmd.Init
	base.Controllers = append([]state.ControllerVoter(nil), base.Controllers...)
	base.Nodes = append([]state.Node(nil), base.Nodes...)
	cmd.Init = &base
	switch variant {
	case vsVarStale:
		// init ignores ExpectedRevision by design; attach one but claim nothing
		cmd.ExpectedRevision = g.expRev(cur, true)
		meta.note = "init+expected_revision(ignored)"
	case vsVarInvalid:
		switch g.t.Intn(7) {
		case 0:
			cmd.Init = nil
		case 1:
			base.Config.SlotCount = 0
		case 2:
			base.Config.SlotCount = uint32(base.Config.HashSlotCount) + 1
		case 3:
			base.ClusterID = ""
		case 4:
			base.Nodes = append(base.Nodes, base.Nodes[0])
		case 5:
			base.Controllers = append(base.Controllers, state.ControllerVoter{NodeID: 99, Addr: vsAddr(99), Role: state.ControllerRoleVoter})
		case 6:
			base.ClusterID = "verif-other" // conflicts with an existing state, valid otherwise
		}
	}
}

// ---- nodes / controllers ------------------------------------------------------

func (g *vsGen) genUpsertNode(cmd *command.Command, meta *vsMeta, cur state.ClusterState, variant int) {
	id := uint64(1 + g.t.Intn(7))
	node, ok := vsNodeByID(cur, id)
	if !ok {
		node = state.Node{NodeID: id, Name: fmt.Sprintf("n%d", id), Addr: vsAddr(id), Roles: []state.NodeRole{state.NodeRoleData},
			JoinState: state.NodeJoinStateJoining, Status: state.NodeStatusAlive, CapacityWeight: 1}
	}
	node.Roles = append([]state.NodeRole(nil), node.Roles...)
	switch g.t.Intn(7) {
	case 0:
		node.Status = []state.NodeStatus{state.NodeStatusAlive, state.NodeStatusSuspect, state.NodeStatusDown}[g.t.Intn(3)]
	case 1:
		node.JoinState = []state.NodeJoinState{state.NodeJoinStateActive, state.NodeJoinStateJoining, state.NodeJoinStateLeaving, state.NodeJoinStateRemoved}[g.t.Intn(4)]
	case 2:
		node.Roles = [][]state.NodeRole{{state.NodeRoleData}, {state.NodeRoleControllerVoter, state.NodeRoleData}, {state.NodeRoleData, state.NodeRoleControllerVoter}, {state.NodeRoleControllerVoter}}[g.t.Intn(4)]
	case 3:
		node.CapacityWeight = uint32(g.t.Intn(4))
	case 4:
		node.Name = []string{"", "n", "renamed"}[g.t.Intn(3)]
	case 5:
		node.Addr = fmt.Sprintf("10.0.1.%d:7000", id)
	case 6:
		// unchanged: idempotent upsert
	}
	cmd.Node = &node
	switch variant {
	case vsVarStale:
		g.staleByRevision(cmd, meta, cur)
	case vsVarInvalid:
		switch g.t.Intn(6) {
		case 0:
			cmd.Node = nil
		case 1:
			node.NodeID = 0
		case 2:
			node.Addr = ""
		case 3:
			node.Roles = append(node.Roles, state.NodeRole("verif_bogus"))
		case 4:
			node.JoinState = "verif_bogus"
		case 5:
			node.Roles = append(node.Roles, node.Roles...)
		}
	default:
		cmd.ExpectedRevision = g.expRev(cur, false)
	}
}

func (g *vsGen) genUpdateVoters(cmd *command.Command, meta *vsMeta, cur state.ClusterState, variant int) {
	var eligible []uint64
	for _, n := range cur.Nodes {
		if n.HasRole(state.NodeRoleControllerVoter) && n.JoinState == state.NodeJoinStateActive {
			eligible = append(eligible, n.NodeID)
		}
	}
	eligible = g.shuffleU64(eligible)
	k := 0
	if len(eligible) > 0 {
		k = 1 + g.t.Intn(len(eligible))
	}
	for _, id := range eligible[:k] {
		n, _ := vsNodeByID(cur, id)
		cmd.Controllers = append(cmd.Controllers, state.ControllerVoter{NodeID: id, Addr: n.Addr, Role: state.ControllerRoleVoter})
	}
	switch variant {
	case vsVarStale:
		g.staleByRevision(cmd, meta, cur)
	case vsVarInvalid:
		switch g.t.Intn(5) {
		case 0:
			cmd.Controllers = nil
		case 1:
			cmd.Controllers = append(cmd.Controllers, state.ControllerVoter{NodeID: 77, Addr: vsAddr(77), Role: state.ControllerRoleVoter})
		case 2:
			if len(cmd.Controllers) > 0 {
				cmd.Controllers = append(cmd.Controllers, cmd.Controllers[0])
			}
		case 3:
			if len(cmd.Controllers) > 0 {
				cmd.Controllers[0].Role = "learner"
			}
		case 4:
			if len(cmd.Controllers) > 0 {
				cmd.Controllers[0].Addr = ""
			}
		}
	default:
		cmd.ExpectedRevision = g.expRev(cur, false)
	}
}

func (g *vsGen) genPromote(cmd *command.Command, meta *vsMeta, cur state.ClusterState, variant int) {
	voters := vsVoterIDs(cur)
	var cands []uint64
	for _, n := range cur.Nodes {
		if n.JoinState == state.NodeJoinStateActive && !vsContains(voters, n.NodeID) {
			cands = append(cands, n.NodeID)
		}
	}
	var target uint64
	if len(cands) > 0 && !g.t.Chance(1, 5) {
		target = cands[g.t.Intn(len(cands))]
	} else if len(cur.Nodes) > 0 {
		target = cur.Nodes[g.t.Intn(len(cur.Nodes))].NodeID // maybe already a voter: idempotent path
	} else {
		target = 1
	}
	n, _ := vsNodeByID(cur, target)
	observed := append([]uint64(nil), voters...)
	if !vsContains(observed, target) {
		observed = append(observed, target)
	}
	p := &command.ControllerVoterPromotion{TargetNodeID: target, TargetAddr: n.Addr, ObservedConfigIndex: uint64(1 + g.t.Intn(50)), ObservedVoters: g.shuffleU64(observed)}
	if g.t.Intn(2) == 1 {
		p.ExpectedPreviousVoters = g.shuffleU64(voters)
	}
	cmd.ControllerVoterPromotion = p
	switch variant {
	case vsVarStale:
		if g.t.Intn(2) == 0 || len(voters) == 0 {
			g.staleByRevision(cmd, meta, cur)
		} else {
			// fenced to a voter set that is not the current one
			p.ExpectedPreviousVoters = append(g.shuffleU64(voters), 88)
			meta.stale = true
			meta.note = "expected_previous_voters"
		}
	case vsVarInvalid:
		switch g.t.Intn(5) {
		case 0:
			cmd.ControllerVoterPromotion = nil
		case 1:
			p.TargetNodeID = 0
		case 2:
			p.TargetAddr = "10.9.9.9:1"
		case 3:
			p.ObservedConfigIndex = 0
		case 4:
			p.ObservedVoters = voters // proof does not contain the target
		}
	default:
		cmd.ExpectedRevision = g.expRev(cur, false)
	}
}

// ---- tables / backup / mcp ---------------------------------------------------------

func (g *vsGen) genHashSlots(cmd *command.Command, meta *vsMeta, cur state.ClusterState, variant int) {
	h := int(cur.Config.HashSlotCount)
	sc := int(cur.Config.SlotCount)
	if h == 0 {
		h, sc = 16, 2
	}
	tbl := &state.HashSlotTable{Version: state.CurrentHashSlotTableVersion, SlotCount: uint16(h)}
	from := 0
	for from < h {
		width := 1 + g.t.Intn(vsMin(h-from, 1+h/2))
		if g.t.Chance(1, 3) {
			width = h - from
		}
		tbl.Ranges = append(tbl.Ranges, state.HashSlotRange{From: uint16(from), To: uint16(from + width - 1), SlotID: uint32(1 + g.t.Intn(sc))})
		from += width
	}
	if g.t.Chance(1, 3) && len(tbl.Ranges) > 1 { // order must not matter
		tbl.Ranges[0], tbl.Ranges[len(tbl.Ranges)-1] = tbl.Ranges[len(tbl.Ranges)-1], tbl.Ranges[0]
	}
	cmd.HashSlots = tbl
	switch variant {
	case vsVarStale:
		g.staleByRevision(cmd, meta, cur)
	case vsVarInvalid:
		switch g.t.Intn(6) {
		case 0:
			cmd.HashSlots = nil
		case 1:
			tbl.Ranges[len(tbl.Ranges)-1].To-- // hole at the end (or from>to)
		case 2:
			tbl.Ranges[0].SlotID = uint32(sc + 1)
		case 3:
			tbl.SlotCount++
		case 4:
			tbl.Version = 2
		case 5:
			tbl.Ranges = nil
		}
	default:
		cmd.ExpectedRevision = g.expRev(cur, false)
	}
}

func (g *vsGen) validPlan() *state.BackupPlan {
	p := &state.BackupPlan{Revision: uint64(1 + g.t.Intn(3)), Enabled: g.t.Intn(2) == 1, Cron: "0 3 * * *", TimeZone: "UTC",
		RetentionCount: 1 + g.t.Intn(5), RateBytesPerSec: 1 << 20, WorkersPerNode: 1 + g.t.Intn(4), MaxDurationMillis: 3600000,
		ScheduleCursorUnixMillis: 2000, CreatedUnixMillis: 1000, UpdatedUnixMillis: 1000 + int64(g.t.Intn(3))}
	switch g.t.Intn(3) {
	case 0:
		p.Store = state.BackupStoreConfig{Kind: state.BackupStoreKindFile}
	case 1:
		p.Store = state.BackupStoreConfig{Kind: state.BackupStoreKindS3, Endpoint: "http://s3.local", Bucket: "b", PathStyle: g.t.Intn(2) == 1}
	case 2:
		p.Store = state.BackupStoreConfig{Kind: state.BackupStoreKindOSS, Region: "cn-hz", Bucket: "b", Prefix: "p", CredentialCiphertext: g.t.Bytes(1 + g.t.Intn(6)), CredentialRevision: uint64(g.t.Intn(3))}
	}
	switch g.t.Intn(3) {
	case 1:
		p.RepositoryVerification = &state.BackupRepositoryVerification{Status: state.BackupRepositoryVerificationUnverified}
	case 2:
		p.RepositoryVerification = &state.BackupRepositoryVerification{Status: state.BackupRepositoryVerificationVerified, VerifiedAtUnixMillis: 1500}
	}
	return p
}

// vsRestoreJob builds a valid active restore job: 256 hash slots, supplied in
// reverse order, with per-slot replica evidence lists that are uniform (tape
// value 0) or of different lengths: staged out of order, hash slot 0 re-claimed
// (its list reset while later slots are staged), or sparse.
func vsRestoreJob(t *simkit.Tape) *state.ScheduledRestoreJob {
	job := &state.ScheduledRestoreJob{ID: "restore-1", BackupID: "backup-1", Initiator: "ops",
		Status:            []string{"staging", "verifying", "maintenance"}[t.Intn(3)],
		StartedUnixMillis: 100, DeadlineUnixMillis: 200, UpdatedUnixMillis: 100 + int64(t.Intn(50)),
		MaintenanceEntered: t.Intn(2) == 1, PreviousActivation: "act-1", TargetActivation: "act-2"}
	if t.Intn(2) == 1 {
		job.CancelRequested, job.ErrorCode, job.LogicalBytes, job.MaxMessageID = t.Intn(2) == 1, "replica_lagging", 8192, 4242
	}
	shape := t.Intn(4)
	seed := t.Intn(5)
	for hs := state.BackupHashSlotCount - 1; hs >= 0; hs-- {
		w := 2
		switch shape {
		case 1:
			w = (hs*3 + seed) % 4
		case 2:
			if hs == 0 {
				w = 0
			} else {
				w = 1 + (hs+seed)%3
			}
		case 3:
			w = 0
			if hs%16 == seed {
				w = 3
			}
		}
		sp := state.RestoreSlotProgress{HashSlot: uint16(hs), Status: "pending"}
		if w > 0 {
			sp.Status, sp.Attempt, sp.LogicalBytes = "staged", 1, uint64(10*hs)
			for j := w; j >= 1; j-- { // descending: Normalize must sort
				sp.ReplicaNodeIDs = append(sp.ReplicaNodeIDs, uint64(j))
			}
			sp.UpdatedUnixMillis = int64(110 + hs%7)
		} else if hs == 0 && shape == 2 {
			sp.Status, sp.Attempt = "staging", 2
		} else if hs == 200+seed {
			sp.Status, sp.Attempt, sp.ErrorCode = "failed", 1, "stage_failed"
		}
		job.Slots = append(job.Slots, sp)
	}
	return job
}

func (g *vsGen) genBackup(cmd *command.Command, meta *vsMeta, cur state.ClusterState, variant int) {
	sb := &state.ScheduledBackupState{Revision: uint64(1 + g.t.Intn(4)), ManagerSessionEpoch: uint64(g.t.Intn(3))}
	if g.t.Intn(4) != 3 {
		sb.Plan = g.validPlan()
	}
	for i, n := 0, g.t.Intn(3); i < n; i++ {
		rec := state.BackupTaskRecord{ID: fmt.Sprintf("h%d", i), Kind: []string{"backup", "restore", "verification", "retention"}[g.t.Intn(4)],
			Initiator: "ops", Status: "succeeded", StartedUnixMillis: 1000, CompletedUnixMillis: 1000 + int64(g.t.Intn(100))}
		if g.t.Intn(2) == 1 {
			rec.Trigger = []state.BackupTrigger{state.BackupTriggerInitial, state.BackupTriggerScheduled, state.BackupTriggerManual}[g.t.Intn(3)]
			rec.ScheduledUnixMillis, rec.Status, rec.ErrorCode = 900, "failed", "store_unreachable"
		}
		sb.History = append(sb.History, rec)
	}
	if g.t.Chance(1, 4) {
		sb.ActiveArchiveOperation = &state.BackupArchiveOperation{Token: "tok", Kind: []string{"verify", "hold", "delete", "retention", "restore"}[g.t.Intn(5)],
			ArchiveID: "a1", StartedUnixMillis: 10, ExpiresUnixMillis: 20}
		if g.t.Intn(2) == 1 {
			sb.ActiveArchiveOperation.CoordinatorNodeID, sb.ActiveArchiveOperation.CoordinatorTerm = 1, uint64(1+g.t.Intn(3))
		}
	}
	if g.bigOK && sb.Plan != nil && g.t.Chance(1, 3) {
		// active backup: 256 hash-slot entries, supplied in reverse order
		job := &state.ScheduledBackupJob{ID: "job1", Trigger: state.BackupTriggerManual, Status: state.BackupJobStatusExporting, PlanRevision: 1,
			StartedAtUnixMillis: 100, DeadlineUnixMillis: 200, UpdatedUnixMillis: 100 + int64(g.t.Intn(50))}
		if g.t.Intn(2) == 1 {
			job.Trigger, job.ScheduledAtUnixMillis, job.CancelRequested, job.ErrorCode = state.BackupTriggerScheduled, 90, g.t.Intn(2) == 1, "slow_store"
			job.LogicalBytes, job.StoredBytes, job.Records = 4096, 2048, 77
		}
		pick := g.t.Intn(16)
		for hs := state.BackupHashSlotCount - 1; hs >= 0; hs-- {
			sp := state.BackupSlotProgress{HashSlot: uint16(hs), Status: state.BackupSlotStatusPending}
			switch {
			case hs%16 == pick:
				sp = state.BackupSlotProgress{HashSlot: uint16(hs), Status: state.BackupSlotStatusRunning, Attempt: 1, OwnerNodeID: 1, OwnerTerm: 2, UpdatedUnixMillis: 120}
			case hs%16 == (pick+1)%16:
				sp = state.BackupSlotProgress{HashSlot: uint16(hs), Status: state.BackupSlotStatusComplete, Attempt: 1, OwnerNodeID: 2, OwnerTerm: 2,
					ManifestKey: fmt.Sprintf("m/%d", hs), ManifestSHA256: strings.Repeat("ab", 32), LogicalBytes: uint64(100 + hs), StoredBytes: uint64(50 + hs), Records: uint64(hs), MaxMessageID: uint64(1000 + hs), UpdatedUnixMillis: 130}
			case hs%16 == (pick+2)%16 && hs > 128:
				sp = state.BackupSlotProgress{HashSlot: uint16(hs), Status: state.BackupSlotStatusFailed, Attempt: 2, ErrorCode: "export_failed"}
			}
			job.Slots = append(job.Slots, sp)
		}
		sb.ActiveBackup = job
	}
	if sb.Plan != nil && sb.ActiveBackup == nil && cur.Config.HashSlotCount == state.BackupHashSlotCount && g.t.Chance(1, 3) {
		// active restore (needs 256 hash slots and an empty task set to be valid)
		sb.ActiveRestore = vsRestoreJob(g.t)
	}
	cmd.ScheduledBackup = sb
	switch variant {
	case vsVarStale:
		g.staleByRevision(cmd, meta, cur)
	case vsVarInvalid:
		switch g.t.Intn(5) {
		case 0:
			cmd.ScheduledBackup = nil
		case 1:
			sb.Revision = 0
		case 2:
			sb.Plan = g.validPlan()
			sb.Plan.Cron = ""
		case 3:
			sb.Plan = nil
			sb.ActiveBackup = &state.ScheduledBackupJob{ID: "x"}
		case 4:
			sb.History = append(sb.History, state.BackupTaskRecord{ID: "", Kind: "backup"})
		}
	default:
		cmd.ExpectedRevision = g.expRev(cur, false)
	}
}

func (g *vsGen) genOpsMCP(cmd *command.Command, meta *vsMeta, cur state.ClusterState, variant int) {
	var active []uint64
	for _, n := range cur.Nodes {
		if n.JoinState == state.NodeJoinStateActive {
			active = append(active, n.NodeID)
		}
	}
	m := &state.OpsMCPState{Enabled: g.t.Intn(2) == 1}
	if len(active) > 0 && (m.Enabled || g.t.Intn(2) == 1) {
		m.OwnerNodeID = active[g.t.Intn(len(active))]
	}
	if cur.OpsMCP != nil && g.t.Chance(1, 2) {
		m.OwnerNodeID = cur.OpsMCP.OwnerNodeID // keep the owner: allowed while enabled
	}
	nc := g.t.Intn(3)
	if m.Enabled && nc == 0 {
		nc = 1
	}
	for i := nc - 1; i >= 0; i-- { // descending ids: Normalize must sort
		m.Credentials = append(m.Credentials, state.OpsMCPCredential{ID: fmt.Sprintf("tok-%c", 'a'+i), DigestSHA256: strings.Repeat(fmt.Sprintf("%02x", 16+g.t.Intn(200)), 32), CreatedAtUnixMillis: int64(1 + g.t.Intn(3))})
	}
	if g.t.Chance(1, 4) {
		m.ProfileFenceUntilUnixMillis = int64(g.t.Intn(1000))
	}
	cmd.OpsMCP = m
	switch variant {
	case vsVarStale:
		g.staleByRevision(cmd, meta, cur)
	case vsVarInvalid:
		switch g.t.Intn(6) {
		case 0:
			cmd.OpsMCP = nil
		case 1:
			m.Credentials = append(m.Credentials, state.OpsMCPCredential{ID: "tok-x", DigestSHA256: strings.Repeat("ab", 32), CreatedAtUnixMillis: 1},
				state.OpsMCPCredential{ID: "tok-y", DigestSHA256: strings.Repeat("ab", 32), CreatedAtUnixMillis: 1}, state.OpsMCPCredential{ID: "tok-z", DigestSHA256: strings.Repeat("ab", 32), CreatedAtUnixMillis: 1})
		case 2:
			m.Credentials = []state.OpsMCPCredential{{ID: "TOK", DigestSHA256: strings.Repeat("ab", 32), CreatedAtUnixMillis: 1}}
		case 3:
			m.Enabled, m.OwnerNodeID = true, 0
		case 4:
			m.OwnerNodeID = 66
		case 5:
			m.ProfileFenceUntilUnixMillis = -1
		}
	default:
		cmd.ExpectedRevision = g.expRev(cur, false)
	}
}

// ---- slot assignments and tasks -----------------------------------------------------------

func (g *vsGen) pickSlot(cur state.ClusterState) uint32 {
	sc := int(cur.Config.SlotCount)
	if sc == 0 {
		sc = 2
	}
	return uint32(1 + g.t.Intn(sc))
}

func (g *vsGen) genAssignTask(cmd *command.Command, meta *vsMeta, cur state.ClusterState, variant int) {
	slot := g.pickSlot(cur)
	existing, assigned := vsAssignment(cur, slot)
	_, busy := vsTaskForSlot(cur, slot)
	leaderTransfer := assigned && len(existing.DesiredPeers) >= 2 && g.t.Intn(2) == 1
	var asg state.SlotAssignment
	var task state.ReconcileTask
	if leaderTransfer {
		src := existing.PreferredLeader
		if src == 0 {
			src = existing.DesiredPeers[0]
		}
		var others []uint64
		for _, p := range existing.DesiredPeers {
			if p != src {
				others = append(others, p)
			}
		}
		dst := others[g.t.Intn(len(others))]
		asg = state.SlotAssignment{SlotID: slot, DesiredPeers: g.shuffleU64(existing.DesiredPeers), ConfigEpoch: existing.ConfigEpoch, PreferredLeader: dst}
		task = state.ReconcileTask{TaskID: g.taskID("xfer", slot), SlotID: slot, Kind: state.TaskKindLeaderTransfer, Step: state.TaskStepTransferLeader,
			SourceNode: src, TargetNode: dst, TargetPeers: g.shuffleU64(existing.DesiredPeers), ConfigEpoch: existing.ConfigEpoch, Status: state.TaskStatusPending}
		meta.note = "leader_transfer"
	} else {
		data := g.shuffleU64(vsDataNodes(cur, false))
		rc := int(cur.Config.ReplicaCount)
		if rc == 0 {
			rc = 1
		}
		if len(data) > rc {
			data = data[:rc]
		}
		epoch := uint64(1)
		if assigned {
			epoch = existing.ConfigEpoch + 1
		}
		var leader uint64
		if len(data) > 0 && g.t.Intn(3) != 2 {
			leader = data[g.t.Intn(len(data))]
		}
		asg = state.SlotAssignment{SlotID: slot, DesiredPeers: data, ConfigEpoch: epoch, PreferredLeader: leader}
		task = state.ReconcileTask{TaskID: g.taskID("boot", slot), SlotID: slot, Kind: state.TaskKindBootstrap, Step: state.TaskStepCreateSlot,
			TargetNode: leader, TargetPeers: g.shuffleU64(data), ConfigEpoch: epoch, Status: state.TaskStatusPending}
		if g.t.Intn(2) == 1 {
			task.CompletionPolicy = state.TaskCompletionPolicyAllTargetPeers
		}
		meta.note = "bootstrap"
	}
	if busy && g.t.Chance(1, 2) {
		// replace the slot's active task in place (same id): allowed by upsert
		if t, ok := vsTaskForSlot(cur, slot); ok {
			task.TaskID = t.TaskID
		}
	}
	cmd.Assignment, cmd.Task = &asg, &task
	switch variant {
	case vsVarStale:
		g.staleByRevision(cmd, meta, cur)
	case vsVarInvalid:
		switch g.t.Intn(8) {
		case 0:
			cmd.Assignment = nil
		case 1:
			cmd.Task = nil
		case 2:
			task.SlotID = slot + 1
		case 3:
			task.Kind = "verif_bogus"
		case 4:
			task.Step = state.TaskStepAddLearner
		case 5:
			asg.ConfigEpoch = 0
		case 6:
			if len(asg.DesiredPeers) > 0 {
				asg.DesiredPeers = append(asg.DesiredPeers, asg.DesiredPeers[0])
			}
		case 7:
			task.ConfigEpoch++
		}
	default:
		cmd.ExpectedRevision = g.expRev(cur, false)
	}
}

func (g *vsGen) genMoveTask(cmd *command.Command, meta *vsMeta, cur state.ClusterState, variant int) {
	slot := g.pickSlot(cur)
	// prefer an assigned slot without a task for which a target node exists
	var ready []uint32
	for _, a := range cur.Slots {
		if _, busy := vsTaskForSlot(cur, a.SlotID); !busy && len(vsDataNodes(cur, true)) > len(a.DesiredPeers) {
			ready = append(ready, a.SlotID)
		}
	}
	if len(ready) > 0 && !g.t.Chance(1, 6) {
		slot = ready[g.t.Intn(len(ready))]
	}
	asg, _ := vsAssignment(cur, slot)
	task := state.ReconcileTask{TaskID: g.taskID("move", slot), SlotID: slot, Kind: state.TaskKindSlotReplicaMove, Step: state.TaskStepOpenLearner,
		ConfigEpoch: asg.ConfigEpoch, Status: state.TaskStatusPending}
	if len(asg.DesiredPeers) > 0 {
		task.SourceNode = asg.DesiredPeers[g.t.Intn(len(asg.DesiredPeers))]
	}
	var cands []uint64
	for _, id := range vsDataNodes(cur, true) {
		if !vsContains(asg.DesiredPeers, id) {
			cands = append(cands, id)
		}
	}
	if len(cands) > 0 {
		task.TargetNode = cands[g.t.Intn(len(cands))]
	} else {
		task.TargetNode = 6
	}
	task.TargetPeers = g.shuffleU64(vsReplace(asg.DesiredPeers, task.SourceNode, task.TargetNode))
	cmd.Task = &task
	switch variant {
	case vsVarStale:
		g.staleByRevision(cmd, meta, cur)
	case vsVarInvalid:
		switch g.t.Intn(6) {
		case 0:
			cmd.Task = nil
		case 1:
			task.Kind = state.TaskKindBootstrap
		case 2:
			task.TargetNode = task.SourceNode
		case 3:
			task.ConfigEpoch++
		case 4:
			task.Step = state.TaskStepCreateSlot
		case 5:
			task.ObservedVoters = []uint64{1, 1}
		}
	default:
		cmd.ExpectedRevision = g.expRev(cur, false)
	}
}

func (g *vsGen) pickTask(cur state.ClusterState, want state.TaskKind) (state.ReconcileTask, bool) {
	var c []state.ReconcileTask
	for _, t := range cur.Tasks {
		if want == "" || t.Kind == want {
			c = append(c, t)
		}
	}
	if len(c) == 0 || g.t.Chance(1, 8) {
		return state.ReconcileTask{TaskID: "ghost-1", SlotID: 1, Kind: state.TaskKindBootstrap, ConfigEpoch: 1}, false
	}
	return c[g.t.Intn(len(c))], true
}

func (g *vsGen) genAdvance(cmd *command.Command, meta *vsMeta, cur state.ClusterState, variant int) {
	task, ok := g.pickTask(cur, state.TaskKindSlotReplicaMove)
	if !ok && len(cur.Tasks) > 0 && g.t.Intn(2) == 1 {
		task = cur.Tasks[g.t.Intn(len(cur.Tasks))] // wrong kind on purpose
	}
	ph := &command.SlotReplicaMovePhaseAdvance{TaskID: task.TaskID, SlotID: task.SlotID, ConfigEpoch: task.ConfigEpoch, Attempt: task.Attempt,
		ExpectedPhaseIndex: task.PhaseIndex, ObservedConfigIndex: uint64(1 + g.t.Intn(100))}
	src := vsReplace(task.TargetPeers, task.TargetNode, task.SourceNode)
	switch task.Step {
	case state.TaskStepOpenLearner:
		ph.NextStep = state.TaskStepAddLearner
		if g.t.Intn(2) == 1 {
			ph.ObservedConfigIndex = 0
		}
	case state.TaskStepAddLearner:
		if g.t.Intn(2) == 0 {
			ph.NextStep = state.TaskStepPromoteLearner
			ph.ObservedVoters = g.shuffleU64(src)
			ph.ObservedLearners = []uint64{task.TargetNode}
		} else {
			ph.NextStep = state.TaskStepRemoveVoter
			ph.ObservedVoters = g.shuffleU64(append(append([]uint64(nil), src...), task.TargetNode))
		}
	case state.TaskStepPromoteLearner:
		ph.NextStep = state.TaskStepRemoveVoter
		ph.ObservedVoters = g.shuffleU64(append(append([]uint64(nil), src...), task.TargetNode))
	case state.TaskStepRemoveVoter:
		if g.t.Intn(3) == 2 {
			ph.NextStep = state.TaskStepRemoveVoter
			ph.ObservedVoters = g.shuffleU64(append(append([]uint64(nil), src...), task.TargetNode))
		} else {
			ph.NextStep = state.TaskStepCommitAssignment
			ph.ObservedVoters = g.shuffleU64(task.TargetPeers)
		}
	default:
		ph.NextStep = state.TaskStepAddLearner
	}
	cmd.SlotReplicaMovePhase = ph
	switch variant {
	case vsVarStale:
		meta.stale = true
		switch g.t.Intn(4) {
		case 0:
			ph.Attempt = g.otherU32(ph.Attempt)
			meta.note = "attempt"
		case 1:
			ph.ConfigEpoch = g.otherU64(ph.ConfigEpoch)
			if ph.ConfigEpoch == 0 {
				ph.ConfigEpoch = task.ConfigEpoch + 1
			}
			meta.note = "epoch"
		case 2:
			ph.ExpectedPhaseIndex = g.otherU32(ph.ExpectedPhaseIndex)
			meta.note = "phase"
		case 3:
			g.staleByRevision(cmd, meta, cur)
		}
	case vsVarInvalid:
		switch g.t.Intn(7) {
		case 0:
			cmd.SlotReplicaMovePhase = nil
		case 1:
			ph.TaskID = ""
		case 2:
			ph.SlotID++
		case 3:
			ph.NextStep = state.TaskStepOpenLearner
		case 4:
			ph.ObservedConfigIndex = 0
		case 5:
			ph.ObservedVoters = []uint64{99}
		case 6:
			ph.NextStep = ""
		}
	default:
		cmd.ExpectedRevision = g.expRev(cur, false)
	}
}

func (g *vsGen) genCommit(cmd *command.Command, meta *vsMeta, cur state.ClusterState, variant int) {
	task, _ := g.pickTask(cur, state.TaskKindSlotReplicaMove)
	// prefer one that is ready
	for _, t := range cur.Tasks {
		if t.Kind == state.TaskKindSlotReplicaMove && t.Step == state.TaskStepCommitAssignment && g.t.Intn(4) != 3 {
			task = t
			break
		}
	}
	c := &command.SlotReplicaMoveCommit{TaskID: task.TaskID, SlotID: task.SlotID, ConfigEpoch: task.ConfigEpoch, Attempt: task.Attempt,
		ObservedConfigIndex: uint64(1 + g.t.Intn(100)), ObservedVoters: g.shuffleU64(task.TargetPeers)}
	cmd.SlotReplicaMoveCommit = c
	switch variant {
	case vsVarStale:
		meta.stale = true
		switch g.t.Intn(3) {
		case 0:
			c.Attempt = g.otherU32(c.Attempt)
			meta.note = "attempt"
		case 1:
			c.ConfigEpoch = g.otherU64(c.ConfigEpoch)
			if c.ConfigEpoch == 0 {
				c.ConfigEpoch = task.ConfigEpoch + 1
			}
			meta.note = "epoch"
		case 2:
			g.staleByRevision(cmd, meta, cur)
		}
	case vsVarInvalid:
		switch g.t.Intn(5) {
		case 0:
			cmd.SlotReplicaMoveCommit = nil
		case 1:
			c.TaskID = ""
		case 2:
			c.SlotID++
		case 3:
			c.ObservedConfigIndex = 0
		case 4:
			c.ObservedVoters = append(c.ObservedVoters, 99)
		}
	default:
		cmd.ExpectedRevision = g.expRev(cur, false)
	}
}

func (g *vsGen) genTaskResult(cmd *command.Command, meta *vsMeta, cur state.ClusterState, variant int) {
	task, _ := g.pickTask(cur, "")
	res := &command.TaskResult{TaskID: task.TaskID, SlotID: task.SlotID, TaskKind: task.Kind, ConfigEpoch: task.ConfigEpoch, Attempt: task.Attempt}
	if cmd.Kind == command.KindFailTask {
		res.Err = g.longErr()
	}
	if g.t.Intn(2) == 1 {
		res.FinishedAt = g.issuedAt()
	}
	cmd.TaskResult = res
	switch variant {
	case vsVarStale:
		meta.stale = true
		switch g.t.Intn(4) {
		case 0:
			res.Attempt = g.otherU32(res.Attempt)
			meta.note = "attempt"
		case 1:
			res.ConfigEpoch = g.otherU64(res.ConfigEpoch)
			if res.ConfigEpoch == 0 {
				res.ConfigEpoch = task.ConfigEpoch + 1
			}
			meta.note = "epoch"
		case 2:
			if res.TaskKind == state.TaskKindBootstrap {
				res.TaskKind = state.TaskKindSlotReplicaMove
			} else {
				res.TaskKind = state.TaskKindBootstrap
			}
			meta.note = "kind"
		case 3:
			g.staleByRevision(cmd, meta, cur)
		}
	case vsVarInvalid:
		switch g.t.Intn(5) {
		case 0:
			cmd.TaskResult = nil
		case 1:
			res.TaskID = ""
		case 2:
			res.SlotID = 0
		case 3:
			res.TaskKind = ""
		case 4:
			res.SlotID++
		}
	default:
		cmd.ExpectedRevision = g.expRev(cur, false)
	}
}

func (g *vsGen) genProgress(cmd *command.Command, meta *vsMeta, cur state.ClusterState, variant int) {
	var task state.ReconcileTask
	found := false
	for _, t := range cur.Tasks {
		if len(t.ParticipantProgress) > 0 && (!found || g.t.Intn(2) == 1) {
			task, found = t, true
		}
	}
	if !found {
		task, _ = g.pickTask(cur, "")
	}
	p := &command.TaskProgress{TaskID: task.TaskID, SlotID: task.SlotID, TaskKind: task.Kind, ConfigEpoch: task.ConfigEpoch, TaskAttempt: task.Attempt,
		ParticipantNodeID: 1, Status: []state.TaskParticipantStatus{state.TaskParticipantStatusDone, state.TaskParticipantStatusFailed, state.TaskParticipantStatusPending}[g.t.Intn(3)]}
	var curPart state.TaskParticipantProgress
	if len(task.ParticipantProgress) > 0 {
		curPart = task.ParticipantProgress[g.t.Intn(len(task.ParticipantProgress))]
		p.ParticipantNodeID = curPart.NodeID
		p.ParticipantAttempt = curPart.Attempt
		if g.t.Chance(1, 4) {
			p.ParticipantAttempt++
		}
	}
	if p.Status == state.TaskParticipantStatusFailed {
		p.Err = g.longErr()
	}
	cmd.TaskProgress = p
	switch variant {
	case vsVarStale:
		meta.stale = true
		switch g.t.Intn(4) {
		case 0:
			p.TaskAttempt = g.otherU32(p.TaskAttempt)
			meta.note = "task_attempt"
		case 1:
			p.ConfigEpoch = g.otherU64(p.ConfigEpoch)
			if p.ConfigEpoch == 0 {
				p.ConfigEpoch = task.ConfigEpoch + 1
			}
			meta.note = "epoch"
		case 2:
			if curPart.Attempt > 0 {
				p.ParticipantAttempt = curPart.Attempt - 1
				meta.note = "participant_attempt"
			} else {
				g.staleByRevision(cmd, meta, cur)
			}
		case 3:
			g.staleByRevision(cmd, meta, cur)
		}
	case vsVarInvalid:
		switch g.t.Intn(6) {
		case 0:
			cmd.TaskProgress = nil
		case 1:
			p.TaskID = ""
		case 2:
			p.ParticipantNodeID = 0
		case 3:
			p.ParticipantNodeID = 55
		case 4:
			p.Status = "verif_bogus"
		case 5:
			p.SlotID++
		}
	default:
		cmd.ExpectedRevision = g.expRev(cur, false)
	}
}

func (g *vsGen) genHealth(cmd *command.Command, meta *vsMeta, cur state.ClusterState, variant int) {
	id := uint64(1)
	if len(cur.Nodes) > 0 {
		id = cur.Nodes[g.t.Intn(len(cur.Nodes))].NodeID
	}
	h := &state.NodeHealthReport{NodeID: id, Status: []state.NodeStatus{state.NodeStatusAlive, state.NodeStatusSuspect, state.NodeStatusDown}[g.t.Intn(3)],
		RuntimeReady: g.t.Intn(2) == 0, ObservedControlRevision: uint64(g.t.Intn(3)), ObservedSlotRevision: uint64(g.t.Intn(2)), ReportSeq: uint64(g.t.Intn(3)),
		ReportedAtUnixMilli: int64(g.t.Intn(3)), AppliedRaftIndex: uint64(g.t.Intn(2) * 1000)}
	if g.t.Chance(1, 5) {
		h.ErrorCode = "disk_slow"
	}
	cmd.NodeHealth = h
	switch variant {
	case vsVarStale:
		g.staleByRevision(cmd, meta, cur)
	case vsVarInvalid:
		switch g.t.Intn(5) {
		case 0:
			cmd.NodeHealth = nil
		case 1:
			h.NodeID = 0
		case 2:
			h.NodeID = 44
		case 3:
			h.Status = "verif_bogus"
		case 4:
			h.ReportedAtUnixMilli = -1
		}
	default:
		cmd.ExpectedRevision = g.expRev(cur, false)
	}
}
