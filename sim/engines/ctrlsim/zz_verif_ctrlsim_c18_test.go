package raft

// C18 — the Controller state machine applies a committed command log
// deterministically: one at a time (reference lineage "a"), under batch
// partitions through the real apply scheduler (lineage "b"), and across
// restarts from the persisted state file with re-delivery of already applied
// entries (lineage "c").

import (
	"context"
	"encoding/json"
	"errors"
	"fmt"
	"os"
	"path/filepath"
	"reflect"
	"testing"

	"github.com/WuKongIM/WuKongIM/internal/verifsim/simkit"
	"github.com/WuKongIM/WuKongIM/pkg/controller/command"
	"github.com/WuKongIM/WuKongIM/pkg/controller/fsm"
	"github.com/WuKongIM/WuKongIM/pkg/controller/state"
	"github.com/WuKongIM/WuKongIM/pkg/controller/statefile"
	"go.etcd.io/raft/v3/raftpb"
)

var vsScratchRoot = func() string {
	if b := os.Getenv("VERIF_SCRATCH"); b != "" {
		return filepath.Join(b, "ctrlsim")
	}
	return "/root/scratch/ctrlsim"
}()

var errVsInjected = errors.New("verif: injected fault")

var vsSchedCache = map[applySchedulerConfig]*applyScheduler{}

// ---- canonical forms -------------------------------------------------------------

// vsCanon is the canonical (normalised) JSON of a state, checksum included.
//
// The deep copy is made by a JSON round trip of the exported struct, not by
// ClusterState.Clone: Clone is code under test (Encode, Checksum and Validate
// all start with it), and a lossy Clone must not be able to hide from the
// comparison by damaging both sides alike.
func vsCanon(st state.ClusterState) string {
	raw, err := json.Marshal(st)
	if err != nil {
		return "marshal-error:" + err.Error()
	}
	var c state.ClusterState
	if err := json.Unmarshal(raw, &c); err != nil {
		return "unmarshal-error:" + err.Error()
	}
	c.Normalize() // in place, sorts and fills defaults; does not clone
	b, err := json.Marshal(c)
	if err != nil {
		return "marshal-error:" + err.Error()
	}
	return string(b)
}

// vsLogical drops the fields that every handled entry may touch without a
// logical change (applied index, checksum) and optionally the health reports.
func vsLogical(st state.ClusterState, dropHealth bool) string {
	c := st // shallow: only scalars and one slice header are replaced; vsCanon copies deeply
	c.AppliedRaftIndex = 0
	c.Checksum = ""
	if dropHealth {
		c.NodeHealthReports = nil
	}
	return vsCanon(c)
}

func vsJSON(v any) string {
	b, err := json.Marshal(v)
	if err != nil {
		return "marshal-error:" + err.Error()
	}
	return string(b)
}

func vsOutcome(res fsm.ApplyResult) string {
	s := ""
	if res.Changed {
		s += "changed"
	}
	if res.Updated {
		s += "updated"
	}
	if res.Noop {
		s += "noop"
	}
	if res.Rejected {
		s += "rejected"
	}
	if s == "" {
		s = "none"
	}
	return s
}

// ---- stores -------------------------------------------------------------------------

// vsMemStore mirrors statefile.Store without the file: the same state codec.
type vsMemStore struct {
	data  []byte
	saves int
}

func (m *vsMemStore) Load(context.Context) (state.ClusterState, error) {
	if m.data == nil {
		return state.ClusterState{}, fmt.Errorf("verif mem store: %w", os.ErrNotExist)
	}
	return state.Decode(m.data)
}

func (m *vsMemStore) Save(_ context.Context, st state.ClusterState) error {
	b, err := state.Encode(st)
	if err != nil {
		return err
	}
	m.data = b
	m.saves++
	return nil
}

// vsFileStore is the real statefile.Store plus bookkeeping.
type vsFileStore struct {
	inner      *statefile.Store
	saves      int
	failSaveAt int // the real after-temp-write hook fails the n-th save (0 = never)
	fired      func(string)
}

func vsNewFileStore(dir string) *vsFileStore {
	fs := &vsFileStore{}
	fs.inner = statefile.New(filepath.Join(dir, "cluster-state.json"), statefile.WithAfterTempWriteHook(func() error {
		if fs.failSaveAt != 0 && fs.saves+1 == fs.failSaveAt {
			if fs.fired != nil {
				fs.fired("save_error")
			}
			return errVsInjected
		}
		return nil
	}))
	return fs
}

func (f *vsFileStore) Load(ctx context.Context) (state.ClusterState, error) { return f.inner.Load(ctx) }

func (f *vsFileStore) Save(ctx context.Context, st state.ClusterState) error {
	err := f.inner.Save(ctx, st)
	f.saves++
	return err
}

func vsCopyDir(src, dst string) error {
	if err := os.MkdirAll(dst, 0o755); err != nil {
		return err
	}
	ents, err := os.ReadDir(src)
	if err != nil {
		return err
	}
	for _, e := range ents {
		if !e.Type().IsRegular() {
			continue
		}
		b, err := os.ReadFile(filepath.Join(src, e.Name()))
		if err != nil {
			if errors.Is(err, os.ErrNotExist) {
				continue
			}
			return err
		}
		if err := os.WriteFile(filepath.Join(dst, e.Name()), b, 0o644); err != nil {
			return err
		}
	}
	return nil
}

// ---- reference lineage (a) ---------------------------------------------------------------

type vsRec struct {
	entry raftpb.Entry
	isCmd bool
	meta  vsMeta
	res   fsm.ApplyResult
	trans string // JSON of res.TaskTransitions
}

type vsWorld struct {
	r       *simkit.Run
	recs    []vsRec             // recs[i-1] is the entry at raft index i
	canonAt []string            // canonAt[i]: canonical state after entry i in lineage (a); [0] = empty state
	stateAt []state.ClusterState
	base    string
}

func vsRunDir(r *simkit.Run) string {
	return filepath.Join(vsScratchRoot, fmt.Sprintf("%d-%d", os.Getpid(), r.Index))
}

func runC18(t *testing.T, r *simkit.Run) {
	ctx := context.Background()
	maxN := 36
	if r.Tier == "thorough" {
		maxN = 60
	}
	faultsOn := r.Tape.Intn(4) != 0
	n := r.Tape.Range(4, maxN)
	r.Config["faults"] = faultsOn
	r.Config["entries"] = n
	gen := vsNewGen(r.Tape, r.Config)

	w := &vsWorld{r: r, base: vsRunDir(r)}
	if err := os.MkdirAll(w.base, 0o755); err != nil {
		r.Infra("mkdir %s: %v", w.base, err)
		return
	}
	defer os.RemoveAll(w.base)
	defer func() { statefile.VerifCrashPointHook = nil }()
	fields := vsFieldSet{}
	defer fields.flush(r)

	// ---- (a): one entry at a time, generating the log as we go -------------------
	mem := &vsMemStore{}
	smA, err := fsm.New(mem)
	if err != nil {
		r.Infra("fsm.New: %v", err)
		return
	}
	if err := smA.Load(ctx); err != nil {
		r.Infra("fsm.Load on empty store: %v", err)
		return
	}
	w.canonAt = append(w.canonAt, vsCanon(state.ClusterState{}))
	w.stateAt = append(w.stateAt, state.ClusterState{})
	term := uint64(1)
	changedAfterInit := 0
	for idx := uint64(1); idx <= uint64(n); idx++ {
		if r.Tape.Chance(1, 8) {
			term++
		}
		rec := vsRec{entry: raftpb.Entry{Index: idx, Term: term, Type: raftpb.EntryNormal}}
		switch r.Tape.Weighted([]int{10, 1, 1}) {
		case 1: // empty entry (a new leader's no-op)
			r.Logf("a #%d empty", idx)
		case 2:
			rec.entry.Type = raftpb.EntryConfChange
			rec.entry.Data = []byte{1}
			r.Logf("a #%d confchange", idx)
		default:
			pre := smA.Snapshot(ctx)
			cmd, meta := gen.next(pre)
			data, err := command.Encode(cmd)
			if err != nil {
				r.Infra("command.Encode: %v", err)
				return
			}
			dec, err := command.Decode(data)
			if err != nil {
				r.Fail("codec_roundtrip", fmt.Sprintf("command.Decode rejects command.Encode output at #%d (%s): %v", idx, meta.kind, err), nil)
				return
			}
			if again, err := command.Encode(dec); err != nil || string(again) != string(data) {
				r.Probe("codec.reencode_differs")
			}
			rec.isCmd, rec.meta, rec.entry.Data = true, meta, data
			savesBefore := mem.saves
			out, err := smA.ApplyBatch(ctx, []fsm.AppliedCommand{{Index: idx, Term: term, Command: dec}})
			if err != nil {
				r.Fail("apply_error", fmt.Sprintf("#%d %s/%s: ApplyBatch failed on a healthy store: %v", idx, meta.kind, meta.variant, err), nil)
				return
			}
			if len(out.Results) != 1 {
				r.Fail("result_count", fmt.Sprintf("#%d: %d results for 1 command", idx, len(out.Results)), nil)
				return
			}
			rec.res = out.Results[0]
			rec.trans = vsJSON(rec.res.TaskTransitions)
			post := smA.Snapshot(ctx)
			r.Logf("a #%d %s/%s %s -> %s %q rev=%d applied=%d trans=%d", idx, meta.kind, meta.variant, meta.note, vsOutcome(rec.res), rec.res.Reason, rec.res.Revision, rec.res.AppliedRaftIndex, len(rec.res.TaskTransitions))
			r.State("c18", meta.kind, meta.variant, vsOutcome(rec.res), rec.res.Reason)
			r.Probe("outcome." + vsOutcome(rec.res))
			if rec.res.Changed {
				r.Probe("changed." + string(cmd.Kind))
				if pre.Revision != 0 {
					changedAfterInit++
				}
			}
			if rec.res.Reason != "" {
				r.Probe("reason." + rec.res.Reason)
			}
			if meta.stale {
				r.Probe("stale." + meta.note)
			}
			w.checkStep(idx, dec, meta, pre, post, rec.res, out.FinalState)
			if !r.Failed() && post.Revision != 0 {
				if mem.saves != savesBefore+1 {
					r.Fail("save_count", fmt.Sprintf("#%d: %d saves for one batch", idx, mem.saves-savesBefore), nil)
				}
				w.checkPersisted("a", idx, post, mem)
			}
			if r.Failed() {
				return
			}
		}
		r.Steps++
		snap := smA.Snapshot(ctx)
		if rec.res.Changed || rec.res.Updated {
			fields.add(snap)
			fields.noteRestoreShape(snap)
		}
		w.recs = append(w.recs, rec)
		w.canonAt = append(w.canonAt, vsCanon(snap))
		w.stateAt = append(w.stateAt, snap)
	}

	// ---- (b): batch partitions through the real apply scheduler, no faults ---------
	lb := w.newLineage("b", false)
	// lineage (c) always runs on the real state file; (b) does so in fault-free
	// runs and in one faulty run out of four (every Save costs two fsyncs)
	lb.useMem = faultsOn && r.Tape.Intn(4) != 0
	r.Config["b_on_memory_store"] = lb.useMem
	lb.run()
	if r.Failed() || r.InfraErr != "" {
		return
	}
	// ---- (c): the same with restarts, crashes and re-delivery ----------------------
	restarts := 0
	if faultsOn {
		lc := w.newLineage("c", true)
		lc.run()
		restarts = lc.restarts
	}
	if changedAfterInit >= 3 && lb.multiBatches > 0 && (!faultsOn || restarts > 0) {
		r.Nontrivial = true
	}
}

// checkStep holds the per-command accounting oracle on the reference lineage.
func (w *vsWorld) checkStep(idx uint64, cmd command.Command, meta vsMeta, pre, post state.ClusterState, res fsm.ApplyResult, final state.ClusterState) {
	r := w.r
	facts := map[string]any{"index": idx, "kind": meta.kind, "variant": meta.variant, "outcome": vsOutcome(res), "reason": res.Reason}
	fail := func(class, format string, args ...any) {
		r.FailSig(class, meta.kind, fmt.Sprintf("#%d %s/%s: ", idx, meta.kind, meta.variant)+fmt.Sprintf(format, args...), facts)
	}
	flags := 0
	for _, b := range []bool{res.Changed, res.Updated, res.Noop, res.Rejected} {
		if b {
			flags++
		}
	}
	if flags != 1 {
		fail("outcome_flags", "exactly one of changed/updated/noop/rejected expected, got %s", vsOutcome(res))
		return
	}
	if vsCanon(final) != vsCanon(post) {
		fail("final_state_not_published", "BatchApplyResult.FinalState differs from Snapshot()")
		return
	}
	if post.Revision < pre.Revision || post.Revision-pre.Revision > 1 {
		fail("revision_step", "revision went %d -> %d", pre.Revision, post.Revision)
		return
	}
	if meta.stale && (res.Changed || res.Updated || vsLogical(pre, false) != vsLogical(post, false)) {
		fail("stale_command_changed_state", "a command fenced by a stale %s changed the state (%s)", meta.note, vsOutcome(res))
		return
	}
	if pre.Revision == 0 {
		if post.Revision != 0 {
			if !res.Changed || cmd.Kind != command.KindInitClusterState || post.Revision != 1 || post.AppliedRaftIndex != idx {
				fail("init_accounting", "state created by %s: rev=%d applied=%d", vsOutcome(res), post.Revision, post.AppliedRaftIndex)
			}
		} else if res.Changed || res.Updated || vsCanon(post) != vsCanon(pre) {
			fail("pre_init_changed", "no state exists, outcome %s, yet something changed", vsOutcome(res))
		}
		if post.Revision != 0 && (res.Revision != post.Revision || res.AppliedRaftIndex != post.AppliedRaftIndex) {
			fail("result_fields", "result rev/applied %d/%d vs state %d/%d", res.Revision, res.AppliedRaftIndex, post.Revision, post.AppliedRaftIndex)
		}
	} else {
		if post.AppliedRaftIndex != idx {
			fail("applied_index", "applied index %d after handling entry %d", post.AppliedRaftIndex, idx)
			return
		}
		if res.Revision != post.Revision || res.AppliedRaftIndex != post.AppliedRaftIndex {
			fail("result_fields", "result rev/applied %d/%d vs state %d/%d", res.Revision, res.AppliedRaftIndex, post.Revision, post.AppliedRaftIndex)
			return
		}
		coreSame := vsLogical(pre, true) == vsLogical(post, true)
		allSame := vsLogical(pre, false) == vsLogical(post, false)
		switch {
		case res.Changed:
			if post.Revision != pre.Revision+1 {
				fail("changed_without_revision", "changed but revision %d -> %d", pre.Revision, post.Revision)
			} else {
				// revision moved; did anything else? (allowed, but worth counting)
				c1, c2 := pre, post // shallow copies; only scalars are changed below
				c1.Revision, c2.Revision = 0, 0
				c1.UpdatedAt, c2.UpdatedAt = post.UpdatedAt, post.UpdatedAt
				if vsLogical(c1, false) == vsLogical(c2, false) {
					r.Probe("changed_without_logical_diff")
				}
			}
		case res.Updated:
			if post.Revision != pre.Revision || !coreSame {
				fail("updated_touched_logical_state", "updated outcome but revision %d -> %d, core same=%v", pre.Revision, post.Revision, coreSame)
			} else if allSame {
				fail("updated_without_change", "updated outcome but nothing changed")
			}
		default: // noop / rejected
			if !allSame {
				what := "state"
				if post.Revision != pre.Revision {
					what = fmt.Sprintf("revision %d -> %d", pre.Revision, post.Revision)
				}
				fail("rejected_or_noop_changed_state", "%s (%s) changed %s", vsOutcome(res), res.Reason, what)
			}
		}
		if !r.Failed() && !coreSame && !res.Changed {
			fail("logical_change_without_revision", "logical state changed with outcome %s", vsOutcome(res))
		}
	}
	if r.Failed() {
		return
	}
	w.checkPublished("a", idx, post)
}

// checkPublished: every published state passes the package's validation and
// carries the checksum of its own content.
func (w *vsWorld) checkPublished(lineage string, idx uint64, st state.ClusterState) {
	if st.Revision == 0 {
		if vsCanon(st) != w.canonAt[0] {
			w.r.Fail("published_partial_state", fmt.Sprintf("%s #%d: revision 0 but state not empty", lineage, idx), nil)
		}
		return
	}
	if err := st.Validate(); err != nil {
		w.r.FailSig("published_invalid", lineage, fmt.Sprintf("%s #%d: published state fails Validate: %v", lineage, idx, err), nil)
		return
	}
	sum, err := state.Checksum(st)
	if err != nil || sum != st.Checksum {
		w.r.FailSig("published_checksum", lineage, fmt.Sprintf("%s #%d: published checksum %q, content checksum %q (%v)", lineage, idx, st.Checksum, sum, err), nil)
	}
}

// checkPersisted: what the store holds decodes, validates and equals the published state.
func (w *vsWorld) checkPersisted(lineage string, idx uint64, published state.ClusterState, store fsm.Store) {
	got, err := store.Load(context.Background())
	if err != nil {
		w.r.FailSig("persisted_unreadable", lineage, fmt.Sprintf("%s #%d: persisted state does not load: %v", lineage, idx, err), nil)
		return
	}
	if err := got.Validate(); err != nil {
		w.r.FailSig("persisted_invalid", lineage, fmt.Sprintf("%s #%d: persisted state fails Validate: %v", lineage, idx, err), nil)
		return
	}
	if vsCanon(got) != vsCanon(published) {
		w.r.FailSig("persisted_differs_from_published", lineage, fmt.Sprintf("%s #%d: persisted rev=%d applied=%d, published rev=%d applied=%d", lineage, idx, got.Revision, got.AppliedRaftIndex, published.Revision, published.AppliedRaftIndex), nil)
	}
}

// ---- scheduler-driven lineages (b) and (c) --------------------------------------------------

type vsLineage struct {
	w      *vsWorld
	r      *simkit.Run
	name   string
	faults bool

	dir    string
	gen    int
	useMem bool // lineage (b) may run on the memory store (same codec) to save fsyncs
	store  fsm.Store
	fs     *vsFileStore
	sm    *fsm.StateMachine
	sched *applyScheduler

	applied    uint64 // durable applied marker (raft store side)
	marks      int
	failMarkAt int
	hw         uint64 // highest index this lineage has handled (or loaded)
	skew       bool   // a compaction-shaped snapshot was installed (see sameAs)
	raceArmed  bool   // a racing manual compaction is planned for this job
	raced      *vsRaced

	lastRes     map[uint64]fsm.ApplyResult
	completed   map[uint64]int
	transStream []fsm.TaskTransition

	// kill-in-save plan
	killSave    int
	killSite    string
	killed      bool
	killDir     string
	killApplied uint64

	restarts     int
	multiBatches int
	batches      int
}

func (w *vsWorld) newLineage(name string, faults bool) *vsLineage {
	return &vsLineage{w: w, r: w.r, name: name, faults: faults, lastRes: map[uint64]fsm.ApplyResult{}, completed: map[uint64]int{}}
}

// batchApplier seen by the real scheduler: the real state machine plus checks.
func (l *vsLineage) ApplyBatch(ctx context.Context, batch []fsm.AppliedCommand) (fsm.BatchApplyResult, error) {
	pre := l.sm.Snapshot(ctx)
	l.batches++
	if len(batch) > 1 {
		l.multiBatches++
		l.r.Probe("batch.multi")
	}
	l.r.ProbeN("batch.entries", len(batch))
	out, err := l.sm.ApplyBatch(ctx, batch)
	if err != nil {
		l.r.Logf("%s batch [%d..%d] error=%v", l.name, batch[0].Index, batch[len(batch)-1].Index, errors.Is(err, errVsInjected))
		if !errors.Is(err, errVsInjected) {
			l.r.FailSig("apply_error", l.name, fmt.Sprintf("%s: ApplyBatch [%d..%d] failed without an injected fault: %v", l.name, batch[0].Index, batch[len(batch)-1].Index, err), nil)
		} else if !l.sm.IsDegraded() {
			l.r.Probe("save_error.not_degraded")
		}
		if got := l.sm.Snapshot(ctx); vsCanon(got) != vsCanon(pre) {
			l.r.FailSig("failed_batch_published", l.name, fmt.Sprintf("%s: a batch whose save failed changed the published state", l.name), nil)
		}
		return out, err
	}
	l.r.Logf("%s batch [%d..%d] n=%d", l.name, batch[0].Index, batch[len(batch)-1].Index, len(batch))
	if len(out.Results) != len(batch) {
		l.r.Fail("result_count", fmt.Sprintf("%s: %d results for %d commands", l.name, len(out.Results), len(batch)), nil)
		return out, err
	}
	post := l.sm.Snapshot(ctx)
	if vsCanon(out.FinalState) != vsCanon(post) {
		l.r.FailSig("final_state_not_published", l.name, fmt.Sprintf("%s: FinalState differs from Snapshot() after batch ending at %d", l.name, batch[len(batch)-1].Index), nil)
		return out, err
	}
	for i, c := range batch {
		l.r.Steps++
		res := out.Results[i]
		l.lastRes[c.Index] = res
		rec := l.w.recs[c.Index-1]
		if pre.Revision != 0 && c.Index <= pre.AppliedRaftIndex {
			// re-delivered entry
			l.r.Probe("redelivered.entries")
			if !res.Noop || res.Changed || res.Updated || res.Rejected || res.Reason != fsm.ReasonAlreadyApplied {
				l.r.FailSig("replayed_entry_applied", l.name, fmt.Sprintf("%s: entry %d (%s) re-delivered at applied index %d was handled as %s %q", l.name, c.Index, rec.meta.kind, pre.AppliedRaftIndex, vsOutcome(res), res.Reason), nil)
				return out, err
			}
			continue
		}
		want := rec.res
		if res.Changed != want.Changed || res.Updated != want.Updated || res.Noop != want.Noop || res.Rejected != want.Rejected ||
			res.Reason != want.Reason || res.Revision != want.Revision || res.AppliedRaftIndex != want.AppliedRaftIndex {
			l.r.FailSig("result_diverged", l.name, fmt.Sprintf("%s: entry %d (%s/%s): one-at-a-time gave %s %q rev=%d applied=%d, batched gave %s %q rev=%d applied=%d (batch [%d..%d])",
				l.name, c.Index, rec.meta.kind, rec.meta.variant, vsOutcome(want), want.Reason, want.Revision, want.AppliedRaftIndex,
				vsOutcome(res), res.Reason, res.Revision, res.AppliedRaftIndex, batch[0].Index, batch[len(batch)-1].Index), nil)
			return out, err
		}
		if tr := vsJSON(res.TaskTransitions); tr != rec.trans {
			l.r.FailSig("transitions_diverged", l.name, fmt.Sprintf("%s: entry %d (%s): task transitions differ between one-at-a-time and batched application", l.name, c.Index, rec.meta.kind), nil)
			return out, err
		}
	}
	return out, err
}

// Restore lets the real scheduler install snapshots into the real state machine.
func (l *vsLineage) Restore(ctx context.Context, st state.ClusterState) error {
	l.r.Logf("%s restore snapshot rev=%d applied=%d", l.name, st.Revision, st.AppliedRaftIndex)
	return l.sm.Restore(ctx, st)
}

// MarkAppliedBatch is the raft-store side applied marker; it is also the
// observation point for intermediate states.
// vsRaced is a raft snapshot as Service.compactLogAt builds it when a manual
// compaction (run-loop goroutine, reads the store's applied marker) runs while
// the apply scheduler has already saved and published a batch whose applied
// marker has not moved yet.
type vsRaced struct {
	data       []byte
	metaIndex  uint64 // the lagging applied marker = snapshot metadata index
	stateIndex uint64 // AppliedRaftIndex of the embedded state (ahead of metaIndex)
}

// captureRace runs at the one point where the real scheduler has published a
// batch and not yet marked it applied.
func (l *vsLineage) captureRace(ctx context.Context) {
	st := l.sm.Snapshot(ctx)
	applied := l.applied
	if st.Revision == 0 || applied == 0 || st.AppliedRaftIndex <= applied {
		return // compactLogAt would skip, or nothing is ahead
	}
	if st.AppliedRaftIndex < applied { // as compactLogAt: only ever raised
		st.AppliedRaftIndex = applied
	}
	data, err := state.Encode(st)
	if err != nil {
		l.r.FailSig("published_invalid", l.name, fmt.Sprintf("%s: published state cannot be encoded for a snapshot: %v", l.name, err), nil)
		return
	}
	l.raced = &vsRaced{data: data, metaIndex: applied, stateIndex: st.AppliedRaftIndex}
	l.r.Fault("compaction_race")
	l.r.Logf("%s compaction races the scheduler: marker %d, published state applied %d", l.name, applied, st.AppliedRaftIndex)
}

func (l *vsLineage) MarkAppliedBatch(ctx context.Context, index uint64) error {
	if l.raceArmed && l.raced == nil {
		l.captureRace(ctx)
	}
	l.marks++
	if l.failMarkAt != 0 && l.marks == l.failMarkAt {
		l.r.Fault("mark_error")
		l.r.Logf("%s mark(%d) fails (injected)", l.name, index)
		return errVsInjected
	}
	if index > l.applied {
		l.applied = index
	}
	l.observe(ctx, index)
	return nil
}

func (l *vsLineage) observe(ctx context.Context, index uint64) {
	if l.r.Failed() {
		return
	}
	if index > l.hw {
		l.hw = index
	}
	snap := l.sm.Snapshot(ctx)
	if got := vsCanon(snap); !l.sameAs(snap, l.hw) {
		want := l.w.stateAt[l.hw]
		l.r.FailSig("state_diverged", l.name, fmt.Sprintf("%s: after handling entries up to %d the state is rev=%d applied=%d sum=%s; one-at-a-time application had rev=%d applied=%d sum=%s",
			l.name, l.hw, snap.Revision, snap.AppliedRaftIndex, snap.Checksum, want.Revision, want.AppliedRaftIndex, want.Checksum),
			map[string]any{"got": got, "want": l.w.canonAt[l.hw]})
		return
	}
	l.w.checkPublished(l.name, index, snap)
	if l.r.Failed() {
		return
	}
	if snap.Revision != 0 {
		l.w.checkPersisted(l.name, index, snap, l.store)
	} else if _, err := l.store.Load(ctx); !errors.Is(err, os.ErrNotExist) {
		l.r.FailSig("persisted_before_init", l.name, fmt.Sprintf("%s: a state file exists although no state was created (load: %v)", l.name, err), nil)
	}
}

func (l *vsLineage) complete(index uint64, res ProposalResult, err error) {
	l.completed[index]++
	rec := l.w.recs[index-1]
	if !rec.isCmd {
		if !res.Noop || res.AppliedRaftIndex != index || err != nil {
			l.r.FailSig("empty_entry_completion", l.name, fmt.Sprintf("%s: empty entry %d completed as %+v err=%v", l.name, index, res, err), nil)
		}
		return
	}
	want, ok := l.lastRes[index]
	if !ok {
		l.r.FailSig("completion_without_apply", l.name, fmt.Sprintf("%s: entry %d completed but never applied", l.name, index), nil)
		return
	}
	if res != proposalResultFromApplyResult(want) {
		l.r.FailSig("completion_mismatch", l.name, fmt.Sprintf("%s: entry %d completion %+v differs from apply result", l.name, index, res), nil)
		return
	}
	var rej ProposalRejectedError
	if want.Rejected != errors.As(err, &rej) || (want.Rejected && (rej.Index != index || rej.Reason != want.Reason)) {
		l.r.FailSig("completion_error_mismatch", l.name, fmt.Sprintf("%s: entry %d rejected=%v but completion error %v", l.name, index, want.Rejected, err), nil)
	}
}

// open starts an incarnation of the lineage on dir (loads the state file).
func (l *vsLineage) open(dir string) bool {
	ctx := context.Background()
	l.dir = dir
	if l.useMem {
		l.store = &vsMemStore{}
	} else {
		l.fs = vsNewFileStore(dir)
		l.fs.fired = func(k string) { l.r.Fault(k) }
		l.store = l.fs
	}
	sm, err := fsm.New(l.store)
	if err != nil {
		l.r.Infra("fsm.New: %v", err)
		return false
	}
	l.sm = sm
	if err := sm.Load(ctx); err != nil {
		l.r.FailSig("load_after_restart", l.name, fmt.Sprintf("%s: loading the state file after a restart failed: %v", l.name, err), nil)
		return false
	}
	l.marks, l.failMarkAt = 0, 0
	l.killSave, l.killSite, l.killed = 0, "", false
	l.lastRes = map[uint64]fsm.ApplyResult{}
	return true
}

func (l *vsLineage) newScheduler() {
	t := l.r.Tape
	cfg := applySchedulerConfig{
		MaxEntries: []int{0, 8, 5, 3, 2, 1}[t.Weighted([]int{3, 2, 2, 2, 2, 1})],
		MaxBytes:   []uint64{0, 300, 900, 2500, 30000}[t.Intn(5)],
	}
	// The real constructor allocates a 1024-slot job channel (unused here: jobs
	// are applied synchronously); keep one scheduler object per configuration
	// and re-point it at this lineage. The scheduler keeps no state between jobs.
	s, ok := vsSchedCache[cfg]
	if !ok {
		s = newApplyScheduler(cfg, l, l, l.complete)
		vsSchedCache[cfg] = s
	}
	s.applier, s.marker, s.complete = l, l, l.complete
	l.sched = s
	l.sched.onTaskTransitions = func(items []fsm.TaskTransition) { l.transStream = append(l.transStream, items...) }
	l.r.Logf("%s scheduler max_entries=%d max_bytes=%d", l.name, cfg.MaxEntries, cfg.MaxBytes)
}

func (l *vsLineage) run() {
	ctx := context.Background()
	r, t := l.r, l.r.Tape
	n := uint64(len(l.w.recs))
	l.gen = 0
	dir := filepath.Join(l.w.base, fmt.Sprintf("%s%d", l.name, l.gen))
	if err := os.MkdirAll(dir, 0o755); err != nil {
		r.Infra("mkdir: %v", err)
		return
	}
	if !l.open(dir) {
		return
	}
	l.newScheduler()
	if l.faults {
		statefile.VerifCrashPointHook = l.crashPoint
		defer func() { statefile.VerifCrashPointHook = nil }()
	}
	next := uint64(1) // next raft index to deliver
	maxRestarts := 3
	for next <= n && !r.Failed() && r.InfraErr == "" {
		// one job = one Ready's committed entries
		end := next
		for end < n && !t.Chance(1, 4) {
			end++
		}
		entries := make([]raftpb.Entry, 0, end-next+1)
		for i := next; i <= end; i++ {
			entries = append(entries, l.w.recs[i-1].entry)
		}
		// fault plan for this job
		plan := 0
		if l.faults && l.restarts < maxRestarts {
			plan = t.Weighted([]int{6, 2, 2, 2, 3, 2, 3})
		}
		switch plan {
		case 6:
			// a manual log compaction races with the apply scheduler of this
			// replica: it runs after a batch was saved and published and before
			// the applied marker moved (see MarkAppliedBatch / captureRace)
			l.raceArmed = true
		case 2:
			l.failMarkAt = l.marks + 1 + t.Intn(3)
		case 3:
			l.fs.failSaveAt = l.fs.saves + 1 + t.Intn(2)
		case 4:
			l.killSave = l.fs.saves + 1 + t.Intn(2)
			l.killSite = vsSites[t.Intn(len(vsSites))]
		}
		r.Logf("%s job [%d..%d] plan=%d", l.name, next, end, plan)
		err := l.sched.applyJob(ctx, toApply{entries: entries})
		if r.Failed() {
			return
		}
		if err != nil && !errors.Is(err, errVsInjected) {
			r.FailSig("apply_error", l.name, fmt.Sprintf("%s: applyJob [%d..%d] failed without an injected fault: %v", l.name, next, end, err), nil)
			return
		}
		crashed := err != nil || l.killed
		if err == nil {
			next = end + 1
		}
		if !crashed && plan != 1 && plan != 5 && l.raced == nil {
			l.failMarkAt, l.killSave, l.raceArmed = 0, 0, false
			if l.fs != nil {
				l.fs.failSaveAt = 0
			}
			continue
		}
		if !crashed && next > n && l.raced == nil {
			break // a restart after the last entry is covered by the final reload below
		}
		raced := l.raced
		l.raced, l.raceArmed = nil, false
		if crashed {
			raced = nil
		}
		// ---- restart ---------------------------------------------------------------
		l.restarts++
		l.gen++
		applied := l.applied
		from := l.dir
		kind := "stop"
		switch {
		case l.killed:
			kind, from, applied = "kill_in_save@"+l.killSite, l.killDir, l.killApplied
			r.Fault("kill_in_save")
		case err != nil:
			kind = "error"
		case plan == 5 || raced != nil:
			kind = "snapshot_install"
		default:
			r.Fault("restart")
		}
		if raced != nil {
			// a follower with an empty disk installs the snapshot the racing compaction
			// produced: metadata index = the lagging applied marker, embedded state
			// already ahead of it. The entries in between arrive again afterwards and
			// must be recognised as already applied.
			r.Fault("snapshot_install_state_ahead")
			ndir := filepath.Join(l.w.base, fmt.Sprintf("%s%d", l.name, l.gen))
			if err := os.MkdirAll(ndir, 0o755); err != nil {
				r.Infra("mkdir: %v", err)
				return
			}
			if !l.open(ndir) {
				return
			}
			l.applied, l.hw = 0, raced.stateIndex
			l.newScheduler()
			r.Logf("%s restart#%d snapshot_install of raced compaction: metadata index %d, embedded state applied %d", l.name, l.restarts, raced.metaIndex, raced.stateIndex)
			if err := l.sched.applyJob(ctx, toApply{snapshot: raftpb.Snapshot{Data: raced.data, Metadata: raftpb.SnapshotMetadata{Index: raced.metaIndex, Term: 1}}}); err != nil {
				r.FailSig("apply_error", l.name, fmt.Sprintf("%s: snapshot install failed: %v", l.name, err), nil)
				return
			}
			if r.Failed() {
				return
			}
			back := uint64(t.Intn(vsMin(int(raced.metaIndex), 3) + 1))
			next = raced.metaIndex + 1 - back
			r.Logf("%s redeliver from %d (metadata %d, state %d)", l.name, next, raced.metaIndex, raced.stateIndex)
			continue
		}
		if kind == "snapshot_install" {
			// a follower that lost its disk: empty directory, snapshot of a prefix, then the tail
			k := t.Intn(int(next)) // prefix 0..next-1
			src := l.w.stateAt[k]
			if src.Revision == 0 {
				kind = "stop" // nothing to snapshot yet: plain restart
				r.Fault("restart")
			} else {
				r.Fault("snapshot_install")
				ndir := filepath.Join(l.w.base, fmt.Sprintf("%s%d", l.name, l.gen))
				if err := os.MkdirAll(ndir, 0o755); err != nil {
					r.Infra("mkdir: %v", err)
					return
				}
				if !l.open(ndir) {
					return
				}
				l.applied, l.hw = 0, 0
				m := src.AppliedRaftIndex
				if uint64(k) > m && t.Intn(2) == 1 {
					// the shape Service.compactLogAt produces: the published state
					// (checksum already filled in for the old content) gets its applied
					// index advanced over the non-command entries raft has applied since,
					// and is encoded as it is
					src.AppliedRaftIndex = uint64(k)
					m = uint64(k)
					l.skew = true
					r.Probe("snapshot_install.compaction_shape")
				}
				data, err := state.Encode(src)
				if err != nil {
					r.Fail("published_invalid", fmt.Sprintf("state at %d cannot be encoded for a snapshot: %v", k, err), nil)
					return
				}
				l.newScheduler()
				r.Logf("%s restart#%d snapshot_install of state@%d (index %d, compaction shape %v)", l.name, l.restarts, k, m, l.skew)
				if err := l.sched.applyJob(ctx, toApply{snapshot: raftpb.Snapshot{Data: data, Metadata: raftpb.SnapshotMetadata{Index: m, Term: 1}}}); err != nil {
					r.FailSig("apply_error", l.name, fmt.Sprintf("%s: snapshot install failed: %v", l.name, err), nil)
					return
				}
				back := uint64(t.Intn(vsMin(int(m), 5) + 1))
				next = m + 1 - back
				r.Logf("%s redeliver from %d (applied %d)", l.name, next, m)
				continue
			}
		}
		if !l.open(from) {
			return
		}
		snap := l.sm.Snapshot(ctx)
		replayFrom := applied + 1
		if snap.Revision != 0 {
			a := snap.AppliedRaftIndex
			if a > n || !l.sameAs(snap, a) {
				r.FailSig("restart_state_not_a_prefix", l.name, fmt.Sprintf("%s: state loaded after %s has rev=%d applied=%d and is not the state after entry %d", l.name, kind, snap.Revision, a, a), nil)
				return
			}
			if a < applied && l.hasCommandBetween(a, applied) {
				r.FailSig("applied_marker_ahead_of_state", l.name, fmt.Sprintf("%s: applied marker %d is ahead of persisted state %d after %s", l.name, applied, a, kind), nil)
				return
			}
			l.w.checkPublished(l.name, a, snap)
			l.hw = a
			replayFrom = a + 1
		} else {
			l.hw = 0
		}
		l.applied = applied
		back := uint64(t.Intn(vsMin(int(replayFrom)-1, 6) + 1))
		next = replayFrom - back
		if back > 0 {
			r.Fault("redelivery")
		}
		r.Logf("%s restart#%d kind=%s loaded rev=%d applied=%d marker=%d redeliver from %d", l.name, l.restarts, kind, snap.Revision, snap.AppliedRaftIndex, applied, next)
		l.newScheduler()
	}
	if r.Failed() || r.InfraErr != "" {
		return
	}
	// ---- end of log: final state, final file, completions ------------------------------
	final := l.sm.Snapshot(ctx)
	if !l.sameAs(final, n) {
		r.FailSig("state_diverged", l.name, fmt.Sprintf("%s: final state rev=%d applied=%d differs from one-at-a-time rev=%d applied=%d", l.name, final.Revision, final.AppliedRaftIndex, l.w.stateAt[n].Revision, l.w.stateAt[n].AppliedRaftIndex), nil)
		return
	}
	var re fsm.Store = l.store
	if !l.useMem {
		re = vsNewFileStore(l.dir)
	}
	if final.Revision != 0 {
		l.w.checkPersisted(l.name+"-final", n, final, re)
	}
	if !l.faults {
		for i := uint64(1); i <= n; i++ {
			rec := l.w.recs[i-1]
			want := 1
			if rec.entry.Type != raftpb.EntryNormal {
				want = 0
			}
			if l.completed[i] != want {
				r.FailSig("completion_count", l.name, fmt.Sprintf("%s: entry %d completed %d times, want %d", l.name, i, l.completed[i], want), nil)
				return
			}
		}
		var all []fsm.TaskTransition
		for _, rec := range l.w.recs {
			all = append(all, rec.res.TaskTransitions...)
		}
		if len(all) != len(l.transStream) || (len(all) > 0 && !reflect.DeepEqual(vsJSON(all), vsJSON(l.transStream))) {
			r.FailSig("transition_stream_diverged", l.name, fmt.Sprintf("%s: %d transitions observed through the scheduler, %d one at a time", l.name, len(l.transStream), len(all)), nil)
			return
		}
		r.ProbeN("transitions", len(all))
	}
	r.ProbeN("restarts", l.restarts)
}

// sameAs reports whether snap is the reference state after entry i. Once this
// lineage has installed a compaction-shaped snapshot (applied index advanced
// over non-command entries, as Service.compactLogAt does) the applied index may
// sit anywhere between the reference's and i until the next command is applied;
// everything else must still be identical (the checksum is validated separately).
func (l *vsLineage) sameAs(snap state.ClusterState, i uint64) bool {
	if vsCanon(snap) == l.w.canonAt[i] {
		return true
	}
	if !l.skew {
		return false
	}
	ref := l.w.stateAt[i]
	return vsLogical(snap, false) == vsLogical(ref, false) && snap.AppliedRaftIndex >= ref.AppliedRaftIndex && snap.AppliedRaftIndex <= i
}

func (l *vsLineage) hasCommandBetween(a, b uint64) bool {
	for i := a + 1; i <= b; i++ {
		if l.w.recs[i-1].isCmd && l.w.stateAt[i].Revision != 0 {
			return true
		}
	}
	return false
}

// crashPoint is the statefile crash-point hook while lineage (c) runs: at the
// planned save and site it captures the directory as a killed process would
// leave it.
func (l *vsLineage) crashPoint(site, tmpPath, finalPath string) {
	if l.killSave == 0 || l.killed || filepath.Dir(finalPath) != l.dir {
		return
	}
	if l.fs.saves+1 != l.killSave || site != l.killSite {
		return
	}
	dst := filepath.Join(l.w.base, fmt.Sprintf("%s%d-kill", l.name, l.gen))
	if err := vsCopyDir(l.dir, dst); err != nil {
		l.r.Infra("copy dir for kill: %v", err)
		return
	}
	l.killed, l.killDir, l.killApplied = true, dst, l.applied
	l.r.Logf("%s kill captured during save #%d at %s (marker %d)", l.name, l.killSave, site, l.applied)
}
