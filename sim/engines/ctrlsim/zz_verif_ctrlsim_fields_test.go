package raft

// Field-population probes: which fields of the persisted state type were ever
// non-empty in the states a run worked with. Every path of the type is listed
// (probe value 0 when never populated), so that a generator gap - a part of the
// state document no run ever fills - is visible in the evidence.

import (
	"reflect"
	"sort"
	"time"

	"github.com/WuKongIM/WuKongIM/internal/verifsim/simkit"
	"github.com/WuKongIM/WuKongIM/pkg/controller/state"
)

var vsTimeType = reflect.TypeOf(time.Time{})

// vsStateFieldPaths is every field path of state.ClusterState (structs, pointers
// and slice elements are descended into).
var vsStateFieldPaths = func() []string {
	var out []string
	vsTypePaths(reflect.TypeOf(state.ClusterState{}), "", &out)
	sort.Strings(out)
	return out
}()

func vsTypePaths(t reflect.Type, prefix string, out *[]string) {
	for i := 0; i < t.NumField(); i++ {
		f := t.Field(i)
		if !f.IsExported() {
			continue
		}
		path := prefix + f.Name
		*out = append(*out, path)
		ft := f.Type
		for ft.Kind() == reflect.Pointer || ft.Kind() == reflect.Slice {
			ft = ft.Elem()
		}
		if ft.Kind() == reflect.Struct && ft != vsTimeType {
			vsTypePaths(ft, path+".", out)
		}
	}
}

type vsFieldSet map[string]bool

// add records every path that is populated (non-zero; slices: non-empty) in st.
func (s vsFieldSet) add(st state.ClusterState) { s.walk(reflect.ValueOf(st), "") }

func (s vsFieldSet) walk(v reflect.Value, prefix string) {
	t := v.Type()
	for i := 0; i < t.NumField(); i++ {
		if !t.Field(i).IsExported() {
			continue
		}
		path := prefix + t.Field(i).Name
		fv := v.Field(i)
		if fv.Kind() == reflect.Slice {
			if fv.Len() == 0 {
				continue
			}
			s[path] = true
			et := fv.Type().Elem()
			if et.Kind() == reflect.Struct && et != vsTimeType {
				for j := 0; j < fv.Len(); j++ {
					s.walk(fv.Index(j), path+".")
				}
			}
			continue
		}
		if fv.IsZero() {
			continue
		}
		s[path] = true
		if fv.Kind() == reflect.Pointer {
			fv = fv.Elem()
		}
		if fv.Kind() == reflect.Struct && fv.Type() != vsTimeType {
			s.walk(fv, path+".")
		}
	}
}

// flush writes one probe per path: 1 when populated in this run, 0 otherwise.
func (s vsFieldSet) flush(r *simkit.Run) {
	for _, p := range vsStateFieldPaths {
		if s[p] {
			r.Probes["state_field_populated."+p]++
		} else {
			r.Probes["state_field_populated."+p] += 0
		}
	}
	// restore replica evidence: per-slot lists of different lengths
	if s["#restore_lists_non_uniform"] {
		r.Probe("restore_replica_lists.non_uniform")
	}
	if s["#restore_slot0_narrower"] {
		r.Probe("restore_replica_lists.slot0_narrower_than_another")
	}
}

// noteRestoreShape records whether an active restore job carries per-slot
// replica lists of different lengths (and a first slot narrower than another).
func (s vsFieldSet) noteRestoreShape(st state.ClusterState) {
	if st.ScheduledBackup == nil || st.ScheduledBackup.ActiveRestore == nil {
		return
	}
	slots := st.ScheduledBackup.ActiveRestore.Slots
	for i := range slots {
		if len(slots[i].ReplicaNodeIDs) != len(slots[0].ReplicaNodeIDs) {
			s["#restore_lists_non_uniform"] = true
		}
		if len(slots[i].ReplicaNodeIDs) > len(slots[0].ReplicaNodeIDs) {
			s["#restore_slot0_narrower"] = true
		}
	}
}
