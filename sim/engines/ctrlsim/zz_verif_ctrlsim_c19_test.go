package raft

// C19 — the Controller state file is replaced atomically. Real statefile.Store
// on real OS files; the crash-point hook (H3) captures the directory between
// the system calls of Save; the harness builds every "disk after the crash"
// (process kill and power loss) in a fresh directory and calls the real Load.

import (
	"bytes"
	"context"
	"encoding/json"
	"errors"
	"fmt"
	"os"
	"path/filepath"
	"reflect"
	"sort"
	"strings"
	"testing"

	"github.com/WuKongIM/WuKongIM/internal/verifsim/simkit"
	"github.com/WuKongIM/WuKongIM/pkg/controller/command"
	"github.com/WuKongIM/WuKongIM/pkg/controller/fsm"
	"github.com/WuKongIM/WuKongIM/pkg/controller/state"
	"github.com/WuKongIM/WuKongIM/pkg/controller/statefile"
)

var vsSites = []string{"temp-created", "temp-written", "temp-synced", "before-rename", "renamed", "dir-synced"}

const vsStateFile = "cluster-state.json"

// vsStatePool drives the real state machine (memory store) with generated
// commands and returns the distinct valid states it went through.
func vsStatePool(r *simkit.Run, steps int) []state.ClusterState {
	ctx := context.Background()
	gen := vsNewGen(r.Tape, r.Config)
	sm, err := fsm.New(&vsMemStore{})
	if err != nil {
		r.Infra("fsm.New: %v", err)
		return nil
	}
	var pool []state.ClusterState
	seen := map[string]bool{}
	for i := 1; i <= steps; i++ {
		cur := sm.Snapshot(ctx)
		cmd, _ := gen.next(cur)
		data, err := command.Encode(cmd)
		if err != nil {
			r.Infra("command.Encode: %v", err)
			return nil
		}
		dec, err := command.Decode(data)
		if err != nil {
			continue
		}
		if _, err := sm.Apply(ctx, uint64(i), dec); err != nil {
			r.Infra("fsm.Apply on memory store: %v", err)
			return nil
		}
		st := sm.Snapshot(ctx)
		if st.Revision == 0 {
			continue
		}
		if c := vsLogical(st, false); !seen[c] {
			seen[c] = true
			pool = append(pool, st)
		}
	}
	return pool
}

type vsCrashSnap struct {
	site                           string
	view                           map[string][]byte // the directory as a surviving process would see it
	tmpName, finalName             string
	tempSynced, renamed, dirSynced bool
	returned                       bool // pseudo site: Save has returned nil
}

type vsDisk struct {
	mode  string
	files map[string][]byte
}

func vsReadDirFiles(dir string) (map[string][]byte, error) {
	out := map[string][]byte{}
	ents, err := os.ReadDir(dir)
	if err != nil {
		return nil, err
	}
	for _, e := range ents {
		if !e.Type().IsRegular() {
			continue
		}
		b, err := os.ReadFile(filepath.Join(dir, e.Name()))
		if err != nil {
			return nil, err
		}
		out[e.Name()] = b
	}
	return out, nil
}

func vsWriteDisk(dir string, files map[string][]byte) error {
	if err := os.RemoveAll(dir); err != nil {
		return err
	}
	if err := os.MkdirAll(dir, 0o755); err != nil {
		return err
	}
	for _, name := range simkit.SortedKeys(files) {
		if err := os.WriteFile(filepath.Join(dir, name), files[name], 0o644); err != nil {
			return err
		}
	}
	return nil
}

func vsCountTmp(files map[string][]byte) int {
	n := 0
	for name := range files {
		if strings.HasSuffix(name, ".tmp") {
			n++
		}
	}
	return n
}

// vsPayload is the canonical logical content of a state: every field except
// the Checksum the value happens to carry. References are compared on this; the
// checksum of what Load returns is validated separately against its content.
func vsPayload(st state.ClusterState) string {
	c := st // shallow; vsCanon makes its own deep copy (not through the Clone under test)
	c.Checksum = ""
	return vsCanon(c)
}

var vsDeriveNames = []string{"fresh", "checksum-unset", "stale+applied", "stale+revision", "stale+node", "stale+health", "foreign-checksum", "garbage-checksum", "restore-job"}

// derive turns a published state (checksum filled in for its content, as
// Snapshot/Load/Decode return it) into what a read-modify-write caller would
// hand to Save: one or more fields changed, the old checksum still in the
// struct. Tape value 0 keeps the state as it is.
func (c *vsC19) derive(role string, st state.ClusterState, pool []state.ClusterState) state.ClusterState {
	tp := c.r.Tape
	k := tp.Weighted([]int{5, 1, 2, 1, 1, 1, 1, 1, 3})
	d := st.Clone()
	switch k {
	case 8:
		// a state in maintenance-mode restore, built directly (the command path
		// reaches it only from 256-hash-slot clusters with no active task):
		// 256 per-hash-slot replica evidence lists of tape-chosen, mostly
		// non-uniform lengths. Everything the restore needs to be valid is forced.
		d.Checksum = ""
		if tbl, err := state.BuildInitialHashSlotTable(d.Config.SlotCount, state.BackupHashSlotCount); err == nil {
			d.Config.HashSlotCount = state.BackupHashSlotCount
			d.HashSlots = tbl
		}
		d.Tasks = nil
		sb := state.ScheduledBackupState{Revision: 1, ManagerSessionEpoch: 1}
		if d.ScheduledBackup != nil {
			sb = *d.ScheduledBackup
		}
		sb.ActiveBackup = nil
		if sb.Plan == nil {
			sb.Plan = &state.BackupPlan{Revision: 1, Enabled: true, Store: state.BackupStoreConfig{Kind: state.BackupStoreKindFile}, Cron: "0 3 * * *", TimeZone: "UTC",
				RetentionCount: 3, RateBytesPerSec: 1 << 20, WorkersPerNode: 1, MaxDurationMillis: 3600000, ScheduleCursorUnixMillis: 2000, CreatedUnixMillis: 1000, UpdatedUnixMillis: 1000}
		}
		sb.ActiveRestore = vsRestoreJob(tp)
		d.ScheduledBackup = &sb
	case 1:
		d.Checksum = ""
	case 2: // what the raft log compactor does
		d.AppliedRaftIndex += uint64(1 + tp.Intn(5))
	case 3:
		d.Revision++
		d.UpdatedAt = d.UpdatedAt.Add(1e9)
		if tp.Intn(2) == 1 {
			d.AppliedRaftIndex++
		}
	case 4:
		if len(d.Nodes) > 0 {
			i := tp.Intn(len(d.Nodes))
			if tp.Intn(2) == 0 {
				d.Nodes[i].Name = "derived"
			} else if d.Nodes[i].Status == state.NodeStatusAlive {
				d.Nodes[i].Status = state.NodeStatusSuspect
			} else {
				d.Nodes[i].Status = state.NodeStatusAlive
			}
		}
	case 5:
		if len(d.NodeHealthReports) > 0 {
			d.NodeHealthReports[tp.Intn(len(d.NodeHealthReports))].ReportSeq += 7
		} else if len(d.Nodes) > 0 {
			d.NodeHealthReports = append(d.NodeHealthReports, state.NodeHealthReport{NodeID: d.Nodes[tp.Intn(len(d.Nodes))].NodeID, Status: state.NodeStatusAlive, ReportSeq: 1})
		}
	case 6:
		d.Checksum = pool[tp.Intn(len(pool))].Checksum
	case 7:
		d.Checksum = "crc32c:00000000"
	}
	if err := d.Validate(); err != nil {
		c.r.Probe("derive.invalid_fallback")
		d, k = st.Clone(), 0
	}
	sum, _ := state.Checksum(d)
	c.r.Logf("derive %s: %s (carried checksum matches content: %v)", role, vsDeriveNames[k], sum == d.Checksum)
	c.r.Probe("derived." + vsDeriveNames[k])
	if d.Checksum != "" && sum != d.Checksum {
		c.r.Probe("saved_with_stale_checksum")
		c.stale++
	}
	c.r.Config["derive_"+role] = vsDeriveNames[k]
	c.fields.add(d)
	c.fields.noteRestoreShape(d)
	return d
}

type vsC19 struct {
	stale  int        // states handed to Save with a checksum that does not match their content
	fields vsFieldSet // which fields of the state type the saved states populated
	r         *simkit.Run
	base      string
	prev      *state.ClusterState
	prevBytes []byte
	next      state.ClusterState
	third     state.ClusterState
	canonPrev string
	canonNext string
	snaps     []vsCrashSnap
	seen      map[string]bool
	workDir   string
	laterDone bool
}

func runC19(t *testing.T, r *simkit.Run) {
	ctx := context.Background()
	tp := r.Tape
	faultsOn := tp.Intn(4) != 0
	r.Config["faults"] = faultsOn
	steps := tp.Range(3, 24)
	pool := vsStatePool(r, steps)
	if r.InfraErr != "" {
		return
	}
	if len(pool) == 0 {
		r.Logf("no valid state generated in %d steps", steps)
		r.Probe("pool.empty")
		return
	}
	c := &vsC19{r: r, base: vsRunDir(r), seen: map[string]bool{}, fields: vsFieldSet{}}
	defer c.fields.flush(r)
	if err := os.MkdirAll(c.base, 0o755); err != nil {
		r.Infra("mkdir %s: %v", c.base, err)
		return
	}
	defer os.RemoveAll(c.base)
	defer func() { statefile.VerifCrashPointHook = nil }()

	havePrev := tp.Intn(4) != 0
	ni := tp.Intn(len(pool))
	if havePrev {
		pi := tp.Intn(len(pool))
		if pi == ni && len(pool) > 1 && !tp.Chance(1, 8) {
			pi = (ni + 1 + tp.Intn(len(pool)-1)) % len(pool) // usually a different state (older or newer)
		}
		p := c.derive("prev", pool[pi], pool)
		c.prev = &p
	}
	c.next = c.derive("new", pool[ni], pool)
	c.third = c.derive("third", pool[tp.Intn(len(pool))], pool)
	c.canonNext = vsPayload(c.next)
	r.Config["pool"] = len(pool)
	r.Config["have_prev"] = havePrev
	c.workDir = filepath.Join(c.base, "work")
	if err := os.MkdirAll(c.workDir, 0o755); err != nil {
		r.Infra("mkdir: %v", err)
		return
	}
	store := statefile.New(filepath.Join(c.workDir, vsStateFile))

	// ---- the previous state, saved without interference ------------------------------
	if c.prev != nil {
		if err := store.Save(ctx, *c.prev); err != nil {
			r.Fail("save_error", fmt.Sprintf("saving a valid state (rev %d) failed: %v", c.prev.Revision, err), nil)
			return
		}
		got, ok := c.loadSaved("previous", *c.prev)
		if !ok {
			return
		}
		c.canonPrev = vsPayload(got)
		b, err := os.ReadFile(filepath.Join(c.workDir, vsStateFile))
		if err != nil {
			r.Infra("read state file: %v", err)
			return
		}
		c.prevBytes = b
		r.Logf("prev rev=%d applied=%d bytes=%d", c.prev.Revision, c.prev.AppliedRaftIndex, len(b))
	} else {
		if _, err := store.Load(ctx); !errors.Is(err, os.ErrNotExist) {
			r.Fail("load_empty_dir", fmt.Sprintf("load in an empty directory: %v", err), nil)
			return
		}
		r.Logf("prev none")
		r.Probe("no_previous_file")
	}

	// ---- the save under test, with every crash point captured -------------------------
	if faultsOn {
		statefile.VerifCrashPointHook = c.hook
	}
	err := store.Save(ctx, c.next)
	statefile.VerifCrashPointHook = nil
	if err == nil && faultsOn && len(c.snaps) > 0 && r.InfraErr == "" {
		// one more crash point: right after Save returned success. Whatever the
		// sites reached so far made durable is all there is; the new state must
		// be what survives.
		last := c.snaps[len(c.snaps)-1]
		if view, verr := vsReadDirFiles(c.workDir); verr == nil {
			c.snaps = append(c.snaps, vsCrashSnap{site: "returned", view: view, tmpName: last.tmpName, finalName: last.finalName,
				tempSynced: c.seen["temp-synced"], renamed: c.seen["renamed"], dirSynced: c.seen["dir-synced"], returned: true})
		}
	}
	if err != nil {
		r.Fail("save_error", fmt.Sprintf("saving a valid state (rev %d) failed: %v", c.next.Revision, err), nil)
		return
	}
	r.Steps++
	got, ok := c.loadSaved("new", c.next)
	if !ok {
		return
	}
	c.encodeLikeCompaction(got)
	if r.Failed() {
		return
	}
	newBytes, err := os.ReadFile(filepath.Join(c.workDir, vsStateFile))
	if err != nil {
		r.Infra("read state file: %v", err)
		return
	}
	after, err := vsReadDirFiles(c.workDir)
	if err != nil {
		r.Infra("read dir: %v", err)
		return
	}
	if n := vsCountTmp(after); n > 0 {
		r.Probe("tmp_left_after_successful_save")
	}
	r.Logf("new rev=%d applied=%d bytes=%d sites=%d", c.next.Revision, c.next.AppliedRaftIndex, len(newBytes), len(c.snaps))
	if r.Failed() {
		return
	}
	if !faultsOn {
		// plain chain: a third save replaces the second
		if err := store.Save(ctx, c.third); err != nil {
			r.Fail("save_error", fmt.Sprintf("saving a valid state failed: %v", err), nil)
			return
		}
		c.loadSaved("third", c.third)
		r.Steps++
		return
	}

	// ---- every site x every crash mode ---------------------------------------------------
	for _, s := range c.snaps {
		c.enumerate(s)
		if r.Failed() || r.InfraErr != "" {
			return
		}
	}
	all := true
	for _, s := range vsSites {
		if !c.seen[s] {
			all = false
			r.Probe("site_not_reached." + s)
		}
	}
	// ---- corruption of the saved file -------------------------------------------------------
	c.corrupt(newBytes, got)
	if all && !r.Failed() {
		r.Nontrivial = true
	}
}

// loadSaved: after a Save that returned nil, a fresh Store (as after a restart)
// must load exactly the logical state that was handed to Save, carrying a
// checksum that covers it - whatever Checksum field the caller's value had.
func (c *vsC19) loadSaved(what string, saved state.ClusterState) (state.ClusterState, bool) {
	r := c.r
	sum, _ := state.Checksum(saved)
	sig := "fresh"
	if saved.Checksum == "" {
		sig = "checksum-unset"
	} else if saved.Checksum != sum {
		sig = "stale-checksum"
	}
	got, err := statefile.New(filepath.Join(c.workDir, vsStateFile)).Load(context.Background())
	if err != nil {
		r.FailSig("save_installed_unloadable_file", sig, fmt.Sprintf("Save of the %s state (rev %d applied %d, struct carried checksum %q, content checksum %s) returned nil, but a fresh Store cannot load the file: %v",
			what, saved.Revision, saved.AppliedRaftIndex, saved.Checksum, sum, err), map[string]any{"carried": sig})
		return got, false
	}
	if vsPayload(got) != vsPayload(saved) {
		r.FailSig("save_load_mismatch", sig, fmt.Sprintf("Save of the %s state returned nil and the file loads with a valid checksum, but its logical content differs from what was saved in: %s (got rev %d applied %d, saved rev %d applied %d)",
			what, vsDiffKeys(vsPayload(got), vsPayload(saved)), got.Revision, got.AppliedRaftIndex, saved.Revision, saved.AppliedRaftIndex), nil)
		return got, false
	}
	c.checkLoaded("after save of "+what, got)
	return got, !r.Failed()
}

// encodeLikeCompaction mirrors what the raft log compactor does with a
// published state (Service.compactLogAt): advance the applied index over
// non-command entries, encode the value as it is. The payload must decode to
// exactly that state with a valid checksum (it becomes a raft snapshot that
// recovery and followers decode with the same state.Decode as the state file).
func (c *vsC19) encodeLikeCompaction(loaded state.ClusterState) {
	r := c.r
	st := loaded // shallow: only the applied index changes
	bump := uint64(r.Tape.Intn(4))
	st.AppliedRaftIndex += bump
	data, err := state.Encode(st)
	if err != nil {
		r.Fail("encode_error", fmt.Sprintf("state.Encode of a loaded state with applied index +%d: %v", bump, err), nil)
		return
	}
	dec, err := state.Decode(data)
	if err != nil {
		r.FailSig("encoded_state_undecodable", fmt.Sprintf("bump=%v", bump > 0), fmt.Sprintf("state.Encode of a loaded state (rev %d) with the applied index advanced by %d produced a payload that state.Decode rejects: %v", st.Revision, bump, err), nil)
		return
	}
	if vsPayload(dec) != vsPayload(st) {
		r.Fail("encode_decode_mismatch", fmt.Sprintf("Encode/Decode of rev %d applied %d returns rev %d applied %d", st.Revision, st.AppliedRaftIndex, dec.Revision, dec.AppliedRaftIndex), nil)
		return
	}
	c.checkLoaded("compaction-style encode", dec)
	r.Logf("compaction-style encode bump=%d ok", bump)
	r.Probe("compaction_encode.checked")
	if bump > 0 {
		r.Probe("compaction_encode.with_stale_checksum")
	}
}

func (c *vsC19) hook(site, tmpPath, finalPath string) {
	if filepath.Dir(finalPath) != c.workDir {
		return
	}
	c.seen[site] = true
	view, err := vsReadDirFiles(c.workDir)
	if err != nil {
		c.r.Infra("crash point %s: read dir: %v", site, err)
		return
	}
	c.snaps = append(c.snaps, vsCrashSnap{site: site, view: view, tmpName: filepath.Base(tmpPath), finalName: filepath.Base(finalPath),
		tempSynced: c.seen["temp-synced"], renamed: c.seen["renamed"], dirSynced: c.seen["dir-synced"]})
	c.r.Probe("site." + site)
}

// enumerate builds every disk that a crash at this site may leave behind.
func (c *vsC19) enumerate(s vsCrashSnap) {
	r, tp := c.r, c.r.Tape
	var disks []vsDisk
	// process kill: the kernel keeps everything the process did
	disks = append(disks, vsDisk{mode: "kill", files: s.view})

	// power loss. The new content lives in one inode: at tmpName before the
	// rename, at finalName after it. Its data is durable only after its fsync;
	// before that any prefix may have reached the disk (or a longer, zero-filled
	// extent). The directory operations (create temp, rename) are durable only
	// after the directory fsync; before that any prefix of them may be.
	inode, ok := s.view[s.tmpName]
	if s.renamed {
		inode, ok = s.view[s.finalName]
	}
	if !ok {
		inode = nil
	}
	contents := [][]byte{inode}
	labels := []string{"full"}
	if !s.tempSynced {
		contents, labels = [][]byte{{}}, []string{"empty"}
		if len(inode) > 0 {
			k := tp.Intn(len(inode))
			contents, labels = append(contents, inode[:k]), append(labels, "prefix")
			z := tp.Intn(len(inode))
			torn := append(append([]byte(nil), inode[:z]...), make([]byte, len(inode)-z)...)
			contents, labels = append(contents, torn, inode), append(labels, "zero-tail", "full-unsynced")
			r.Logf("  %s: unsynced temp of %d bytes, prefix %d, zero tail from %d", s.site, len(inode), k, z)
		}
	}
	others := map[string][]byte{}
	for name, b := range s.view {
		if name != s.tmpName && name != s.finalName {
			others[name] = b
		}
	}
	mk := func(final []byte, hasFinal bool, tmp []byte, hasTmp bool) map[string][]byte {
		m := map[string][]byte{}
		for k, v := range others {
			m[k] = v
		}
		if hasFinal {
			m[s.finalName] = final
		}
		if hasTmp {
			m[s.tmpName] = tmp
		}
		return m
	}
	if !s.dirSynced {
		// A: none of the directory operations survived
		disks = append(disks, vsDisk{mode: "power:dir-ops-lost", files: mk(c.prevBytes, c.prev != nil, nil, false)})
		// B: the temp file's creation survived, the rename (if any) did not
		for i, b := range contents {
			disks = append(disks, vsDisk{mode: "power:temp-survives/" + labels[i], files: mk(c.prevBytes, c.prev != nil, b, true)})
		}
	}
	if s.renamed {
		// C: the rename is durable
		for i, b := range contents {
			disks = append(disks, vsDisk{mode: "power:rename-durable/" + labels[i], files: mk(b, true, nil, false)})
		}
	}
	for _, d := range disks {
		c.checkDisk(s, d)
		if r.Failed() || r.InfraErr != "" {
			return
		}
	}
}

func (c *vsC19) checkLoaded(where string, st state.ClusterState) {
	if err := st.Validate(); err != nil {
		c.r.Fail("loaded_invalid", fmt.Sprintf("%s: loaded state fails Validate: %v", where, err), nil)
		return
	}
	sum, err := state.Checksum(st)
	if err != nil || st.Checksum == "" || sum != st.Checksum {
		c.r.Fail("loaded_checksum", fmt.Sprintf("%s: loaded checksum %q, content checksum %q (%v)", where, st.Checksum, sum, err), nil)
	}
}

func (c *vsC19) checkDisk(s vsCrashSnap, d vsDisk) {
	r := c.r
	ctx := context.Background()
	dir := filepath.Join(c.base, "crash")
	if err := vsWriteDisk(dir, d.files); err != nil {
		r.Infra("materialise crash disk: %v", err)
		return
	}
	r.Probe("crash_points_enumerated")
	if d.mode == "kill" {
		r.Fault("crash.kill")
	} else {
		r.Fault("crash.power_loss")
		r.Probe("power_loss." + strings.SplitN(strings.TrimPrefix(d.mode, "power:"), "/", 2)[0])
	}
	r.Steps++
	store := statefile.New(filepath.Join(dir, vsStateFile))
	got, err := store.Load(ctx)
	where := fmt.Sprintf("crash at %s, %s", s.site, d.mode)
	sig := s.site + "|" + strings.SplitN(d.mode, "/", 2)[0]
	outcome := ""
	switch {
	case err != nil:
		if c.prev == nil && errors.Is(err, os.ErrNotExist) {
			outcome = "not-found"
			if s.dirSynced || s.returned {
				r.FailSig("save_not_durable", sig, where+": the save had completed (directory sync reached or Save returned), yet no state file exists", nil)
				return
			}
		} else {
			r.FailSig("crash_load_error", sig, fmt.Sprintf("%s: Load fails: %v", where, err), map[string]any{"have_prev": c.prev != nil})
			return
		}
	default:
		c.checkLoaded(where, got)
		if r.Failed() {
			return
		}
		cg := vsPayload(got) // logical content; the checksum was validated against it just above
		switch {
		case cg == c.canonNext:
			outcome = "new"
		case c.prev != nil && cg == c.canonPrev:
			outcome = "prev"
		default:
			r.FailSig("crash_third_state", sig, fmt.Sprintf("%s: Load returns rev=%d applied=%d sum=%s, neither the previous nor the new state", where, got.Revision, got.AppliedRaftIndex, got.Checksum), nil)
			return
		}
		if (s.dirSynced || s.returned) && outcome != "new" && c.canonPrev != c.canonNext {
			r.FailSig("save_not_durable", sig, where+": the save had completed (directory sync reached or Save returned), yet the previous state is loaded", nil)
			return
		}
	}
	r.Logf("%s %s -> %s", s.site, d.mode, outcome)
	r.State("c19", s.site, d.mode, outcome, c.prev != nil)
	r.Probe("crash_outcome." + outcome)

	// a later Save + Load on the crashed disk: stray temp files must not matter
	stray := vsCountTmp(d.files)
	if (stray > 0 && !c.laterDone) || r.Tape.Chance(1, 6) {
		if stray > 0 {
			c.laterDone = true
			r.Probe("later_save.with_stray_tmp")
		}
		if err := store.Save(ctx, c.third); err != nil {
			r.FailSig("later_save_failed", sig, fmt.Sprintf("%s: a later Save fails: %v", where, err), nil)
			return
		}
		got, err := statefile.New(filepath.Join(dir, vsStateFile)).Load(ctx)
		if err != nil || vsPayload(got) != vsPayload(c.third) {
			r.FailSig("later_save_load_mismatch", sig, fmt.Sprintf("%s: after a later Save, Load returns err=%v rev=%d (want rev=%d)", where, err, got.Revision, c.third.Revision), nil)
			return
		}
		c.checkLoaded(where+", later save", got)
		if r.Failed() {
			return
		}
		r.Probe("later_save.checked")
		r.Steps++
	}
}

// corrupt damages the saved file in tape-chosen ways; Load must fail or return
// exactly the saved state.
func (c *vsC19) corrupt(orig []byte, ref state.ClusterState) {
	r, tp := c.r, c.r.Tape
	ctx := context.Background()
	dir := filepath.Join(c.base, "corrupt")
	if err := os.MkdirAll(dir, 0o755); err != nil {
		r.Infra("mkdir: %v", err)
		return
	}
	path := filepath.Join(dir, vsStateFile)
	store := statefile.New(path)
	var digits, letters []int
	for i, b := range orig {
		if b >= '0' && b <= '9' {
			digits = append(digits, i)
		} else if b >= 'a' && b <= 'z' {
			letters = append(letters, i)
		}
	}
	trials := 6 + tp.Intn(10)
	kinds := []string{"digit", "flipbit", "setbyte", "letter", "truncate", "extend", "fill", "splice_prev", "swap", "dup_range", "del_range"}
	for i := 0; i < trials; i++ {
		k := kinds[tp.Intn(len(kinds))]
		b := append([]byte(nil), orig...)
		n := len(b)
		desc := ""
		switch k {
		case "digit":
			if len(digits) == 0 {
				continue
			}
			p := digits[tp.Intn(len(digits))]
			b[p] = '0' + byte((int(b[p]-'0')+1+tp.Intn(9))%10)
			desc = fmt.Sprintf("@%d", p)
		case "flipbit":
			p := tp.Intn(n)
			b[p] ^= 1 << uint(tp.Intn(8))
			desc = fmt.Sprintf("@%d", p)
		case "setbyte":
			p := tp.Intn(n)
			b[p] = byte(tp.Intn(256))
			desc = fmt.Sprintf("@%d", p)
		case "letter":
			if len(letters) == 0 {
				continue
			}
			p := letters[tp.Intn(len(letters))]
			b[p] = 'a' + byte((int(b[p]-'a')+1+tp.Intn(25))%26)
			desc = fmt.Sprintf("@%d", p)
		case "truncate":
			p := tp.Intn(n)
			b = b[:p]
			desc = fmt.Sprintf("to %d", p)
		case "extend":
			switch tp.Intn(4) {
			case 0:
				b = append(b, tp.Bytes(1+tp.Intn(8))...)
				desc = "random bytes"
			case 1:
				b = append(b, []byte(" \n\t")...)
				desc = "whitespace"
			case 2:
				b = append(b, orig[:tp.Intn(n)+1]...)
				desc = "prefix of itself"
			case 3:
				b = append(b, []byte("{}")...)
				desc = "a second JSON value"
			}
		case "fill":
			p := tp.Intn(n)
			l := 1 + tp.Intn(vsMin(64, n-p))
			v := []byte{0, ' ', '0', 0xff}[tp.Intn(4)]
			for j := p; j < p+l; j++ {
				b[j] = v
			}
			desc = fmt.Sprintf("@%d+%d with %#x", p, l, v)
		case "splice_prev":
			if len(c.prevBytes) == 0 {
				continue
			}
			// torn mix of old and new blocks
			bs := []int{16, 64, 512}[tp.Intn(3)]
			for off := 0; off < n; off += bs {
				if tp.Intn(2) == 1 {
					for j := off; j < off+bs && j < n && j < len(c.prevBytes); j++ {
						b[j] = c.prevBytes[j]
					}
				}
			}
			desc = fmt.Sprintf("block %d", bs)
		case "swap":
			l := 1 + tp.Intn(vsMin(32, n/2))
			p := tp.Intn(n - 2*l + 1)
			tmp := append([]byte(nil), b[p:p+l]...)
			copy(b[p:p+l], b[p+l:p+2*l])
			copy(b[p+l:p+2*l], tmp)
			desc = fmt.Sprintf("@%d+%d", p, l)
		case "dup_range":
			p := tp.Intn(n)
			l := 1 + tp.Intn(vsMin(32, n-p))
			b = append(append(append([]byte(nil), orig[:p+l]...), orig[p:p+l]...), orig[p+l:]...)
			desc = fmt.Sprintf("@%d+%d", p, l)
		case "del_range":
			p := tp.Intn(n)
			l := 1 + tp.Intn(vsMin(32, n-p))
			b = append(append([]byte(nil), orig[:p]...), orig[p+l:]...)
			desc = fmt.Sprintf("@%d+%d", p, l)
		}
		if bytes.Equal(b, orig) {
			r.Probe("corrupt.identity")
			continue
		}
		if bytes.Equal(b, c.prevBytes) {
			// every differing block came from the old file: this is the complete,
			// valid previous file, not a damaged one
			r.Probe("corrupt.became_previous_file")
			continue
		}
		if err := os.WriteFile(path, b, 0o644); err != nil {
			r.Infra("write corrupted file: %v", err)
			return
		}
		r.Fault("corrupt." + k)
		r.Steps++
		got, err := store.Load(ctx)
		if err != nil {
			r.Logf("corrupt %s %s -> rejected", k, desc)
			r.Probe("corrupt.rejected")
			r.State("c19-corrupt", k, "rejected")
			continue
		}
		if !reflect.DeepEqual(got, ref) {
			diff := vsDiffFields(got, ref)
			r.FailSig("corruption_accepted", diff, fmt.Sprintf("file damaged by %s %s loads without error as a different state (differs in: %s; rev=%d sum=%s, saved rev=%d sum=%s)",
				k, desc, diff, got.Revision, got.Checksum, ref.Revision, ref.Checksum), map[string]any{"kind": k})
			return
		}
		r.Logf("corrupt %s %s -> accepted, equal", k, desc)
		r.Probe("corrupt.accepted_equal")
		r.State("c19-corrupt", k, "equal")
	}
}

// vsDiffKeys names the top-level JSON keys in which two canonical documents differ.
func vsDiffKeys(a, b string) string {
	var ma, mb map[string]json.RawMessage
	if json.Unmarshal([]byte(a), &ma) != nil || json.Unmarshal([]byte(b), &mb) != nil {
		return "?"
	}
	var out []string
	for k, v := range ma {
		if w, ok := mb[k]; !ok || !bytes.Equal(v, w) {
			out = append(out, k)
		}
	}
	for k := range mb {
		if _, ok := ma[k]; !ok {
			out = append(out, k)
		}
	}
	sort.Strings(out)
	return strings.Join(out, ",")
}

// vsDiffFields names the top-level fields in which two states differ.
func vsDiffFields(a, b state.ClusterState) string {
	va, vb := reflect.ValueOf(a), reflect.ValueOf(b)
	var out []string
	for i := 0; i < va.NumField(); i++ {
		if !reflect.DeepEqual(va.Field(i).Interface(), vb.Field(i).Interface()) {
			out = append(out, va.Type().Field(i).Name)
		}
	}
	sort.Strings(out)
	return strings.Join(out, ",")
}
