package delivery

// acksim: history engine for property C32 (receive-acknowledgement tracking is
// exact). The real AckTracker runs against a reference model written from the
// property statement and the tracker's doc comments:
//
//   - an identity is (uid, session, message); it is outstanding while it has a
//     committed delivery or at least one in-flight bind attempt (each attempt
//     owns an opaque token);
//   - FinishBind commits exactly the attempt owning the token, CancelBind rolls
//     back exactly that attempt and removes the identity only when nothing else
//     (committed delivery or other attempt) keeps it;
//   - Ack removes the one matching identity, SessionClosed all identities of
//     one (uid, session), Expire all identities whose committed delivery and
//     in-flight attempts all reached the TTL cutoff, Reset everything;
//   - PendingCount is the number of outstanding identities.
//
// The concurrent mode interleaves whole operations of 2-4 tasks (the tracker
// takes its shard mutexes for a whole operation), records invoke/return
// instants and lets porcupine search for a linearization against the same
// sequential model.

import (
	"fmt"
	"sort"
	"strings"
	"testing"
	"time"

	"github.com/WuKongIM/WuKongIM/internal/verifsim/simkit"
	"github.com/anishathalye/porcupine"
)

func TestVerifSimAck(t *testing.T) {
	simkit.Main(t, simkit.Engine{
		Name:  "acksim",
		Props: map[string]simkit.PropFunc{"C32": runAckSim},
		Real:  []string{"delivery.AckTracker (all exported operations, sharded maps, derived pending counter, per-attempt tokens)"},
		Stub:  []string{"clock (AckTrackerOptions.Now, tape-driven)", "callers (tape-driven operation generator, 1-4 tasks)"},
		Rule: "One run = one tracker (1/2/32 shards, optional per-session limit) driven by up to 60-110 tape-chosen operations over a small identity universe; " +
			"sequential mode compares every result and PendingCount with the reference set after every operation; concurrent mode (1 run in 3) overlaps the invoke/return windows of 2-4 tasks and adds a porcupine check. " +
			"Non-trivial = at least 10 operations, at least one identity held a committed delivery together with an in-flight re-delivery (or two attempts), and at least one identity was removed. " +
			"About 1 run in 10 is a large-backlog history (sequential only, never given to porcupine): 1100-3500 deliveries bound in bulk over 1-40 sessions with default/1/4/32/65/128 shards, then 8-25 sweeps, acks, session closes, re-deliveries and clock moves; non-trivial = at least one identity was removed.",
		Assumptions: []string{"operations are interleaved whole (no interleaving inside a multi-shard batch operation)",
			"tokens are opaque: the model accepts any fresh non-zero token",
			"metadata returned for an identity that was never committed may be that of any of its in-flight attempts"},
	})
}

// ---- reference model --------------------------------------------------------

type akKey struct {
	uid string
	sid uint64
	mid uint64
}

type akMeta struct {
	seq uint64
	ch  string
	at  int64
}

type akAttempt struct {
	tok  uint64
	meta akMeta
}

type akEntry struct {
	committed bool
	cmeta     akMeta
	attempts  []akAttempt
}

type akModel struct {
	max     int
	now     int64
	entries map[akKey]*akEntry
	used    map[uint64]bool
	sc      map[akSess]int // derived per-session counts (nil = not built)
	key     string         // canonical encoding (porcupine state equality)
}

func newAkModel(max int, now int64) *akModel {
	m := &akModel{max: max, now: now, entries: map[akKey]*akEntry{}, used: map[uint64]bool{}}
	m.rekey()
	return m
}

func (m *akModel) clone() *akModel {
	c := &akModel{max: m.max, now: m.now, entries: make(map[akKey]*akEntry, len(m.entries)), used: make(map[uint64]bool, len(m.used))}
	for k, e := range m.entries {
		ce := &akEntry{committed: e.committed, cmeta: e.cmeta, attempts: append([]akAttempt(nil), e.attempts...)}
		c.entries[k] = ce
	}
	for k := range m.used {
		c.used[k] = true
	}
	return c
}

func (m *akModel) sortedKeys() []akKey {
	ks := make([]akKey, 0, len(m.entries))
	for k := range m.entries {
		ks = append(ks, k)
	}
	sort.Slice(ks, func(i, j int) bool {
		a, b := ks[i], ks[j]
		if a.uid != b.uid {
			return a.uid < b.uid
		}
		if a.sid != b.sid {
			return a.sid < b.sid
		}
		return a.mid < b.mid
	})
	return ks
}

func (m *akModel) rekey() {
	var sb strings.Builder
	fmt.Fprintf(&sb, "t%d|", m.now)
	for _, k := range m.sortedKeys() {
		e := m.entries[k]
		fmt.Fprintf(&sb, "%s/%d/%d:", k.uid, k.sid, k.mid)
		if e.committed {
			fmt.Fprintf(&sb, "C%d.%d", e.cmeta.seq, e.cmeta.at)
		}
		as := append([]akAttempt(nil), e.attempts...)
		sort.Slice(as, func(i, j int) bool { return as[i].tok < as[j].tok })
		for _, a := range as {
			fmt.Fprintf(&sb, "A%d.%d.%d", a.tok, a.meta.seq, a.meta.at)
		}
		sb.WriteByte(';')
	}
	ts := make([]uint64, 0, len(m.used))
	for t := range m.used {
		ts = append(ts, t)
	}
	sort.Slice(ts, func(i, j int) bool { return ts[i] < ts[j] })
	fmt.Fprintf(&sb, "|%v", ts)
	m.key = sb.String()
}

type akSess struct {
	uid string
	sid uint64
}

// sessionCount is the number of outstanding identities of one (uid, session);
// the per-session index is derived lazily and kept in step by bindOne and del.
func (m *akModel) sessionCount(uid string, sid uint64) int {
	if m.sc == nil {
		m.sc = map[akSess]int{}
		for k := range m.entries {
			m.sc[akSess{k.uid, k.sid}]++
		}
	}
	return m.sc[akSess{uid, sid}]
}

func (m *akModel) del(k akKey) {
	if _, ok := m.entries[k]; ok && m.sc != nil {
		m.sc[akSess{k.uid, k.sid}]--
	}
	delete(m.entries, k) // (the only direct delete)
}

type akOpKind int

const (
	akBindResult akOpKind = iota
	akBind
	akBindBatch
	akFinish
	akFinishBatch
	akCancel
	akAck
	akClosed
	akExpire
	akReset
	akCount
	akClock
)

var akKindName = map[akOpKind]string{akBindResult: "BindResult", akBind: "Bind", akBindBatch: "BindBatch", akFinish: "FinishBind",
	akFinishBatch: "FinishBindBatch", akCancel: "CancelBind", akAck: "Ack", akClosed: "SessionClosed", akExpire: "Expire",
	akReset: "Reset", akCount: "PendingCount", akClock: "clock"}

type akIn struct {
	kind  akOpKind
	items []PendingRecvAck // rows (bind, finish, cancel, ack identity, closed identity)
	toks  []uint64         // tokens aligned with items (finish, cancel, finish batch)
	idx   []int            // FinishBindBatch indexes
	ttl   time.Duration
	dt    int64
}

type akOut struct {
	bound, added      bool
	tok               uint64
	count             int
	ok                bool
	toks              []uint64
	nbound, nadded    int
	shards            int
	finished          int
	canceled, removed bool
	pend              []PendingRecvAck
}

func akValid(p PendingRecvAck) bool { return p.UID != "" && p.SessionID != 0 && p.MessageID != 0 }

func akKeyOf(p PendingRecvAck) akKey { return akKey{p.UID, p.SessionID, p.MessageID} }

func (m *akModel) metaOf(p PendingRecvAck) akMeta {
	at := p.DeliveredAt
	if at == 0 {
		at = m.now
	}
	return akMeta{seq: p.MessageSeq, ch: p.ChannelID, at: at}
}

// bindOne is the sequential meaning of one bind attempt: (accepted, added).
func (m *akModel) bindAllowed(p PendingRecvAck) bool {
	if !akValid(p) {
		return false
	}
	k := akKeyOf(p)
	if _, ok := m.entries[k]; !ok && m.max > 0 && m.sessionCount(p.UID, p.SessionID) >= m.max {
		return false
	}
	return true
}

func (m *akModel) bindOne(p PendingRecvAck, tok uint64) (added bool) {
	k := akKeyOf(p)
	e, ok := m.entries[k]
	if !ok {
		e = &akEntry{}
		m.entries[k] = e
		added = true
		if m.sc != nil {
			m.sc[akSess{k.uid, k.sid}]++
		}
	}
	e.attempts = append(e.attempts, akAttempt{tok: tok, meta: m.metaOf(p)})
	m.used[tok] = true
	return added
}

func (m *akModel) finishOne(p PendingRecvAck, tok uint64) bool {
	if !akValid(p) || tok == 0 {
		return false
	}
	e, ok := m.entries[akKeyOf(p)]
	if !ok {
		return false
	}
	for i, a := range e.attempts {
		if a.tok == tok {
			e.committed = true
			e.cmeta = a.meta
			e.attempts = append(e.attempts[:i:i], e.attempts[i+1:]...)
			return true
		}
	}
	return false
}

// metaAllowed reports whether returned metadata is acceptable for the entry:
// the committed delivery when there is one, else any in-flight attempt.
func (e *akEntry) metaAllowed(p PendingRecvAck) bool {
	got := akMeta{seq: p.MessageSeq, ch: p.ChannelID, at: p.DeliveredAt}
	if e.committed {
		return got == e.cmeta
	}
	for _, a := range e.attempts {
		if a.meta == got {
			return true
		}
	}
	return false
}

// checkRemoved compares a returned removal list with the identities the model
// removes (keys) and validates each one's metadata.
func (m *akModel) checkRemoved(got []PendingRecvAck, want []akKey) (bool, string) {
	if len(got) != len(want) {
		return false, fmt.Sprintf("removed %d identities, reference removes %d %s", len(got), len(want), akBrief(want))
	}
	seen := map[akKey]bool{}
	wantSet := map[akKey]bool{}
	for _, k := range want {
		wantSet[k] = true
	}
	for _, p := range got {
		k := akKeyOf(p)
		if !wantSet[k] {
			return false, fmt.Sprintf("removed %v which the reference keeps (or never had)", k)
		}
		if seen[k] {
			return false, fmt.Sprintf("removed %v twice", k)
		}
		seen[k] = true
		if !m.entries[k].metaAllowed(p) {
			return false, fmt.Sprintf("removed %v with metadata seq=%d at=%d that belongs to neither its committed delivery nor an in-flight attempt", k, p.MessageSeq, p.DeliveredAt)
		}
	}
	return true, ""
}

// step applies one operation to the model and validates the real output.
// It mutates m (callers that need purity clone first).
func (m *akModel) step(in akIn, out akOut) (bool, string) {
	switch in.kind {
	case akClock:
		m.now += in.dt
		return true, ""
	case akCount:
		if out.count != len(m.entries) {
			return false, fmt.Sprintf("PendingCount=%d, reference set has %d", out.count, len(m.entries))
		}
		return true, ""
	case akReset:
		m.entries = map[akKey]*akEntry{}
		m.sc = nil
		return true, ""
	case akBindResult, akBind:
		p := in.items[0]
		allowed := m.bindAllowed(p)
		if in.kind == akBind {
			if out.ok != allowed {
				return false, fmt.Sprintf("Bind returned %v, reference %v", out.ok, allowed)
			}
			if allowed {
				// compatibility bind = reserve + finish; its token is internal
				tok := uint64(1)<<62 + uint64(len(m.used)) // far from both ends of the real token counter
				m.bindOne(p, tok)
				m.finishOne(p, tok)
			}
			return true, ""
		}
		if out.bound != allowed {
			return false, fmt.Sprintf("BindResult.Bound=%v, reference %v", out.bound, allowed)
		}
		if !allowed {
			if out.tok != 0 || out.added {
				return false, "rejected bind returned a token or Added"
			}
		} else {
			if out.tok == 0 || m.used[out.tok] {
				return false, fmt.Sprintf("bind token %d is zero or not fresh", out.tok)
			}
			added := m.bindOne(p, out.tok)
			if added != out.added {
				return false, fmt.Sprintf("BindResult.Added=%v, reference %v", out.added, added)
			}
		}
		if out.count != len(m.entries) {
			return false, fmt.Sprintf("BindResult.PendingCount=%d, reference set has %d", out.count, len(m.entries))
		}
		return true, ""
	case akBindBatch:
		if len(out.toks) != len(in.items) {
			return false, "BindBatch tokens are not input-aligned"
		}
		nb, na := 0, 0
		sessions := map[[2]string]bool{}
		valid := 0
		for i, p := range in.items {
			if akValid(p) {
				valid++
				sessions[[2]string{p.UID, fmt.Sprint(p.SessionID)}] = true
			}
			allowed := m.bindAllowed(p)
			if !allowed {
				if out.toks[i] != 0 {
					return false, fmt.Sprintf("BindBatch item %d must be rejected but got a token", i)
				}
				continue
			}
			if out.toks[i] == 0 || m.used[out.toks[i]] {
				return false, fmt.Sprintf("BindBatch item %d: token %d is zero or not fresh", i, out.toks[i])
			}
			nb++
			if m.bindOne(p, out.toks[i]) {
				na++
			}
		}
		if out.nbound != nb || out.nadded != na {
			return false, fmt.Sprintf("BindBatch Bound/Added=%d/%d, reference %d/%d", out.nbound, out.nadded, nb, na)
		}
		if out.count != len(m.entries) {
			return false, fmt.Sprintf("BindBatch.PendingCount=%d, reference set has %d", out.count, len(m.entries))
		}
		if (valid == 0 && out.shards != 0) || (valid > 0 && (out.shards < 1 || out.shards > len(sessions))) {
			return false, fmt.Sprintf("BindBatch.Shards=%d with %d valid rows over %d sessions", out.shards, valid, len(sessions))
		}
		return true, ""
	case akFinish:
		want := m.finishOne(in.items[0], in.toks[0])
		if out.ok != want {
			return false, fmt.Sprintf("FinishBind=%v, reference %v", out.ok, want)
		}
		return true, ""
	case akFinishBatch:
		n := 0
		for _, ix := range in.idx {
			if ix < 0 || ix >= len(in.items) || ix >= len(in.toks) {
				continue
			}
			if m.finishOne(in.items[ix], in.toks[ix]) {
				n++
			}
		}
		if out.finished != n {
			return false, fmt.Sprintf("FinishBindBatch=%d, reference %d", out.finished, n)
		}
		return true, ""
	case akCancel:
		p, tok := in.items[0], in.toks[0]
		canceled, removed := false, false
		if akValid(p) && tok != 0 {
			k := akKeyOf(p)
			if e, ok := m.entries[k]; ok {
				for i, a := range e.attempts {
					if a.tok == tok {
						e.attempts = append(e.attempts[:i:i], e.attempts[i+1:]...)
						canceled = true
						break
					}
				}
				if canceled && !e.committed && len(e.attempts) == 0 {
					m.del(k)
					removed = true
				}
			}
		}
		if out.canceled != canceled || out.removed != removed {
			return false, fmt.Sprintf("CancelBind Canceled/Removed=%v/%v, reference %v/%v", out.canceled, out.removed, canceled, removed)
		}
		if out.count != len(m.entries) {
			return false, fmt.Sprintf("CancelBind.PendingCount=%d, reference set has %d", out.count, len(m.entries))
		}
		return true, ""
	case akAck:
		p := in.items[0]
		k := akKeyOf(p)
		e, ok := m.entries[k]
		if !akValid(p) {
			ok = false
		}
		if out.ok != ok {
			return false, fmt.Sprintf("Ack found=%v, reference %v", out.ok, ok)
		}
		if ok {
			if len(out.pend) != 1 || akKeyOf(out.pend[0]) != k {
				return false, fmt.Sprintf("Ack(%v) returned another identity %v", k, out.pend)
			}
			if !e.metaAllowed(out.pend[0]) {
				return false, fmt.Sprintf("Ack(%v) returned metadata seq=%d at=%d that belongs to neither its committed delivery nor an in-flight attempt", k, out.pend[0].MessageSeq, out.pend[0].DeliveredAt)
			}
			m.del(k)
		}
		return true, ""
	case akClosed:
		p := in.items[0]
		var want []akKey
		if p.UID != "" && p.SessionID != 0 {
			for _, k := range m.sortedKeys() {
				if k.uid == p.UID && k.sid == p.SessionID {
					want = append(want, k)
				}
			}
		}
		if ok, why := m.checkRemoved(out.pend, want); !ok {
			return false, "SessionClosed " + why
		}
		for _, k := range want {
			m.del(k)
		}
		return true, ""
	case akExpire:
		ttlSec := int64((in.ttl + time.Second - 1) / time.Second)
		var want []akKey
		for _, k := range m.sortedKeys() {
			e := m.entries[k]
			idle := true // every delivery candidate is at least ttl old
			if e.committed && m.now-e.cmeta.at < ttlSec {
				idle = false
			}
			for _, a := range e.attempts {
				if m.now-a.meta.at < ttlSec {
					idle = false
				}
			}
			if idle {
				want = append(want, k)
			}
		}
		if ok, why := m.checkRemoved(out.pend, want); !ok {
			return false, fmt.Sprintf("Expire(%v) at t=%d ", in.ttl, m.now) + why
		}
		for _, k := range want {
			m.del(k)
		}
		return true, ""
	}
	return false, "unknown operation"
}

// ---- real side --------------------------------------------------------------

func akToks(ts []uint64) []AckBindToken {
	out := make([]AckBindToken, len(ts))
	for i, t := range ts {
		out[i] = AckBindToken{id: t}
	}
	return out
}

func akApply(tr *AckTracker, now *int64, in akIn) akOut {
	var out akOut
	switch in.kind {
	case akClock:
		*now += in.dt
	case akCount:
		out.count = tr.PendingCount()
	case akReset:
		tr.Reset()
	case akBindResult:
		res := tr.BindResult(in.items[0])
		out.bound, out.added, out.tok, out.count = res.Bound, res.Added, res.Token.id, res.PendingCount
	case akBind:
		out.ok = tr.Bind(in.items[0])
	case akBindBatch:
		res := tr.BindBatch(append([]PendingRecvAck(nil), in.items...))
		out.toks = make([]uint64, len(res.Tokens))
		for i, t := range res.Tokens {
			out.toks[i] = t.id
		}
		out.nbound, out.nadded, out.shards, out.count = res.Bound, res.Added, res.Shards, res.PendingCount
	case akFinish:
		out.ok = tr.FinishBind(in.items[0], AckBindToken{id: in.toks[0]})
	case akFinishBatch:
		out.finished = tr.FinishBindBatch(in.items, akToks(in.toks), in.idx)
	case akCancel:
		res := tr.CancelBind(in.items[0], AckBindToken{id: in.toks[0]})
		out.canceled, out.removed, out.count = res.Canceled, res.Removed, res.PendingCount
	case akAck:
		p, ok := tr.Ack(Recvack{UID: in.items[0].UID, SessionID: in.items[0].SessionID, MessageID: in.items[0].MessageID, MessageSeq: in.items[0].MessageSeq})
		out.ok = ok
		if ok {
			out.pend = []PendingRecvAck{p}
		}
	case akClosed:
		out.pend = tr.SessionClosed(in.items[0].UID, in.items[0].SessionID)
	case akExpire:
		out.pend = tr.Expire(in.ttl)
	}
	return out
}

func akSortPend(ps []PendingRecvAck) []PendingRecvAck {
	out := append([]PendingRecvAck(nil), ps...)
	sort.Slice(out, func(i, j int) bool {
		a, b := out[i], out[j]
		if a.UID != b.UID {
			return a.UID < b.UID
		}
		if a.SessionID != b.SessionID {
			return a.SessionID < b.SessionID
		}
		return a.MessageID < b.MessageID
	})
	return out
}

func akRow(p PendingRecvAck) string {
	return fmt.Sprintf("%s/%d/%d#%d@%d", p.UID, p.SessionID, p.MessageID, p.MessageSeq, p.DeliveredAt)
}

// akBrief keeps trace lines of bulk operations short: beyond 8 elements it
// prints the count, the first and last element and an order-insensitive
// fingerprint of the whole list.
func akBrief[T any](xs []T) string {
	if len(xs) <= 8 {
		return fmt.Sprint(xs)
	}
	var sum uint64
	for _, x := range xs {
		h := uint64(14695981039346656037)
		for _, b := range []byte(fmt.Sprint(x)) {
			h = (h ^ uint64(b)) * 1099511628211
		}
		sum += h
	}
	return fmt.Sprintf("[%d items: %v .. %v fp=%x]", len(xs), xs[0], xs[len(xs)-1], sum)
}

func akDescribe(in akIn, out akOut) string {
	rowList := make([]string, len(in.items))
	for i, p := range in.items {
		rowList[i] = akRow(p)
	}
	outList := []string{}
	for _, p := range akSortPend(out.pend) {
		outList = append(outList, akRow(p))
	}
	rows, outRows := akBrief(rowList), akBrief(outList)
	if in.kind == akBindBatch || in.kind == akFinishBatch {
		return fmt.Sprintf("%s %s toks(in)=%s idx=%s -> toks=%s bound=%d added=%d shards=%d n=%d finished=%d", akKindName[in.kind], rows,
			akBrief(in.toks), akBrief(in.idx), akBrief(out.toks), out.nbound, out.nadded, out.shards, out.count, out.finished)
	}
	switch in.kind {
	case akClock:
		return fmt.Sprintf("clock %+d", in.dt)
	case akCount:
		return fmt.Sprintf("PendingCount -> %d", out.count)
	case akReset:
		return "Reset"
	case akBindResult:
		return fmt.Sprintf("BindResult %v -> bound=%v added=%v tok=%d n=%d", rows, out.bound, out.added, out.tok, out.count)
	case akBind:
		return fmt.Sprintf("Bind %v -> %v", rows, out.ok)
	case akBindBatch:
		return fmt.Sprintf("BindBatch %v -> toks=%v bound=%d added=%d shards=%d n=%d", rows, out.toks, out.nbound, out.nadded, out.shards, out.count)
	case akFinish:
		return fmt.Sprintf("FinishBind %v tok=%v -> %v", rows, in.toks, out.ok)
	case akFinishBatch:
		return fmt.Sprintf("FinishBindBatch %v toks=%v idx=%v -> %d", rows, in.toks, in.idx, out.finished)
	case akCancel:
		return fmt.Sprintf("CancelBind %v tok=%v -> canceled=%v removed=%v n=%d", rows, in.toks, out.canceled, out.removed, out.count)
	case akAck:
		return fmt.Sprintf("Ack %v -> %v %v", rows, out.ok, outRows)
	case akClosed:
		return fmt.Sprintf("SessionClosed %s/%d -> %v", in.items[0].UID, in.items[0].SessionID, outRows)
	case akExpire:
		return fmt.Sprintf("Expire %v -> %v", in.ttl, outRows)
	}
	return "?"
}

// ---- operation generator ----------------------------------------------------

type akTokRec struct {
	tok  uint64
	item PendingRecvAck
}

type akBatchRec struct {
	items []PendingRecvAck
	toks  []uint64
}

type akCfg struct {
	shards     int
	max        int
	uids       []string
	sids       []uint64
	mids       int
	noFaults   bool
	concurrent bool
	tasks      int
	ops        int
	w          []int // operation weights
	// large backlog regime (about one run in ten)
	large     bool
	bigN      int // deliveries bound in bulk
	bigSess   int // sessions they are spread over
	sidBase   uint64
	chunk     int // rows per BindBatch / FinishBindBatch call
	tokenWrap int // >0: the token counter starts this many allocations before wrapping through zero
}

type akGen struct {
	r       *simkit.Run
	cfg     akCfg
	now     *int64
	seq     uint64
	pool    []akTokRec   // tokens returned so far (any task)
	batches []akBatchRec // batch binds returned so far
}

func (g *akGen) item() PendingRecvAck {
	tp := g.r.Tape
	c := g.cfg
	g.seq++
	p := PendingRecvAck{
		UID: c.uids[tp.Intn(len(c.uids))], SessionID: c.sids[tp.Intn(len(c.sids))], MessageID: uint64(1 + tp.Intn(c.mids)),
		MessageSeq: g.seq, ChannelID: "c", ChannelType: 2,
	}
	switch tp.Weighted([]int{6, 3, 1}) {
	case 0: // DeliveredAt filled from the clock
	case 1:
		p.DeliveredAt = *g.now - int64(tp.Intn(8))
	case 2:
		p.DeliveredAt = *g.now + int64(1+tp.Intn(3))
	}
	if !c.noFaults && tp.Chance(1, 25) {
		g.r.Fault("invalid_row")
		switch tp.Intn(3) {
		case 0:
			p.UID = ""
		case 1:
			p.SessionID = 0
		case 2:
			p.MessageID = 0
		}
	}
	return p
}

func (g *akGen) draw() akIn {
	tp := g.r.Tape
	c := g.cfg
	w := append([]int(nil), c.w...)
	if len(g.pool) == 0 {
		w[akFinish], w[akCancel] = 0, 0
	}
	if len(g.batches) == 0 {
		w[akFinishBatch] = 0
	}
	kind := akOpKind(tp.Weighted(w))
	in := akIn{kind: kind}
	switch kind {
	case akBindResult, akBind:
		in.items = []PendingRecvAck{g.item()}
	case akBindBatch:
		n := 1 + tp.Intn(5)
		for i := 0; i < n; i++ {
			it := g.item()
			if i > 0 && tp.Chance(1, 4) {
				// duplicate row of the same identity inside one batch
				prev := in.items[tp.Intn(i)]
				it.UID, it.SessionID, it.MessageID = prev.UID, prev.SessionID, prev.MessageID
			}
			in.items = append(in.items, it)
		}
	case akFinish, akCancel:
		rec := g.pool[len(g.pool)-1-tp.PickOldestBiased(len(g.pool))]
		it := rec.item
		if !c.noFaults && tp.Chance(1, 12) {
			// a token presented for another identity must not match anything
			g.r.Fault("token_for_other_identity")
			it.MessageID = uint64(1 + tp.Intn(c.mids))
			it.SessionID = c.sids[tp.Intn(len(c.sids))]
		}
		in.items = []PendingRecvAck{it}
		in.toks = []uint64{rec.tok}
	case akFinishBatch:
		b := g.batches[len(g.batches)-1-tp.PickOldestBiased(len(g.batches))]
		in.items = b.items
		in.toks = b.toks
		for i := range b.items {
			if tp.Intn(3) != 0 {
				in.idx = append(in.idx, i)
			}
		}
		if !c.noFaults && tp.Chance(1, 6) {
			g.r.Fault("batch_index_out_of_range_or_repeated")
			in.idx = append(in.idx, []int{-1, len(b.items), 0}[tp.Intn(3)])
		}
	case akAck, akClosed:
		in.items = []PendingRecvAck{{UID: c.uids[tp.Intn(len(c.uids))], SessionID: c.sids[tp.Intn(len(c.sids))], MessageID: uint64(1 + tp.Intn(c.mids)), MessageSeq: 0}}
	case akExpire:
		in.ttl = []time.Duration{5 * time.Second, 2 * time.Second, 1500 * time.Millisecond, time.Second, 500 * time.Millisecond, 20 * time.Second}[tp.Intn(6)]
	case akClock:
		in.dt = int64([]int{1, 0, 2, 5, 30}[tp.Intn(5)])
		if !c.noFaults && tp.Chance(1, 10) {
			g.r.Fault("clock_backwards")
			in.dt = -int64(1 + tp.Intn(3))
		}
	}
	return in
}

// learn records tokens handed out by a completed operation.
func (g *akGen) learn(in akIn, out akOut) {
	switch in.kind {
	case akBindResult:
		if out.tok != 0 {
			g.pool = append(g.pool, akTokRec{tok: out.tok, item: in.items[0]})
		}
	case akBindBatch:
		g.batches = append(g.batches, akBatchRec{items: in.items, toks: out.toks})
		for i, t := range out.toks {
			if t != 0 {
				g.pool = append(g.pool, akTokRec{tok: t, item: in.items[i]})
			}
		}
	}
	if len(g.pool) > 24 {
		g.pool = g.pool[len(g.pool)-24:]
	}
	if len(g.batches) > 6 {
		g.batches = g.batches[len(g.batches)-6:]
	}
}

func akDrawCfg(r *simkit.Run) akCfg {
	tp := r.Tape
	c := akCfg{}
	if tp.Weighted([]int{9, 1}) == 1 {
		// large backlog: thousands of deliveries, so that every size constant of
		// the tracker (default 32 shards, 64-shard and 128/512-entry stack
		// buffers, a 1024 per-session limit) is crossed
		c.large = true
		c.shards = []int{0, 1, 4, 32, 65, 128}[tp.Intn(6)]
		c.max = []int{0, 1024, 200}[tp.Intn(3)]
		c.bigSess = 1 + tp.Intn(40)
		c.bigN = 1100 + tp.Intn(2401)
		c.sidBase = []uint64{1, 30, 1000}[tp.Intn(3)]
		c.chunk = []int{1000, 129, 600, 100}[tp.Intn(4)]
		c.noFaults = tp.Intn(4) == 0
		c.ops = 8 + tp.Intn(18)
		if tp.Intn(4) == 0 {
			c.tokenWrap = 1 + tp.Intn(2000)
		}
		return c
	}
	if tp.Intn(8) == 7 {
		c.tokenWrap = 1 + tp.Intn(6)
	}
	c.shards = []int{32, 1, 2}[tp.Intn(3)]
	c.max = []int{0, 2, 1, 3}[tp.Intn(4)]
	c.uids = []string{"a", "b", "c"}[:1+tp.Intn(3)]
	// 33 shares a shard with 1 when there are 32 or 2 shards; 2 does not
	c.sids = []uint64{1, 33, 2}[:1+tp.Intn(3)]
	c.mids = 1 + tp.Intn(4)
	c.noFaults = tp.Intn(4) == 0
	c.concurrent = tp.Intn(3) == 0
	c.tasks = 2 + tp.Intn(3)
	if c.concurrent {
		c.ops = 20 + tp.Intn(41) // <= 60 for porcupine
	} else {
		c.ops = 30 + tp.Intn(81)
	}
	c.w = make([]int, int(akClock)+1)
	c.w[akBindResult] = 6 + tp.Intn(6)
	c.w[akBind] = 1 + tp.Intn(4)
	c.w[akBindBatch] = 1 + tp.Intn(4)
	c.w[akFinish] = 2 + tp.Intn(6)
	c.w[akFinishBatch] = 1 + tp.Intn(3)
	c.w[akCancel] = 2 + tp.Intn(6)
	c.w[akAck] = 1 + tp.Intn(4)
	c.w[akClosed] = tp.Intn(3)
	c.w[akExpire] = 1 + tp.Intn(3)
	c.w[akCount] = 1
	c.w[akClock] = 2 + tp.Intn(4)
	if !c.noFaults {
		c.w[akReset] = tp.Intn(2)
	}
	return c
}

// ---- the run ------------------------------------------------------------------

type akStats struct {
	overlap bool // an identity held committed+attempt or two attempts
	removed bool
}

func (m *akModel) observe(r *simkit.Run, st *akStats, in akIn, before int) {
	for _, e := range m.entries {
		if (e.committed && len(e.attempts) > 0) || len(e.attempts) > 1 {
			st.overlap = true
		}
	}
	if len(m.entries) < before {
		st.removed = true
	}
}

// akLargeBacklog is the large-backlog regime: thousands of deliveries are bound
// in bulk over 1-40 sessions (mostly idle, some fresh, a few left in flight),
// then expired in one or several sweeps interleaved with acks, session closes,
// re-deliveries and clock moves. Every call goes through exec, i.e. is compared
// with the reference set and followed by the PendingCount check.
func akLargeBacklog(r *simkit.Run, c akCfg, tr *AckTracker, now *int64, m *akModel, g *akGen, st *akStats, exec func(string, akIn) (akOut, bool)) {
	tp := r.Tape
	if c.bigSess >= defaultAckTrackerShardCount && len(tr.shards) == defaultAckTrackerShardCount {
		r.Probe("const.sessions_wrap_around_default_32_shards")
	}
	sess := func(k int) (string, uint64) { return fmt.Sprintf("u%d", k%3), c.sidBase + uint64(k) }
	all := make([]PendingRecvAck, 0, c.bigN)
	// spread: round robin (every session about equally loaded) or skewed (the
	// first session takes half, which reaches a 1024 per-session limit)
	skew := tp.Intn(2) == 1
	perSessMid := map[int]uint64{}
	for i := 0; i < c.bigN; i++ {
		k := i % c.bigSess
		if skew && i%2 == 0 {
			k = 0
		}
		perSessMid[k]++
		uid, sid := sess(k)
		g.seq++
		p := PendingRecvAck{UID: uid, SessionID: sid, MessageID: perSessMid[k], MessageSeq: g.seq, ChannelID: "c", ChannelType: 2, DeliveredAt: *now - 120 - int64(i%3)}
		if tp.Chance(1, 20) {
			p.DeliveredAt = 0 // fresh: stamped by the tracker's clock
		}
		all = append(all, p)
	}
	var inflight []akTokRec
	for start := 0; start < len(all) && !r.Failed(); start += c.chunk {
		end := start + c.chunk
		if end > len(all) {
			end = len(all)
		}
		items := all[start:end]
		out, ok := exec("bulk", akIn{kind: akBindBatch, items: items})
		if !ok {
			return
		}
		idx := make([]int, 0, len(items))
		for i := range items {
			if (start+i)%53 == 7 && out.toks[i] != 0 {
				inflight = append(inflight, akTokRec{tok: out.toks[i], item: items[i]}) // this delivery stays in flight
				continue
			}
			idx = append(idx, i)
		}
		if _, ok := exec("bulk", akIn{kind: akFinishBatch, items: items, toks: out.toks, idx: idx}); !ok {
			return
		}
	}
	exec("bulk", akIn{kind: akCount})
	pick := func() PendingRecvAck { return all[tp.Intn(len(all))] }
	for i := 0; i < c.ops && !r.Failed(); i++ {
		w := []int{5, 3, 2, 1, 2, 2, 1, 1, 1}
		if len(inflight) == 0 {
			w[6], w[7] = 0, 0
		}
		switch tp.Weighted(w) {
		case 0:
			exec("big", akIn{kind: akExpire, ttl: 60 * time.Second})
		case 1:
			p := pick()
			exec("big", akIn{kind: akAck, items: []PendingRecvAck{{UID: p.UID, SessionID: p.SessionID, MessageID: p.MessageID}}})
		case 2:
			uid, sid := sess(tp.Intn(c.bigSess))
			exec("big", akIn{kind: akClosed, items: []PendingRecvAck{{UID: uid, SessionID: sid}}})
		case 3:
			exec("big", akIn{kind: akCount})
		case 4:
			exec("big", akIn{kind: akClock, dt: int64([]int{1, 30, 61, 200}[tp.Intn(4)])})
		case 5:
			// re-delivery of a handful of identities (fresh attempts protect them from the next sweep)
			n := 1 + tp.Intn(20)
			items := make([]PendingRecvAck, 0, n)
			for j := 0; j < n; j++ {
				p := pick()
				g.seq++
				p.MessageSeq, p.DeliveredAt = g.seq, 0
				items = append(items, p)
			}
			out, ok := exec("big", akIn{kind: akBindBatch, items: items})
			if ok {
				for j, t := range out.toks {
					if t != 0 {
						inflight = append(inflight, akTokRec{tok: t, item: items[j]})
					}
				}
			}
		case 6:
			rec := inflight[tp.Intn(len(inflight))]
			exec("big", akIn{kind: akCancel, items: []PendingRecvAck{rec.item}, toks: []uint64{rec.tok}})
		case 7:
			rec := inflight[tp.Intn(len(inflight))]
			exec("big", akIn{kind: akFinish, items: []PendingRecvAck{rec.item}, toks: []uint64{rec.tok}})
		case 8:
			exec("big", akIn{kind: akExpire, ttl: 500 * time.Second})
		}
	}
	if !r.Failed() {
		// drain: sweep until nothing is idle any more, then the count must match again
		exec("big", akIn{kind: akClock, dt: 100})
		exec("big", akIn{kind: akExpire, ttl: 60 * time.Second})
		exec("big", akIn{kind: akCount})
	}
}

func runAckSim(t *testing.T, r *simkit.Run) {
	c := akDrawCfg(r)
	r.Config = map[string]any{"shards": c.shards, "max_per_session": c.max, "uids": len(c.uids), "sids": len(c.sids), "mids": c.mids,
		"nofaults": c.noFaults, "concurrent": c.concurrent, "tasks": c.tasks, "ops": c.ops,
		"large": c.large, "big_n": c.bigN, "big_sessions": c.bigSess, "sid_base": c.sidBase, "chunk": c.chunk, "token_wrap": c.tokenWrap}
	now := int64(1000)
	tr := NewAckTracker(AckTrackerOptions{ShardCount: c.shards, MaxPendingPerSession: c.max, Now: func() int64 { return now }})
	if c.tokenWrap > 0 {
		// the 64-bit token counter wraps during this run; zero must be skipped
		tr.nextBindToken.Store(^uint64(0) - uint64(c.tokenWrap))
		r.Probe("const.token_counter_wraps_through_zero")
	}
	m := newAkModel(c.max, now)
	g := &akGen{r: r, cfg: c, now: &now}
	st := &akStats{}
	nops := 0

	// exec applies one operation to the tracker and the reference, compares, logs.
	exec := func(who string, in akIn) (akOut, bool) {
		before := len(m.entries)
		hadCommittedWithAttempt := false
		protectedFresh := false
		if in.kind == akCancel && akValid(in.items[0]) {
			if e, ok := m.entries[akKeyOf(in.items[0])]; ok && e.committed {
				for _, a := range e.attempts {
					if a.tok == in.toks[0] {
						hadCommittedWithAttempt = true
					}
				}
			}
		}
		if in.kind == akExpire {
			ttlSec := int64((in.ttl + time.Second - 1) / time.Second)
			for _, e := range m.entries {
				old, fresh := false, false
				if e.committed && m.now-e.cmeta.at >= ttlSec {
					old = true
				}
				for _, a := range e.attempts {
					if m.now-a.meta.at < ttlSec {
						fresh = true
					}
				}
				if old && fresh {
					protectedFresh = true
				}
			}
		}
		if in.kind == akAck && akValid(in.items[0]) {
			if e, ok := m.entries[akKeyOf(in.items[0])]; ok && len(e.attempts) > 0 {
				r.Probe("ack_with_inflight_attempts")
			}
		}
		out := akApply(tr, &now, in)
		r.Steps++
		nops++
		r.Logf("%s %s", who, akDescribe(in, out))
		ok, why := m.step(in, out)
		if !ok {
			class := "ack-" + strings.ToLower(akKindName[in.kind])
			sig := ""
			if in.kind == akExpire || in.kind == akClosed || in.kind == akAck {
				// is the derived count at least consistent with what the call itself returned?
				if got := tr.PendingCount(); got != before-len(out.pend) {
					sig = "count-drift"
					why += fmt.Sprintf("; moreover PendingCount=%d although %d identities were outstanding before the call and it returned %d removed", got, before, len(out.pend))
				}
			}
			r.FailSig(class, sig, fmt.Sprintf("%s: %s", akDescribe(in, out), why), map[string]any{"op": akKindName[in.kind]})
			return out, false
		}
		// PendingCount equals the reference set after every operation
		if got := tr.PendingCount(); got != len(m.entries) {
			r.FailSig("ack-count", akKindName[in.kind], fmt.Sprintf("after %s: PendingCount=%d but %d identities are outstanding", akDescribe(in, out), got, len(m.entries)),
				map[string]any{"op": akKindName[in.kind], "count": got, "reference": len(m.entries)})
			return out, false
		}
		if hadCommittedWithAttempt && out.canceled {
			r.Probe("rollback_keeps_committed")
		}
		if protectedFresh {
			r.Probe("expire_protected_by_fresh_attempt")
		}
		switch in.kind {
		case akBindBatch:
			valid := 0
			for _, p := range in.items {
				if akValid(p) {
					valid++
				}
			}
			if valid > ackBindBatchStackEntries {
				r.Probe("const.bind_batch_over_128_rows")
			}
			if len(tr.shards) > ackBindBatchStackShards {
				r.Probe("const.batch_over_64_shards")
			}
			if out.nbound < valid {
				r.Probe("batch_rows_rejected_by_session_limit")
				if c.max >= 1024 {
					r.Probe("const.session_limit_1024_reached")
				}
			}
		case akFinishBatch:
			if len(in.idx) > localAckFinishBatchStackEntries {
				r.Probe("const.finish_batch_over_512_rows")
			}
		case akExpire:
			if len(out.pend) > 1024 {
				r.Probe("expire_removed_more_than_1024_in_one_call")
			}
			if len(out.pend) > 0 {
				r.Probe("expire_removed")
			}
		case akClosed:
			if len(out.pend) > 0 {
				r.Probe("closed_removed")
			}
		case akBindResult:
			if !out.bound && akValid(in.items[0]) {
				r.Probe("limit_rejected")
			}
		case akFinish, akCancel:
			if !out.ok && !out.canceled {
				r.Probe("stale_token_noop")
			}
		case akAck:
			if out.ok {
				r.Probe("ack_removed")
			}
		}
		m.observe(r, st, in, before)
		if nops%3 == 0 {
			nc, na := 0, 0
			for _, e := range m.entries {
				if e.committed {
					nc++
				}
				na += len(e.attempts)
			}
			r.State(len(m.entries), nc, na, int(in.kind))
		}
		g.learn(in, out)
		return out, true
	}

	if c.large {
		akLargeBacklog(r, c, tr, &now, m, g, st, exec)
		r.SimTime += time.Duration(now-1000) * time.Second
		r.Nontrivial = st.removed
		return
	}
	if !c.concurrent {
		for i := 0; i < c.ops && !r.Failed(); i++ {
			exec("seq", g.draw())
		}
		r.SimTime += time.Duration(now-1000) * time.Second
		r.Nontrivial = nops >= 10 && st.overlap && st.removed
		return
	}

	// concurrent mode: tasks invoke, the operation takes effect at a later
	// scheduler step, the task observes the return at a still later step.
	type task struct {
		state   int // 0 idle, 1 invoked, 2 executed
		in      akIn
		out     akOut
		callTS  int64
		pending bool
	}
	tasks := make([]*task, c.tasks)
	for i := range tasks {
		tasks[i] = &task{}
	}
	var hist []porcupine.Operation
	var ts int64
	init := m.clone()
	init.rekey()
	invoked := 0
	for !r.Failed() {
		type act struct {
			key string
			w   int
			do  func()
		}
		var acts []act
		for i, tk := range tasks {
			i, tk := i, tk
			switch tk.state {
			case 0:
				if invoked < c.ops {
					acts = append(acts, act{fmt.Sprintf("invoke t%d", i), 3, func() {
						tk.in = g.draw()
						if tk.in.kind == akClock {
							// the clock is the environment's: it moves at one instant
							ts++
							call := ts
							out, ok := exec("env", tk.in)
							ts++
							if ok {
								hist = append(hist, porcupine.Operation{ClientId: c.tasks, Input: tk.in, Call: call, Output: out, Return: ts})
							}
							invoked++
							return
						}
						ts++
						tk.callTS = ts
						tk.state = 1
						invoked++
						r.Logf("t%d invokes %s", i, akKindName[tk.in.kind])
					}})
				}
			case 1:
				acts = append(acts, act{fmt.Sprintf("exec t%d", i), 4, func() {
					out, ok := exec(fmt.Sprintf("t%d", i), tk.in)
					tk.out = out
					tk.state = 2
					if !ok {
						tk.state = 0
					}
				}})
			case 2:
				acts = append(acts, act{fmt.Sprintf("return t%d", i), 3, func() {
					ts++
					hist = append(hist, porcupine.Operation{ClientId: i, Input: tk.in, Call: tk.callTS, Output: tk.out, Return: ts})
					tk.state = 0
				}})
			}
		}
		if len(acts) == 0 {
			break
		}
		ws := make([]int, len(acts))
		for i, a := range acts {
			ws[i] = a.w
		}
		a := acts[r.Tape.Weighted(ws)]
		a.do()
	}
	r.SimTime += time.Duration(now-1000) * time.Second
	r.Nontrivial = nops >= 10 && st.overlap && st.removed
	if r.Failed() {
		return
	}
	// Every operation (Reset included) took effect atomically at its exec
	// step, so the documented "no mutation concurrent with Reset" obligation
	// is met even when invoke/return windows overlap.
	model := porcupine.Model{
		Init: func() interface{} { return init },
		Step: func(state, input, output interface{}) (bool, interface{}) {
			s := state.(*akModel).clone()
			ok, _ := s.step(input.(akIn), output.(akOut))
			if !ok {
				return false, state
			}
			s.rekey()
			return true, s
		},
		Equal: func(a, b interface{}) bool { return a.(*akModel).key == b.(*akModel).key },
		DescribeOperation: func(input, output interface{}) string {
			return akDescribe(input.(akIn), output.(akOut))
		},
	}
	overlaps := 0
	for i := range hist {
		for j := i + 1; j < len(hist); j++ {
			if hist[i].Call <= hist[j].Return && hist[j].Call <= hist[i].Return {
				overlaps++
			}
		}
	}
	if overlaps > 0 {
		r.Probe("history_with_overlapping_operations")
	}
	switch porcupine.CheckOperationsTimeout(model, hist, 10*time.Second) {
	case porcupine.Ok:
		r.Probe("porcupine_ok")
	case porcupine.Unknown:
		r.Probe("porcupine_unknown")
	case porcupine.Illegal:
		r.FailSig("ack-not-linearizable", "", fmt.Sprintf("history of %d operations over %d tasks has no linearization against the sequential model", len(hist), c.tasks), nil)
	}
}
