package appendsim

import (
	"context"
	"errors"
	"fmt"
	"sort"
	"strings"
	"sync"
	"sync/atomic"
	"time"

	"github.com/WuKongIM/WuKongIM/internal/contracts/authority"
	"github.com/WuKongIM/WuKongIM/internal/contracts/onlinedelivery"
	ca "github.com/WuKongIM/WuKongIM/internal/runtime/channelappend"
	"github.com/WuKongIM/WuKongIM/internal/verifsim/simkit"
)

// Decisions returned by World.Park. The scheduler stores the outcome of a
// decision in the parked call's *park (out) before releasing it, so that every
// model mutation and every oracle check runs on the scheduler goroutine in a
// canonical order; the real goroutines only carry the outcome back.
const (
	decGo     = 0
	decClosed = -1 // teardown
	decCtx    = -2 // the caller's context ended while the call was parked
)

const localNode = 1

var (
	errSimStorage = errors.New("sim: injected storage failure")
	errSimLookup  = errors.New("sim: injected idempotency lookup failure")
	errSimAuth    = errors.New("sim: injected authorizer failure")
	errSimDeliver = errors.New("sim: injected delivery enqueue failure")
	errSimClosed  = errors.New("sim: world closed")
)

// ---- reference model -------------------------------------------------------

// rec is one durable record of a channel's reference log.
type rec struct {
	seq     uint64
	id      uint64
	from    string
	cno     string
	payload string
	reqKey  string
}

type chanModel struct {
	idx   int
	id    ca.ChannelID
	large bool
	log   []rec
	byKey map[string]int // from\x00cno -> index into log (keyed records only)
}

func idemKey(from, cno string) string { return from + "\x00" + cno }

func (c *chanModel) lookup(from, cno string) (rec, bool) {
	if from == "" || cno == "" {
		return rec{}, false
	}
	i, ok := c.byKey[idemKey(from, cno)]
	if !ok {
		return rec{}, false
	}
	return c.log[i], true
}

func (c *chanModel) at(seq uint64) (rec, bool) {
	if seq == 0 || seq > uint64(len(c.log)) {
		return rec{}, false
	}
	return c.log[seq-1], true
}

// fnv64a is the payload hash the runtime puts into IdempotencyQuery.
func fnv64a(b []byte) uint64 {
	h := uint64(14695981039346656037)
	for _, x := range b {
		h ^= uint64(x)
		h *= 1099511628211
	}
	return h
}

// ---- parked calls ----------------------------------------------------------

type parkKind int

const (
	pkAuth parkKind = iota
	pkLookup
	pkApply
	pkReply
	pkDeliver
	pkResolve
)

func (k parkKind) String() string {
	return [...]string{"AUTH", "LOOKUP", "APPLY", "REPLY", "DELIVER", "RESOLVE"}[k]
}

// appendReq is one AppendBatch call as the appender port saw it.
type appendReq struct {
	key     string
	ch      int
	attempt int
	msgs    []ca.Message
	firstID uint64
	// filled by the scheduler
	seen       bool
	applied    bool
	applyErr   error
	items      []ca.AppendBatchItemResult // full result after a successful apply
	replied    bool
	fault      string // injected fault on this request ("" = none)
	conflict   bool
	failed     bool              // the port returned a batch error for this request
	retried    bool              // its bounded second attempt has been seen
	lookupAns  map[string]string // ident -> answer of the recovery lookup attributed to this request
	hitsServed int               // recovery lookup hits attributed to this request
	ambiguous  bool              // a recovery lookup could belong to this or another failed request
}

type park struct {
	kind parkKind
	ch   int
	// request side
	req   *appendReq
	query ca.IdempotencyQuery
	cmd   ca.SendCommand
	env   ca.CommittedEnvelope
	// scheduler side
	seen bool
	out  parkOut
}

type parkOut struct {
	err      error
	res      ca.AppendBatchResult
	lookup   ca.SendResult
	hit      bool
	decision ca.Decision
	target   ca.AuthorityTarget
}

// ---- world ------------------------------------------------------------------

type aworld struct {
	r   *simkit.Run
	w   *simkit.World
	cfg acfg

	g      *ca.Group
	router *ca.Router
	chans  []*chanModel
	// life is the parent of every caller context; it ends only at teardown
	life       context.Context
	lifeCancel context.CancelFunc

	nextMsgID atomic.Uint64

	mu        sync.Mutex
	completed []*op
	persisted []ca.CommittedEnvelope // PersistAfter port observations (arrival order; sorted before use)
	ctxEnded  []string               // kinds of port calls whose context ended while parked

	// scheduler-side state (only touched by the scheduler goroutine)
	callers      []*caller
	ops          []*op
	opsLeft      int
	reqs         map[string]*appendReq
	reqOrder     []*appendReq
	msgReq1      map[uint64]*appendReq // message id -> attempt-1 request carrying it
	msgReq2      map[uint64]*appendReq // message id -> attempt-2 request carrying it
	hashIdent    map[string]string     // channel/from/cno/payload-hash -> ident (to attribute lookups)
	repliedOK    map[uint64]uint64     // message id -> seq acknowledged by the appender port
	repliedIdent map[string]bool       // ident -> some request carrying it was acknowledged without a fault
	envSeen      map[uint64]int        // message id -> envelopes seen on the delivery-enqueue port
	persistSeen  map[uint64]int
	identCount   map[string]int  // ident -> times submitted
	keyCount     map[string]int  // channel/from/cno -> times submitted (any payload)
	faulted      map[string]bool // ident -> a fault was injected into a call carrying it
	ctxEndedAt   map[string]int  // ident -> step at which the scheduler ended that item's caller context
	keysByChan   [][]sentKey
	firstResult  map[string][2]uint64
	eligibleDone []doneSeq
	nextKeyNo    int
	successes    int
	overlaps     int
	resolved     int
	tainted      bool
	strictEnded  bool // APPENDSIM_STRICT_ENDED_CTX=1: treat "ended-context item appended" as a violation (witness hunting)
	pendingViol  []pendingViolation

	// C41
	stops       []*stopOp
	stopBegan   int // scheduler step of the first Stop call (0 = none)
	stopDone    bool
	tailDone    bool
	stopsLeft   int
	finale      bool
	stopAtBegin int // admitted-but-incomplete futures when the first stop began
}

type pendingViolation struct {
	class, detail string
}

type sentKey struct {
	from, cno, payload string
}

type doneSeq struct {
	ch   int
	seq  uint64
	step int
	desc string
}

type caller struct {
	id   int
	busy *op
	n    int
}

type itemKind int

const (
	kNew itemKind = iota
	kRetry
	kDupInBatch
	kConflict
	kUnkeyed
	kInvalid
	kWrongChannel
)

func (k itemKind) String() string {
	return [...]string{"new", "retry", "dup", "conflict", "unkeyed", "invalid", "wrongch"}[k]
}

type item struct {
	kind    itemKind
	ch      int
	from    string
	cno     string
	payload string
}

func (it item) ident() string {
	return fmt.Sprintf("c%d|%s|%s|%s", it.ch, it.from, it.cno, it.payload)
}

func (it item) keyID() string { return fmt.Sprintf("c%d|%s|%s", it.ch, it.from, it.cno) }

type op struct {
	id        int
	caller    int
	viaRouter bool
	ch        int // Group mode: the submitted target
	items     []item
	deadline  time.Duration
	fenced    bool
	start     int
	// filled by the op goroutine
	mu        sync.Mutex
	admitted  bool
	submitErr error
	results   []ca.SendBatchItemResult
	done      bool
	cancel    context.CancelFunc
	observed  bool
	// per-item caller contexts the scheduler may end while the batch is in flight
	// (nil = this operation's items share the caller context); scheduler-side only
	itemCancel []context.CancelFunc
	itemEnded  []bool
}

type stopOp struct {
	id       int
	timeout  time.Duration
	start    int
	mu       sync.Mutex
	done     bool
	err      error
	observed bool
}

func (q *aworld) violate(class, format string, args ...any) {
	q.pendingViol = append(q.pendingViol, pendingViolation{class, fmt.Sprintf(format, args...)})
}

func (q *aworld) target(ch int, fenced bool) ca.AuthorityTarget {
	c := q.chans[ch]
	return ca.AuthorityTarget{ChannelID: c.id, ChannelKey: fmt.Sprintf("%d:%s", c.id.Type, c.id.ID), LeaderNodeID: localNode,
		Epoch: 1, LeaderEpoch: 1, RouteGeneration: 1, WriteFenced: fenced, Large: c.large, SubscriberMutationVersion: 1}
}

func (q *aworld) chanIndex(id string) int {
	for i, c := range q.chans {
		if c.id.ID == id {
			return i
		}
	}
	return -1
}

func (q *aworld) parkCtx(ctx context.Context, key string, pk *park) int {
	var done <-chan struct{}
	if ctx != nil {
		done = ctx.Done()
	}
	d := q.w.ParkCtx(done, key, pk, decCtx)
	if d == decCtx {
		q.mu.Lock()
		q.ctxEnded = append(q.ctxEnded, pk.kind.String()+" "+itemTag(ctx))
		q.mu.Unlock()
	}
	return d
}

// ---- ports -------------------------------------------------------------------

type simIDs struct{ q *aworld }

// Next is only reached right after the scheduler released the caller's
// authorizer (or fenced lookup) call, so allocation order is the scheduler's.
func (s simIDs) Next() uint64 { return s.q.nextMsgID.Add(1) }

type simAuthorizer struct{ q *aworld }

func payloadTag(p []byte) string {
	s := string(p)
	if len(s) > 24 {
		s = s[:24]
	}
	return s
}

// ctxItem travels in every submitted item's context so that port calls made on
// behalf of one item get a canonical, content-based park key.
type ctxItemKey struct{}
type ctxItem struct{ op, idx int }

func itemTag(ctx context.Context) string {
	if ctx != nil {
		if v, ok := ctx.Value(ctxItemKey{}).(ctxItem); ok {
			return fmt.Sprintf("op%d.%d", v.op, v.idx)
		}
	}
	return "-"
}

func (s simAuthorizer) AuthorizeSend(ctx context.Context, cmd ca.SendCommand) (ca.Decision, error) {
	pk := &park{kind: pkAuth, ch: s.q.chanIndex(cmd.ChannelID), cmd: cmd}
	d := s.q.parkCtx(ctx, fmt.Sprintf("AUTH %s %s %s/%s %s", itemTag(ctx), cmd.ChannelID, cmd.FromUID, cmd.ClientMsgNo, payloadTag(cmd.Payload)), pk)
	switch d {
	case decCtx:
		return ca.Decision{}, ctx.Err()
	case decClosed:
		return ca.Decision{}, errSimClosed
	}
	return pk.out.decision, pk.out.err
}

type simIdempotency struct{ q *aworld }

func (s simIdempotency) LookupSend(ctx context.Context, query ca.IdempotencyQuery) (ca.SendResult, bool, error) {
	pk := &park{kind: pkLookup, ch: s.q.chanIndex(query.ChannelID), query: query}
	d := s.q.parkCtx(ctx, fmt.Sprintf("LOOKUP %s %s %s/%s h%x", itemTag(ctx), query.ChannelID, query.FromUID, query.ClientMsgNo, query.PayloadHash&0xffffff), pk)
	switch d {
	case decCtx:
		return ca.SendResult{}, false, ctx.Err()
	case decClosed:
		return ca.SendResult{}, false, nil
	}
	return pk.out.lookup, pk.out.hit, pk.out.err
}

type simAppender struct{ q *aworld }

func reqKeyOf(req ca.AppendBatchRequest) (string, uint64) {
	first, last := uint64(0), uint64(0)
	if n := len(req.Messages); n > 0 {
		first, last = req.Messages[0].MessageID, req.Messages[n-1].MessageID
	}
	return fmt.Sprintf("%s a%d m%d-%d n%d", req.ChannelID.ID, req.Attempt, first, last, len(req.Messages)), first
}

func (s simAppender) AppendBatch(ctx context.Context, req ca.AppendBatchRequest) (ca.AppendBatchResult, error) {
	key, first := reqKeyOf(req)
	ar := &appendReq{key: key, ch: s.q.chanIndex(req.ChannelID.ID), attempt: req.Attempt, firstID: first}
	for _, m := range req.Messages {
		m.Payload = append([]byte(nil), m.Payload...)
		ar.msgs = append(ar.msgs, m)
	}
	pk := &park{kind: pkApply, ch: ar.ch, req: ar}
	switch s.q.parkCtx(ctx, "APPLY "+key, pk) {
	case decCtx:
		return ca.AppendBatchResult{}, ctx.Err()
	case decClosed:
		return ca.AppendBatchResult{}, fmt.Errorf("%w: %w", ca.ErrAppendFailed, errSimClosed)
	}
	if pk.out.err != nil {
		return ca.AppendBatchResult{}, pk.out.err
	}
	pk2 := &park{kind: pkReply, ch: ar.ch, req: ar}
	switch s.q.parkCtx(ctx, "REPLY "+key, pk2) {
	case decCtx:
		return ca.AppendBatchResult{}, ctx.Err()
	case decClosed:
		return ca.AppendBatchResult{}, fmt.Errorf("%w: %w", ca.ErrAppendFailed, errSimClosed)
	}
	return pk2.out.res, pk2.out.err
}

type simDelivery struct{ q *aworld }

func (s simDelivery) EnqueueRecipientDeliveryPlan(ctx context.Context, plan onlinedelivery.RecipientDeliveryPlan) error {
	ev := plan.Event
	pk := &park{kind: pkDeliver, ch: s.q.chanIndex(ev.ChannelID), env: ev}
	switch s.q.parkCtx(ctx, fmt.Sprintf("DELIVER %s id%d seq%d n%d", ev.ChannelID, ev.MessageID, ev.MessageSeq, plan.RecipientCount()), pk) {
	case decCtx:
		return ctx.Err()
	case decClosed:
		return errSimClosed
	}
	return pk.out.err
}

type simPersistAfter struct{ q *aworld }

func (s simPersistAfter) EnqueuePersistAfter(_ context.Context, ev ca.CommittedEnvelope) {
	s.q.mu.Lock()
	s.q.persisted = append(s.q.persisted, ev)
	s.q.mu.Unlock()
}

type simSubscribers struct{}

func (simSubscribers) NextSubscriberPage(_ context.Context, _ ca.SubscriberPageRequest) (ca.SubscriberPage, error) {
	return ca.SubscriberPage{Recipients: []ca.Recipient{{UID: "sub1"}, {UID: "sub2"}}, Done: true}, nil
}

type simRecipientAuthority struct{}

func (simRecipientAuthority) ResolveRecipientAuthority(_ context.Context, uid string) (ca.RecipientAuthorityTarget, error) {
	return authority.Target{HashSlot: uint16(len(uid) % 4), SlotID: 1, LeaderNodeID: localNode, LeaderTerm: 1, ConfigEpoch: 1, RouteRevision: 1}, nil
}

type simResolver struct{ q *aworld }

func (s simResolver) ResolveAppendAuthority(ctx context.Context, id ca.ChannelID) (ca.AuthorityTarget, error) {
	pk := &park{kind: pkResolve, ch: s.q.chanIndex(id.ID)}
	switch s.q.parkCtx(ctx, fmt.Sprintf("RESOLVE %s %s/%d", itemTag(ctx), id.ID, id.Type), pk) {
	case decCtx:
		return ca.AuthorityTarget{}, ctx.Err()
	case decClosed:
		return ca.AuthorityTarget{}, ca.ErrRouteNotReady
	}
	return pk.out.target, pk.out.err
}

// simRemote rejects every forwarded batch: the simulated cluster has one node,
// a remote target only arises from an injected stale route.
type simRemote struct{}

func (simRemote) ForwardSendBatch(_ context.Context, _ ca.AuthorityTarget, items []ca.SendBatchItem) []ca.SendBatchItemResult {
	out := make([]ca.SendBatchItemResult, len(items))
	for i := range out {
		out[i].Err = ca.ErrNotLeader
	}
	return out
}

// ---- reference appender (runs on the scheduler goroutine) --------------------

// applyRequest validates and appends a request the way the durable store does:
// a batch with a stored (sender, client no), or with the same key twice, is
// rejected as a whole with a generic append failure; otherwise every message
// gets the next sequence in request order.
func (q *aworld) applyRequest(ar *appendReq) error {
	c := q.chans[ar.ch]
	seen := map[string]bool{}
	for _, m := range ar.msgs {
		if m.FromUID == "" || m.ClientMsgNo == "" {
			continue
		}
		k := idemKey(m.FromUID, m.ClientMsgNo)
		if seen[k] {
			ar.conflict = true
			return fmt.Errorf("%w: sim store: duplicate idempotency key in batch", ca.ErrAppendFailed)
		}
		seen[k] = true
		if r, ok := c.byKey[k]; ok {
			ar.conflict = true
			return fmt.Errorf("%w: sim store: idempotency key already stored at seq %d", ca.ErrAppendFailed, c.log[r].seq)
		}
	}
	for _, m := range ar.msgs {
		seq := uint64(len(c.log) + 1)
		c.log = append(c.log, rec{seq: seq, id: m.MessageID, from: m.FromUID, cno: m.ClientMsgNo, payload: string(m.Payload), reqKey: ar.key})
		if m.FromUID != "" && m.ClientMsgNo != "" {
			c.byKey[idemKey(m.FromUID, m.ClientMsgNo)] = len(c.log) - 1
		}
		ar.items = append(ar.items, ca.AppendBatchItemResult{MessageID: m.MessageID, MessageSeq: seq,
			Message: ca.Message{MessageID: m.MessageID, MessageSeq: seq, ServerTimestampMS: m.ServerTimestampMS}})
	}
	ar.applied = true
	return nil
}

func msgIdent(ch int, m ca.Message) string {
	return fmt.Sprintf("c%d|%s|%s|%s", ch, m.FromUID, m.ClientMsgNo, string(m.Payload))
}

func (q *aworld) markFaulted(ar *appendReq, kind string) {
	ar.fault = kind
	for _, m := range ar.msgs {
		q.faulted[msgIdent(ar.ch, m)] = true
	}
}

// noteRequestArrival runs the request-level checks of the appender port
// contract when the scheduler first sees a parked AppendBatch call.
func (q *aworld) noteRequestArrival(ar *appendReq) {
	ar.seen = true
	q.reqs[ar.key] = ar
	q.reqOrder = append(q.reqOrder, ar)
	if ar.attempt != 1 && ar.attempt != 2 {
		q.violate("append-attempt-bound", "append request %s carries attempt %d (only one bounded retry is allowed)", ar.key, ar.attempt)
	}
	// The writer filters items whose caller context has ended when it builds a
	// request (activeAppendItems / the retry's appendItemError) and completes them
	// with that error instead. A request is built and parked within one scheduler
	// step, so a message of an item whose context the scheduler ended in an
	// EARLIER decision was appended although the writer had seen the error.
	for _, m := range ar.msgs {
		id := msgIdent(ar.ch, m)
		at, ended := q.ctxEndedAt[id]
		if !ended || q.identCount[id] != 1 {
			continue
		}
		q.r.Probe("append.item_with_ended_context_reached_appender")
		q.r.Logf("  NOTE request %s carries %s/%s although its caller context ended at step %d, before the request was built", ar.key, m.FromUID, m.ClientMsgNo, at)
		if q.strictEnded {
			q.violate("ended-context-item-appended", "request %s carries %s/%s (message id %d) although the item's caller context ended at step %d, before the request was built: the writer completes that item with the context error AND appends it",
				ar.key, m.FromUID, m.ClientMsgNo, m.MessageID, at)
		}
	}
	dup := map[string]bool{}
	for _, m := range ar.msgs {
		if m.FromUID != "" && m.ClientMsgNo != "" {
			id := msgIdent(ar.ch, m)
			if dup[id] {
				q.violate("inbatch-duplicate-reached-appender", "request %s carries the logical send %s twice", ar.key, id)
			}
			dup[id] = true
		}
	}
	if ar.attempt <= 1 {
		for _, m := range ar.msgs {
			if prev := q.msgReq1[m.MessageID]; prev != nil {
				q.violate("append-repeated", "message id %d appended by %s and again by %s", m.MessageID, prev.key, ar.key)
			}
			q.msgReq1[m.MessageID] = ar
		}
		return
	}
	q.r.Probe("append.second_attempt")
	var parent *appendReq
	for _, m := range ar.msgs {
		if prev := q.msgReq2[m.MessageID]; prev != nil {
			q.violate("append-third-attempt", "message id %d retried by %s and again by %s", m.MessageID, prev.key, ar.key)
		}
		q.msgReq2[m.MessageID] = ar
		p := q.msgReq1[m.MessageID]
		if p == nil {
			q.violate("append-retry-without-first", "retry request %s carries message id %d that no first attempt carried", ar.key, m.MessageID)
			continue
		}
		if parent == nil {
			parent = p
		} else if parent != p {
			q.violate("append-retry-mixes-batches", "retry request %s mixes messages of %s and %s", ar.key, parent.key, p.key)
		}
		if m.FromUID != "" && m.ClientMsgNo != "" && !p.ambiguous {
			if ans := p.lookupAns[msgIdent(ar.ch, m)]; ans == "hit" {
				q.violate("second-append-for-recovered-key", "retry request %s re-appends %s/%s whose recovery lookup returned the committed result", ar.key, m.FromUID, m.ClientMsgNo)
			}
		}
	}
	if parent != nil {
		parent.retried = true
		if !parent.failed {
			q.violate("append-retry-after-success", "retry request %s follows first attempt %s which did not fail with a generic append error (fault=%q)", ar.key, parent.key, parent.fault)
		}
		if parent.hitsServed == 0 && !parent.ambiguous {
			q.violate("append-retry-without-recovery", "retry request %s issued although no sibling of %s was recovered", ar.key, parent.key)
		}
	}
}

func lookupKeyOf(ch int, from, cno string, hash uint64) string {
	return fmt.Sprintf("c%d|%s|%s|%x", ch, from, cno, hash)
}

// attributeLookup ties an idempotency lookup to the failed first attempt it
// recovers (if any): the failed, not yet retried request of that channel that
// carries the logical send and has no answer for it yet.
func (q *aworld) attributeLookup(ch int, ident string, answer string) {
	var cands []*appendReq
	for _, ar := range q.reqOrder {
		if ar.ch != ch || ar.attempt > 1 || !ar.failed || ar.retried {
			continue
		}
		if _, answered := ar.lookupAns[ident]; answered {
			continue
		}
		for _, m := range ar.msgs {
			if msgIdent(ch, m) == ident {
				cands = append(cands, ar)
				break
			}
		}
	}
	if q.cfg.Fenced && len(cands) > 0 {
		// pre-append lookups of fenced submissions cannot be told apart from
		// recovery lookups: no attribution in such runs
		for _, ar := range cands {
			ar.ambiguous = true
		}
		return
	}
	switch len(cands) {
	case 0:
	case 1:
		ar := cands[0]
		if ar.lookupAns == nil {
			ar.lookupAns = map[string]string{}
		}
		ar.lookupAns[ident] = answer
		if answer == "hit" {
			ar.hitsServed++
			q.r.Probe("append.recovered_from_lookup")
		}
	default:
		for _, ar := range cands {
			ar.ambiguous = true
		}
		q.r.Probe("lookup.ambiguous_attribution")
	}
}

// outstanding counts appender calls of one channel that have not returned.
func (q *aworld) outstanding(ch int) int {
	n := 0
	for _, p := range q.w.Pending() {
		pk := p.Info.(*park)
		if pk.ch == ch && (pk.kind == pkApply || pk.kind == pkReply) {
			n++
		}
	}
	return n
}

func summarizeResults(rs []ca.SendBatchItemResult) string {
	parts := make([]string, len(rs))
	for i, r := range rs {
		switch {
		case r.Err != nil:
			parts[i] = "err:" + errClass(r.Err)
		case r.Result.Reason == ca.ReasonSuccess:
			parts[i] = fmt.Sprintf("ok(%d,%d)", r.Result.MessageID, r.Result.MessageSeq)
		default:
			parts[i] = fmt.Sprintf("reason%d", r.Result.Reason)
		}
	}
	return strings.Join(parts, " ")
}

func errClass(err error) string {
	switch {
	case err == nil:
		return "nil"
	case errors.Is(err, ca.ErrChannelBusy):
		return "channel_busy"
	case errors.Is(err, ca.ErrBackpressured):
		return "backpressured"
	case errors.Is(err, ca.ErrRouteNotReady):
		return "route_not_ready"
	case errors.Is(err, ca.ErrStaleRoute):
		return "stale_route"
	case errors.Is(err, ca.ErrNotLeader):
		return "not_leader"
	case errors.Is(err, ca.ErrNotChannelAuthority):
		return "not_authority"
	case errors.Is(err, ca.ErrAppendResultMissing):
		return "result_missing"
	case errors.Is(err, ca.ErrAppendFailed):
		return "append_failed"
	case errors.Is(err, context.DeadlineExceeded):
		return "deadline"
	case errors.Is(err, context.Canceled):
		return "canceled"
	case errors.Is(err, errSimLookup):
		return "lookup_error"
	case errors.Is(err, errSimAuth):
		return "auth_error"
	case errors.Is(err, errSimClosed):
		return "closed"
	}
	return "other"
}

func sortedEnvelopes(in []ca.CommittedEnvelope) []ca.CommittedEnvelope {
	out := append([]ca.CommittedEnvelope(nil), in...)
	sort.Slice(out, func(i, j int) bool {
		if out[i].ChannelID != out[j].ChannelID {
			return out[i].ChannelID < out[j].ChannelID
		}
		if out[i].MessageSeq != out[j].MessageSeq {
			return out[i].MessageSeq < out[j].MessageSeq
		}
		return out[i].MessageID < out[j].MessageID
	})
	return out
}
