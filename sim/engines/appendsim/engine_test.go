package appendsim

import (
	"context"
	"errors"
	"fmt"
	"os"
	"sort"
	"strings"
	"testing"
	"time"

	ca "github.com/WuKongIM/WuKongIM/internal/runtime/channelappend"
	"github.com/WuKongIM/WuKongIM/internal/verifsim/simkit"
)

func TestVerifSim(t *testing.T) {
	simkit.Main(t, simkit.Engine{
		Name: "appendsim",
		Props: map[string]simkit.PropFunc{
			"C29": func(t *testing.T, r *simkit.Run) { runWorld(t, r) },
			"C41": func(t *testing.T, r *simkit.Run) { runWorld(t, r) },
		},
		Real: []string{"channelappend.Group (shards, channel writers, inbox coalescing, prepare, in-batch coalescing, append effect incl. idempotency recovery and bounded retry, ordered completion drain, post-commit handoff/retry FIFO, Stop drain)",
			"channelappend.Router (half of the C29 runs)", "channelappend.Future", "ants worker pools, advance dispatcher", "timers via synctest fake clock"},
		Stub: []string{"Appender port (reference log per channel; apply in request order; store-style rejection of stored/duplicate keys; injected failures, unknown outcomes, short and item-failed results)",
			"IdempotencyStore port (payload-hash lookup served from the same reference log; injected lookup errors)",
			"Authorizer, MessageIDAllocator (counter), SubscriberSource, RecipientAuthorityResolver, OnlineDeliveryEnqueuer, PersistAfterEnqueuer, AuthorityResolver, RemoteForwarder", "callers"},
		Rule: "One run = one synctest bubble with a real Group (and Router), 1-4 channels, 2-6 callers issuing SendBatch/SubmitLocal batches with fresh, retried, in-batch duplicated, payload-conflicting, unkeyed and invalid items; every port call parks at the scheduler. " +
			"Non-trivial (C29) = at least one successful send AND (a duplicate was resolved by coalescing/recovery/conflict OR a fault fired OR two appends overlapped). " +
			"Non-trivial (C41) = a Stop began while at least one admitted future was incomplete.",
		Assumptions: []string{"testing/synctest fake clock and quiescence semantics (go1.26.8)",
			"the Appender port contract of FLOW.md: same-channel requests are applied in the order the writer issued them (the stub recovers that order from the allocator's message ids)",
			"the sim store rejects a whole batch that carries a stored or repeated (sender, client no) like MessageDB's validateAppendRow, and the idempotency lookup answers from the same log at the moment the scheduler releases it",
			"scheduling inside one simulator step is the Go runtime's at GOMAXPROCS=1; message ids are only allocated right after a scheduler release so their order is the scheduler's"},
	})
}

var classProp = map[string]string{
	"result-count": "C29", "misaligned-result": "C29", "success-without-record": "C29", "reused-key-new-success": "C29", "retry-result-changed": "C29",
	"invalid-item-succeeded": "C29", "wrong-channel-item-succeeded": "C29", "batch-order": "C29", "realtime-order": "C29",
	"inbatch-duplicate-reached-appender": "C29", "append-attempt-bound": "C29", "append-repeated": "C29", "append-third-attempt": "C29",
	"append-retry-without-first": "C29", "append-retry-mixes-batches": "C29", "second-append-for-recovered-key": "C29",
	"append-retry-after-success": "C29", "append-retry-without-recovery": "C29", "inflight-exceeded": "C29",
	"envelope-without-commit": "C29", "envelope-mismatch": "C29", "duplicate-envelope": "C29",
	// an acknowledged commit whose post-commit handoff never happened was dropped:
	// by the pipeline (C29 conservation) or, after a Stop began, by the stop (C41)
	"missing-envelope": "both", "acked-append-reported-failed": "both", "result-never-delivered": "both",
	// ended-context-item-appended is only raised with APPENDSIM_STRICT_ENDED_CTX=1
	// (see noteRequestArrival): it is not a clause of C29 as stated
	"ended-context-item-appended": "C29", "admitted-after-stop": "C41", "stop-returned-before-drain": "C41", "work-cancelled": "C41", "drain-stuck": "C41", "admitted-future-not-terminal": "C41",
}

func (q *aworld) flushViolations() {
	for _, v := range q.pendingViol {
		p := classProp[v.class]
		if p == "both" || p == q.r.Property {
			q.r.Fail(v.class, v.detail, nil)
		} else {
			q.r.Probe("other_property_violation:" + v.class)
			if !q.tainted {
				q.r.Logf("run ends: violation of another property's class %s: %s", v.class, v.detail)
			}
			q.tainted = true
		}
	}
	q.pendingViol = nil
}

type acfg struct {
	Channels, Callers, Ops, MaxBatch  int
	UseRouter                         bool
	Inflight, EffectPool, AdvancePool int
	Shards, Admission, Backlog        int
	Handoff                           int
	Coalesce                          time.Duration
	PostCommit                        int // 0 delivery, 1 none, 2 delivery+persist-after, 3 persist-after only
	Fenced                            bool
	Deadlines                         bool
	NoFaults                          bool
	FAppendFail, FUnknown, FRoute     bool
	FShort, FLookupErr, FAuth         bool
	FDeliverErr, FResolve             bool
	FCtxEnd                           bool
	Stops, StopAfter                  int
	DupBias, ConflictBias             int
}

func drawCfg(r *simkit.Run) acfg {
	tp := r.Tape
	c := acfg{}
	c.Channels = 1 + tp.Weighted([]int{3, 3, 2, 1})
	c.Callers = 2 + tp.Intn(5)
	c.Ops = 6 + tp.Intn(14)
	if r.Tier == "thorough" {
		c.Ops += tp.Intn(16)
	}
	c.MaxBatch = 1 + tp.Weighted([]int{1, 2, 3, 3, 1})
	c.UseRouter = r.Property == "C29" && tp.Intn(2) == 1
	c.Inflight = 1 + tp.Weighted([]int{3, 3, 2})
	c.EffectPool = []int{16, 4, 2}[tp.Weighted([]int{4, 2, 1})]
	c.AdvancePool = []int{8, 2, 1}[tp.Weighted([]int{4, 2, 1})]
	c.Shards = []int{1, 2, 4}[tp.Intn(3)]
	c.Admission = []int{1024, 3, 1}[tp.Weighted([]int{5, 2, 1})]
	c.Backlog = []int{1024, 6, 2}[tp.Weighted([]int{5, 2, 1})]
	c.Handoff = []int{0, 3}[tp.Weighted([]int{5, 1})]
	c.Coalesce = []time.Duration{0, -1, 2 * time.Millisecond}[tp.Weighted([]int{3, 2, 1})]
	c.PostCommit = tp.Weighted([]int{5, 2, 2, 1})
	c.Fenced = tp.Intn(4) == 0
	c.NoFaults = tp.Intn(4) == 0
	if !c.NoFaults {
		c.FAppendFail = tp.Intn(2) == 0
		c.FUnknown = tp.Intn(2) == 0
		c.FRoute = tp.Intn(3) == 0
		c.FShort = tp.Intn(3) == 0
		c.FLookupErr = tp.Intn(3) == 0
		c.FAuth = tp.Intn(4) == 0
		c.FDeliverErr = tp.Intn(3) == 0
		c.FResolve = tp.Intn(3) == 0
		c.FCtxEnd = tp.Intn(3) == 0
	}
	c.DupBias = 1 + tp.Intn(4)
	c.ConflictBias = tp.Intn(3)
	if c.UseRouter {
		c.Deadlines = tp.Intn(4) == 0
	}
	// Replayability: a bounded resource may only be contended by goroutines that
	// were woken in DIFFERENT scheduler steps, otherwise the Go scheduler and not
	// the tape decides who wins. The blocking append pool and the non-blocking
	// post-commit pool are therefore never smaller than the number of effects
	// that can be outstanding (channels x in-flight batches); a Router fans one
	// batch out to several channels in one step, so with a Router the advance
	// pool covers every channel and shard admission is not the bottleneck.
	if need := c.Channels * c.Inflight; c.EffectPool < need {
		c.EffectPool = need
	}
	if c.UseRouter {
		if c.AdvancePool < c.Channels {
			c.AdvancePool = c.Channels
		}
		c.Admission = 1024
	}
	if r.Property == "C41" {
		c.Stops = 1 + tp.Weighted([]int{2, 3, 2})
		c.StopAfter = 1 + tp.Intn(c.Ops)
		// slow appends and slow post-commit effects are the point here
		if c.PostCommit == 1 && tp.Intn(2) == 0 {
			c.PostCommit = 0
		}
	}
	return c
}

func runWorld(t *testing.T, r *simkit.Run) {
	c := drawCfg(r)
	r.Config = map[string]any{"channels": c.Channels, "callers": c.Callers, "ops": c.Ops, "max_batch": c.MaxBatch, "router": c.UseRouter,
		"inflight": c.Inflight, "effect_pool": c.EffectPool, "advance_pool": c.AdvancePool, "shards": c.Shards, "admission": c.Admission,
		"backlog": c.Backlog, "handoff": c.Handoff, "coalesce_us": c.Coalesce.Microseconds(), "post_commit": c.PostCommit, "fenced": c.Fenced,
		"deadlines": c.Deadlines, "nofaults": c.NoFaults, "f_append": c.FAppendFail, "f_unknown": c.FUnknown, "f_route": c.FRoute, "f_short": c.FShort,
		"f_lookup": c.FLookupErr, "f_auth": c.FAuth, "f_deliver": c.FDeliverErr, "f_resolve": c.FResolve, "f_ctx_end": c.FCtxEnd, "stops": c.Stops}
	simkit.Bubble(t, r, func() {
		q := newWorld(r, c)
		defer q.teardown()
		if err := q.g.Start(context.Background()); err != nil {
			r.Infra("group start: %v", err)
			return
		}
		s := &simkit.Scheduler{R: r, MaxSteps: 200 + c.Ops*c.MaxBatch*14, Collect: q.collect,
			StepTime: func() time.Duration {
				if r.Tape.Chance(1, 8) {
					return 0
				}
				return 100 * time.Microsecond
			},
			Done: func() bool { return q.tainted || q.workloadDone() },
			Idle: func() time.Duration {
				if q.workloadDone() {
					return 0
				}
				if q.opsInFlight() == 0 {
					// only a drain is in flight: its pool-release polls (1 ms tickers racing
					// with exiting workers) finish within one such sleep whatever their phase
					return 10 * time.Millisecond
				}
				return time.Millisecond
			}}
		s.Run()
		if !r.Failed() && r.InfraErr == "" && !q.tainted {
			q.finalPhase()
		}
		if r.Property == "C41" {
			r.Nontrivial = q.stopBegan > 0 && q.stopAtBegin > 0
		} else {
			r.Nontrivial = q.successes > 0 && (q.resolved > 0 || totalFaults(r) > 0 || q.overlaps > 0)
		}
	})
}

func totalFaults(r *simkit.Run) int {
	n := 0
	for _, v := range r.Faults {
		n += v
	}
	return n
}

func newWorld(r *simkit.Run, c acfg) *aworld {
	q := &aworld{r: r, w: simkit.NewWorld(r), cfg: c, opsLeft: c.Ops, stopsLeft: c.Stops,
		reqs: map[string]*appendReq{}, msgReq1: map[uint64]*appendReq{}, msgReq2: map[uint64]*appendReq{},
		hashIdent: map[string]string{}, repliedOK: map[uint64]uint64{}, repliedIdent: map[string]bool{},
		envSeen: map[uint64]int{}, persistSeen: map[uint64]int{}, identCount: map[string]int{}, keyCount: map[string]int{},
		faulted: map[string]bool{}, firstResult: map[string][2]uint64{}, ctxEndedAt: map[string]int{},
		strictEnded: os.Getenv("APPENDSIM_STRICT_ENDED_CTX") == "1"}
	q.nextMsgID.Store(1000)
	q.life, q.lifeCancel = context.WithCancel(context.Background())
	for i := 0; i < c.Channels; i++ {
		q.chans = append(q.chans, &chanModel{idx: i, id: ca.ChannelID{ID: fmt.Sprintf("g%d", i), Type: 2}, large: i%2 == 1, byKey: map[string]int{}})
	}
	q.keysByChan = make([][]sentKey, c.Channels)
	for i := 0; i < c.Callers; i++ {
		q.callers = append(q.callers, &caller{id: i})
	}
	opts := ca.Options{LocalNodeID: localNode, Appender: simAppender{q}, MessageID: simIDs{q}, Authorizer: simAuthorizer{q}, Idempotency: simIdempotency{q},
		AuthorityShardCount: c.Shards, AdvancePoolSize: c.AdvancePool, AdmissionCapacityPerShard: c.Admission, ChannelBacklogHighWatermark: c.Backlog,
		PostCommitHandoffCapacity: c.Handoff, AppendInflightBatchesPerChannel: c.Inflight, InboxCoalesceWindow: c.Coalesce, EffectPoolSize: c.EffectPool,
		Subscribers: simSubscribers{}, RecipientAuthorityResolver: simRecipientAuthority{}}
	if c.PostCommit == 0 || c.PostCommit == 2 {
		opts.OnlineDeliveryEnqueuer = simDelivery{q}
	}
	if c.PostCommit == 2 || c.PostCommit == 3 {
		opts.PersistAfterEnqueuer = simPersistAfter{q}
	}
	q.g = ca.New(opts)
	if c.UseRouter {
		q.router = ca.NewRouter(ca.RouterOptions{LocalNodeID: localNode, Resolver: simResolver{q}, Local: q.g, Remote: simRemote{},
			RetryBackoff: time.Millisecond, MaxRouteAttempts: 3})
	}
	return q
}

func (q *aworld) deliveryPort() bool { return q.cfg.PostCommit == 0 || q.cfg.PostCommit == 2 }
func (q *aworld) persistPort() bool  { return q.cfg.PostCommit == 2 || q.cfg.PostCommit == 3 }

func (q *aworld) opsInFlight() int {
	n := 0
	for _, o := range q.ops {
		if !o.observed {
			n++
		}
	}
	return n
}

func (q *aworld) stopsInFlight() int {
	n := 0
	for _, s := range q.stops {
		if !s.observed {
			n++
		}
	}
	return n
}

func (q *aworld) workloadDone() bool {
	return q.opsLeft <= 0 && q.opsInFlight() == 0 && q.stopsInFlight() == 0 && (q.cfg.Stops == 0 || q.stopsLeft <= 0)
}

func (q *aworld) teardown() {
	q.w.CloseAll(decClosed)
	ctx, cancel := context.WithTimeout(context.Background(), 20*time.Second)
	if err := q.g.Stop(ctx); err != nil && q.r.InfraErr == "" && !q.r.Failed() {
		q.r.Infra("teardown: group stop: %v", err)
	}
	cancel()
	// nobody may stay blocked on a future the pipeline lost: the callers' contexts end here
	q.lifeCancel()
	for i := 0; i < 500 && (q.opsInFlight() > 0 || q.stopsInFlight() > 0); i++ {
		simkit.Wait()
		q.collectDone()
		if q.opsInFlight() > 0 || q.stopsInFlight() > 0 {
			time.Sleep(10 * time.Millisecond)
		}
	}
	for _, o := range q.ops {
		if o.cancel != nil {
			o.cancel()
		}
	}
	simkit.Wait()
}

// collectDone marks finished operations without judging them (teardown only).
func (q *aworld) collectDone() {
	q.mu.Lock()
	done := q.completed
	q.completed = nil
	q.mu.Unlock()
	for _, o := range done {
		o.observed = true
	}
	for _, s := range q.stops {
		s.mu.Lock()
		if s.done {
			s.observed = true
		}
		s.mu.Unlock()
	}
}

// ---- scheduler step ---------------------------------------------------------

func (q *aworld) collect() []simkit.Action {
	q.drain()
	if q.r.Failed() || q.tainted {
		return nil
	}
	pend := q.w.Pending()
	for _, p := range pend {
		pk := p.Info.(*park)
		if !pk.seen {
			pk.seen = true
			q.noteArrival(pk)
		}
	}
	q.flushViolations()
	if q.r.Failed() || q.tainted {
		return nil
	}
	c := q.cfg
	faults := !c.NoFaults && !q.finale
	var acts []simkit.Action
	counts := [6]int{}
	// the oldest not yet applied first attempt of every channel
	oldest := map[int]uint64{}
	for _, p := range pend {
		pk := p.Info.(*park)
		counts[pk.kind]++
		if pk.kind == pkApply && pk.req.attempt <= 1 {
			if cur, ok := oldest[pk.ch]; !ok || pk.req.firstID < cur {
				oldest[pk.ch] = pk.req.firstID
			}
		}
	}
	q.r.State(counts, q.stopBegan > 0, q.stopDone)
	for _, p := range pend {
		p := p
		pk := p.Info.(*park)
		switch pk.kind {
		case pkAuth:
			acts = append(acts, simkit.Action{Prio: 0, Key: "allow " + p.Key, Weight: 30, Do: func() {
				pk.out.decision = ca.Decision{Allowed: true, Reason: ca.ReasonSuccess}
				q.w.Release(p, decGo)
			}})
			if faults && c.FAuth {
				acts = append(acts, simkit.Action{Prio: 5, Key: "deny " + p.Key, Weight: 1, Do: func() {
					q.r.Fault("authorizer_denied")
					q.faulted[cmdIdent(pk.ch, pk.cmd)] = true
					pk.out.decision = ca.Decision{Allowed: false, Reason: ca.ReasonNotAllowSend}
					q.w.Release(p, decGo)
				}})
				acts = append(acts, simkit.Action{Prio: 5, Key: "autherr " + p.Key, Weight: 1, Do: func() {
					q.r.Fault("authorizer_error")
					q.faulted[cmdIdent(pk.ch, pk.cmd)] = true
					pk.out.err = errSimAuth
					q.w.Release(p, decGo)
				}})
			}
		case pkLookup:
			acts = append(acts, simkit.Action{Prio: 0, Key: "answer " + p.Key, Weight: 30, Do: func() { q.serveLookup(p, pk, false) }})
			if faults && c.FLookupErr {
				acts = append(acts, simkit.Action{Prio: 5, Key: "lookuperr " + p.Key, Weight: 2, Do: func() { q.serveLookup(p, pk, true) }})
			}
		case pkApply:
			if pk.req.attempt <= 1 && oldest[pk.ch] != pk.req.firstID {
				continue // the port applies same-channel requests in the order they were issued
			}
			acts = append(acts, simkit.Action{Prio: 0, Key: "apply " + p.Key, Weight: 20, Do: func() { q.doApply(p, pk, "") }})
			if faults && c.FAppendFail {
				acts = append(acts, simkit.Action{Prio: 5, Key: "failappend " + p.Key, Weight: 2, Do: func() { q.doApply(p, pk, "append_failed_not_written") }})
				acts = append(acts, simkit.Action{Prio: 5, Key: "pressure " + p.Key, Weight: 1, Do: func() { q.doApply(p, pk, "append_backpressured") }})
			}
			if faults && c.FRoute {
				acts = append(acts, simkit.Action{Prio: 5, Key: "notleader " + p.Key, Weight: 1, Do: func() { q.doApply(p, pk, "append_not_leader") }})
				acts = append(acts, simkit.Action{Prio: 5, Key: "staleroute " + p.Key, Weight: 1, Do: func() { q.doApply(p, pk, "append_stale_route") }})
			}
		case pkReply:
			acts = append(acts, simkit.Action{Prio: 0, Key: "reply " + p.Key, Weight: 20, Do: func() { q.doReply(p, pk, "") }})
			if faults && c.FUnknown {
				acts = append(acts, simkit.Action{Prio: 5, Key: "unknown " + p.Key, Weight: 3, Do: func() { q.doReply(p, pk, "append_written_but_failed") }})
			}
			if faults && c.FShort {
				acts = append(acts, simkit.Action{Prio: 5, Key: "short " + p.Key, Weight: 1, Do: func() { q.doReply(p, pk, "append_short_result") }})
				acts = append(acts, simkit.Action{Prio: 5, Key: "itemerr " + p.Key, Weight: 1, Do: func() { q.doReply(p, pk, "append_item_error") }})
			}
		case pkDeliver:
			acts = append(acts, simkit.Action{Prio: 0, Key: "accept " + p.Key, Weight: 10, Do: func() { q.w.Release(p, decGo) }})
			if faults && c.FDeliverErr {
				acts = append(acts, simkit.Action{Prio: 5, Key: "reject " + p.Key, Weight: 1, Do: func() {
					q.r.Fault("delivery_enqueue_error")
					pk.out.err = errSimDeliver
					q.w.Release(p, decGo)
				}})
			}
		case pkResolve:
			acts = append(acts, simkit.Action{Prio: 0, Key: "resolve " + p.Key, Weight: 30, Do: func() {
				fenced := c.Fenced && q.r.Tape.Chance(1, 2)
				pk.out.target = q.target(pk.ch, fenced)
				q.w.Release(p, decGo)
			}})
			if faults && c.FResolve {
				acts = append(acts, simkit.Action{Prio: 5, Key: "notready " + p.Key, Weight: 2, Do: func() {
					q.r.Fault("resolve_route_not_ready")
					pk.out.err = ca.ErrRouteNotReady
					q.w.Release(p, decGo)
				}})
				acts = append(acts, simkit.Action{Prio: 5, Key: "remote " + p.Key, Weight: 1, Do: func() {
					q.r.Fault("resolve_stale_remote_leader")
					tg := q.target(pk.ch, false)
					tg.LeaderNodeID = localNode + 1
					pk.out.target = tg
					q.w.Release(p, decGo)
				}})
			}
		}
	}
	if q.finale {
		return acts
	}
	if faults && c.FCtxEnd {
		for _, o := range q.ops {
			o := o
			if o.observed || o.itemCancel == nil {
				continue
			}
			for i := range o.items {
				i := i
				if o.itemCancel[i] == nil || o.itemEnded[i] {
					continue
				}
				w := 1
				if i > 0 && o.itemEnded[i-1] {
					w = 4 // runs of adjacent ended items are what batch filters must get right
				}
				acts = append(acts, simkit.Action{Prio: 5, Key: fmt.Sprintf("endctx op%d.%d", o.id, i), Weight: w, Do: func() {
					q.r.Fault("item_context_cancelled")
					o.itemEnded[i] = true
					id := o.items[i].ident()
					q.faulted[id] = true
					if _, seen := q.ctxEndedAt[id]; !seen {
						q.ctxEndedAt[id] = q.r.Steps
					}
					o.itemCancel[i]()
				}})
			}
		}
	}
	if q.opsLeft > 0 {
		for _, cl := range q.callers {
			cl := cl
			if cl.busy != nil {
				continue
			}
			acts = append(acts, simkit.Action{Prio: 1, Key: fmt.Sprintf("op start caller%d", cl.id), Weight: 8, Do: func() { q.startOp(cl) }})
		}
	}
	if q.stopsLeft > 0 && (len(q.ops) >= c.StopAfter || q.opsLeft <= 0) && q.stopsInFlight() < 2 {
		w := 2
		if q.opsLeft <= 0 {
			w = 12
		}
		acts = append(acts, simkit.Action{Prio: 2, Key: "stop group", Weight: w, Do: q.startStop})
	}
	if len(acts) > 0 && (len(pend) > 0 || q.opsInFlight() > 0 || q.stopsInFlight() > 0) {
		acts = append(acts, simkit.Action{Prio: 3, Key: "tick 100us", Weight: 2, Do: func() { time.Sleep(100 * time.Microsecond) }})
		acts = append(acts, simkit.Action{Prio: 3, Key: "tick 2ms", Weight: 2, Do: func() { time.Sleep(2 * time.Millisecond) }})
		acts = append(acts, simkit.Action{Prio: 3, Key: "tick 40ms", Weight: 1, Do: func() { time.Sleep(40 * time.Millisecond) }})
	}
	return acts
}

func cmdIdent(ch int, cmd ca.SendCommand) string {
	return fmt.Sprintf("c%d|%s|%s|%s", ch, cmd.FromUID, cmd.ClientMsgNo, string(cmd.Payload))
}

func (q *aworld) noteArrival(pk *park) {
	switch pk.kind {
	case pkApply:
		q.noteRequestArrival(pk.req)
		if n := q.outstanding(pk.ch); n > q.cfg.Inflight {
			q.violate("inflight-exceeded", "channel %s has %d appender calls outstanding, AppendInflightBatchesPerChannel=%d", q.chans[pk.ch].id.ID, n, q.cfg.Inflight)
		} else if n >= 2 {
			q.overlaps++
			q.r.Probe("append.overlapping_requests")
		}
	case pkDeliver:
		q.noteEnvelope(pk.env, q.envSeen, "delivery")
	}
}

func (q *aworld) noteEnvelope(ev ca.CommittedEnvelope, seen map[uint64]int, port string) {
	q.r.Probe("envelope." + port)
	seq, ok := q.repliedOK[ev.MessageID]
	if !ok {
		why := "its message id never reached the appender (coalesced non-owner?)"
		if q.msgReq1[ev.MessageID] != nil {
			why = "its append was never acknowledged by the appender port (recovered hit?)"
		}
		q.violate("envelope-without-commit", "%s port received an envelope for message id %d seq %d on %s but %s", port, ev.MessageID, ev.MessageSeq, ev.ChannelID, why)
		return
	}
	if seq != ev.MessageSeq {
		q.violate("envelope-mismatch", "%s port received message id %d with seq %d, committed at seq %d", port, ev.MessageID, ev.MessageSeq, seq)
	}
	if ch := q.chanIndex(ev.ChannelID); ch >= 0 {
		if rc, ok := q.chans[ch].at(ev.MessageSeq); !ok || rc.id != ev.MessageID || rc.payload != string(ev.Payload) || rc.from != ev.FromUID || rc.cno != ev.ClientMsgNo {
			q.violate("envelope-mismatch", "%s port envelope (id %d seq %d from %s/%s) does not equal the stored record", port, ev.MessageID, ev.MessageSeq, ev.FromUID, ev.ClientMsgNo)
		}
	}
	seen[ev.MessageID]++
	if seen[ev.MessageID] > 1 {
		q.violate("duplicate-envelope", "%s port received message id %d seq %d %d times", port, ev.MessageID, ev.MessageSeq, seen[ev.MessageID])
	}
}

func (q *aworld) serveLookup(p *simkit.Parked, pk *park, fail bool) {
	qu := pk.query
	ident := q.hashIdent[lookupKeyOf(pk.ch, qu.FromUID, qu.ClientMsgNo, qu.PayloadHash)]
	if fail {
		q.r.Fault("idempotency_lookup_error")
		if ident != "" {
			q.faulted[ident] = true
			q.attributeLookup(pk.ch, ident, "err")
		}
		pk.out.err = fmt.Errorf("%w: %w", ca.ErrAppendFailed, errSimLookup)
		q.r.Logf("  lookup %s/%s -> error", qu.FromUID, qu.ClientMsgNo)
		q.w.Release(p, decGo)
		return
	}
	ans := "miss"
	if pk.ch >= 0 {
		if rc, ok := q.chans[pk.ch].lookup(qu.FromUID, qu.ClientMsgNo); ok {
			if qu.PayloadHash == 0 || fnv64a([]byte(rc.payload)) == qu.PayloadHash {
				pk.out.hit = true
				pk.out.lookup = ca.SendResult{MessageID: rc.id, MessageSeq: rc.seq, Reason: ca.ReasonSuccess}
				ans = "hit"
			} else {
				ans = "miss" // stored with another payload
				q.r.Probe("lookup.payload_mismatch")
			}
		}
	}
	if ident != "" {
		q.attributeLookup(pk.ch, ident, ans)
	}
	if ans == "hit" {
		q.resolved++
	}
	q.r.Logf("  lookup %s/%s -> %s", qu.FromUID, qu.ClientMsgNo, ans)
	q.w.Release(p, decGo)
}

func (q *aworld) doApply(p *simkit.Parked, pk *park, fault string) {
	ar := pk.req
	if fault != "" {
		q.r.Fault(fault)
		q.markFaulted(ar, fault)
		switch fault {
		case "append_failed_not_written":
			ar.failed = true // the only error class the writer may answer with recovery lookups and one retry
			pk.out.err = fmt.Errorf("%w: %w", ca.ErrAppendFailed, errSimStorage)
		case "append_backpressured":
			pk.out.err = fmt.Errorf("%w: %w", ca.ErrBackpressured, errSimStorage)
		case "append_not_leader":
			pk.out.err = fmt.Errorf("%w: %w", ca.ErrNotLeader, errSimStorage)
		case "append_stale_route":
			pk.out.err = fmt.Errorf("%w: %w", ca.ErrStaleRoute, errSimStorage)
		}
		q.w.Release(p, decGo)
		return
	}
	if err := q.applyRequest(ar); err != nil {
		ar.failed = true
		pk.out.err = err
		q.resolved++
		q.r.Probe("append.rejected_stored_key")
		q.r.Logf("  %s rejected: %v", ar.key, err)
	} else {
		q.r.Logf("  %s applied seq %d-%d", ar.key, ar.items[0].MessageSeq, ar.items[len(ar.items)-1].MessageSeq)
	}
	q.w.Release(p, decGo)
}

func (q *aworld) doReply(p *simkit.Parked, pk *park, fault string) {
	ar := pk.req
	for _, other := range q.reqOrder {
		if other != ar && other.ch == ar.ch && other.applied && !other.replied && other.attempt <= 1 && ar.attempt <= 1 && other.firstID < ar.firstID {
			q.r.Probe("append.reply_out_of_order")
			break
		}
	}
	ar.replied = true
	n := len(ar.items)
	ack := func(i int) {
		it := ar.items[i]
		q.repliedOK[it.MessageID] = it.MessageSeq
		q.repliedIdent[msgIdent(ar.ch, ar.msgs[i])] = true
	}
	switch fault {
	case "":
		pk.out.res = ca.AppendBatchResult{Items: append([]ca.AppendBatchItemResult(nil), ar.items...)}
		for i := 0; i < n; i++ {
			ack(i)
		}
	case "append_written_but_failed":
		q.r.Fault(fault)
		q.markFaulted(ar, fault)
		ar.failed = true
		pk.out.err = fmt.Errorf("%w: %w", ca.ErrAppendFailed, errSimStorage)
	case "append_short_result":
		q.r.Fault(fault)
		q.markFaulted(ar, fault)
		keep := n - 1 - q.r.Tape.Intn(n)
		pk.out.res = ca.AppendBatchResult{Items: append([]ca.AppendBatchItemResult(nil), ar.items[:keep]...)}
		for i := 0; i < keep; i++ {
			ack(i)
		}
	case "append_item_error":
		q.r.Fault(fault)
		q.markFaulted(ar, fault)
		bad := q.r.Tape.Intn(n)
		items := append([]ca.AppendBatchItemResult(nil), ar.items...)
		items[bad] = ca.AppendBatchItemResult{Err: fmt.Errorf("%w: %w", ca.ErrAppendFailed, errSimStorage)}
		pk.out.res = ca.AppendBatchResult{Items: items}
		for i := 0; i < n; i++ {
			if i != bad {
				ack(i)
			}
		}
	}
	q.w.Release(p, decGo)
}

// ---- client operations --------------------------------------------------------

var senders = []string{"u1", "u2", "u3"}

func (q *aworld) startOp(cl *caller) {
	tp := q.r.Tape
	c := q.cfg
	q.opsLeft--
	o := &op{id: len(q.ops) + 1, caller: cl.id, viaRouter: c.UseRouter, start: q.r.Steps}
	n := 1 + tp.Intn(c.MaxBatch)
	o.ch = tp.Intn(c.Channels)
	if !o.viaRouter {
		o.fenced = c.Fenced && tp.Chance(1, 2)
	}
	if c.Deadlines && tp.Chance(1, 3) {
		o.deadline = []time.Duration{30 * time.Millisecond, 3 * time.Millisecond, 300 * time.Millisecond}[tp.Intn(3)]
	}
	for i := 0; i < n; i++ {
		ch := o.ch
		if o.viaRouter && c.Channels > 1 && tp.Chance(1, 2) {
			ch = tp.Intn(c.Channels)
		}
		var prior []int // earlier keyed items of this op on the same channel
		for j, e := range o.items {
			if e.ch == ch && e.cno != "" && (e.kind == kNew || e.kind == kRetry || e.kind == kDupInBatch || e.kind == kConflict) {
				prior = append(prior, j)
			}
		}
		known := q.keysByChan[ch]
		ws := []int{6, 0, 0, 0, 1, 1, 0}
		if len(known) > 0 {
			ws[kRetry] = 1 + c.DupBias
			ws[kConflict] = c.ConflictBias
		}
		if len(prior) > 0 {
			ws[kDupInBatch] = c.DupBias
		}
		if !o.viaRouter {
			ws[kWrongChannel] = 1
		}
		it := item{kind: itemKind(tp.Weighted(ws)), ch: ch}
		switch it.kind {
		case kNew:
			q.nextKeyNo++
			it.from = senders[tp.Intn(len(senders))]
			it.cno = fmt.Sprintf("m%d", q.nextKeyNo)
			it.payload = fmt.Sprintf("p-%s-%s-a", it.from, it.cno)
			q.keysByChan[ch] = append(q.keysByChan[ch], sentKey{it.from, it.cno, it.payload})
		case kRetry:
			k := known[len(known)-1-tp.PickOldestBiased(len(known))]
			it.from, it.cno, it.payload = k.from, k.cno, k.payload
		case kDupInBatch:
			e := o.items[prior[tp.Intn(len(prior))]]
			it.from, it.cno, it.payload = e.from, e.cno, e.payload
		case kConflict:
			k := known[len(known)-1-tp.PickOldestBiased(len(known))]
			it.from, it.cno = k.from, k.cno
			it.payload = k.payload + fmt.Sprintf("-x%d", 1+tp.Intn(2))
		case kUnkeyed:
			it.from = senders[tp.Intn(len(senders))]
			it.payload = fmt.Sprintf("u-op%d-%d", o.id, i)
		case kInvalid:
			if tp.Intn(2) == 0 {
				it.from = senders[0] // empty payload -> invalid request
				it.cno = "bad"
			} else {
				it.payload = "nofrom" // no sender -> auth fail
				it.cno = "bad"
			}
		case kWrongChannel:
			q.nextKeyNo++
			it.from = senders[tp.Intn(len(senders))]
			it.cno = fmt.Sprintf("w%d", q.nextKeyNo)
			it.payload = "wrong-channel"
		}
		o.items = append(o.items, it)
	}
	descr := make([]string, len(o.items))
	batch := make([]ca.SendBatchItem, len(o.items))
	ctx := q.life // a caller's session context: cancellable, ended only at teardown
	if o.deadline > 0 {
		// every simulator-initiated sleep is a multiple of 50 us; a per-operation
		// skew keeps this deadline from ever tying with another timer
		o.deadline += time.Duration(o.id%49+1) * time.Microsecond
		ctx, o.cancel = context.WithTimeout(ctx, o.deadline)
	}
	// In some operations every well-formed item travels with its own caller
	// context (think: one session per item), which the scheduler may end while
	// the batch is queued, being prepared or waiting for its append turn.
	if q.cfg.FCtxEnd && len(o.items) > 1 && q.r.Tape.Chance(1, 2) {
		o.itemCancel = make([]context.CancelFunc, len(o.items))
		o.itemEnded = make([]bool, len(o.items))
	}
	for i, it := range o.items {
		chID := q.chans[it.ch].id.ID
		if it.kind == kWrongChannel {
			chID = "elsewhere"
			if q.cfg.Channels > 1 {
				chID = q.chans[(it.ch+1)%q.cfg.Channels].id.ID
			}
		}
		cmd := ca.SendCommand{FromUID: it.from, ClientMsgNo: it.cno, ChannelID: chID, ChannelType: 2, SenderNodeID: localNode, SenderSessionID: uint64(100 + cl.id)}
		if it.payload != "" {
			cmd.Payload = []byte(it.payload)
		}
		ictx := ctx
		if o.itemCancel != nil && it.kind != kInvalid && it.kind != kWrongChannel {
			ictx, o.itemCancel[i] = context.WithCancel(ctx)
		}
		batch[i] = ca.SendBatchItem{Context: context.WithValue(ictx, ctxItemKey{}, ctxItem{op: o.id, idx: i}), Command: cmd}
		descr[i] = fmt.Sprintf("%s:%s:%s/%s", it.kind, chID, it.from, it.cno)
		if it.kind != kInvalid && it.kind != kWrongChannel {
			q.identCount[it.ident()]++
			q.keyCount[it.keyID()]++
			q.hashIdent[lookupKeyOf(it.ch, it.from, it.cno, fnv64a([]byte(it.payload)))] = it.ident()
			if q.identCount[it.ident()] > 1 {
				q.r.Probe("workload.duplicate_send")
			}
		}
	}
	if q.opsInFlight() > 0 {
		q.r.Probe("workload.concurrent_ops")
	}
	q.ops = append(q.ops, o)
	cl.busy = o
	cl.n++
	q.r.Logf("  op%d caller%d router=%v fenced=%v deadline=%v item_ctx=%v [%s]", o.id, cl.id, o.viaRouter, o.fenced, o.deadline, o.itemCancel != nil, strings.Join(descr, " "))
	target := q.target(o.ch, o.fenced)
	go func() {
		var res []ca.SendBatchItemResult
		if o.viaRouter {
			res = q.router.SendBatch(batch)
			o.mu.Lock()
			o.admitted = true
			o.mu.Unlock()
		} else {
			f, err := q.g.SubmitLocal(q.life, target, batch)
			o.mu.Lock()
			o.admitted, o.submitErr = err == nil, err
			o.mu.Unlock()
			if err == nil {
				res, _ = f.Wait(q.life)
			}
		}
		o.mu.Lock()
		o.results, o.done = res, true
		o.mu.Unlock()
		q.mu.Lock()
		q.completed = append(q.completed, o)
		q.mu.Unlock()
	}()
}

func (q *aworld) admittedIncomplete() []*op {
	var out []*op
	for _, o := range q.ops {
		if o.observed || o.viaRouter {
			continue
		}
		o.mu.Lock()
		adm := o.admitted
		o.mu.Unlock()
		if adm {
			out = append(out, o)
		}
	}
	return out
}

func (q *aworld) startStop() {
	q.stopsLeft--
	st := &stopOp{id: len(q.stops) + 1, start: q.r.Steps}
	st.timeout = []time.Duration{time.Millisecond, 0, 5 * time.Millisecond, 50 * time.Millisecond, time.Hour}[q.r.Tape.Weighted([]int{3, 2, 2, 1, 2})]
	if st.timeout > 0 && st.timeout < time.Hour {
		// off the 50 us grid of every other timer: the deadline never ties with the drain's poll
		st.timeout += time.Duration(st.id*7%49+1) * time.Microsecond
	}
	if q.stopBegan == 0 {
		q.stopBegan = q.r.Steps
		q.stopAtBegin = len(q.admittedIncomplete())
		q.r.Fault("stop_during_traffic")
	} else {
		q.r.Probe("stop.repeated")
	}
	q.stops = append(q.stops, st)
	q.r.Logf("  stop%d timeout=%v admitted_incomplete=%d", st.id, st.timeout, len(q.admittedIncomplete()))
	go func() {
		ctx := q.life
		cancel := func() {}
		switch {
		case st.timeout == 0:
			ctx, cancel = context.WithCancel(ctx)
			cancel() // a caller whose deadline has already passed
		case st.timeout < time.Hour:
			ctx, cancel = context.WithTimeout(ctx, st.timeout)
		}
		err := q.g.Stop(ctx)
		cancel()
		st.mu.Lock()
		st.err, st.done = err, true
		st.mu.Unlock()
	}()
}

// ---- observation and oracles ----------------------------------------------------

func (q *aworld) drain() {
	q.mu.Lock()
	done := q.completed
	q.completed = nil
	persisted := q.persisted
	q.persisted = nil
	ended := q.ctxEnded
	q.ctxEnded = nil
	q.mu.Unlock()
	for _, ev := range sortedEnvelopes(persisted) {
		q.noteEnvelope(ev, q.persistSeen, "persist_after")
	}
	sort.Slice(done, func(i, j int) bool { return done[i].id < done[j].id })
	for _, o := range done {
		q.observeOp(o)
	}
	if q.stopBegan > 0 && !q.tailDone && q.opsInFlight() == 0 && q.w.NumPending() == 0 {
		q.awaitDrainTail()
	}
	for _, st := range q.stops {
		if st.observed {
			continue
		}
		st.mu.Lock()
		fin, err := st.done, st.err
		st.mu.Unlock()
		if fin {
			q.observeStop(st, err)
		}
	}
	sort.Strings(ended)
	for _, entry := range ended {
		k, tag, _ := strings.Cut(entry, " ")
		q.r.Probe("port_call_context_ended:" + k)
		if q.endedByScheduler(tag) {
			continue // the harness itself ended this item's caller context (fault item_context_cancelled)
		}
		if q.r.Property == "C41" && !q.stopDone {
			q.violate("work-cancelled", "the context of a parked %s port call (%s) ended before the drain finished: admitted work was cancelled", k, tag)
		}
	}
	q.flushViolations()
}

// awaitDrainTail runs once a Stop has begun and nothing is left in flight (no
// operation without its results, no parked port call). From here the background
// drain only has to notice that and release its pools; how many of its 1 ms
// polls that takes depends on how fast the released ants workers exit, i.e. on
// the Go scheduler. The harness therefore lets the tail finish as ONE step and
// records the Stop callers that return inside it without distinguishing nil
// from an expired deadline: nothing is in flight, so no clause of C41 depends
// on which of the two they got.
func (q *aworld) awaitDrainTail() {
	q.tailDone = true
	stopped := false
	for i := 0; i < 150 && !stopped; i++ {
		time.Sleep(20 * time.Millisecond)
		ctx, cancel := context.WithCancel(context.Background())
		cancel()
		stopped = q.g.Stop(ctx) == nil // a stopped group answers nil before looking at the context
	}
	simkit.Wait()
	if !stopped {
		if q.r.Property == "C41" {
			q.violate("drain-stuck", "nothing was in flight for 3 s of simulated time after Stop began, yet the group never reported stopped")
		} else {
			q.r.Probe("other_property_violation:drain-stuck")
			q.tainted = true
		}
		return
	}
	q.stopDone = true
	q.r.Probe("stop.drain_tail_completed")
	q.r.Logf("  drain tail: nothing in flight, group stopped")
	for _, st := range q.stops {
		if st.observed {
			continue
		}
		st.mu.Lock()
		fin := st.done
		st.mu.Unlock()
		if !fin {
			q.violate("drain-stuck", "the group is stopped but Stop caller %d has not returned", st.id)
			continue
		}
		st.observed = true
		q.r.Probe("stop.returned_in_drain_tail")
		q.r.Logf("  stop%d returned (drain tail)", st.id)
	}
	if !q.finale && q.opsLeft > 2 {
		q.opsLeft = 2
	}
}

func (q *aworld) observeStop(st *stopOp, err error) {
	st.observed = true
	q.r.Logf("  stop%d returned %v", st.id, err)
	if err != nil {
		q.r.Probe("stop.caller_deadline_expired")
		if n := len(q.admittedIncomplete()); n > 0 {
			q.r.Probe("stop.expired_with_work_in_flight")
		}
		return
	}
	q.r.Probe("stop.completed")
	q.stopDone = true
	if !q.finale && q.opsLeft > 2 {
		q.opsLeft = 2 // a stopped group only rejects: two more submissions are enough to see that
	}
	if left := q.admittedIncomplete(); len(left) > 0 {
		q.violate("stop-returned-before-drain", "Stop returned nil while %d admitted futures had no terminal result (first: op%d)", len(left), left[0].id)
	}
}

func (q *aworld) observeOp(o *op) {
	o.observed = true
	for _, cl := range q.callers {
		if cl.busy == o {
			cl.busy = nil
		}
	}
	if o.cancel != nil {
		o.cancel()
	}
	for _, c := range o.itemCancel {
		if c != nil {
			c()
		}
	}
	o.mu.Lock()
	res, admitted, subErr := o.results, o.admitted, o.submitErr
	o.mu.Unlock()
	if subErr != nil {
		res = make([]ca.SendBatchItemResult, len(o.items))
		for i := range res {
			res[i].Err = subErr
		}
		switch {
		case errors.Is(subErr, ca.ErrBackpressured):
			q.r.Probe("backpressure.admission")
		case errors.Is(subErr, ca.ErrRouteNotReady):
			q.r.Probe("admission.closed")
		}
	}
	q.r.Logf("  op%d done admitted=%v: %s", o.id, admitted, summarizeResults(res))
	if q.stopBegan > 0 && !o.viaRouter {
		if o.start > q.stopBegan && admitted {
			q.violate("admitted-after-stop", "op%d was submitted at step %d, after Stop began at step %d, and was admitted", o.id, o.start, q.stopBegan)
		}
		if o.start > q.stopBegan {
			q.r.Probe("stop.submit_after_stop_rejected")
		} else if admitted {
			q.r.Probe("stop.admitted_before_stop_completed")
		}
	}
	if len(res) != len(o.items) {
		q.violate("result-count", "op%d submitted %d items and received %d results", o.id, len(o.items), len(res))
		return
	}
	type okItem struct {
		idx int
		seq uint64
	}
	perChan := map[int][]okItem{}
	for i, it := range o.items {
		rs := res[i]
		succ := rs.Err == nil && rs.Result.Reason == ca.ReasonSuccess
		switch {
		case rs.Err != nil && errors.Is(rs.Err, ca.ErrChannelBusy):
			q.r.Probe("backpressure.channel_busy")
		case rs.Err != nil && errors.Is(rs.Err, context.DeadlineExceeded):
			q.r.Probe("result.deadline")
		}
		switch it.kind {
		case kInvalid:
			want := ca.ReasonInvalidRequest
			if it.from == "" {
				want = ca.ReasonAuthFail
			}
			if succ {
				q.violate("invalid-item-succeeded", "op%d item %d is malformed (%s) but was reported successful (id %d seq %d)", o.id, i, it.kind, rs.Result.MessageID, rs.Result.MessageSeq)
			} else if rs.Err == nil && rs.Result.Reason != want {
				q.violate("misaligned-result", "op%d item %d is malformed and must fail with reason %d, got reason %d", o.id, i, want, rs.Result.Reason)
			}
			continue
		case kWrongChannel:
			if succ {
				q.violate("wrong-channel-item-succeeded", "op%d item %d names another channel than the submitted target but was reported successful", o.id, i)
			} else if errors.Is(rs.Err, ca.ErrStaleRoute) {
				q.r.Probe("result.wrong_channel_rejected")
			}
			continue
		}
		ident := it.ident()
		if o.itemEnded != nil && o.itemEnded[i] {
			switch {
			case succ:
				q.r.Probe("ctx_ended_item.reported_success")
			case q.identCount[ident] == 1 && q.storedIdent(it):
				// legitimately possible when the context ended while the append was already in flight
				q.r.Probe("ctx_ended_item.reported_failed_but_stored")
			default:
				q.r.Probe("ctx_ended_item.reported_failed_not_stored")
			}
		}
		if !succ {
			if rs.Err == nil && !q.faulted[ident] {
				q.violate("misaligned-result", "op%d item %d (%s/%s) got reason %d although nothing rejected it", o.id, i, it.from, it.cno, rs.Result.Reason)
			}
			if q.identCount[ident] == 1 && q.repliedIdent[ident] && !q.faulted[ident] && o.deadline == 0 {
				q.violate("acked-append-reported-failed", "op%d item %d (%s/%s on %s): the appender acknowledged its record but the caller got %s", o.id, i, it.from, it.cno,
					q.chans[it.ch].id.ID, summarizeResults([]ca.SendBatchItemResult{rs}))
			}
			continue
		}
		q.successes++
		id, seq := rs.Result.MessageID, rs.Result.MessageSeq
		rc, ok := q.chans[it.ch].at(seq)
		if !ok || rc.id != id {
			q.violate("success-without-record", "op%d item %d (%s/%s) reported (id %d, seq %d) but the channel log has %s there", o.id, i, it.from, it.cno, id, seq, recString(rc, ok))
			continue
		}
		if rc.from != it.from || rc.cno != it.cno {
			q.violate("misaligned-result", "op%d item %d is %s/%s but its result (id %d, seq %d) is the record of %s/%s", o.id, i, it.from, it.cno, id, seq, rc.from, rc.cno)
			continue
		}
		if rc.payload != it.payload {
			cls := "misaligned-result"
			if it.cno != "" {
				cls = "reused-key-new-success"
			}
			q.violate(cls, "op%d item %d (%s/%s payload %q) was reported successful with the record stored for payload %q", o.id, i, it.from, it.cno, it.payload, rc.payload)
			continue
		}
		if it.cno != "" {
			if fr, seen := q.firstResult[it.keyID()]; seen {
				if fr != [2]uint64{id, seq} {
					q.violate("retry-result-changed", "%s/%s on %s first returned (id %d, seq %d), a retry returned (id %d, seq %d)", it.from, it.cno, q.chans[it.ch].id.ID, fr[0], fr[1], id, seq)
				} else {
					q.r.Probe("retry.same_result")
				}
			} else {
				q.firstResult[it.keyID()] = [2]uint64{id, seq}
			}
			if q.identCount[ident] > 1 {
				q.resolved++
			}
			if it.kind == kDupInBatch {
				q.r.Probe("coalesce.inbatch_duplicate_succeeded")
			}
		}
		if (it.kind == kNew || it.kind == kUnkeyed) && (it.cno == "" || q.keyCount[it.keyID()] == 1) && !q.faulted[ident] {
			perChan[it.ch] = append(perChan[it.ch], okItem{i, seq})
		}
	}
	for ch := 0; ch < q.cfg.Channels; ch++ {
		oks := perChan[ch]
		for k := 1; k < len(oks); k++ {
			if oks[k].seq <= oks[k-1].seq {
				q.violate("batch-order", "op%d on %s: item %d got seq %d, the later item %d got seq %d", o.id, q.chans[ch].id.ID, oks[k-1].idx, oks[k-1].seq, oks[k].idx, oks[k].seq)
			}
		}
		for _, b := range oks {
			for _, a := range q.eligibleDone {
				if a.ch == ch && a.step < o.start && a.seq >= b.seq {
					q.violate("realtime-order", "%s returned seq %d before op%d started, whose item %d then got seq %d on %s", a.desc, a.seq, o.id, b.idx, b.seq, q.chans[ch].id.ID)
				}
			}
		}
		for _, b := range oks {
			q.eligibleDone = append(q.eligibleDone, doneSeq{ch: ch, seq: b.seq, step: q.r.Steps, desc: fmt.Sprintf("op%d item %d", o.id, b.idx)})
			q.r.Probe("order.checked_items")
		}
	}
}

// endedByScheduler reports whether tag ("opN.i") names an item whose caller
// context the scheduler ended on purpose.
func (q *aworld) endedByScheduler(tag string) bool {
	var opID, idx int
	if n, _ := fmt.Sscanf(tag, "op%d.%d", &opID, &idx); n != 2 || opID < 1 || opID > len(q.ops) {
		return false
	}
	o := q.ops[opID-1]
	return o.itemEnded != nil && idx >= 0 && idx < len(o.itemEnded) && o.itemEnded[idx]
}

// storedIdent reports whether the channel log holds a record of exactly this logical send.
func (q *aworld) storedIdent(it item) bool {
	for _, rc := range q.chans[it.ch].log {
		if rc.from == it.from && rc.cno == it.cno && rc.payload == it.payload {
			return true
		}
	}
	return false
}

func recString(rc rec, ok bool) string {
	if !ok {
		return "no record"
	}
	return fmt.Sprintf("id %d of %s/%s", rc.id, rc.from, rc.cno)
}

// finalPhase releases everything benignly, requires every operation to reach a
// terminal result within bounded simulated time, drains the group and checks
// conservation on the post-commit ports.
func (q *aworld) finalPhase() {
	q.finale = true
	stuck := 0
	var final *stopOp
	for iter := 0; iter < 20000; iter++ {
		simkit.Wait()
		acts := q.collect()
		if q.r.Failed() || q.tainted {
			return
		}
		if len(acts) == 0 {
			if q.opsInFlight() == 0 && q.stopsInFlight() == 0 {
				if final != nil {
					break
				}
				// every caller has its results: now the group must drain completely
				final = &stopOp{id: len(q.stops) + 1, timeout: time.Hour, start: q.r.Steps}
				q.stops = append(q.stops, final)
				if q.stopBegan == 0 {
					q.stopBegan = q.r.Steps
				}
				q.r.Logf("  final stop%d", final.id)
				go func(st *stopOp) {
					err := q.g.Stop(q.life)
					st.mu.Lock()
					st.err, st.done = err, true
					st.mu.Unlock()
				}(final)
				continue
			}
			stuck++
			if stuck > 3000 {
				q.reportStuck(final != nil)
				return
			}
			time.Sleep(time.Millisecond)
			continue
		}
		stuck = 0
		sort.SliceStable(acts, func(i, j int) bool {
			if acts[i].Prio != acts[j].Prio {
				return acts[i].Prio < acts[j].Prio
			}
			return acts[i].Key < acts[j].Key
		})
		q.r.Steps++
		q.r.Logf("f%d %s", q.r.Steps, acts[0].Key)
		acts[0].Do()
		time.Sleep(50 * time.Microsecond)
	}
	simkit.Wait()
	q.drain()
	if q.r.Failed() || q.tainted {
		return
	}
	// conservation: one envelope per acknowledged fresh commit, nothing else
	for _, id := range simkit.SortedIntKeys(q.repliedOK) {
		if q.deliveryPort() && q.envSeen[id] != 1 {
			q.violate("missing-envelope", "message id %d (seq %d) was committed and acknowledged but the delivery-enqueue port saw %d envelopes after the drain", id, q.repliedOK[id], q.envSeen[id])
		}
		if q.persistPort() && q.persistSeen[id] != 1 {
			q.violate("missing-envelope", "message id %d (seq %d) was committed and acknowledged but the persist-after port saw %d envelopes after the drain", id, q.repliedOK[id], q.persistSeen[id])
		}
	}
	if len(q.repliedOK) > 0 && (q.deliveryPort() || q.persistPort()) {
		q.r.Probe("conservation.checked")
	}
	q.flushViolations()
}

func (q *aworld) reportStuck(draining bool) {
	var left []string
	for _, o := range q.ops {
		if !o.observed {
			left = append(left, fmt.Sprintf("op%d", o.id))
		}
	}
	for _, s := range q.stops {
		if !s.observed {
			left = append(left, fmt.Sprintf("stop%d", s.id))
		}
	}
	detail := fmt.Sprintf("every port call was released and 3 s of simulated time passed, still without a terminal result: %s", strings.Join(left, " "))
	switch {
	case q.opsInFlight() > 0 && q.r.Property == "C41":
		q.violate("admitted-future-not-terminal", "%s", detail)
	case q.opsInFlight() > 0:
		q.violate("result-never-delivered", "%s", detail)
	case q.r.Property == "C41":
		q.violate("drain-stuck", "%s (draining=%v)", detail, draining)
	default:
		q.r.Probe("other_property_violation:drain-stuck")
		q.tainted = true
	}
	q.flushViolations()
}
