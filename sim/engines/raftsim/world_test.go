package raftsim

import (
	"context"
	"encoding/binary"
	"errors"
	"fmt"
	"hash/fnv"
	"os"
	"path/filepath"
	"runtime"
	"runtime/debug"
	"sort"
	"strings"
	"sync"
	"sync/atomic"
	"time"

	"github.com/WuKongIM/WuKongIM/internal/verifsim/simkit"
	goroutinereg "github.com/WuKongIM/WuKongIM/pkg/goroutine"
	"github.com/WuKongIM/WuKongIM/pkg/raftlog"
	"github.com/WuKongIM/WuKongIM/pkg/slot/multiraft"
	"github.com/cockroachdb/pebble/v2"
	"github.com/cockroachdb/pebble/v2/vfs"
	raft "go.etcd.io/raft/v3"
	"go.etcd.io/raft/v3/raftpb"
)

const (
	tickInterval = 10 * time.Millisecond
	gridStep     = 100 * time.Microsecond

	decRelease = 0
	decClosed  = -1

	envelopeSize = 10 // [hashSlot:2][createdAtMS:8] in front of every proposal
)

var errCrashed = errors.New("raftsim: node incarnation is dead")

// ---- configuration ---------------------------------------------------------

type cfg struct {
	N, Slots, Ops int
	NoFaults      bool
	FLoss         bool
	FDup          bool
	FReorder      bool
	FPartition    bool
	FCrash        bool
	FStall        bool
	Gate          bool // durable operations (Save, MarkApplied, Apply) are scheduler events
	DB            bool // raftlog.DB on a crashable in-memory FS instead of raftlog.NewMemory
	CrashPct      int  // UnsyncedDataPercent of the crash clone (DB mode)
	SMBatch       bool
	SMDurable     bool
	SnapDigest    bool
	ElectionTick  int
	HeartbeatTick int
	PreVote       bool
	CheckQuorum   bool
	MaxSizePerMsg uint64
	MaxInflight   int
	Workers       int
	MaxApplying   int
	CompactOn     bool
	Trigger       uint64
	CheckInterval time.Duration
	CampaignHint  bool
	TransferW     int
	CompactW      int
	ConfChange    bool
	OwnPayloads   bool // the transport declares ReadyMessagePayloadOwner like the production transport
	Relay         bool // directed skeleton: a snapshot receiver becomes leader and serves the next laggard
	FaultBudget   int
	MaxSteps      int
}

// ---- oracle model (per slot) ----------------------------------------------

type rec struct {
	index, term uint64
	data        string
}

type ackInfo struct {
	term    uint64
	payload string
	op      int
}

// slotModel is the cross-replica reference: the first replica that applies an
// index defines its content; every other replica must agree.
type slotModel struct {
	id         multiraft.SlotID
	canon      map[uint64]rec
	maxCanon   uint64
	skipped    map[uint64][]string // index -> replicas (incarnations) that passed it without applying
	payloadIdx map[string][]uint64 // payload -> indexes where it was applied
	acked      map[uint64]ackInfo  // index -> acknowledged proposal
	dupTol     map[string]bool     // payloads whose forwarded MsgProp was duplicated by the network
	firstAck   int                 // step of the first acknowledgement
	leaderSeen map[uint64]int      // term -> node that reported Leader
	leaders    int                 // number of distinct (term, leader) observations
	transferTo int
	transferAt uint64
	// restoredLive: the replica that most recently installed a snapshot received from a leader
	restoredLive int
}

type seamFail struct {
	class, sig, detail string
	key                string
}

// ---- durable SM state -------------------------------------------------------

type smState struct {
	recs []rec
}

func (s *smState) last() uint64 {
	if len(s.recs) == 0 {
		return 0
	}
	return s.recs[len(s.recs)-1].index
}

func (s *smState) at(index uint64) (rec, bool) {
	i := sort.Search(len(s.recs), func(i int) bool { return s.recs[i].index >= index })
	if i < len(s.recs) && s.recs[i].index == index {
		return s.recs[i], true
	}
	return rec{}, false
}

func digestRecs(recs []rec) uint64 {
	h := fnv.New64a()
	var b [16]byte
	for _, r := range recs {
		binary.BigEndian.PutUint64(b[:8], r.index)
		binary.BigEndian.PutUint64(b[8:], r.term)
		h.Write(b[:])
		h.Write([]byte(r.data))
		h.Write([]byte{0})
	}
	return h.Sum64()
}

const snapMagic = "RSNP"

// The snapshot names its producer (node, incarnation) so that the storage gate
// can tell a local compaction snapshot from one received from a leader.
func encodeSMSnapshot(recs []rec, digestOnly bool, node int, inc int64) []byte {
	out := make([]byte, 0, 40+len(recs)*32)
	out = append(out, snapMagic...)
	if digestOnly {
		out = append(out, 1)
	} else {
		out = append(out, 0)
	}
	out = binary.BigEndian.AppendUint32(out, uint32(node))
	out = binary.BigEndian.AppendUint32(out, uint32(inc))
	var last uint64
	if len(recs) > 0 {
		last = recs[len(recs)-1].index
	}
	out = binary.BigEndian.AppendUint64(out, last)
	out = binary.BigEndian.AppendUint64(out, uint64(len(recs)))
	out = binary.BigEndian.AppendUint64(out, digestRecs(recs))
	if !digestOnly {
		for _, r := range recs {
			out = binary.BigEndian.AppendUint64(out, r.index)
			out = binary.BigEndian.AppendUint64(out, r.term)
			out = binary.BigEndian.AppendUint32(out, uint32(len(r.data)))
			out = append(out, r.data...)
		}
	}
	return out
}

type smSnapshot struct {
	digestOnly bool
	node       int
	inc        int64
	last       uint64
	count      uint64
	digest     uint64
	recs       []rec
}

func decodeSMSnapshot(b []byte) (smSnapshot, error) {
	var s smSnapshot
	if len(b) < 4+1+8+24 || string(b[:4]) != snapMagic {
		return s, fmt.Errorf("bad SM snapshot header (len %d)", len(b))
	}
	s.digestOnly = b[4] == 1
	s.node = int(binary.BigEndian.Uint32(b[5:9]))
	s.inc = int64(binary.BigEndian.Uint32(b[9:13]))
	b = b[8:]
	s.last = binary.BigEndian.Uint64(b[5:13])
	s.count = binary.BigEndian.Uint64(b[13:21])
	s.digest = binary.BigEndian.Uint64(b[21:29])
	p := b[29:]
	if !s.digestOnly {
		for uint64(len(s.recs)) < s.count {
			if len(p) < 20 {
				return s, fmt.Errorf("truncated SM snapshot body")
			}
			r := rec{index: binary.BigEndian.Uint64(p[:8]), term: binary.BigEndian.Uint64(p[8:16])}
			n := int(binary.BigEndian.Uint32(p[16:20]))
			p = p[20:]
			if len(p) < n {
				return s, fmt.Errorf("truncated SM snapshot record")
			}
			r.data = string(p[:n])
			p = p[n:]
			s.recs = append(s.recs, r)
		}
	}
	return s, nil
}

// stripSlotEnvelope removes multiraft's "WKSLOTSN" envelope from persisted
// snapshot bytes (the state machine only ever sees the inner payload).
func stripSlotEnvelope(b []byte) []byte {
	const magic = "WKSLOTSN"
	if len(b) >= len(magic)+9 && string(b[:len(magic)]) == magic {
		return b[len(magic)+9:]
	}
	return b
}

// ---- nodes and replicas -------------------------------------------------------

type node struct {
	id     int
	up     atomic.Bool
	inc    atomic.Int64
	rt     *multiraft.Runtime
	ctx    context.Context
	cancel context.CancelFunc
	reps   map[multiraft.SlotID]*replica

	stallMu sync.Mutex
	stall   chan struct{}

	fs      *vfs.MemFS
	db      *raftlog.DB
	dbPath  string
	snapDir string
}

func (n *node) stalled() bool {
	n.stallMu.Lock()
	defer n.stallMu.Unlock()
	return n.stall != nil
}

func (n *node) setStall(on bool) {
	n.stallMu.Lock()
	defer n.stallMu.Unlock()
	if on && n.stall == nil {
		n.stall = make(chan struct{})
	} else if !on && n.stall != nil {
		close(n.stall)
		n.stall = nil
	}
}

func (n *node) stallChan() chan struct{} {
	n.stallMu.Lock()
	defer n.stallMu.Unlock()
	return n.stall
}

type replica struct {
	node *node
	slot multiraft.SlotID
	mem  multiraft.Storage // memory mode: the object itself is the disk
	sm   *smState
	gate *gateStore
	core *smCore
	// stored: index -> payloads this replica ever wrote to its raft log there
	stored map[uint64][]string
	// verified: the state machine content was compared with the reference up to this applied index
	verified uint64
}

func (rp *replica) name() string { return fmt.Sprintf("n%d/s%d", rp.node.id, rp.slot) }

// ---- world ----------------------------------------------------------------------

type parkInfo struct {
	node int
	slot multiraft.SlotID
	at   time.Duration
}

type netMsg struct {
	seq      int
	sent     time.Duration
	from, to int
	slot     multiraft.SlotID
	msg      raftpb.Message
	key      string
	dupd     bool
}

type propOp struct {
	id      int
	node    int
	inc     int64
	slot    multiraft.SlotID
	payload string // body without the envelope
	step    int
	res     multiraft.Result
	err     error
	final   bool
}

type compactDone struct {
	id   int
	node int
	slot multiraft.SlotID
	res  multiraft.LogCompactionResult
	err  error
}

type world struct {
	r     *simkit.Run
	sw    *simkit.World
	cfg   cfg
	salt  uint64
	start time.Time
	nodes []*node // index 0 unused
	slots []*slotModel

	mu        sync.Mutex
	inflight  []*netMsg
	msgSeq    int
	cut       map[[2]int]bool
	events    []string
	fails     []seamFail
	propDone  []*propOp
	compDone  []compactDone
	panics    []string
	probes    map[string]int
	faultsCnt map[string]int

	// scheduler-only state
	opsLeft     int
	rejects     int
	nextOp      int
	outstanding map[int]*propOp
	acks        int
	faultBudget int
	phaseFinal  bool
	tmpRoot     string
	lastAckStep int
	lastProposeStep int
	finalAcked      map[multiraft.SlotID]bool
	finalPending    map[multiraft.SlotID]bool
	transfers   int
	compacts    int
	confChanges int
	confDone    []confDone // guarded by mu
	relay       relayPlan
	liveRestore int

	leaderChangeAfterAck bool
}

func (w *world) now() time.Duration { return time.Since(w.start) }

func (w *world) model(slot multiraft.SlotID) *slotModel { return w.slots[int(slot)-1] }

// seam-side helpers (callers hold w.mu)
func (w *world) eventLocked(format string, args ...any) {
	w.events = append(w.events, fmt.Sprintf(format, args...))
}

func (w *world) failLocked(class, sig, key, format string, args ...any) {
	w.fails = append(w.fails, seamFail{class: class, sig: sig, key: key, detail: fmt.Sprintf(format, args...)})
}

func (w *world) probeLocked(name string) { w.probes[name]++ }

func splitmix64(x uint64) uint64 {
	x += 0x9e3779b97f4a7c15
	z := x
	z = (z ^ (z >> 30)) * 0xbf58476d1ce4e5b9
	z = (z ^ (z >> 27)) * 0x94d049bb133111eb
	return z ^ (z >> 31)
}

// randIntn replaces etcd raft's crypto/rand election jitter. It is a pure
// function of (per-run salt, fake clock): raft calls it on node goroutines, so
// it must not touch the tape and must not depend on call order across nodes.
// Node tickers run at distinct phases of the fake clock, so different nodes see
// different instants.
func (w *world) randIntn(n int) int {
	if n <= 1 {
		return 0
	}
	t := uint64(time.Since(w.start))
	return int(splitmix64(w.salt^splitmix64(t)) % uint64(n))
}

// ---- transport ----------------------------------------------------------------------

type simTransport struct {
	w   *world
	n   *node
	inc int64
}

func msgTypeShort(t raftpb.MessageType) string {
	return strings.TrimPrefix(t.String(), "Msg")
}

func entriesSummary(es []raftpb.Entry) string {
	if len(es) == 0 {
		return "-"
	}
	h := fnv.New32a()
	for _, e := range es {
		var b [17]byte
		binary.BigEndian.PutUint64(b[:8], e.Index)
		binary.BigEndian.PutUint64(b[8:16], e.Term)
		b[16] = byte(e.Type)
		h.Write(b[:])
		h.Write(e.Data)
	}
	return fmt.Sprintf("%d..%d@%d#%08x", es[0].Index, es[len(es)-1].Index, es[len(es)-1].Term, h.Sum32())
}

func msgKey(from, to int, slot multiraft.SlotID, m raftpb.Message) string {
	var b strings.Builder
	fmt.Fprintf(&b, "n%d>n%d s%d %s t%d", from, to, slot, msgTypeShort(m.Type), m.Term)
	switch m.Type {
	case raftpb.MsgApp:
		fmt.Fprintf(&b, " prev%d/%d c%d e[%s]", m.Index, m.LogTerm, m.Commit, entriesSummary(m.Entries))
	case raftpb.MsgAppResp:
		fmt.Fprintf(&b, " i%d rej%v hint%d/%d", m.Index, m.Reject, m.RejectHint, m.LogTerm)
	case raftpb.MsgVote, raftpb.MsgPreVote:
		fmt.Fprintf(&b, " last%d/%d ctx%d", m.Index, m.LogTerm, len(m.Context))
	case raftpb.MsgVoteResp, raftpb.MsgPreVoteResp:
		fmt.Fprintf(&b, " rej%v", m.Reject)
	case raftpb.MsgHeartbeat:
		fmt.Fprintf(&b, " c%d", m.Commit)
	case raftpb.MsgHeartbeatResp:
	case raftpb.MsgSnap:
		if m.Snapshot != nil {
			fmt.Fprintf(&b, " snap%d/%d len%d", m.Snapshot.Metadata.Index, m.Snapshot.Metadata.Term, len(m.Snapshot.Data))
		}
	case raftpb.MsgProp:
		fmt.Fprintf(&b, " e[%s]", entriesSummary(m.Entries))
	default:
		fmt.Fprintf(&b, " i%d lt%d c%d rej%v", m.Index, m.LogTerm, m.Commit, m.Reject)
	}
	return b.String()
}

// OwnsReadyMessagePayloads: like the production transport
// (pkg/cluster networkSlotTransport) the simulated one encodes every message
// before Send returns, so multiraft may skip cloning payload bytes. Drawn per run.
func (t *simTransport) OwnsReadyMessagePayloads() bool { return t.w.cfg.OwnPayloads }

// Send never blocks the network: every envelope is copied through the real
// protobuf codec and parked as an in-flight message that only the scheduler can
// deliver, drop, duplicate or reorder. multiraft calls Send from the slot worker
// without holding the slot mutex (slot.processReady), so a stalled node may be
// held here.
func (t *simTransport) Send(ctx context.Context, batch []multiraft.Envelope) error {
	w := t.w
	if !t.n.up.Load() || t.n.inc.Load() != t.inc {
		return errCrashed
	}
	now := w.now()
	w.mu.Lock()
	for _, env := range batch {
		// (the message is produced by the code under test: a codec failure is an
		// observation about it, not harness trouble)
		raw, err := env.Message.Marshal()
		if err != nil {
			w.failLocked("wire-codec-failure", "marshal", "marshal", "n%d/s%d: outgoing raft message %s does not marshal: %v", t.n.id, env.SlotID, env.Message.Type, err)
			continue
		}
		var m raftpb.Message
		if err := m.Unmarshal(raw); err != nil {
			w.failLocked("wire-codec-failure", "unmarshal", "unmarshal", "n%d/s%d: outgoing raft message %s does not survive the protobuf codec: %v", t.n.id, env.SlotID, env.Message.Type, err)
			continue
		}
		to := int(m.To)
		switch m.Type {
		case raftpb.MsgSnap:
			w.probeLocked("raft.snapshot_sent")
			if m.Snapshot != nil {
				// what the code under test puts on the wire is an observation: it must be
				// the state machine state at the snapshot index
				who := fmt.Sprintf("n%d/s%d", t.n.id, env.SlotID)
				if s, _, ok := w.checkSnapshotPayloadLocked("wire", who, env.SlotID, m.Snapshot.Metadata.Index, stripSlotEnvelope(m.Snapshot.Data)); ok && s.node != t.n.id {
					w.probeLocked("raft.snapshot_relayed_by_non_producer")
				}
			}
		case raftpb.MsgProp:
			w.probeLocked("raft.proposal_forwarded")
		case raftpb.MsgTimeoutNow:
			w.probeLocked("raft.timeout_now_sent")
		}
		if to < 1 || to >= len(w.nodes) {
			continue
		}
		if w.cut[[2]int{t.n.id, to}] {
			w.faultsCnt["partition_drop"]++
			continue
		}
		if !w.nodes[to].up.Load() {
			if w.nodes[to].inc.Load() == 0 {
				w.probeLocked("net.peer_not_started_yet")
			} else {
				w.faultsCnt["peer_down_drop"]++
			}
			continue
		}
		w.msgSeq++
		w.inflight = append(w.inflight, &netMsg{seq: w.msgSeq, sent: now, from: t.n.id, to: to, slot: env.SlotID, msg: m,
			key: msgKey(t.n.id, to, env.SlotID, m)})
	}
	w.mu.Unlock()
	if ch := t.n.stallChan(); ch != nil {
		<-ch
	}
	return nil
}

// ---- storage gate ------------------------------------------------------------------

// gateStore is the Storage handed to one replica incarnation. It refuses every
// call once the incarnation is dead (so that the shutdown of a crashed node
// cannot reach the surviving disk), serialises mutating calls per scope on a
// channel (a durably blocking lock: the repo's per-scope sync.Mutex is then
// never contended inside the bubble) and, in gate mode, turns every durable
// operation into a scheduler event.
type gateStore struct {
	w     *world
	rep   *replica
	inc   int64
	inner multiraft.Storage
	lock  chan struct{}
}

func (g *gateStore) alive() bool {
	return g.rep.node.up.Load() && g.rep.node.inc.Load() == g.inc
}

func (g *gateStore) park(key string) bool {
	if !g.alive() {
		return false
	}
	if g.w.cfg.Gate {
		d := g.w.sw.Park(key, parkInfo{node: g.rep.node.id, slot: g.rep.slot, at: g.w.now()})
		if d == decClosed {
			return false
		}
	}
	return g.alive()
}

func (g *gateStore) InitialState(ctx context.Context) (multiraft.BootstrapState, error) {
	return g.inner.InitialState(ctx)
}
func (g *gateStore) Entries(ctx context.Context, lo, hi, maxSize uint64) ([]raftpb.Entry, error) {
	return g.inner.Entries(ctx, lo, hi, maxSize)
}
func (g *gateStore) Term(ctx context.Context, index uint64) (uint64, error) {
	return g.inner.Term(ctx, index)
}
func (g *gateStore) FirstIndex(ctx context.Context) (uint64, error) { return g.inner.FirstIndex(ctx) }
func (g *gateStore) LastIndex(ctx context.Context) (uint64, error)  { return g.inner.LastIndex(ctx) }
func (g *gateStore) Snapshot(ctx context.Context) (raftpb.Snapshot, error) {
	return g.inner.Snapshot(ctx)
}

func saveKey(rp *replica, st multiraft.PersistentState) string {
	var b strings.Builder
	fmt.Fprintf(&b, "SAVE %s", rp.name())
	if st.HardState != nil {
		fmt.Fprintf(&b, " hs(t%d v%d c%d)", st.HardState.Term, st.HardState.Vote, st.HardState.Commit)
	}
	if len(st.Entries) > 0 {
		fmt.Fprintf(&b, " e[%s]", entriesSummary(st.Entries))
	}
	if st.Snapshot != nil {
		fmt.Fprintf(&b, " snap%d/%d", st.Snapshot.Metadata.Index, st.Snapshot.Metadata.Term)
	}
	return b.String()
}

func (g *gateStore) Save(ctx context.Context, st multiraft.PersistentState) error {
	if !g.park(saveKey(g.rep, st)) {
		return errCrashed
	}
	g.lock <- struct{}{}
	defer func() { <-g.lock }()
	if !g.alive() {
		return errCrashed
	}
	if st.Snapshot != nil {
		g.checkSnapshotSave(ctx, st)
	}
	if len(st.Entries) > 0 {
		// remember which commands this replica ever stored at which index (used only
		// to describe a wrong acknowledgement: was the proposer's own entry replaced?)
		g.w.mu.Lock()
		for _, e := range st.Entries {
			if e.Type == raftpb.EntryNormal && len(e.Data) > envelopeSize {
				g.rep.stored[e.Index] = append(g.rep.stored[e.Index], string(e.Data[envelopeSize:]))
			}
		}
		g.w.mu.Unlock()
	}
	return g.inner.Save(ctx, st)
}

// checkSnapshotSave inspects a snapshot on its way to disk. A snapshot produced
// by local compaction must describe exactly the state after the snapshot index:
// no state-machine-visible entry may lie between the last command the state
// machine holds and the index the log is compacted to.
func (g *gateStore) checkSnapshotSave(ctx context.Context, st multiraft.PersistentState) {
	w := g.w
	idx := st.Snapshot.Metadata.Index
	payload := stripSlotEnvelope(st.Snapshot.Data)
	snap, err := decodeSMSnapshot(payload)
	w.mu.Lock()
	defer w.mu.Unlock()
	if err != nil || snap.node != g.rep.node.id || snap.inc != g.inc {
		// not produced by this incarnation's state machine: a snapshot received from a
		// leader on its way to this replica's disk. Whatever the code under test
		// stores must be the state at the snapshot index.
		w.checkSnapshotPayloadLocked("stored", g.rep.name(), g.rep.slot, idx, payload)
		return
	}
	w.probeLocked("compaction.ran")
	w.eventLocked("COMPACT %s at %d smlast %d", g.rep.name(), idx, snap.last)
	if snap.last > idx {
		w.failLocked("snapshot-ahead-of-index", "", g.rep.name(), "%s: compaction snapshot at raft index %d contains state-machine commands up to %d", g.rep.name(), idx, snap.last)
		return
	}
	defer w.checkSnapshotPayloadLocked("stored", g.rep.name(), g.rep.slot, idx, payload)
	if snap.last < idx {
		ents, err := g.inner.Entries(ctx, snap.last+1, idx+1, 0)
		if err == nil {
			for _, e := range ents {
				if e.Type == raftpb.EntryNormal && len(e.Data) > 0 && e.Index > snap.last && e.Index <= idx {
					w.failLocked("compaction-past-applied", "", g.rep.name(),
						"%s: log compacted through index %d but the snapshot holds the state machine only up to %d; entry %d (term %d) is a command that was not applied",
						g.rep.name(), idx, snap.last, e.Index, e.Term)
					return
				}
			}
		}
	}
}

func (g *gateStore) MarkApplied(ctx context.Context, index uint64) error {
	if !g.park(fmt.Sprintf("MARK %s %d", g.rep.name(), index)) {
		return errCrashed
	}
	g.lock <- struct{}{}
	defer func() { <-g.lock }()
	if !g.alive() {
		return errCrashed
	}
	return g.inner.MarkApplied(ctx, index)
}

func (g *gateStore) MarkConfigApplied(ctx context.Context, index uint64) error {
	if !g.alive() {
		return errCrashed
	}
	g.lock <- struct{}{}
	defer func() { <-g.lock }()
	if !g.alive() {
		return errCrashed
	}
	if s, ok := g.inner.(multiraft.ConfigAppliedIndexStorage); ok {
		return s.MarkConfigApplied(ctx, index)
	}
	return nil
}

// ---- recording state machine ---------------------------------------------------------

// smCore is the state machine of one replica incarnation over the replica's
// durable smState. All oracle checks that concern one replica live here.
type smCore struct {
	w       *world
	rep     *replica
	gate    *gateStore
	inc     int64
	durable bool
	cursor  uint64 // highest index handled (applied, restored or skipped over) in this incarnation
	floor   uint64 // durable applied index of the raft storage when the incarnation opened
	opening bool
}

func (c *smCore) alive() bool {
	return c.rep.node.up.Load() && c.rep.node.inc.Load() == c.inc
}

func (c *smCore) who() string { return fmt.Sprintf("%s#%d", c.rep.name(), c.inc) }

// visibleInLog reports whether this replica's own raft log holds a
// state-machine-visible command at index (unknown when compacted away).
func (c *smCore) visibleInLog(index uint64) (bool, uint64) {
	ents, err := c.gate.inner.Entries(context.Background(), index, index+1, 0)
	if err != nil {
		return false, 0
	}
	for _, e := range ents {
		if e.Index == index && e.Type == raftpb.EntryNormal && len(e.Data) > 0 {
			return true, e.Term
		}
	}
	return false, 0
}

// skipOverLocked records that this incarnation moved from index `from` to `to`
// without applying the indexes in between.
func (c *smCore) skipOverLocked(m *slotModel, from, to uint64) bool {
	for j := from + 1; j < to; j++ {
		if cr, ok := m.canon[j]; ok {
			c.w.failLocked("skipped-entry", "", c.who(), "%s: applied index jumps from %d to %d but index %d is a command (term %d %q) applied by another replica",
				c.who(), from, to, j, cr.term, cr.data)
			return false
		}
		if vis, term := c.visibleInLog(j); vis {
			c.w.failLocked("skipped-entry", "own-log", c.who(), "%s: applied index jumps from %d to %d but its own log holds a command at index %d (term %d)",
				c.who(), from, to, j, term)
			return false
		}
		m.skipped[j] = append(m.skipped[j], c.who())
	}
	return true
}

func (c *smCore) applyLocked(cmd multiraft.Command) ([]byte, error) {
	w := c.w
	if !c.alive() {
		return nil, errCrashed
	}
	m := w.model(c.rep.slot)
	st := c.rep.sm
	body := string(cmd.Data)
	r := rec{index: cmd.Index, term: cmd.Term, data: body}
	w.eventLocked("APPLY %s i%d t%d %s", c.who(), cmd.Index, cmd.Term, body)
	if cmd.SlotID != c.rep.slot {
		w.failLocked("wrong-slot", "", c.who(), "%s: command for slot %d delivered to the state machine of slot %d", c.who(), cmd.SlotID, c.rep.slot)
	}
	if cmd.Index <= c.cursor {
		w.failLocked("reapplied-entry", "same-incarnation", c.who(), "%s: index %d applied after index %d in the same incarnation", c.who(), cmd.Index, c.cursor)
		return []byte("ok:" + body), nil
	}
	smLast := st.last()
	if cmd.Index <= smLast {
		// the durable state machine already holds this index: re-apply after a restart
		prev, had := st.at(cmd.Index)
		switch {
		case c.durable:
			w.failLocked("reapplied-entry", "across-restart", c.who(), "%s: index %d re-applied after restart although the state machine durably holds index %d (DurableAppliedIndex)", c.who(), cmd.Index, smLast)
		case cmd.Index <= c.floor:
			w.failLocked("reapplied-entry", "below-marked", c.who(), "%s: index %d re-applied after restart although MarkApplied(%d) was durable", c.who(), cmd.Index, c.floor)
		case !had:
			w.failLocked("skipped-entry", "earlier-incarnation", c.who(), "%s: index %d is applied now but an earlier incarnation moved past it to %d without applying it", c.who(), cmd.Index, smLast)
		case prev.term != cmd.Term || prev.data != body:
			w.failLocked("replica-divergence", "reapply", c.who(), "%s: index %d re-applied with (term %d %q), earlier (term %d %q)", c.who(), cmd.Index, cmd.Term, body, prev.term, prev.data)
		default:
			w.probeLocked("apply.reapply_in_unmarked_window")
		}
		c.cursor = cmd.Index
		c.checkCanonLocked(m, r)
		return []byte("ok:" + body), nil
	}
	from := smLast
	if c.cursor > from {
		from = c.cursor
	}
	if !c.skipOverLocked(m, from, cmd.Index) {
		return []byte("ok:" + body), nil
	}
	c.checkCanonLocked(m, r)
	st.recs = append(st.recs, r)
	c.cursor = cmd.Index
	return []byte("ok:" + body), nil
}

// checkCanonLocked compares one applied command with the cross-replica model.
func (c *smCore) checkCanonLocked(m *slotModel, r rec) {
	w := c.w
	if len(m.skipped[r.index]) > 0 {
		w.failLocked("skipped-entry", "late", c.who(), "%s applies a command at index %d (term %d %q) that %v moved past without applying",
			c.who(), r.index, r.term, r.data, m.skipped[r.index])
		return
	}
	if cr, ok := m.canon[r.index]; ok {
		if cr.term != r.term || cr.data != r.data {
			w.failLocked("replica-divergence", "", c.who(), "slot %d index %d: %s applies (term %d %q) but another replica applied (term %d %q)",
				m.id, r.index, c.who(), r.term, r.data, cr.term, cr.data)
		}
		return
	}
	m.canon[r.index] = r
	if r.index > m.maxCanon {
		m.maxCanon = r.index
	}
	if a, ok := m.acked[r.index]; ok && (a.term != r.term || a.payload != r.data) {
		w.failLocked("ack-not-at-index", "late", c.who(), "slot %d index %d: proposal %q was acknowledged at (index %d, term %d) but the command applied there is (term %d %q)",
			m.id, r.index, a.payload, r.index, a.term, r.term, r.data)
	}
	m.payloadIdx[r.data] = append(m.payloadIdx[r.data], r.index)
	if len(m.payloadIdx[r.data]) > 1 && !m.dupTol[r.data] {
		w.failLocked("duplicate-apply", "", c.who(), "slot %d: payload %q applied at indexes %v although it was proposed once and no forwarded proposal was duplicated",
			m.id, r.data, m.payloadIdx[r.data])
	}
}

func (c *smCore) apply(cmd multiraft.Command) ([]byte, error) {
	if !c.alive() {
		return nil, errCrashed
	}
	if c.w.cfg.Gate {
		if !c.gate.park(fmt.Sprintf("APPLY %s %d", c.rep.name(), cmd.Index)) {
			return nil, errCrashed
		}
	}
	c.w.mu.Lock()
	defer c.w.mu.Unlock()
	return c.applyLocked(cmd)
}

func (c *smCore) applyBatch(cmds []multiraft.Command) ([][]byte, error) {
	if !c.alive() {
		return nil, errCrashed
	}
	if len(cmds) == 0 {
		return nil, nil
	}
	if c.w.cfg.Gate {
		if !c.gate.park(fmt.Sprintf("APPLYB %s %d..%d", c.rep.name(), cmds[0].Index, cmds[len(cmds)-1].Index)) {
			return nil, errCrashed
		}
	}
	c.w.mu.Lock()
	defer c.w.mu.Unlock()
	if len(cmds) > 1 {
		c.w.probeLocked("apply.batch>1")
	}
	out := make([][]byte, len(cmds))
	for i, cmd := range cmds {
		res, err := c.applyLocked(cmd)
		if err != nil {
			return nil, err
		}
		out[i] = res
	}
	return out, nil
}

func (c *smCore) snapshot() (multiraft.Snapshot, error) {
	if !c.alive() {
		return multiraft.Snapshot{}, errCrashed
	}
	c.w.mu.Lock()
	defer c.w.mu.Unlock()
	st := c.rep.sm
	return multiraft.Snapshot{Index: st.last(), Data: encodeSMSnapshot(st.recs, c.w.cfg.SnapDigest, c.rep.node.id, c.inc)}, nil
}

func (c *smCore) restore(snap multiraft.Snapshot) error {
	if !c.alive() {
		return errCrashed
	}
	w := c.w
	w.mu.Lock()
	defer w.mu.Unlock()
	m := w.model(c.rep.slot)
	s, got, ok := w.checkSnapshotPayloadLocked("restore", c.who(), c.rep.slot, snap.Index, snap.Data)
	w.eventLocked("RESTORE %s idx%d t%d smlast%d count%d opening=%v ok=%v", c.who(), snap.Index, snap.Term, s.last, s.count, c.opening, ok)
	if !c.opening {
		w.probeLocked("snapshot.restored_live")
		w.liveRestore++
		m.restoredLive = c.rep.node.id
		if snap.Index <= c.cursor {
			w.failLocked("reapplied-entry", "snapshot-regress", c.who(), "%s: snapshot at index %d restored after index %d was applied in the same incarnation", c.who(), snap.Index, c.cursor)
		}
	} else {
		w.probeLocked("snapshot.restored_on_open")
	}
	if !ok {
		return nil // the violation is recorded; the run ends at the next quiescent state
	}
	c.rep.sm.recs = append([]rec(nil), got...)
	// indexes between the last command in the snapshot and the snapshot index were passed without applying
	for j := s.last + 1; j <= snap.Index; j++ {
		if _, ok := m.canon[j]; !ok {
			m.skipped[j] = append(m.skipped[j], c.who())
		}
	}
	if snap.Index > c.cursor {
		c.cursor = snap.Index
	}
	return nil
}

// checkSnapshotPayloadLocked judges a state-machine snapshot payload at one of
// the places where the code under test produced, stored or forwarded it
// (where = "stored": Storage.Save, "wire": MsgSnap handed to the transport,
// "restore": StateMachine.Restore input). A snapshot at raft index i must be
// exactly the reference state at i: the commands applied at or below i, in
// order. A payload that does not decode, or decodes to another state, is a
// property violation (a replica installing it reaches index i without the
// commands below it). It returns the decoded header, the records to install and
// whether the payload was right.
func (w *world) checkSnapshotPayloadLocked(where, who string, slot multiraft.SlotID, index uint64, payload []byte) (smSnapshot, []rec, bool) {
	m := w.model(slot)
	s, err := decodeSMSnapshot(payload)
	if err != nil {
		w.failLocked("snapshot-content-wrong", where, who, "%s: %s snapshot of slot %d at raft index %d does not decode (%d bytes): %v; %d commands were applied at or below that index",
			who, where, slot, index, len(payload), err, countAtOrBelow(m.canon, index))
		return s, nil, false
	}
	if s.last > index {
		w.failLocked("snapshot-ahead-of-index", where, who, "%s: %s snapshot at raft index %d holds commands up to %d", who, where, index, s.last)
		return s, nil, false
	}
	var want []rec
	for _, i := range sortedIdx(m.canon) {
		if i <= index {
			want = append(want, m.canon[i])
		}
	}
	if s.digestOnly {
		if uint64(len(want)) != s.count || digestRecs(want) != s.digest {
			w.failLocked("snapshot-content-wrong", where, who, "%s: %s snapshot at raft index %d has count %d digest %x; the commands applied at or below that index are count %d digest %x",
				who, where, index, s.count, s.digest, len(want), digestRecs(want))
			return s, nil, false
		}
		return s, want, true
	}
	got := s.recs
	if digestRecs(got) != s.digest || uint64(len(got)) != s.count {
		w.failLocked("snapshot-content-wrong", where, who, "%s: %s snapshot at raft index %d fails its own digest (count %d, %d records)", who, where, index, s.count, len(got))
		return s, nil, false
	}
	if len(got) != len(want) || digestRecs(got) != digestRecs(want) {
		w.failLocked("snapshot-content-wrong", where, who, "%s: %s snapshot at raft index %d holds %d commands (last %d); %d commands were applied at or below that index: %s",
			who, where, index, len(got), s.last, len(want), firstRecDiff(got, want))
		return s, nil, false
	}
	return s, got, true
}

func countAtOrBelow(m map[uint64]rec, index uint64) int {
	n := 0
	for i := range m {
		if i <= index {
			n++
		}
	}
	return n
}

func firstRecDiff(got, want []rec) string {
	for i := 0; i < len(got) || i < len(want); i++ {
		switch {
		case i >= len(got):
			return fmt.Sprintf("snapshot lacks index %d (term %d %q)", want[i].index, want[i].term, want[i].data)
		case i >= len(want):
			return fmt.Sprintf("snapshot has extra index %d (term %d %q)", got[i].index, got[i].term, got[i].data)
		case got[i] != want[i]:
			return fmt.Sprintf("snapshot has (index %d term %d %q), applied was (index %d term %d %q)", got[i].index, got[i].term, got[i].data, want[i].index, want[i].term, want[i].data)
		}
	}
	return "same"
}

func sortedIdx(m map[uint64]rec) []uint64 {
	out := make([]uint64, 0, len(m))
	for k := range m {
		out = append(out, k)
	}
	sort.Slice(out, func(i, j int) bool { return out[i] < out[j] })
	return out
}

func (c *smCore) durableApplied() (uint64, error) {
	if !c.alive() {
		return 0, errCrashed
	}
	c.w.mu.Lock()
	defer c.w.mu.Unlock()
	return c.rep.sm.last(), nil
}

// Four static types because multiraft selects behaviour by interface assertion.
type smPlain struct{ c *smCore }

func (s smPlain) Apply(ctx context.Context, cmd multiraft.Command) ([]byte, error) {
	return s.c.apply(cmd)
}
func (s smPlain) Restore(ctx context.Context, snap multiraft.Snapshot) error { return s.c.restore(snap) }
func (s smPlain) Snapshot(ctx context.Context) (multiraft.Snapshot, error)   { return s.c.snapshot() }

type smBatch struct{ smPlain }

func (s smBatch) ApplyBatch(ctx context.Context, cmds []multiraft.Command) ([][]byte, error) {
	return s.c.applyBatch(cmds)
}

type smDurable struct{ smPlain }

func (s smDurable) DurableAppliedIndex(ctx context.Context) (uint64, error) {
	return s.c.durableApplied()
}

type smBatchDurable struct{ smBatch }

func (s smBatchDurable) DurableAppliedIndex(ctx context.Context) (uint64, error) {
	return s.c.durableApplied()
}

var (
	_ multiraft.StateMachine               = smPlain{}
	_ multiraft.BatchStateMachine          = smBatch{}
	_ multiraft.DurableAppliedStateMachine = smDurable{}
	_ multiraft.BatchStateMachine          = smBatchDurable{}
	_ multiraft.DurableAppliedStateMachine = smBatchDurable{}
)

func (c *smCore) stateMachine(batch, durable bool) multiraft.StateMachine {
	p := smPlain{c: c}
	switch {
	case batch && durable:
		return smBatchDurable{smBatch{p}}
	case batch:
		return smBatch{p}
	case durable:
		return smDurable{p}
	}
	return p
}

// ---- node lifecycle -------------------------------------------------------------------

type quietLogger struct{}

func (quietLogger) Infof(string, ...interface{})  {}
func (quietLogger) Errorf(string, ...interface{}) {}
func (quietLogger) Fatalf(format string, args ...interface{}) {
	panic(fmt.Sprintf("pebble fatal: "+format, args...))
}

func (w *world) onPanic(n *node, inc int64, ev goroutinereg.PanicEvent) {
	msg := fmt.Sprintf("task %s: %v", ev.Task, ev.Recovered)
	st := strings.Split(string(debug.Stack()), "\n")
	if len(st) > 60 {
		st = st[:60]
	}
	w.mu.Lock()
	if !n.up.Load() || n.inc.Load() != inc {
		// The incarnation is already dead: its storage refuses every call, and
		// multiraft answers a failed Save by asking raft for the next Ready without
		// Advance ("two accepted Ready structs"), which panics. A dead process
		// cannot violate anything; only counted.
		w.probes["panic.in_dead_incarnation"]++
	} else {
		w.panics = append(w.panics, msg+"\n"+strings.Join(st, "\n"))
	}
	w.mu.Unlock()
	// The registry would re-panic and kill the whole worker process; end only
	// this goroutine instead (its deferred clean-up has already run) and let the
	// scheduler report the panic as a violation.
	runtime.Goexit()
}

func (w *world) raftOptions() multiraft.RaftOptions {
	c := w.cfg
	return multiraft.RaftOptions{
		ElectionTick: c.ElectionTick, HeartbeatTick: c.HeartbeatTick, PreVote: c.PreVote, CheckQuorum: c.CheckQuorum,
		MaxSizePerMsg: c.MaxSizePerMsg, MaxInflight: c.MaxInflight, MaxApplyingTasks: c.MaxApplying,
		LogCompaction: multiraft.LogCompactionConfig{Enabled: c.CompactOn, EnabledSet: true, TriggerEntries: c.Trigger, CheckInterval: c.CheckInterval},
	}
}

func (w *world) openDB(n *node) error {
	fs := n.fs
	raftlog.VerifPebbleHook = func(o *pebble.Options) {
		o.FS = fs
		o.Logger = quietLogger{}
		o.MemTableSize = 256 << 10
		o.DisableAutomaticCompactions = false
	}
	defer func() { raftlog.VerifPebbleHook = nil }()
	db, err := raftlog.Open(n.dbPath, raftlog.Options{SnapshotPath: n.snapDir, WriteBatchMaxItems: 1, SnapshotGCGrace: time.Hour})
	if err != nil {
		return err
	}
	n.db = db
	return nil
}

// startNode creates a new incarnation of node n over its durable state. The
// runtime is created at a node-specific phase of the fake clock so that the
// tickers of different nodes never fire at the same instant.
func (w *world) startNode(n *node, first bool) error {
	off := time.Duration(7*n.id+3) * time.Microsecond
	time.Sleep(off)
	defer time.Sleep(gridStep - off)
	n.inc.Add(1)
	n.up.Store(true)
	n.setStall(false)
	n.ctx, n.cancel = context.WithCancel(context.Background())
	if w.cfg.DB {
		if err := w.openDB(n); err != nil {
			return fmt.Errorf("open raft log db of n%d: %w", n.id, err)
		}
	}
	myInc := n.inc.Load()
	reg := goroutinereg.New(goroutinereg.WithPanicObserver(func(ev goroutinereg.PanicEvent) { w.onPanic(n, myInc, ev) }))
	rt, err := multiraft.New(multiraft.Options{NodeID: multiraft.NodeID(n.id), TickInterval: tickInterval, Workers: w.cfg.Workers,
		Transport: &simTransport{w: w, n: n, inc: n.inc.Load()}, Raft: w.raftOptions(), Goroutines: reg})
	if err != nil {
		return err
	}
	n.rt = rt
	voters := make([]multiraft.NodeID, 0, w.cfg.N)
	for i := 1; i <= w.cfg.N; i++ {
		voters = append(voters, multiraft.NodeID(i))
	}
	for s := 1; s <= w.cfg.Slots; s++ {
		slot := multiraft.SlotID(s)
		rp := n.reps[slot]
		var inner multiraft.Storage
		if w.cfg.DB {
			inner = n.db.ForSlot(uint64(slot))
		} else {
			inner = rp.mem
		}
		rp.gate = &gateStore{w: w, rep: rp, inc: n.inc.Load(), inner: inner, lock: make(chan struct{}, 1)}
		initial, err := inner.InitialState(n.ctx)
		if err != nil {
			return fmt.Errorf("InitialState %s: %w", rp.name(), err)
		}
		snap, err := inner.Snapshot(n.ctx)
		if err != nil {
			return fmt.Errorf("Snapshot %s: %w", rp.name(), err)
		}
		floor := initial.AppliedIndex
		if !raft.IsEmptySnap(snap) {
			floor = snap.Metadata.Index
		}
		rp.core = &smCore{w: w, rep: rp, gate: rp.gate, inc: n.inc.Load(), durable: w.cfg.SMDurable, floor: floor, opening: true}
		opts := multiraft.SlotOptions{ID: slot, Storage: rp.gate, StateMachine: rp.core.stateMachine(w.cfg.SMBatch, w.cfg.SMDurable)}
		w.r.Logf("  open %s inc%d hs(t%d v%d c%d) applied%d snap%d smlast%d", rp.name(), n.inc.Load(), initial.HardState.Term, initial.HardState.Vote,
			initial.HardState.Commit, initial.AppliedIndex, snap.Metadata.Index, rp.sm.last())
		// same decision as the composition root (pkg/cluster/slots.Manager.Ensure)
		if !raft.IsEmptyHardState(initial.HardState) {
			err = rt.OpenSlot(n.ctx, opts)
		} else {
			campaign := first && w.cfg.CampaignHint && (s%w.cfg.N)+1 == n.id
			err = rt.BootstrapSlot(n.ctx, multiraft.BootstrapSlotRequest{Slot: opts, Voters: voters, Campaign: campaign})
		}
		w.mu.Lock()
		rp.core.opening = false
		w.mu.Unlock()
		if err != nil {
			return fmt.Errorf("open slot %s: %w", rp.name(), err)
		}
	}
	return nil
}

// crashNode kills the current incarnation: the disk state is captured first,
// then everything the dead incarnation still does is refused by the seams.
func (w *world) crashNode(n *node) {
	var clone *vfs.MemFS
	var newSnap string
	if w.cfg.DB {
		clone = n.fs.CrashClone(vfs.CrashCloneCfg{UnsyncedDataPercent: w.cfg.CrashPct, RNG: w.cloneRNG()})
		newSnap = filepath.Join(w.tmpRoot, fmt.Sprintf("n%d-snap-%d", n.id, n.inc.Load()+1))
		if err := copyDir(n.snapDir, newSnap); err != nil {
			w.r.Infra("copy snapshot dir: %v", err)
		}
	}
	n.up.Store(false)
	w.mu.Lock()
	k := 0
	for _, m := range w.inflight {
		if m.from != n.id && m.to != n.id {
			w.inflight[k] = m
			k++
		}
	}
	w.inflight = w.inflight[:k]
	w.mu.Unlock()
	n.setStall(false)
	parked := 0
	for _, p := range w.sw.Pending() {
		if p.Info.(parkInfo).node == n.id {
			parked++
			w.sw.Release(p, decClosed)
		}
	}
	if parked > 0 {
		w.r.Probe("crash.with_parked_durable_op")
	}
	n.cancel()
	_ = n.rt.Close()
	simkit.Wait()
	if w.cfg.DB {
		_ = n.db.Close()
		n.db = nil
		n.fs = clone
		n.snapDir = newSnap
	}
}

func copyDir(src, dst string) error {
	if err := os.MkdirAll(dst, 0o755); err != nil {
		return err
	}
	ents, err := os.ReadDir(src)
	if err != nil {
		if os.IsNotExist(err) {
			return nil
		}
		return err
	}
	for _, e := range ents {
		s, d := filepath.Join(src, e.Name()), filepath.Join(dst, e.Name())
		if e.IsDir() {
			if err := copyDir(s, d); err != nil {
				return err
			}
			continue
		}
		b, err := os.ReadFile(s)
		if err != nil {
			return err
		}
		if err := os.WriteFile(d, b, 0o600); err != nil {
			return err
		}
	}
	return nil
}
