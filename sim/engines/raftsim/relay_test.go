package raftsim

import (
	"fmt"

	"github.com/WuKongIM/WuKongIM/internal/verifsim/simkit"
	"github.com/WuKongIM/WuKongIM/pkg/slot/multiraft"
)

// ---- directed skeleton: a snapshot receiver serves the next lagging member -------------
//
// The chain "two followers fall behind the leader's compaction point; the first
// one back catches up by snapshot and becomes leader; the second one back is
// served by it" is five rare events in a row under purely random scheduling
// (about 1 run in 500). In a third of the five-node fault runs the scheduler
// therefore gets five extra heavy actions, each enabled only when the previous
// stage is observable in the world; everything else (deliveries, loss,
// duplication, crashes, proposals, compaction, other partitions) keeps
// interleaving at random, and every stage may be overtaken by them.

type relayPlan struct {
	stage   int // 0 isolate two, 1 compact on the leader, 2 heal first, 3 transfer to first, 4 heal second, 5 done
	slot    multiraft.SlotID
	a, b    int
	acksAt  int
	stageAt int // scheduler step at which the current stage was entered
	tried   bool
}

func (w *world) healNode(x int) {
	w.r.Logf("  HEAL n%d", x)
	w.mu.Lock()
	for k := range w.cut {
		if k[0] == x || k[1] == x {
			delete(w.cut, k)
		}
	}
	w.mu.Unlock()
}

func (w *world) relayAdvance(stage int) {
	w.relay.stage, w.relay.stageAt = stage, w.r.Steps
	w.r.Probe(fmt.Sprintf("relay.stage%d", stage))
}

func (w *world) relayActions() []simkit.Action {
	p := &w.relay
	if !w.cfg.Relay || p.stage >= 5 || w.opsLeft <= 0 {
		return nil
	}
	const heavy = 40
	act := func(key string, do func()) []simkit.Action {
		return []simkit.Action{{Prio: 3, Key: "relay " + key, Weight: heavy, Do: do}}
	}
	waited := w.r.Steps - p.stageAt
	switch p.stage {
	case 0:
		l := w.leaderOf(p.slot)
		if w.acks < 3 || l == 0 || len(w.upNodes()) < w.cfg.N {
			return nil
		}
		return act("isolate two followers", func() {
			var cand []int
			for i := 1; i <= w.cfg.N; i++ {
				if i != l {
					cand = append(cand, i)
				}
			}
			ia := w.r.Tape.Intn(len(cand))
			p.a = cand[ia]
			cand = append(cand[:ia], cand[ia+1:]...)
			p.b = cand[w.r.Tape.Intn(len(cand))]
			w.faultBudget += 2 // part of the skeleton, not of the random fault budget
			w.isolate(p.a, "partition_isolate_node")
			w.isolate(p.b, "partition_isolate_node")
			p.acksAt = w.acks
			w.relayAdvance(1)
		})
	case 1:
		// the majority must move on, then the leader compacts past the laggards
		l := w.leaderOf(p.slot)
		if l == 0 || l == p.a || l == p.b || (w.acks < p.acksAt+2 && waited < 60) {
			return nil
		}
		return act("compact on the leader", func() {
			n := w.nodes[l]
			w.nextOp++
			id, slot := w.nextOp, p.slot
			w.r.Logf("  compact#%d n%d/s%d (relay)", id, l, slot)
			ctx, rt := n.ctx, n.rt
			go func() {
				res, err := rt.CompactLog(ctx, slot)
				w.mu.Lock()
				w.compDone = append(w.compDone, compactDone{id: id, node: l, slot: slot, res: res, err: err})
				w.mu.Unlock()
			}()
			w.relayAdvance(2)
		})
	case 2:
		// Heal right after the compaction: the first append the leader tries to send
		// to a still isolated laggard after compacting is a MsgSnap that the
		// partition drops, and multiraft then leaves that follower paused in
		// StateSnapshot for the rest of the term (liveness observation, see probes).
		if waited < 1 {
			return nil
		}
		return []simkit.Action{{Prio: 3, Key: "relay heal the first laggard", Weight: 10 * heavy, Do: func() {
			w.healNode(p.a)
			w.relayAdvance(3)
		}}}
	case 3:
		// wait until the first laggard has caught up (ideally by snapshot), then make it lead
		l := w.leaderOf(p.slot)
		if l == 0 || l == p.a {
			if l == p.a {
				w.relayAdvance(4)
			}
			return nil
		}
		w.mu.Lock()
		restored := w.model(p.slot).restoredLive == p.a
		caughtUp := w.nodes[p.a].reps[p.slot].sm.last() >= w.model(p.slot).maxCanon
		w.mu.Unlock()
		if !(restored && caughtUp) && waited < 120 {
			return nil
		}
		if p.tried && waited < 40 {
			return nil // a transfer was requested; give it time before asking again
		}
		return act("transfer leadership to the first laggard", func() {
			n := w.nodes[l]
			st, _ := n.rt.Status(p.slot)
			err := n.rt.TransferLeadership(n.ctx, p.slot, multiraft.NodeID(p.a))
			w.r.Logf("  TRANSFER s%d n%d -> n%d (relay, restored=%v): %s", p.slot, l, p.a, restored, errName(err))
			if err == nil {
				m := w.model(p.slot)
				m.transferTo, m.transferAt = p.a, st.Term
			}
			p.stageAt, p.tried = w.r.Steps, true // retried after a while if the transfer does not happen
		})
	case 4:
		if w.leaderOf(p.slot) != p.a && waited < 120 {
			return nil
		}
		return act("heal the second laggard", func() {
			w.healNode(p.b)
			w.relayAdvance(5)
		})
	}
	return nil
}
