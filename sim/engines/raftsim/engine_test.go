package raftsim

import (
	"context"
	"encoding/binary"
	"errors"
	"fmt"
	"math/rand/v2"
	"os"
	"sort"
	"strings"
	"testing"
	"time"

	"github.com/WuKongIM/WuKongIM/internal/verifsim/simkit"
	"github.com/WuKongIM/WuKongIM/pkg/raftlog"
	"github.com/WuKongIM/WuKongIM/pkg/slot/multiraft"
	"github.com/cockroachdb/pebble/v2/vfs"
	raft "go.etcd.io/raft/v3"
	"go.etcd.io/raft/v3/raftpb"
)

func TestVerifSim(t *testing.T) {
	simkit.Main(t, simkit.Engine{
		Name:  "raftsim",
		Props: map[string]simkit.PropFunc{"C12": runWorld},
		Real: []string{"multiraft.Runtime x3/x5 (scheduler, slot workers, ticker, processReady, apply pipeline, futures, compaction, leader transfer, single-step membership changes)",
			"etcd raft v3.6.0 RawNode (harness copy differs only in the election jitter source)",
			"raftlog.NewMemory storage, or raftlog.DB (Pebble) on vfs.NewCrashableMem with CrashClone at crashes",
			"raftpb protobuf codec on every hop", "timers via the synctest fake clock"},
		Stub: []string{"multiraft.Transport (simulated network: deliver, drop, duplicate, reorder, delay, partitions, node down)",
			"recording StateMachine (plain / Batch / DurableApplied variants, full-log or digest snapshots)",
			"storage gate around the real Storage (serialises mutating calls per scope, parks durable operations as scheduler events in gate mode, fences dead incarnations)",
			"clients (proposers, leader transfer, manual compaction, membership changes), crash/restart/stall/partition control"},
		Rule: "One run = one synctest bubble with N in {3,5} real multiraft runtimes and 1-4 slots; swarm configuration, schedule and faults all come from the tape. " +
			"Non-trivial = at least one proposal acknowledged AND (a fault fired OR the slot's leader changed after the first acknowledgement OR a follower restored a snapshot).",
		Assumptions: []string{"testing/synctest fake clock and quiescence semantics (go1.26.8)",
			"the recording state machine is durable on its own (its state survives a crash exactly as applied); the raft storage loses what the crash clone loses",
			"memory storage: every completed write is durable (crash = process kill); raftlog.DB: CrashClone with 100/50/0 percent of unsynced data, snapshot chunk directories copied at the crash step (process-kill semantics)",
			"raftlog.DB runs with WriteBatchMaxItems=1 (the cross-scope group commit timer is not exercised here)",
			"election jitter is a pure function of (per-run salt, fake clock) instead of crypto/rand",
			"workers >= slots whenever a slot worker can be parked (gate or stall), because multiraft visits slots in Go map order",
			"catch-up of every replica after heal and termination of every future are probes, not verdicts (C12 speaks about replicas that reach an index)",
			"a panic on a multiraft goroutine is caught through the goroutine registry's panic observer and reported as a violation instead of killing the worker"},
	})
}

func drawCfg(r *simkit.Run) cfg {
	tp := r.Tape
	c := cfg{}
	if tp.Intn(10) < 7 {
		c.N = 3
		c.Slots = 1 + tp.Weighted([]int{4, 3, 2, 1})
	} else {
		c.N = 5
		c.Slots = 1 + tp.Weighted([]int{3, 2})
	}
	c.Ops = 8 + tp.Intn(40)
	c.NoFaults = tp.Intn(4) == 0
	if !c.NoFaults {
		c.FLoss = tp.Intn(2) == 0
		c.FDup = tp.Intn(3) == 0
		c.FReorder = tp.Intn(2) == 0
		c.FPartition = tp.Intn(2) == 0
		c.FCrash = tp.Intn(2) == 0
		c.FStall = tp.Intn(3) == 0
		c.FaultBudget = 2 + tp.Intn(8)
	}
	c.Gate = tp.Intn(3) == 0
	c.DB = tp.Intn(4) == 0
	c.CrashPct = []int{100, 0, 50}[tp.Intn(3)]
	v := tp.Weighted([]int{3, 2, 1, 1}) // batch+durable (production shape), batch, durable, plain
	c.SMBatch = v == 0 || v == 1
	c.SMDurable = v == 0 || v == 2
	c.SnapDigest = tp.Intn(3) == 0
	c.ElectionTick = []int{10, 6, 20}[tp.Intn(3)]
	c.HeartbeatTick = []int{2, 1, 3}[tp.Intn(3)]
	c.PreVote = tp.Intn(2) == 0
	c.CheckQuorum = tp.Intn(2) == 0
	c.MaxSizePerMsg = []uint64{0, 64, 300}[tp.Intn(3)]
	c.MaxInflight = []int{0, 2, 8}[tp.Intn(3)]
	c.Workers = []int{1, 2, 4}[tp.Intn(3)]
	c.MaxApplying = []int{0, 1}[tp.Intn(2)]
	switch tp.Intn(4) {
	case 0:
		c.CompactOn, c.Trigger, c.CheckInterval = true, 1000000, time.Second
	case 1:
		c.CompactOn, c.Trigger, c.CheckInterval = true, 3, time.Millisecond
	case 2:
		c.CompactOn, c.Trigger, c.CheckInterval = true, 8, 30 * time.Millisecond
	case 3:
		c.CompactOn, c.Trigger, c.CheckInterval = true, 5, time.Millisecond
	}
	if (c.Gate || c.FStall) && c.Workers < c.Slots {
		// A slot worker parked at a seam is unavailable to the node's other slots;
		// which slot it picked first follows Go map iteration order inside
		// multiraft (enqueueTickForOpenSlots), so with fewer workers than slots the
		// run would not be a function of the tape.
		c.Workers = c.Slots
	}
	c.CampaignHint = tp.Intn(3) != 0
	c.TransferW = tp.Intn(3)
	c.CompactW = tp.Intn(3)
	c.ConfChange = tp.Intn(3) == 1
	c.OwnPayloads = tp.Intn(2) == 1
	if c.N >= 5 && !c.NoFaults {
		c.Relay = tp.Intn(3) == 1 // directed skeleton, see relay_test.go
	}
	if c.Relay {
		if c.Ops < 40 {
			c.Ops = 40 // the skeleton needs the majority to keep committing while its stages unfold
		}
		// only manual compaction (production default: 10000 entries / 30 s): with a
		// trigger of a few entries the receiver replaces the received snapshot by
		// one of its own before it can be asked to serve it
		c.Trigger, c.CheckInterval = 1000000, time.Second
	}
	c.MaxSteps = 250 + c.Ops*28
	if c.MaxSteps > 1500 {
		c.MaxSteps = 1500
	}
	return c
}

func runWorld(t *testing.T, r *simkit.Run) {
	c := drawCfg(r)
	salt := r.Tape.Uint64()
	r.Config = map[string]any{"N": c.N, "slots": c.Slots, "ops": c.Ops, "nofaults": c.NoFaults, "loss": c.FLoss, "dup": c.FDup, "reorder": c.FReorder,
		"partition": c.FPartition, "crash": c.FCrash, "stall": c.FStall, "gate": c.Gate, "db": c.DB, "crash_pct": c.CrashPct, "sm_batch": c.SMBatch,
		"sm_durable": c.SMDurable, "snap_digest": c.SnapDigest, "election_tick": c.ElectionTick, "heartbeat_tick": c.HeartbeatTick, "prevote": c.PreVote,
		"checkquorum": c.CheckQuorum, "max_size_per_msg": c.MaxSizePerMsg, "max_inflight": c.MaxInflight, "workers": c.Workers, "max_applying": c.MaxApplying,
		"compact_trigger": c.Trigger, "campaign_hint": c.CampaignHint, "confchange": c.ConfChange, "own_payloads": c.OwnPayloads, "relay_skeleton": c.Relay}
	var tmpRoot string
	if c.DB {
		base := "" // raft snapshot chunk directories are real files (fsync included): prefer a RAM disk
		if st, err := os.Stat("/dev/shm"); err == nil && st.IsDir() {
			base = "/dev/shm"
		}
		d, err := os.MkdirTemp(base, "raftsim-")
		if err != nil && base != "" {
			d, err = os.MkdirTemp("", "raftsim-")
		}
		if err != nil {
			r.Infra("tempdir: %v", err)
			return
		}
		tmpRoot = d
		defer os.RemoveAll(d)
	}
	simkit.Bubble(t, r, func() {
		w := &world{r: r, sw: simkit.NewWorld(r), cfg: c, salt: salt, start: time.Now(), cut: map[[2]int]bool{},
			probes: map[string]int{}, faultsCnt: map[string]int{}, outstanding: map[int]*propOp{}, opsLeft: c.Ops, faultBudget: c.FaultBudget, tmpRoot: tmpRoot}
		w.relay.slot = 1
		raft.SimRandIntn = w.randIntn
		defer w.teardown()
		w.nodes = make([]*node, c.N+1)
		for s := 1; s <= c.Slots; s++ {
			w.slots = append(w.slots, &slotModel{id: multiraft.SlotID(s), canon: map[uint64]rec{}, skipped: map[uint64][]string{},
				payloadIdx: map[string][]uint64{}, acked: map[uint64]ackInfo{}, dupTol: map[string]bool{}, leaderSeen: map[uint64]int{}})
		}
		for i := 1; i <= c.N; i++ {
			n := &node{id: i, reps: map[multiraft.SlotID]*replica{}}
			for s := 1; s <= c.Slots; s++ {
				rp := &replica{node: n, slot: multiraft.SlotID(s), sm: &smState{}, stored: map[uint64][]string{}}
				if !c.DB {
					rp.mem = raftlog.NewMemory()
				}
				n.reps[rp.slot] = rp
			}
			if c.DB {
				n.fs = vfs.NewCrashableMem()
				n.dbPath = fmt.Sprintf("/raft-n%d", i)
				n.snapDir = fmt.Sprintf("%s/n%d-snap-1", tmpRoot, i)
			}
			w.nodes[i] = n
		}
		for i := 1; i <= c.N; i++ {
			if err := w.startNode(w.nodes[i], true); err != nil {
				r.Infra("start node %d: %v", i, err)
				return
			}
		}
		s := &simkit.Scheduler{R: r, MaxSteps: c.MaxSteps, Collect: w.collect, Invariant: w.invariant,
			StepTime: func() time.Duration { return gridStep },
			// (a proposal future is not guaranteed to resolve, see the hung-future probe; do not wait for stragglers forever)
			Done: func() bool {
				return w.opsLeft <= 0 && r.Steps > 40 && (len(w.outstanding) == 0 || r.Steps-w.lastProposeStep > 120)
			},
			Idle:     func() time.Duration { return tickInterval }}
		s.Run()
		if !r.Failed() && r.InfraErr == "" {
			w.finalPhase()
		}
		w.mu.Lock()
		for k, v := range w.probes {
			r.ProbeN(k, v)
		}
		for k, v := range w.faultsCnt {
			for i := 0; i < v; i++ {
				r.Fault(k)
			}
		}
		w.probes, w.faultsCnt = map[string]int{}, map[string]int{}
		w.mu.Unlock()
		nf := 0
		for _, v := range r.Faults {
			nf += v
		}
		r.Nontrivial = w.acks > 0 && (nf > 0 || w.leaderChangeAfterAck || w.liveRestore > 0)
	})
	if p := os.Getenv("RAFTSIM_TRACE"); p != "" { // development aid: full trace of the last run
		_ = os.WriteFile(p, []byte(strings.Join(r.Trace(), "\n")+"\n"), 0o644)
	}
}

func (w *world) cloneRNG() *rand.Rand {
	return rand.New(rand.NewPCG(w.r.Tape.Uint64(), 0x5eed))
}

func (w *world) teardown() {
	for _, n := range w.nodes {
		if n != nil {
			n.up.Store(false)
			n.setStall(false)
		}
	}
	w.sw.CloseAll(decClosed)
	for _, n := range w.nodes {
		if n == nil {
			continue
		}
		if n.cancel != nil {
			n.cancel()
		}
		if n.rt != nil {
			_ = n.rt.Close()
		}
	}
	simkit.Wait()
	for _, n := range w.nodes {
		if n != nil && n.db != nil {
			_ = n.db.Close()
			n.db = nil
		}
	}
	simkit.Wait()
}

// ---- observations drained by the scheduler -------------------------------------------

func (w *world) fail(class, sig, detail string) {
	w.r.FailSig(class, sig, detail, nil)
}

// drain moves everything the seams recorded since the last quiescent state into
// the trace (sorted by content, never by arrival) and evaluates the history
// oracles that need the scheduler's view.
func (w *world) drain() {
	w.mu.Lock()
	events, fails, props, comps, panics, confs := w.events, w.fails, w.propDone, w.compDone, w.panics, w.confDone
	w.events, w.fails, w.propDone, w.compDone, w.panics, w.confDone = nil, nil, nil, nil, nil, nil
	w.mu.Unlock()
	sort.Slice(confs, func(i, j int) bool { return confs[i].id < confs[j].id })
	for _, cd := range confs {
		w.r.Logf("  conf#%d n%d/s%d %s n%d -> %s index=%d term=%d", cd.id, cd.node, cd.slot, changeName(cd.change.Type), cd.change.NodeID, errName(cd.err), cd.res.Index, cd.res.Term)
		if cd.err == nil {
			w.r.Probe("confchange.applied:" + changeName(cd.change.Type))
		}
	}
	sort.Strings(events)
	for _, e := range events {
		w.r.Logf("  %s", e)
	}
	sort.Slice(props, func(i, j int) bool { return props[i].id < props[j].id })
	for _, op := range props {
		w.onProposalDone(op)
	}
	sort.Slice(comps, func(i, j int) bool { return comps[i].id < comps[j].id })
	for _, cd := range comps {
		w.r.Logf("  compact#%d n%d/s%d -> compacted=%v applied=%d snap %d->%d skipped=%q err=%v", cd.id, cd.node, cd.slot, cd.res.Compacted, cd.res.AppliedIndex,
			cd.res.BeforeSnapshotIndex, cd.res.AfterSnapshotIndex, cd.res.SkippedReason, cd.err)
		if cd.err == nil && cd.res.Compacted {
			w.r.Probe("compaction.manual")
		}
	}
	if len(panics) > 0 {
		sort.Strings(panics)
		w.r.Fail("panic", panics[0], nil)
	}
	if len(fails) > 0 {
		sort.Slice(fails, func(i, j int) bool {
			if fails[i].key != fails[j].key {
				return fails[i].key < fails[j].key
			}
			return fails[i].detail < fails[j].detail
		})
		f := fails[0]
		if f.class == "harness" {
			w.r.Infra("%s: %s", f.sig, f.detail)
		} else {
			w.fail(f.class, f.sig, f.detail)
		}
	}
}

func errName(err error) string {
	switch {
	case err == nil:
		return "ok"
	case errors.Is(err, multiraft.ErrNotLeader):
		return "not-leader"
	case errors.Is(err, multiraft.ErrProposalBackpressure):
		return "backpressure"
	case errors.Is(err, multiraft.ErrRuntimeClosed):
		return "runtime-closed"
	case errors.Is(err, multiraft.ErrSlotClosed):
		return "slot-closed"
	case errors.Is(err, multiraft.ErrSlotBusy):
		return "busy"
	case errors.Is(err, context.Canceled):
		return "ctx-canceled"
	case errors.Is(err, context.DeadlineExceeded):
		return "ctx-deadline"
	case errors.Is(err, multiraft.ErrConfigChangePending):
		return "config-change-pending"
	case errors.Is(err, errCrashed):
		return "crashed"
	}
	return err.Error()
}

func (w *world) onProposalDone(op *propOp) {
	delete(w.outstanding, op.id)
	w.r.Logf("  op%d n%d/s%d %q -> %s index=%d term=%d", op.id, op.node, op.slot, op.payload, errName(op.err), op.res.Index, op.res.Term)
	if op.final {
		w.finalPending[op.slot] = false
		w.finalAcked[op.slot] = w.finalAcked[op.slot] || op.err == nil
	}
	if op.err != nil {
		w.r.Probe("propose.failed:" + errName(op.err))
		return
	}
	w.acks++
	w.lastAckStep = w.r.Steps
	w.r.Probe("propose.acked")
	m := w.model(op.slot)
	w.mu.Lock()
	defer w.mu.Unlock()
	if m.firstAck == 0 {
		m.firstAck = w.r.Steps + 1
	}
	cr, ok := m.canon[op.res.Index]
	switch {
	case !ok:
		w.fail("ack-not-at-index", "nothing-applied", fmt.Sprintf("slot %d: proposal %q on n%d was acknowledged at (index %d, term %d) but no replica has applied that index",
			op.slot, op.payload, op.node, op.res.Index, op.res.Term))
	case cr.term != op.res.Term || cr.data != op.payload:
		// who led the term of the acknowledged entry? A future is meant to be
		// resolved by the node that appended the entry as leader.
		sig, who := "", "unknown"
		if l, seen := m.leaderSeen[op.res.Term]; seen {
			who = fmt.Sprintf("n%d", l)
			if l != op.node {
				sig = "resolved-on-node-that-did-not-lead-the-term"
			}
		}
		// Did the proposer itself once store this payload at the acknowledged index
		// (its own entry, later replaced by another leader's entry)? Then the future
		// was tracked correctly and resolved for the wrong term's entry.
		for _, p := range w.nodes[op.node].reps[op.slot].stored[op.res.Index] {
			if p == op.payload {
				sig = "own-entry-at-index-was-replaced"
			}
		}
		w.fail("ack-not-at-index", sig, fmt.Sprintf("slot %d: proposal %q on n%d was acknowledged at (index %d, term %d) but the command applied at that index is (term %d %q); leader of term %d: %s; the payload itself is applied at %v",
			op.slot, op.payload, op.node, op.res.Index, op.res.Term, cr.term, cr.data, op.res.Term, who, m.payloadIdx[op.payload]))
	case string(op.res.Data) != "ok:"+op.payload:
		w.fail("ack-wrong-result", "", fmt.Sprintf("slot %d: proposal %q acknowledged with the apply result %q of another command", op.slot, op.payload, op.res.Data))
	}
	if prev, dup := m.acked[op.res.Index]; dup && prev.payload != op.payload {
		w.fail("ack-not-at-index", "two-acks", fmt.Sprintf("slot %d index %d acknowledged for %q and for %q", op.slot, op.res.Index, prev.payload, op.payload))
	}
	m.acked[op.res.Index] = ackInfo{term: op.res.Term, payload: op.payload, op: op.id}
}

// invariant runs at every quiescent state.
func (w *world) invariant() {
	w.drain()
	if w.r.Failed() {
		return
	}
	for _, m := range w.slots {
		var parts []any
		parts = append(parts, m.id)
		leadersByTerm := map[uint64]int{}
		for i := 1; i <= w.cfg.N; i++ {
			n := w.nodes[i]
			if !n.up.Load() {
				parts = append(parts, "down")
				continue
			}
			st, err := n.rt.Status(m.id)
			if err != nil {
				w.fail("replica-fatal-error", "", fmt.Sprintf("n%d/s%d: live replica reports a fatal error: %v", i, m.id, err))
				return
			}
			if st.Role == multiraft.RoleLeader {
				if other, ok := leadersByTerm[st.Term]; ok && other != i {
					w.fail("two-leaders-same-term", "", fmt.Sprintf("slot %d: n%d and n%d are both leader in term %d", m.id, other, i, st.Term))
					return
				}
				leadersByTerm[st.Term] = i
				if prev, ok := m.leaderSeen[st.Term]; ok && prev != i {
					w.fail("two-leaders-same-term", "history", fmt.Sprintf("slot %d: n%d is leader in term %d, n%d was leader in that term earlier", m.id, i, st.Term, prev))
					return
				} else if !ok {
					m.leaderSeen[st.Term] = i
					m.leaders++
					w.r.Probe("leader.elected")
					w.r.Logf("  leader s%d n%d term %d", m.id, i, st.Term)
					if m.firstAck > 0 && m.leaders > 1 {
						w.leaderChangeAfterAck = true
						w.r.Probe("leader.changed_after_ack")
					}
					if m.transferTo == i && st.Term > m.transferAt {
						w.r.Probe("leader.transferred")
						m.transferTo = 0
					}
				}
			}
			// A replica whose applied index reached i holds every command at or below i
			// (the state machine content at the applied index equals the reference prefix).
			rp := n.reps[m.id]
			w.mu.Lock()
			if rp.verified > st.AppliedIndex {
				rp.verified = st.AppliedIndex
			}
			for j := rp.verified + 1; j <= st.AppliedIndex; j++ {
				cr, known := m.canon[j]
				if !known {
					continue
				}
				if got, has := rp.sm.at(j); !has || got != cr {
					w.mu.Unlock()
					w.fail("applied-index-without-command", "", fmt.Sprintf("n%d/s%d reports applied index %d but its state machine holds (present=%v term %d %q) at index %d where (term %d %q) was applied",
						i, m.id, st.AppliedIndex, has, got.term, got.data, j, cr.term, cr.data))
					return
				}
			}
			rp.verified = st.AppliedIndex
			w.mu.Unlock()
			lag := int64(m.maxCanon) - int64(st.AppliedIndex)
			if lag > 3 {
				lag = 3
			}
			parts = append(parts, st.Role, lag, st.Term%4)
		}
		if w.r.Steps%4 == 0 {
			w.r.State(parts...)
		}
	}
}

// ---- scheduler actions -----------------------------------------------------------------

type pendingEvt struct {
	at   time.Duration
	ord  string
	key  string
	seq  int
	msg  *netMsg
	park *simkit.Parked
}

// pendingEvents lists in-flight messages and parked durable operations, oldest first.
func (w *world) pendingEvents() []pendingEvt {
	var out []pendingEvt
	w.mu.Lock()
	for _, m := range w.inflight {
		// Messages one slot sends at one instant on one link keep their send order
		// (seq is deterministic inside one slot worker); everything else is ordered
		// by content, because arrival order across slots and nodes is not canonical.
		out = append(out, pendingEvt{at: m.sent, ord: fmt.Sprintf("m n%d>n%d s%d", m.from, m.to, m.slot), key: m.key, seq: m.seq, msg: m})
	}
	w.mu.Unlock()
	for _, p := range w.sw.Pending() {
		info := p.Info.(parkInfo)
		if w.nodes[info.node].stalled() {
			continue
		}
		out = append(out, pendingEvt{at: info.at, ord: "p " + p.Key, key: p.Key, seq: p.Seq, park: p})
	}
	sort.SliceStable(out, func(i, j int) bool {
		if out[i].at != out[j].at {
			return out[i].at < out[j].at
		}
		if out[i].ord != out[j].ord {
			return out[i].ord < out[j].ord
		}
		return out[i].seq < out[j].seq
	})
	return out
}

func (w *world) removeMsg(m *netMsg) {
	w.mu.Lock()
	defer w.mu.Unlock()
	for i, x := range w.inflight {
		if x == m {
			w.inflight = append(w.inflight[:i], w.inflight[i+1:]...)
			return
		}
	}
}

func cloneMsg(m raftpb.Message) raftpb.Message {
	raw, _ := m.Marshal()
	var c raftpb.Message
	_ = c.Unmarshal(raw)
	return c
}

func (w *world) deliver(m *netMsg, keep bool) {
	if !keep {
		w.removeMsg(m)
	}
	tn := w.nodes[m.to]
	if !tn.up.Load() {
		return
	}
	err := tn.rt.Step(tn.ctx, multiraft.Envelope{SlotID: m.slot, Message: cloneMsg(m.msg)})
	if err != nil {
		w.r.Probe("step.rejected:" + errName(err))
	}
}

func (w *world) leaderOf(slot multiraft.SlotID) int {
	best, bestTerm := 0, uint64(0)
	for i := 1; i <= w.cfg.N; i++ {
		n := w.nodes[i]
		if !n.up.Load() {
			continue
		}
		st, err := n.rt.Status(slot)
		if err == nil && st.Role == multiraft.RoleLeader && st.Term >= bestTerm {
			best, bestTerm = i, st.Term
		}
	}
	return best
}

func (w *world) upNodes() []int {
	var out []int
	for i := 1; i <= w.cfg.N; i++ {
		if w.nodes[i].up.Load() {
			out = append(out, i)
		}
	}
	return out
}

func (w *world) collect() []simkit.Action {
	w.drain()
	if w.r.Failed() || w.r.InfraErr != "" {
		return nil
	}
	c := w.cfg
	faults := !c.NoFaults
	var acts []simkit.Action
	evs := w.pendingEvents()
	// network: in FIFO mode only the head of each directed link is deliverable
	headSeen := map[[2]int]bool{}
	rank := 0
	nmsgs := 0
	for _, e := range evs {
		e := e
		if e.msg != nil {
			nmsgs++
			link := [2]int{e.msg.from, e.msg.to}
			if !(faults && c.FReorder) && headSeen[link] {
				continue
			}
			headSeen[link] = true
		}
		if rank >= 14 {
			continue
		}
		wgt := 24 >> uint(rank)
		if wgt < 1 {
			wgt = 1
		}
		key := fmt.Sprintf("e%02d %s", rank, e.key)
		if e.park != nil {
			p := e.park
			acts = append(acts, simkit.Action{Prio: 0, Key: key, Weight: wgt, Do: func() { w.sw.Release(p, decRelease) }})
		} else {
			m := e.msg
			acts = append(acts, simkit.Action{Prio: 0, Key: key, Weight: wgt, Do: func() { w.deliver(m, false) }})
			if faults && rank < 4 {
				if c.FLoss {
					acts = append(acts, simkit.Action{Prio: 5, Key: "drop " + key, Weight: 1, Do: func() { w.r.Fault("message_lost"); w.removeMsg(m) }})
				}
				if c.FDup && !m.dupd {
					acts = append(acts, simkit.Action{Prio: 5, Key: "dup " + key, Weight: 1, Do: func() {
						w.r.Fault("message_duplicated")
						m.dupd = true
						if m.msg.Type == raftpb.MsgProp {
							mdl := w.model(m.slot)
							w.mu.Lock()
							for _, en := range m.msg.Entries {
								if len(en.Data) > envelopeSize {
									mdl.dupTol[string(en.Data[envelopeSize:])] = true
								}
							}
							w.mu.Unlock()
						}
						w.deliver(m, true)
					}})
				}
			}
		}
		rank++
	}
	// client operations
	if w.opsLeft > 0 && w.rejects < 3*c.Ops {
		for s := 1; s <= c.Slots; s++ {
			slot := multiraft.SlotID(s)
			pw := 1
			if w.leaderOf(slot) != 0 {
				pw = 10
				if c.Relay && w.relay.stage >= 2 && w.relay.stage <= 4 {
					pw = 3 // keep operations (and the receiver's own next compaction) for the later stages
				}
			}
			acts = append(acts, simkit.Action{Prio: 1, Key: fmt.Sprintf("propose s%d", s), Weight: pw, Do: func() { w.propose(slot, false) }})
		}
	}
	if w.opsLeft > 0 && w.acks > 0 {
		if c.TransferW > 0 && w.transfers < 6 {
			tw := c.TransferW
			w.mu.Lock()
			for _, m := range w.slots {
				if m.restoredLive != 0 {
					tw = c.TransferW + 3 // a snapshot receiver exists: make it lead while its received snapshot is what it would serve
				}
			}
			w.mu.Unlock()
			acts = append(acts, simkit.Action{Prio: 3, Key: "transfer", Weight: tw, Do: w.transfer})
		}
		if c.CompactW > 0 && w.compacts < 8 {
			acts = append(acts, simkit.Action{Prio: 3, Key: "compact", Weight: c.CompactW, Do: w.compact})
		}
		if c.ConfChange && w.confChanges < 6 {
			acts = append(acts, simkit.Action{Prio: 3, Key: "confchange", Weight: 2, Do: w.confChange})
		}
	}
	// time
	tw := 1
	if len(evs) == 0 {
		tw = 4
	} else if nmsgs > 4*c.N*c.Slots {
		tw = 0
	}
	// (with nothing in flight, letting time pass is the benign choice 0: an all-zero tape must still make progress)
	tp := 2
	if len(evs) == 0 {
		tp = 0
	}
	if tw > 0 {
		acts = append(acts, simkit.Action{Prio: tp, Key: "time 10ms", Weight: 4 * tw, Do: func() { time.Sleep(tickInterval) }})
		acts = append(acts, simkit.Action{Prio: tp, Key: "time 1ms", Weight: 4 * tw, Do: func() { time.Sleep(time.Millisecond) }})
		acts = append(acts, simkit.Action{Prio: tp, Key: "time 50ms", Weight: 2 * tw, Do: func() { time.Sleep(5 * tickInterval) }})
		acts = append(acts, simkit.Action{Prio: tp, Key: "time election", Weight: tw, Do: func() { time.Sleep(time.Duration(c.ElectionTick) * tickInterval) }})
	} else {
		acts = append(acts, simkit.Action{Prio: tp, Key: "time 1ms", Weight: 1, Do: func() { time.Sleep(time.Millisecond) }})
	}
	// environment faults
	if faults {
		acts = append(acts, w.faultActions()...)
		acts = append(acts, w.relayActions()...)
	}
	return acts
}

func (w *world) faultActions() []simkit.Action {
	c := w.cfg
	var acts []simkit.Action
	budget := w.faultBudget > 0 && w.opsLeft > 0
	if c.FPartition {
		// (while the relay skeleton holds two laggards apart it does its own healing)
		if len(w.cut) > 0 && !(c.Relay && w.relay.stage >= 1 && w.relay.stage <= 4) {
			acts = append(acts, simkit.Action{Prio: 4, Key: "heal", Weight: 2, Do: func() {
				w.mu.Lock()
				w.cut = map[[2]int]bool{}
				w.mu.Unlock()
			}})
			// heal one node at a time: lagging replicas rejoin one after the other, so a
			// replica that itself caught up by snapshot may have to serve the next one
			acts = append(acts, simkit.Action{Prio: 4, Key: "heal-node", Weight: 2, Do: func() {
				w.mu.Lock()
				deg := map[int]int{}
				for k := range w.cut {
					deg[k[0]]++
					deg[k[1]]++
				}
				w.mu.Unlock()
				best := 0
				for i := 1; i <= c.N; i++ {
					if deg[i] > best {
						best = deg[i]
					}
				}
				var cand []int // the most isolated nodes
				for i := 1; i <= c.N; i++ {
					if best > 0 && deg[i] == best {
						cand = append(cand, i)
					}
				}
				if len(cand) == 0 {
					return
				}
				x := cand[w.r.Tape.Intn(len(cand))]
				w.r.Logf("  HEAL n%d", x)
				w.mu.Lock()
				for k := range w.cut {
					if k[0] == x || k[1] == x {
						delete(w.cut, k)
					}
				}
				w.mu.Unlock()
			}})
		}
		if budget {
			acts = append(acts, simkit.Action{Prio: 6, Key: "partition isolate-node", Weight: 1, Do: func() {
				x := 1 + w.r.Tape.Intn(c.N)
				w.isolate(x, "partition_isolate_node")
			}})
			if c.N >= 5 {
				// a minority of two followers falls behind together; healed one at a time
				// (heal-node) the first to return may have to serve the second
				acts = append(acts, simkit.Action{Prio: 6, Key: "partition isolate-two", Weight: 2, Do: func() {
					s := multiraft.SlotID(1 + w.r.Tape.Intn(c.Slots))
					l := w.leaderOf(s)
					var cand []int
					for i := 1; i <= c.N; i++ {
						if i != l {
							cand = append(cand, i)
						}
					}
					a := cand[w.r.Tape.Intn(len(cand))]
					b := cand[w.r.Tape.Intn(len(cand))]
					w.isolate(a, "partition_isolate_node")
					if b != a {
						w.faultBudget++ // one fault, two nodes
						w.isolate(b, "partition_isolate_node")
					}
				}})
			}
			acts = append(acts, simkit.Action{Prio: 6, Key: "partition isolate-leader", Weight: 1, Do: func() {
				s := multiraft.SlotID(1 + w.r.Tape.Intn(c.Slots))
				if l := w.leaderOf(s); l != 0 {
					w.isolate(l, "partition_leader_in_minority")
				}
			}})
			acts = append(acts, simkit.Action{Prio: 6, Key: "partition one-way", Weight: 1, Do: func() {
				a := 1 + w.r.Tape.Intn(c.N)
				b := 1 + w.r.Tape.Intn(c.N)
				if a != b {
					w.faultBudget--
					w.r.Fault("partition_oneway")
					w.setCut(a, b)
				}
			}})
		}
	}
	if c.FCrash {
		down := c.N - len(w.upNodes())
		if budget && down < (c.N-1)/2 {
			acts = append(acts, simkit.Action{Prio: 6, Key: "crash", Weight: 1, Do: func() {
				up := w.upNodes()
				x := up[w.r.Tape.Intn(len(up))]
				w.faultBudget--
				w.r.Fault("crash")
				if w.cfg.DB {
					w.r.Fault(fmt.Sprintf("crash_clone_unsynced_%d", w.cfg.CrashPct))
				}
				w.r.Logf("  CRASH n%d", x)
				w.crashNode(w.nodes[x])
			}})
		}
		for i := 1; i <= c.N; i++ {
			i := i
			if !w.nodes[i].up.Load() {
				acts = append(acts, simkit.Action{Prio: 4, Key: fmt.Sprintf("restart n%d", i), Weight: 2, Do: func() { w.restart(i) }})
			}
		}
	}
	if c.FStall {
		for i := 1; i <= c.N; i++ {
			i := i
			n := w.nodes[i]
			if !n.up.Load() {
				continue
			}
			if n.stalled() {
				acts = append(acts, simkit.Action{Prio: 4, Key: fmt.Sprintf("unstall n%d", i), Weight: 2, Do: func() { n.setStall(false) }})
			}
		}
		if budget {
			acts = append(acts, simkit.Action{Prio: 6, Key: "stall", Weight: 1, Do: func() {
				up := w.upNodes()
				x := up[w.r.Tape.Intn(len(up))]
				if !w.nodes[x].stalled() {
					w.faultBudget--
					w.r.Fault("node_stalled")
					w.r.Logf("  STALL n%d", x)
					w.nodes[x].setStall(true)
				}
			}})
		}
	}
	return acts
}

func (w *world) setCut(a, b int) {
	w.mu.Lock()
	defer w.mu.Unlock()
	w.cut[[2]int{a, b}] = true
	k := 0
	for _, m := range w.inflight {
		if m.from == a && m.to == b {
			w.faultsCnt["partition_drop"]++
			continue
		}
		w.inflight[k] = m
		k++
	}
	w.inflight = w.inflight[:k]
}

func (w *world) isolate(x int, kind string) {
	w.faultBudget--
	w.r.Fault(kind)
	w.r.Logf("  ISOLATE n%d", x)
	for i := 1; i <= w.cfg.N; i++ {
		if i != x {
			w.setCut(x, i)
			w.setCut(i, x)
		}
	}
}

func (w *world) restart(i int) {
	w.r.Fault("restart")
	w.r.Logf("  RESTART n%d", i)
	if err := w.startNode(w.nodes[i], false); err != nil {
		// Reopening a replica over the durable state its earlier incarnation wrote is
		// behaviour of the code under test (raftlog.Open, InitialState, OpenSlot,
		// Restore): a replica that cannot come back has lost what it acknowledged.
		w.fail("restart-failed", "", fmt.Sprintf("n%d cannot be reopened over its own durable state: %v", i, err))
	}
}

func payloadBytes(slot multiraft.SlotID, body string) []byte {
	b := make([]byte, envelopeSize, envelopeSize+len(body))
	binary.BigEndian.PutUint16(b[:2], uint16(slot))
	return append(b, body...)
}

func (w *world) propose(slot multiraft.SlotID, final bool) {
	up := w.upNodes()
	if len(up) == 0 {
		return
	}
	target := 0
	if l := w.leaderOf(slot); l != 0 && (final || w.r.Tape.Intn(8) != 0) {
		target = l
	} else {
		target = up[w.r.Tape.Intn(len(up))]
	}
	n := w.nodes[target]
	w.nextOp++
	body := fmt.Sprintf("s%d-p%d-n%d", slot, w.nextOp, target)
	fut, err := n.rt.Propose(n.ctx, slot, payloadBytes(slot, body))
	if err != nil {
		w.rejects++
		w.r.Logf("  op%d PROPOSE n%d/s%d %q rejected: %s", w.nextOp, target, slot, body, errName(err))
		w.r.Probe("propose.rejected:" + errName(err))
		return
	}
	if !final {
		w.opsLeft--
		w.lastProposeStep = w.r.Steps
	} else {
		w.finalPending[slot] = true
	}
	op := &propOp{id: w.nextOp, node: target, inc: n.inc.Load(), slot: slot, payload: body, step: w.r.Steps, final: final}
	w.outstanding[op.id] = op
	w.r.Logf("  op%d PROPOSE n%d/s%d %q accepted", op.id, target, slot, body)
	ctx := n.ctx
	go func() {
		res, err := fut.Wait(ctx)
		op.res, op.err = res, err
		w.mu.Lock()
		w.propDone = append(w.propDone, op)
		w.mu.Unlock()
	}()
}

func (w *world) transfer() {
	w.transfers++
	slot := multiraft.SlotID(1 + w.r.Tape.Intn(w.cfg.Slots))
	w.mu.Lock()
	if w.model(slot).restoredLive == 0 {
		for _, m := range w.slots {
			if m.restoredLive != 0 {
				slot = m.id
				break
			}
		}
	}
	w.mu.Unlock()
	l := w.leaderOf(slot)
	if l == 0 {
		return
	}
	target := 1 + w.r.Tape.Intn(w.cfg.N)
	if target == l {
		target = target%w.cfg.N + 1
	}
	// Prefer a replica that caught up by installing a snapshot: once it leads it
	// serves lagging members from the snapshot it received, not one it produced.
	w.mu.Lock()
	restored := w.model(slot).restoredLive
	w.mu.Unlock()
	if restored != 0 && restored != l && w.nodes[restored].up.Load() && w.r.Tape.Intn(3) != 0 {
		target = restored
	}
	n := w.nodes[l]
	st, _ := n.rt.Status(slot)
	err := n.rt.TransferLeadership(n.ctx, slot, multiraft.NodeID(target))
	w.r.Logf("  TRANSFER s%d n%d -> n%d: %s", slot, l, target, errName(err))
	if err == nil {
		m := w.model(slot)
		m.transferTo, m.transferAt = target, st.Term
		w.r.Probe("transfer.requested")
	}
}

func (w *world) compact() {
	up := w.upNodes()
	if len(up) == 0 {
		return
	}
	w.compacts++
	x := up[w.r.Tape.Intn(len(up))]
	slot := multiraft.SlotID(1 + w.r.Tape.Intn(w.cfg.Slots))
	n := w.nodes[x]
	w.nextOp++
	id := w.nextOp
	w.r.Logf("  compact#%d n%d/s%d", id, x, slot)
	ctx, rt := n.ctx, n.rt
	go func() {
		res, err := rt.CompactLog(ctx, slot)
		w.mu.Lock()
		w.compDone = append(w.compDone, compactDone{id: id, node: x, slot: slot, res: res, err: err})
		w.mu.Unlock()
	}()
}

// ---- final phase: bounded liveness after the last fault ------------------------------------

// finalPhase stops every fault, heals, restarts, and schedules benignly until
// every replica has applied everything any replica applied. Then every
// acknowledged proposal must sit at its acknowledged index on every replica.
func (w *world) finalPhase() {
	r := w.r
	w.phaseFinal = true
	r.Logf("-- final phase: heal, unstall, restart")
	w.mu.Lock()
	w.cut = map[[2]int]bool{}
	w.mu.Unlock()
	for i := 1; i <= w.cfg.N; i++ {
		n := w.nodes[i]
		if !n.up.Load() {
			w.restart(i)
		} else {
			n.setStall(false)
		}
	}
	if r.InfraErr != "" || r.Failed() {
		return
	}
	electionTO := time.Duration(w.cfg.ElectionTick) * tickInterval
	deadline := w.now() + finalElectionTimeouts*electionTO
	healedAt := w.now()
	w.finalAcked, w.finalPending = map[multiraft.SlotID]bool{}, map[multiraft.SlotID]bool{}
	finalTries := map[multiraft.SlotID]int{}
	converged := false
	for iter := 0; iter < 60000 && w.now() < deadline; iter++ {
		idle, ok := w.benignStep()
		if !ok {
			return
		}
		if !idle {
			continue
		}
		// nothing in flight: one probe proposal per slot once a leader exists, then check convergence
		all := true
		for _, m := range w.slots {
			gaveUp := finalTries[m.id] >= 12 && !w.finalPending[m.id] // e.g. a leader that removed itself drops every proposal
			if !w.finalAcked[m.id] && !gaveUp {
				if !w.finalPending[m.id] && w.leaderOf(m.id) != 0 {
					finalTries[m.id]++
					w.propose(m.id, true)
				}
				all = false
				continue
			}
			if !w.slotConverged(m) {
				all = false
			}
		}
		if all {
			converged = true
			break
		}
		time.Sleep(time.Millisecond)
	}
	w.drain()
	if r.Failed() {
		return
	}
	var progress map[multiraft.SlotID]map[int]string
	if converged {
		r.Probe("final.converged")
		if w.now()-healedAt <= 10*electionTO {
			r.Probe("final.converged_within_10_election_timeouts")
		}
		// Everything is applied everywhere and nothing is in flight: a proposal
		// future that is still pending on a live incarnation will never resolve.
		// Not part of C12's statement: counted, and flagged only on request.
		for _, id := range simkit.SortedIntKeys(w.outstanding) {
			op := w.outstanding[id]
			if w.nodes[op.node].inc.Load() != op.inc {
				continue
			}
			r.Probe("future.never_resolved")
			r.Logf("  future never resolved: op%d n%d/s%d %q accepted at step %d", op.id, op.node, op.slot, op.payload, op.step)
			if os.Getenv("RAFTSIM_FLAG_HUNG_FUTURES") == "1" {
				w.fail("future-never-resolved", "", fmt.Sprintf("op%d: proposal %q accepted by n%d/s%d at step %d has no terminal result although the cluster is healed, converged and idle",
					op.id, op.payload, op.node, op.slot, op.step))
				return
			}
		}
	} else {
		r.Probe("final.not_converged")
		for _, id := range simkit.SortedIntKeys(w.outstanding) {
			op := w.outstanding[id]
			r.Logf("  still outstanding: op%d n%d/s%d %q proposed at step %d (inc %d, node inc now %d)", op.id, op.node, op.slot, op.payload, op.step, op.inc, w.nodes[op.node].inc.Load())
		}
		progress = w.leaderProgress()
		if r.Failed() || r.InfraErr != "" {
			return
		}
	}
	flagLiveness := os.Getenv("RAFTSIM_FLAG_LIVENESS") == "1"
	leaders := map[multiraft.SlotID]int{}
	memb := map[multiraft.SlotID]map[int]bool{}
	topTerm := map[multiraft.SlotID]bool{} // the leader's term is the highest term any replica knows
	for _, m := range w.slots {
		l := w.leaderOf(m.id)
		leaders[m.id] = l
		memb[m.id] = w.members(m.id)
		if l == 0 {
			continue
		}
		lst, err := w.nodes[l].rt.Status(m.id)
		top := err == nil
		for i := 1; i <= w.cfg.N && top; i++ {
			if st, err := w.nodes[i].rt.Status(m.id); err != nil || st.Term > lst.Term {
				top = false
			}
		}
		topTerm[m.id] = top
	}
	w.mu.Lock()
	defer w.mu.Unlock()
	for _, m := range w.slots {
		acked := make([]uint64, 0, len(m.acked))
		for i := range m.acked {
			acked = append(acked, i)
		}
		sort.Slice(acked, func(i, j int) bool { return acked[i] < acked[j] })
		stuckReported := map[int]bool{}
		for _, idx := range acked {
			a := m.acked[idx]
			if ix := m.payloadIdx[a.payload]; len(ix) != 1 && !m.dupTol[a.payload] {
				w.fail("duplicate-apply", "acked", fmt.Sprintf("slot %d: acknowledged proposal %q is applied at indexes %v", m.id, a.payload, ix))
				return
			}
			holders := 0
			for i := 1; i <= w.cfg.N; i++ {
				st := w.nodes[i].reps[m.id].sm
				got, ok := st.at(idx)
				if st.last() >= idx && (!ok || got.term != a.term || got.data != a.payload) {
					w.fail("ack-not-at-index", "final", fmt.Sprintf("slot %d: n%d holds (term %d %q, present=%v) at index %d where proposal %q was acknowledged (term %d)",
						m.id, i, got.term, got.data, ok, idx, a.payload, a.term))
					return
				}
				if st.last() >= idx {
					holders++
					continue
				}
				// A replica that never reaches the index is outside C12's statement
				// (it speaks about replicas that reach the index); counted, and a
				// violation only on request.
				sig := "no-convergence"
				if progress[m.id][i] == "StateSnapshot" {
					// etcd raft keeps a follower paused in StateSnapshot until the application
					// reports the snapshot outcome or the follower acknowledges it
					sig = "follower-paused-in-snapshot-progress"
				} else if leaders[m.id] == 0 {
					sig = "no-leader"
				}
				if !memb[m.id][i] {
					continue // removed from the slot's configuration: it is not expected to catch up
				}
				if !stuckReported[i] {
					stuckReported[i] = true
					if sig == "follower-paused-in-snapshot-progress" {
						w.r.Probe("liveness.follower_stuck_in_snapshot_progress")
					} else {
						w.r.Probe("liveness.not_caught_up_after_heal:" + sig)
					}
					w.r.Logf("  n%d/s%d not caught up %d election timeouts after heal: applied %d, leader n%d, progress %q", i, m.id, finalElectionTimeouts, st.last(), leaders[m.id], progress[m.id][i])
				}
				if flagLiveness {
					w.fail("ack-not-applied-after-heal", sig, fmt.Sprintf("slot %d: %d election timeouts after the last fault n%d has applied only up to %d; acknowledged proposal %q at index %d is missing (leader now: n%d, leader's progress for n%d: %q)",
						m.id, finalElectionTimeouts, i, st.last(), a.payload, idx, leaders[m.id], i, progress[m.id][i]))
					return
				}
			}
			if holders == 0 {
				w.fail("ack-lost", "no-replica-holds-it", fmt.Sprintf("slot %d: acknowledged proposal %q (index %d, term %d) is in no replica's applied sequence after heal", m.id, a.payload, idx, a.term))
				return
			}
			// leader completeness: whoever leads after the heal must hold the acknowledged entry
			if l := leaders[m.id]; l != 0 && topTerm[m.id] {
				rp := w.nodes[l].reps[m.id]
				if rp.sm.last() < idx {
					ents, err := rp.gate.inner.Entries(context.Background(), idx, idx+1, 0)
					if err == nil && (len(ents) != 1 || ents[0].Index != idx || ents[0].Term != a.term || len(ents[0].Data) <= envelopeSize || string(ents[0].Data[envelopeSize:]) != a.payload) {
						w.fail("ack-lost", "leader-lacks-it", fmt.Sprintf("slot %d: n%d leads after the heal but its log does not hold acknowledged proposal %q at (index %d, term %d)", m.id, l, a.payload, idx, a.term))
						return
					}
				}
			}
		}
	}
}

const finalElectionTimeouts = 40

// benignStep performs one fault-free scheduling step: the oldest pending event
// is released. idle reports that nothing was pending.
func (w *world) benignStep() (idle bool, ok bool) {
	simkit.Wait()
	w.invariant()
	if w.r.Failed() || w.r.InfraErr != "" {
		return false, false
	}
	evs := w.pendingEvents()
	if len(evs) == 0 {
		return true, true
	}
	e := evs[0]
	w.r.Logf("f %s", e.key)
	if e.park != nil {
		w.sw.Release(e.park, decRelease)
	} else {
		w.deliver(e.msg, false)
	}
	// every event gets its own instant of the fake clock (the election jitter is a function of it)
	time.Sleep(gridStep)
	return false, true
}

type progressResult struct {
	slot   multiraft.SlotID
	leader int
	st     multiraft.Status
	err    error
}

// leaderProgress asks every slot leader for a fresh full status (replication
// progress per follower); used only to classify a run that did not converge.
func (w *world) leaderProgress() map[multiraft.SlotID]map[int]string {
	out := map[multiraft.SlotID]map[int]string{}
	var results []progressResult
	want := 0
	for _, m := range w.slots {
		l := w.leaderOf(m.id)
		if l == 0 {
			continue
		}
		want++
		n, slot := w.nodes[l], m.id
		ctx, cancel := context.WithTimeout(n.ctx, 2*time.Second)
		go func() {
			defer cancel()
			st, err := n.rt.FreshStatus(ctx, slot)
			w.mu.Lock()
			results = append(results, progressResult{slot: slot, leader: l, st: st, err: err})
			w.mu.Unlock()
		}()
	}
	for i := 0; i < 5000; i++ {
		w.mu.Lock()
		got := len(results)
		w.mu.Unlock()
		if got >= want {
			break
		}
		idle, ok := w.benignStep()
		if !ok {
			return out
		}
		if idle {
			time.Sleep(time.Millisecond)
		}
	}
	w.mu.Lock()
	defer w.mu.Unlock()
	sort.Slice(results, func(i, j int) bool { return results[i].slot < results[j].slot })
	for _, pr := range results {
		if pr.err != nil {
			continue
		}
		mp := map[int]string{}
		for id, p := range pr.st.Progress {
			mp[int(id)] = p.State
		}
		out[pr.slot] = mp
		keys := make([]int, 0, len(mp))
		for k := range mp {
			keys = append(keys, k)
		}
		sort.Ints(keys)
		var sb strings.Builder
		for _, k := range keys {
			p := pr.st.Progress[multiraft.NodeID(k)]
			fmt.Fprintf(&sb, " n%d:%s(match %d next %d)", k, p.State, p.Match, p.Next)
		}
		w.r.Logf("  progress s%d leader n%d term %d commit %d:%s", pr.slot, pr.leader, pr.st.Term, pr.st.CommitIndex, sb.String())
	}
	return out
}

// slotConverged: every replica's state machine has reached the highest index any replica applied.
func (w *world) slotConverged(m *slotModel) bool {
	mem := w.members(m.id)
	w.mu.Lock()
	defer w.mu.Unlock()
	for i := 1; i <= w.cfg.N; i++ {
		if mem[i] && w.nodes[i].reps[m.id].sm.last() < m.maxCanon {
			return false
		}
	}
	return true
}

var _ = strings.TrimSpace
