package raftsim

import (
	"context"
	"time"

	"github.com/WuKongIM/WuKongIM/pkg/slot/multiraft"
)

// ---- membership changes ----------------------------------------------------------------

type confDone struct {
	id     int
	node   int
	slot   multiraft.SlotID
	change multiraft.ConfigChange
	res    multiraft.Result
	err    error
}

func changeName(t multiraft.ChangeType) string {
	switch t {
	case multiraft.AddVoter:
		return "add-voter"
	case multiraft.RemoveVoter:
		return "remove-voter"
	case multiraft.AddLearner:
		return "add-learner"
	case multiraft.PromoteLearner:
		return "promote-learner"
	}
	return "?"
}

// confChange proposes one single-step membership change on the believed leader
// of a tape-chosen slot: remove a voter (never below two voters), add a
// removed node back as learner or voter, or promote a learner.
func (w *world) confChange() {
	w.confChanges++
	slot := multiraft.SlotID(1 + w.r.Tape.Intn(w.cfg.Slots))
	l := w.leaderOf(slot)
	if l == 0 {
		return
	}
	n := w.nodes[l]
	st, err := n.rt.Status(slot)
	if err != nil {
		return
	}
	voters, learners := map[int]bool{}, map[int]bool{}
	for _, v := range st.CurrentVoters {
		voters[int(v)] = true
	}
	for _, v := range st.CurrentLearners {
		learners[int(v)] = true
	}
	x := 1 + w.r.Tape.Intn(w.cfg.N)
	// prefer bringing a learner or an outsider (back) in: removals need no help
	var outsiders, lrn []int
	for i := 1; i <= w.cfg.N; i++ {
		if learners[i] {
			lrn = append(lrn, i)
		} else if !voters[i] {
			outsiders = append(outsiders, i)
		}
	}
	if len(lrn) > 0 && w.r.Tape.Intn(3) != 0 {
		x = lrn[w.r.Tape.Intn(len(lrn))]
	} else if len(outsiders) > 0 && w.r.Tape.Intn(3) != 0 {
		x = outsiders[w.r.Tape.Intn(len(outsiders))]
	}
	var ch multiraft.ConfigChange
	switch {
	case learners[x]:
		ch = multiraft.ConfigChange{Type: multiraft.PromoteLearner, NodeID: multiraft.NodeID(x)}
	case voters[x]:
		if len(voters) <= 2 {
			return
		}
		if x == l {
			// etcd raft keeps a leader that removed itself in office (StepDownOnRemoval
			// is off) but drops every later proposal: legal, rarely interesting
			if w.r.Tape.Intn(4) != 0 {
				return
			}
			w.r.Probe("confchange.leader_removes_itself")
		}
		ch = multiraft.ConfigChange{Type: multiraft.RemoveVoter, NodeID: multiraft.NodeID(x)}
	default:
		if w.r.Tape.Intn(2) == 0 {
			ch = multiraft.ConfigChange{Type: multiraft.AddLearner, NodeID: multiraft.NodeID(x)}
		} else {
			ch = multiraft.ConfigChange{Type: multiraft.AddVoter, NodeID: multiraft.NodeID(x)}
		}
	}
	w.nextOp++
	id := w.nextOp
	fut, err := n.rt.ChangeConfig(n.ctx, slot, ch)
	w.r.Logf("  conf#%d n%d/s%d %s n%d (voters %v learners %v): %s", id, l, slot, changeName(ch.Type), x, st.CurrentVoters, st.CurrentLearners, errName(err))
	if err != nil {
		w.r.Probe("confchange.rejected:" + errName(err))
		return
	}
	w.r.Probe("confchange.proposed:" + changeName(ch.Type))
	ctx := n.ctx
	go func() {
		cctx, cancel := context.WithTimeout(ctx, 30*time.Second)
		defer cancel()
		res, err := fut.Wait(cctx)
		w.mu.Lock()
		w.confDone = append(w.confDone, confDone{id: id, node: l, slot: slot, change: ch, res: res, err: err})
		w.mu.Unlock()
	}()
}

// members returns the nodes that belong to the slot's configuration as the
// current leader sees it (all nodes when no leader is known).
func (w *world) members(slot multiraft.SlotID) map[int]bool {
	out := map[int]bool{}
	l := w.leaderOf(slot)
	if l != 0 {
		if st, err := w.nodes[l].rt.Status(slot); err == nil && len(st.CurrentVoters) > 0 {
			for _, v := range st.CurrentVoters {
				out[int(v)] = true
			}
			for _, v := range st.CurrentLearners {
				out[int(v)] = true
			}
			return out
		}
	}
	for i := 1; i <= w.cfg.N; i++ {
		out[i] = true
	}
	return out
}
