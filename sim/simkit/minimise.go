package simkit

import (
	"encoding/json"
	"os"
	"testing"
	"time"
)

// minimise shrinks the tape of VERIF_REPLAY while the run keeps failing with
// the same (class, sig), then writes the minimised replay file to
// VERIF_MIN_OUT. Candidate transformations: truncate tail, delete block, zero
// block, halve / decrement single values. Stops on a wall-clock budget.
func minimise(t *testing.T, e *Engine, prop string, res *WorkerResult) {
	rf, err := loadReplay(os.Getenv("VERIF_REPLAY"))
	if err != nil {
		res.Infra = append(res.Infra, "replay file: "+err.Error())
		return
	}
	setSoftKnown(rf.Known)
	budget := time.Duration(envInt("VERIF_BUDGET_S", 20)) * time.Second
	start := time.Now()
	tier := rf.Tier
	if tier == "" {
		tier = "quick"
	}
	tried := 0
	var lastRun *Run
	try := func(tp []uint64) (*Run, bool) {
		tried++
		r := Execute(t, e, prop, tier, NewReplayTape(tp), rf.Seed, rf.Run)
		if r.InfraErr != "" {
			return r, false
		}
		v := r.Violation()
		if v == nil || rf.Expect == nil {
			return r, false
		}
		return r, v.Class == rf.Expect.Class && v.Sig == rf.Expect.Sig
	}
	cur := append([]uint64(nil), rf.Tape...)
	r0, ok := try(cur)
	if !ok {
		// does not reproduce in-process: report as is
		res.ReplayOutcome = r0.Violation()
		res.MinimiseTried = tried
		writeMin(rf, cur, r0, false)
		return
	}
	lastRun = r0
	// the run may have consumed fewer values than recorded
	if n := r0.Tape.Pos(); n < len(cur) {
		cur = cur[:n]
	}
	timeUp := func() bool { return time.Since(start) > budget }
	improved := true
	for improved && !timeUp() {
		improved = false
		// 1. truncate tail (binary search on shortest failing prefix)
		lo, hi := 0, len(cur)
		for lo < hi && !timeUp() {
			mid := (lo + hi) / 2
			if r, ok := try(cur[:mid]); ok {
				hi = mid
				lastRun = r
			} else {
				lo = mid + 1
			}
		}
		if hi < len(cur) {
			cur = cur[:hi]
			improved = true
		}
		// 2. delete blocks, 3. zero blocks
		for size := len(cur) / 2; size >= 1 && !timeUp(); size /= 2 {
			for i := 0; i+size <= len(cur) && !timeUp(); {
				cand := append(append([]uint64(nil), cur[:i]...), cur[i+size:]...)
				if r, ok := try(cand); ok {
					cur = cand
					lastRun = r
					improved = true
					continue
				}
				allZero := true
				for _, v := range cur[i : i+size] {
					if v != 0 {
						allZero = false
						break
					}
				}
				if !allZero {
					cand = append([]uint64(nil), cur...)
					for j := i; j < i+size; j++ {
						cand[j] = 0
					}
					if r, ok := try(cand); ok {
						cur = cand
						lastRun = r
						improved = true
					}
				}
				i += size
			}
		}
		// 4. shrink single values
		for i := 0; i < len(cur) && !timeUp(); i++ {
			for cur[i] > 0 && !timeUp() {
				cand := append([]uint64(nil), cur...)
				cand[i] = cur[i] / 2
				if r, ok := try(cand); ok {
					cur = cand
					lastRun = r
					improved = true
					continue
				}
				cand[i] = cur[i] - 1
				if r, ok := try(cand); ok {
					cur = cand
					lastRun = r
					improved = true
					continue
				}
				break
			}
		}
	}
	// final confirmation run on the minimised tape (also trims unused tail)
	r, ok := try(cur)
	if ok {
		lastRun = r
		if n := r.Tape.Pos(); n < len(cur) {
			cur = cur[:n]
		}
	}
	res.MinimiseTried = tried
	res.ReplayOutcome = lastRun.Violation()
	writeMin(rf, cur, lastRun, true)
}

func writeMin(rf *ReplayFile, tape []uint64, r *Run, minimised bool) {
	out := os.Getenv("VERIF_MIN_OUT")
	if out == "" {
		return
	}
	nf := *rf
	nf.OrigTapeLen = len(rf.Tape)
	nf.Tape = tape
	nf.Minimised = minimised
	if r != nil {
		if v := r.Violation(); v != nil {
			nf.Expect = v
		}
		nf.Trace = tailTrace(r.Trace(), 300)
		nf.Config = r.Config
	}
	b, _ := json.MarshalIndent(&nf, "", " ")
	os.WriteFile(out, b, 0o644)
}
