package simkit

import (
	"encoding/json"
	"fmt"
	"os"
	"runtime/debug"
	"sort"
	"strconv"
	"strings"
	"testing"
	"time"
)

// PropFunc executes one simulated run for one property.
type PropFunc func(t *testing.T, r *Run)

// Engine describes one simulated world and the properties it decides.
type Engine struct {
	Name  string
	Props map[string]PropFunc
	// Real and Stub list which components ran real code and which were owned
	// by the simulator; copied into the evidence.
	Real        []string
	Stub        []string
	Rule        string
	Assumptions []string
}

// ReplayFile is the on-disk form of one failing (or witness) execution.
type ReplayFile struct {
	Property    string         `json:"property"`
	Engine      string         `json:"engine"`
	Seed        uint64         `json:"seed"`
	Run         uint64         `json:"run"`
	Tier        string         `json:"tier"`
	Tape        []uint64       `json:"tape"`
	Expect      *Violation     `json:"expect,omitempty"`
	Config      map[string]any `json:"config,omitempty"`
	Trace       []string       `json:"trace,omitempty"`
	Minimised   bool           `json:"minimised"`
	OrigTapeLen int            `json:"orig_tape_len,omitempty"`
	// Known is the set of open known findings ("class|sig") that was active when the
	// run was recorded. Replay and minimisation restore it, because an engine may
	// continue past such an observation (Run.FailSigContinue); without it the replay
	// would stop at the earlier, known observation. Witnesses of known findings
	// carry no Known and therefore stop at their finding.
	Known []string `json:"known,omitempty"`
}

// softKnown is the known-finding set handed to every Run of this process.
var softKnown map[string]bool

func setSoftKnown(keys []string) {
	softKnown = map[string]bool{}
	for _, k := range keys {
		if k != "" {
			softKnown[k] = true
		}
	}
}

func softKnownList() []string {
	out := make([]string, 0, len(softKnown))
	for k := range softKnown {
		out = append(out, k)
	}
	sort.Strings(out)
	return out
}

// RunSummary is what a worker reports per interesting run.
type RunSummary struct {
	Run        uint64         `json:"run"`
	Hash       string         `json:"hash"`
	Nontrivial bool           `json:"nontrivial"`
	Steps      int            `json:"steps"`
	Config     map[string]any `json:"config,omitempty"`
	Trace      []string       `json:"trace,omitempty"`
	Outcome    string         `json:"outcome"`
}

// WorkerResult is the JSON a worker writes to VERIF_OUT.
type WorkerResult struct {
	Engine           string         `json:"engine"`
	Property         string         `json:"property"`
	Mode             string         `json:"mode"`
	Seed             uint64         `json:"seed"`
	Worker           int            `json:"worker"`
	Workers          int            `json:"workers"`
	Runs             int            `json:"runs"`
	NontrivialHashes []string       `json:"nontrivial_hashes"`
	AllHashes        []string       `json:"all_hashes,omitempty"`
	States           []string       `json:"states,omitempty"`
	StatesCount      int            `json:"states_count"`
	Faults           map[string]int `json:"faults"`
	Probes           map[string]int `json:"probes"`
	SimTimeS         float64        `json:"sim_time_s"`
	Steps            int64          `json:"steps"`
	WallS            float64        `json:"wall_s"`
	Samples          []RunSummary   `json:"samples"`
	Violations       []ReplayFile   `json:"violations"`
	Infra            []string       `json:"infra,omitempty"`
	Real             []string       `json:"real"`
	Stub             []string       `json:"stub"`
	Rule             string         `json:"rule"`
	Assumptions      []string       `json:"assumptions"`
	ReplayOutcome    *Violation     `json:"replay_outcome,omitempty"`
	ReplayHash       string         `json:"replay_hash,omitempty"`
	MinimiseTried    int            `json:"minimise_tried,omitempty"`
	KnownHits        int            `json:"known_hits"`
	KnownSample      *ReplayFile    `json:"known_sample,omitempty"`
}

func envInt(name string, def int64) int64 {
	v := os.Getenv(name)
	if v == "" {
		return def
	}
	n, err := strconv.ParseInt(v, 10, 64)
	if err != nil {
		return def
	}
	return n
}

// Execute runs fn once against tape and returns the filled Run. A panic in the
// calling goroutine is recorded as a violation of class "panic" (real code
// must not panic under any schedule); harness trouble is reported through
// Run.Infra by the engine.
func Execute(t *testing.T, e *Engine, prop, tier string, tape *Tape, seed, idx uint64) (r *Run) {
	r = newRun(prop, tier, tape, seed, idx)
	fn := e.Props[prop]
	func() {
		defer func() {
			if p := recover(); p != nil {
				msg := fmt.Sprint(p)
				if strings.Contains(msg, "deadlock:") || strings.Contains(msg, "synctest") {
					r.Infra("bubble: %s", msg)
					return
				}
				st := string(debug.Stack())
				r.Fail("panic", msg+"\n"+trimStack(st), nil)
			}
		}()
		fn(t, r)
	}()
	return r
}

func trimStack(s string) string {
	lines := strings.Split(s, "\n")
	if len(lines) > 40 {
		lines = lines[:40]
	}
	return strings.Join(lines, "\n")
}

// Main is the single entry point of an engine test binary.
//
//	VERIF_PROP     property id
//	VERIF_MODE     search | replay | minimise
//	VERIF_SEED     base seed
//	VERIF_WORKER, VERIF_WORKERS   this worker / number of workers (run i belongs to worker i mod workers)
//	VERIF_BUDGET_S wall-clock budget for search, VERIF_MAX_RUNS run cap per worker
//	VERIF_TIER     quick | thorough
//	VERIF_OUT      result JSON path
//	VERIF_REPLAY   replay file (replay / minimise)
//	VERIF_ALLHASH  1 = report every run's hash (determinism self-test)
func Main(t *testing.T, e Engine) {
	prop := os.Getenv("VERIF_PROP")
	if prop == "" {
		t.Skip("VERIF_PROP not set")
	}
	if _, ok := e.Props[prop]; !ok {
		fmt.Fprintf(os.Stderr, "engine %s does not serve %s\n", e.Name, prop)
		os.Exit(2)
	}
	mode := os.Getenv("VERIF_MODE")
	if mode == "" {
		mode = "search"
	}
	tier := os.Getenv("VERIF_TIER")
	if tier == "" {
		tier = "quick"
	}
	seed := uint64(envInt("VERIF_SEED", 1))
	out := os.Getenv("VERIF_OUT")
	res := &WorkerResult{Engine: e.Name, Property: prop, Mode: mode, Seed: seed,
		Faults: map[string]int{}, Probes: map[string]int{},
		Real: e.Real, Stub: e.Stub, Rule: e.Rule, Assumptions: e.Assumptions}
	start := time.Now()
	switch mode {
	case "search":
		search(t, &e, prop, tier, seed, res)
	case "replay":
		replay(t, &e, prop, res)
	case "minimise":
		minimise(t, &e, prop, res)
	default:
		fmt.Fprintf(os.Stderr, "unknown VERIF_MODE %q\n", mode)
		os.Exit(2)
	}
	res.WallS = time.Since(start).Seconds()
	if out != "" {
		b, _ := json.Marshal(res)
		if err := os.WriteFile(out, b, 0o644); err != nil {
			fmt.Fprintf(os.Stderr, "write %s: %v\n", out, err)
			os.Exit(2)
		}
	}
	if len(res.Infra) > 0 {
		fmt.Fprintf(os.Stderr, "INFRA: %s\n", strings.Join(res.Infra, " | "))
	}
}

func search(t *testing.T, e *Engine, prop, tier string, seed uint64, res *WorkerResult) {
	worker := int(envInt("VERIF_WORKER", 0))
	workers := int(envInt("VERIF_WORKERS", 1))
	budget := time.Duration(envInt("VERIF_BUDGET_S", 20)) * time.Second
	maxRuns := envInt("VERIF_MAX_RUNS", 1<<40)
	maxViol := int(envInt("VERIF_MAX_VIOL", 3))
	allHash := os.Getenv("VERIF_ALLHASH") == "1"
	known := map[string]bool{}
	for _, k := range strings.Split(os.Getenv("VERIF_KNOWN"), ";") {
		if k != "" {
			known[k] = true
		}
	}
	progress := os.Getenv("VERIF_PROGRESS")
	setSoftKnown(strings.Split(os.Getenv("VERIF_KNOWN"), ";"))
	res.Worker, res.Workers = worker, workers
	start := time.Now()
	nontriv := map[uint64]struct{}{}
	states := map[uint64]struct{}{}
	var n int64
	for idx := uint64(worker); n < maxRuns; idx += uint64(workers) {
		if time.Since(start) > budget {
			break
		}
		if progress != "" {
			os.WriteFile(progress, []byte(fmt.Sprintf("%d", idx)), 0o644)
		}
		tape := NewSearchTape(seed, idx)
		r := Execute(t, e, prop, tier, tape, seed, idx)
		n++
		if r.InfraErr != "" {
			res.Infra = append(res.Infra, fmt.Sprintf("seed=%d run=%d: %s", seed, idx, r.InfraErr))
			if len(res.Infra) > 5 {
				break
			}
			continue
		}
		res.Runs++
		res.Steps += int64(r.Steps)
		res.SimTimeS += r.SimTime.Seconds()
		for k, v := range r.Faults {
			res.Faults[k] += v
		}
		for k, v := range r.Probes {
			res.Probes[k] += v
		}
		for s := range r.stateSet {
			states[s] = struct{}{}
		}
		if r.Nontrivial {
			nontriv[r.TraceHash()] = struct{}{}
		}
		if allHash {
			res.AllHashes = append(res.AllHashes, fmt.Sprintf("%d:%016x", idx, r.TraceHash()))
		}
		if dump := os.Getenv("VERIF_DUMP_TRACE"); dump != "" {
			// debugging aid for the determinism self-test: full trace of every run
			f, err := os.OpenFile(dump, os.O_APPEND|os.O_CREATE|os.O_WRONLY, 0o644)
			if err == nil {
				fmt.Fprintf(f, "== run %d hash %016x\n%s\n", idx, r.TraceHash(), strings.Join(r.Trace(), "\n"))
				f.Close()
			}
		}
		if r.SoftKnown > 0 && (r.Violation() == nil || !known[r.Violation().Class+"|"+r.Violation().Sig]) {
			// the engine continued past a known observation (FailSigContinue)
			res.KnownHits++
			if res.KnownSample == nil {
				res.KnownSample = &ReplayFile{Property: prop, Engine: e.Name, Seed: seed, Run: idx, Tier: tier,
					Tape: append([]uint64(nil), tape.Recorded()...), Expect: r.softFirst, Config: r.Config, Trace: tailTrace(r.Trace(), 200)}
			}
		}
		if v := r.Violation(); v != nil && known[v.Class+"|"+v.Sig] {
			res.KnownHits++
			if res.KnownSample == nil {
				res.KnownSample = &ReplayFile{Property: prop, Engine: e.Name, Seed: seed, Run: idx, Tier: tier,
					Tape: append([]uint64(nil), tape.Recorded()...), Expect: v, Config: r.Config, Trace: tailTrace(r.Trace(), 200)}
			}
			continue
		}
		if v := r.Violation(); v != nil {
			res.Violations = append(res.Violations, ReplayFile{
				Property: prop, Engine: e.Name, Seed: seed, Run: idx, Tier: tier,
				Tape: append([]uint64(nil), tape.Recorded()...), Expect: v,
				Config: r.Config, Trace: tailTrace(r.Trace(), 200), Known: softKnownList(),
			})
			if len(res.Violations) >= maxViol {
				break
			}
			continue
		}
		if len(res.Samples) < 3 && r.Nontrivial {
			res.Samples = append(res.Samples, RunSummary{Run: idx, Hash: fmt.Sprintf("%016x", r.TraceHash()),
				Nontrivial: true, Steps: r.Steps, Config: r.Config, Trace: headTrace(r.Trace(), 60), Outcome: "held"})
		}
	}
	if len(res.Samples) == 0 && res.Runs > 0 {
		// keep at least one sample so the evidence shows what a run looks like
		tape := NewSearchTape(seed, uint64(worker))
		r := Execute(t, e, prop, tier, tape, seed, uint64(worker))
		res.Samples = append(res.Samples, RunSummary{Run: uint64(worker), Hash: fmt.Sprintf("%016x", r.TraceHash()),
			Nontrivial: r.Nontrivial, Steps: r.Steps, Config: r.Config, Trace: headTrace(r.Trace(), 60), Outcome: "held"})
	}
	res.NontrivialHashes = hashList(nontriv)
	res.States = hashList(states)
	res.StatesCount = len(states)
	if len(res.States) > 200000 {
		res.States = res.States[:200000]
	}
}

func hashList(m map[uint64]struct{}) []string {
	out := make([]string, 0, len(m))
	for h := range m {
		out = append(out, fmt.Sprintf("%016x", h))
	}
	sort.Strings(out)
	return out
}

func headTrace(tr []string, n int) []string {
	if len(tr) > n {
		return append(append([]string(nil), tr[:n]...), fmt.Sprintf("… (%d more lines)", len(tr)-n))
	}
	return tr
}

func tailTrace(tr []string, n int) []string {
	if len(tr) > n {
		return append([]string{fmt.Sprintf("… (%d earlier lines)", len(tr)-n)}, tr[len(tr)-n:]...)
	}
	return tr
}

func loadReplay(path string) (*ReplayFile, error) {
	b, err := os.ReadFile(path)
	if err != nil {
		return nil, err
	}
	var rf ReplayFile
	if err := json.Unmarshal(b, &rf); err != nil {
		return nil, err
	}
	return &rf, nil
}

func replay(t *testing.T, e *Engine, prop string, res *WorkerResult) {
	rf, err := loadReplay(os.Getenv("VERIF_REPLAY"))
	if err != nil {
		res.Infra = append(res.Infra, "replay file: "+err.Error())
		return
	}
	tier := rf.Tier
	if tier == "" {
		tier = "quick"
	}
	setSoftKnown(rf.Known)
	r := Execute(t, e, prop, tier, NewReplayTape(rf.Tape), rf.Seed, rf.Run)
	res.Runs = 1
	if r.InfraErr != "" {
		res.Infra = append(res.Infra, r.InfraErr)
		return
	}
	res.ReplayOutcome = r.Violation()
	res.ReplayHash = fmt.Sprintf("%016x", r.TraceHash())
	res.Faults, res.Probes = r.Faults, r.Probes
	res.Samples = []RunSummary{{Run: rf.Run, Hash: res.ReplayHash, Steps: r.Steps, Config: r.Config,
		Trace: tailTrace(r.Trace(), 400), Outcome: outcomeOf(r)}}
	if os.Getenv("VERIF_VERBOSE") == "1" {
		for _, l := range r.Trace() {
			fmt.Println(l)
		}
	}
}

func outcomeOf(r *Run) string {
	if v := r.Violation(); v != nil {
		return "violation:" + v.Class
	}
	return "held"
}
