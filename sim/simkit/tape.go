// Package simkit is the deterministic-simulation kernel shared by every engine
// under /verif/sim. It owns the single source of choices (the tape), the run
// record (trace, faults, probes, violation), worker modes (search / replay /
// minimise) and a quiescence-stepped scheduler for synctest worlds.
package simkit

// Tape is the only source of nondeterministic choices inside a simulated run.
// In search mode values come from splitmix64(seed, run); in replay mode from a
// recorded slice (zeros after its end). The recorded value is always the
// reduced one (v mod n) so shrinking a number shrinks the choice.
type Tape struct {
	state  uint64
	fixed  []uint64
	replay bool
	pos    int
	rec    []uint64
	limit  int
	// Exhausted is set when a run consumed more than limit choices; engines
	// treat further draws as zero (benign) so a run always terminates.
	Exhausted bool
}

func splitmix(x *uint64) uint64 {
	*x += 0x9e3779b97f4a7c15
	z := *x
	z = (z ^ (z >> 30)) * 0xbf58476d1ce4e5b9
	z = (z ^ (z >> 27)) * 0x94d049bb133111eb
	return z ^ (z >> 31)
}

// NewSearchTape derives an infinite tape from (seed, run).
func NewSearchTape(seed uint64, run uint64) *Tape {
	s := seed*0x9e3779b97f4a7c15 ^ (run+1)*0xd1b54a32d192ed03
	// warm up so that neighbouring runs decorrelate
	splitmix(&s)
	splitmix(&s)
	return &Tape{state: s, limit: 1 << 20}
}

// NewReplayTape replays the given values; zeros afterwards.
func NewReplayTape(vals []uint64) *Tape {
	return &Tape{fixed: vals, replay: true, limit: 1 << 20}
}

// Recorded returns the consumed (reduced) choices.
func (t *Tape) Recorded() []uint64 { return t.rec }

// Pos is the number of choices consumed so far.
func (t *Tape) Pos() int { return t.pos }

// Intn returns a value in [0,n). n<=1 consumes nothing and returns 0.
func (t *Tape) Intn(n int) int {
	if n <= 1 {
		return 0
	}
	var v uint64
	if t.pos >= t.limit {
		t.Exhausted = true
		return 0
	}
	if t.replay {
		if t.pos < len(t.fixed) {
			v = t.fixed[t.pos] % uint64(n)
		}
	} else {
		v = splitmix(&t.state) % uint64(n)
	}
	t.pos++
	t.rec = append(t.rec, v)
	return int(v)
}

// Range returns a value in [lo,hi] inclusive.
func (t *Tape) Range(lo, hi int) int {
	if hi <= lo {
		return lo
	}
	return lo + t.Intn(hi-lo+1)
}

// Chance returns true with probability num/den. Choice 0 is always "false"
// (benign) so that an all-zero tape injects nothing.
func (t *Tape) Chance(num, den int) bool {
	if num <= 0 {
		return false
	}
	if num >= den {
		// still consume nothing: certain event
		return true
	}
	// value 0 must map to false: true iff v >= den-num
	return t.Intn(den) >= den-num
}

// Weighted picks an index with probability proportional to weights; index 0
// is returned for tape value 0 whenever weights[0] > 0.
func (t *Tape) Weighted(weights []int) int {
	total := 0
	for _, w := range weights {
		if w > 0 {
			total += w
		}
	}
	if total <= 0 {
		return 0
	}
	v := t.Intn(total)
	for i, w := range weights {
		if w <= 0 {
			continue
		}
		if v < w {
			return i
		}
		v -= w
	}
	return len(weights) - 1
}

// Bytes returns n tape-chosen bytes.
func (t *Tape) Bytes(n int) []byte {
	b := make([]byte, n)
	for i := range b {
		b[i] = byte(t.Intn(256))
	}
	return b
}

// Uint64 returns a full-width value (two draws keep each recorded value small
// enough to shrink meaningfully).
func (t *Tape) Uint64() uint64 {
	hi := uint64(t.Intn(1 << 31))
	lo := uint64(t.Intn(1 << 31))
	return hi<<31 | lo
}

// Pick returns a tape-chosen element index skewed toward small indexes: with
// probability ~1/2 the first, else uniform. Used where "oldest first" is the
// benign choice.
func (t *Tape) PickOldestBiased(n int) int {
	if n <= 1 {
		return 0
	}
	if t.Intn(2) == 0 {
		return 0
	}
	return t.Intn(n)
}
