package simkit

import (
	"fmt"
	"runtime/debug"
	"sort"
	"strings"
	"sync"
	"testing"
	"testing/synctest"
	"time"
)

// Bubble runs f inside a synctest bubble (fake clock, quiescence detection).
// A panic in f's own goroutine is recorded as a "panic" violation; everything
// f starts must be stopped before it returns.
func Bubble(t *testing.T, r *Run, f func()) {
	synctest.Test(t, func(t *testing.T) {
		defer func() {
			if p := recover(); p != nil {
				msg := fmt.Sprint(p)
				st := string(debug.Stack())
				r.Fail("panic", msg+"\n"+trimStack(st), nil)
			}
		}()
		f()
	})
}

// Wait blocks until every other goroutine in the bubble is durably blocked.
func Wait() { synctest.Wait() }

// Parked is a call from real code that is waiting at a simulator-owned seam.
type Parked struct {
	Key  string // canonical content key (kind, from, to, payload summary)
	Seq  int    // arrival number, only used to order identical keys
	Info any
	ch   chan int
	done bool
}

// World holds the calls currently parked at seams of one simulated world.
type World struct {
	R             *Run
	mu            sync.Mutex
	parked        []*Parked
	seq           int
	closed        bool
	closeDecision int
}

// NewWorld creates an empty world bound to a run.
func NewWorld(r *Run) *World { return &World{R: r} }

// Park blocks the calling goroutine (durably, on a channel) until the
// scheduler releases it, and returns the scheduler's decision. After
// CloseAll it returns the close decision at once. Never call it while
// holding a lock of the code under test.
func (w *World) Park(key string, info any) int {
	w.mu.Lock()
	if w.closed {
		d := w.closeDecision
		w.mu.Unlock()
		return d
	}
	w.seq++
	p := &Parked{Key: key, Seq: w.seq, Info: info, ch: make(chan int, 1)}
	w.parked = append(w.parked, p)
	w.mu.Unlock()
	return <-p.ch
}

// ParkCtx is Park for callers that carry a deadline: when ctx ends before the
// scheduler released the call it un-parks itself and returns onCtx. Fake time
// only advances when the scheduler sleeps, so this stays deterministic.
func (w *World) ParkCtx(done <-chan struct{}, key string, info any, onCtx int) int {
	w.mu.Lock()
	if w.closed {
		d := w.closeDecision
		w.mu.Unlock()
		return d
	}
	w.seq++
	p := &Parked{Key: key, Seq: w.seq, Info: info, ch: make(chan int, 1)}
	w.parked = append(w.parked, p)
	w.mu.Unlock()
	select {
	case d := <-p.ch:
		return d
	case <-done:
		w.mu.Lock()
		if p.done {
			w.mu.Unlock()
			return <-p.ch
		}
		p.done = true
		k := 0
		for _, q := range w.parked {
			if q != p {
				w.parked[k] = q
				k++
			}
		}
		w.parked = w.parked[:k]
		w.mu.Unlock()
		return onCtx
	}
}

// Pending returns the parked calls in canonical order (by key, then arrival).
// Call only at quiescence (after Wait).
func (w *World) Pending() []*Parked {
	w.mu.Lock()
	defer w.mu.Unlock()
	out := make([]*Parked, 0, len(w.parked))
	for _, p := range w.parked {
		if !p.done {
			out = append(out, p)
		}
	}
	sort.SliceStable(out, func(i, j int) bool {
		if out[i].Key != out[j].Key {
			return out[i].Key < out[j].Key
		}
		return out[i].Seq < out[j].Seq
	})
	return out
}

// PendingArrival returns parked calls in arrival order (oldest first). The
// arrival order of calls parked during ONE step is not canonical, so engines
// that want "oldest first" must use StepOf to group by step; see Scheduler.
func (w *World) NumPending() int {
	w.mu.Lock()
	defer w.mu.Unlock()
	n := 0
	for _, p := range w.parked {
		if !p.done {
			n++
		}
	}
	return n
}

// Release lets one parked call continue with the given decision.
func (w *World) Release(p *Parked, decision int) {
	w.mu.Lock()
	if p.done {
		w.mu.Unlock()
		return
	}
	p.done = true
	// compact
	k := 0
	for _, q := range w.parked {
		if q != p {
			w.parked[k] = q
			k++
		}
	}
	w.parked = w.parked[:k]
	w.mu.Unlock()
	p.ch <- decision
}

// CloseAll releases everything with decision d and makes later Parks return d
// immediately (used for teardown so real components can shut down).
func (w *World) CloseAll(d int) {
	w.mu.Lock()
	w.closed = true
	w.closeDecision = d
	ps := w.parked
	w.parked = nil
	w.mu.Unlock()
	for _, p := range ps {
		if !p.done {
			p.done = true
			p.ch <- d
		}
	}
}

// Action is one thing the scheduler may do in a step.
type Action struct {
	Prio   int    // lower sorts first; benign actions use 0 so that tape value 0 picks them
	Key    string // canonical identity; actions are sorted by (Prio, Key) before the tape indexes them
	Weight int    // relative weight (>=1)
	Do     func()
}

// Scheduler is the quiescence-stepped loop: wait for quiescence, collect the
// enabled actions, let the tape choose one, perform it, repeat.
type Scheduler struct {
	R        *Run
	MaxSteps int
	// Collect returns the enabled actions at the current quiescent state.
	Collect func() []Action
	// Idle is called when no action is enabled; it returns the fake-time
	// duration to sleep, or 0 to stop the loop.
	Idle func() time.Duration
	// Invariant is evaluated at every quiescent state (may be nil).
	Invariant func()
	// Done reports that the workload finished (may be nil).
	Done func() bool
	// StepTime, when set, is how much fake time passes after each action
	// ("things take time"); 0 lets the tape model a stalled clock.
	StepTime func() time.Duration
	// Verbose logs every enabled action at every step (debugging aid).
	Verbose bool
	start   time.Time
}

// Run executes the loop. It must be called inside a Bubble.
func (s *Scheduler) Run() {
	s.start = time.Now()
	for s.R.Steps < s.MaxSteps {
		synctest.Wait()
		if s.Invariant != nil {
			s.Invariant()
		}
		if s.R.Failed() {
			break
		}
		if s.Done != nil && s.Done() {
			break
		}
		acts := s.Collect()
		if len(acts) == 0 {
			d := time.Duration(0)
			if s.Idle != nil {
				d = s.Idle()
			}
			if d <= 0 {
				break
			}
			s.R.Steps++
			time.Sleep(d)
			continue
		}
		sort.SliceStable(acts, func(i, j int) bool {
			if acts[i].Prio != acts[j].Prio {
				return acts[i].Prio < acts[j].Prio
			}
			return acts[i].Key < acts[j].Key
		})
		ws := make([]int, len(acts))
		for i, a := range acts {
			ws[i] = a.Weight
			if ws[i] <= 0 {
				ws[i] = 1
			}
		}
		i := s.R.Tape.Weighted(ws)
		s.R.Steps++
		if s.Verbose {
			for _, a := range acts {
				s.R.Logf("     . %s", a.Key)
			}
		}
		s.R.Logf("s%d [%d] %s", s.R.Steps, len(acts), acts[i].Key)
		acts[i].Do()
		if s.StepTime != nil {
			if d := s.StepTime(); d > 0 {
				time.Sleep(d)
			}
		}
	}
	s.R.SimTime += time.Since(s.start)
}

// KeyJoin builds a canonical key.
func KeyJoin(parts ...any) string {
	ss := make([]string, len(parts))
	for i, p := range parts {
		ss[i] = fmt.Sprint(p)
	}
	return strings.Join(ss, " ")
}
