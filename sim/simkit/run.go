package simkit

import (
	"fmt"
	"hash/fnv"
	"os"
	"sort"
	"time"
)

// Violation is the oracle's record of a property failure in one run.
type Violation struct {
	Class string `json:"class"`
	// Sig refines Class with the discriminating facts of the failure; the
	// minimiser preserves (Class, Sig) and known findings match on them.
	Sig    string         `json:"sig,omitempty"`
	Detail string         `json:"detail"`
	Facts  map[string]any `json:"facts,omitempty"`
	Step   int            `json:"step"`
}

// Run is one simulated execution: a pure function of (code, tape).
type Run struct {
	Property string
	Tier     string
	Tape     *Tape
	Seed     uint64
	Index    uint64

	trace      []string
	traceHash  uint64
	traceLines int
	maxTrace   int

	Faults map[string]int
	Probes map[string]int
	Config map[string]any

	// Nontrivial is set by the engine when the run satisfies the engine's
	// stated non-triviality rule (progress made and a fault fired or
	// operations overlapped).
	Nontrivial bool
	Steps      int
	SimTime    time.Duration
	stateSet   map[uint64]struct{}

	viol *Violation
	// InfraErr is set for harness trouble (never a violation).
	InfraErr string

	// known findings active for this run, and the hits an engine continued past
	known     map[string]bool
	SoftKnown int
	softFirst *Violation
}

func newRun(prop, tier string, tape *Tape, seed, idx uint64) *Run {
	r := newRun0(prop, tier, tape, seed, idx)
	if os.Getenv("VERIF_DUMP_TRACE") != "" {
		r.maxTrace = 1 << 20
	}
	return r
}

func newRun0(prop, tier string, tape *Tape, seed, idx uint64) *Run {
	return &Run{
		Property: prop, Tier: tier, Tape: tape, Seed: seed, Index: idx,
		Faults: map[string]int{}, Probes: map[string]int{}, Config: map[string]any{},
		maxTrace: 4000, stateSet: map[uint64]struct{}{}, traceHash: 1469598103934665603,
		known: softKnown,
	}
}

// Logf appends one trace line. It never draws from the tape and never reads a
// clock. Every line contributes to the canonical trace hash.
func (r *Run) Logf(format string, args ...any) {
	s := fmt.Sprintf(format, args...)
	h := fnv.New64a()
	h.Write([]byte(s))
	r.traceHash = (r.traceHash ^ h.Sum64()) * 1099511628211
	r.traceLines++
	if len(r.trace) < r.maxTrace {
		r.trace = append(r.trace, s)
	}
}

// Fault counts a fault that actually fired.
func (r *Run) Fault(kind string) { r.Faults[kind]++ }

// Probe counts a "rare branch reached" observation.
func (r *Run) Probe(name string) { r.Probes[name]++ }

// ProbeN adds n to a probe.
func (r *Run) ProbeN(name string, n int) {
	if n > 0 {
		r.Probes[name] += n
	}
}

// State records an abstract state hash reached (for the distinct-state measure).
func (r *Run) State(parts ...any) {
	h := fnv.New64a()
	fmt.Fprint(h, parts...)
	r.stateSet[h.Sum64()] = struct{}{}
}

// Fail records the first violation of the run.
func (r *Run) Fail(class, detail string, facts map[string]any) {
	if r.viol != nil {
		return
	}
	r.viol = &Violation{Class: class, Detail: detail, Facts: facts, Step: r.Steps}
	r.Logf("VIOLATION %s: %s", class, detail)
}

// FailSig records a violation with a signature refining its class.
func (r *Run) FailSig(class, sig, detail string, facts map[string]any) {
	if r.viol != nil {
		return
	}
	r.Fail(class, detail, facts)
	r.viol.Sig = sig
}

// FailSigContinue is FailSig for an observation after which the world is still
// consistent with its reference model (the engine adopts what it saw and goes on).
// When (class, sig) is an open known finding handed to this process, the hit is
// counted and the run continues, so that a different violation later in the same
// run is still found instead of being cut off by the known one. It reports
// whether the run was failed. Without an active known finding it is FailSig.
func (r *Run) FailSigContinue(class, sig, detail string, facts map[string]any) bool {
	if r.viol != nil {
		return true
	}
	if r.known[class+"|"+sig] {
		r.SoftKnown++
		if r.softFirst == nil {
			r.softFirst = &Violation{Class: class, Sig: sig, Detail: detail, Facts: facts, Step: r.Steps}
		}
		r.Logf("KNOWN %s|%s (run continues): %s", class, sig, detail)
		return false
	}
	r.FailSig(class, sig, detail, facts)
	return true
}

// Failf is Fail with formatting and no facts.
func (r *Run) Failf(class, format string, args ...any) {
	r.Fail(class, fmt.Sprintf(format, args...), nil)
}

// Failed reports whether a violation has been recorded.
func (r *Run) Failed() bool { return r.viol != nil }

// Violation returns the recorded violation or nil.
func (r *Run) Violation() *Violation { return r.viol }

// Infra records harness trouble; the run is discarded and the worker exits 2.
func (r *Run) Infra(format string, args ...any) {
	if r.InfraErr == "" {
		r.InfraErr = fmt.Sprintf(format, args...)
	}
}

// Trace returns the (bounded) trace.
func (r *Run) Trace() []string { return r.trace }

// TraceHash is the canonical hash of every logged line.
func (r *Run) TraceHash() uint64 { return r.traceHash }

// SortedKeys is a helper for deterministic map iteration in engines.
func SortedKeys[V any](m map[string]V) []string {
	ks := make([]string, 0, len(m))
	for k := range m {
		ks = append(ks, k)
	}
	sort.Strings(ks)
	return ks
}

// SortedIntKeys returns the integer keys of m in increasing order.
func SortedIntKeys[K ~int | ~uint64 | ~int64 | ~uint32 | ~uint16, V any](m map[K]V) []K {
	ks := make([]K, 0, len(m))
	for k := range m {
		ks = append(ks, k)
	}
	sort.Slice(ks, func(i, j int) bool { return ks[i] < ks[j] })
	return ks
}
