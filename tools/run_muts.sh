#!/bin/sh
# usage: run_muts.sh <wt:prop> ...   — runs the registered quick check against each mutation worktree
for m in "$@"; do w=${m%%:*}; p=${m##*:}
  echo "=== $w -> $p"
  (cd /verif && VERIF_REPO=/tmp/mut/$w VERIF_BUDGET_S=${BUDGET:-40} ./check $p quick 2>&1 | grep -v "^KNOWN" | tail -5)
done
