#!/bin/bash
# usage: confirm_mut.sh <wt> <pkg> <run-regex>   — demo must FAIL with the change and PASS without it
export GOFLAGS=-mod=mod GOPROXY=off GOSUMDB=off GOTOOLCHAIN=local
wt=$1; pkg=$2; rx=$3
cd /tmp/mut/$wt || exit 2
git diff -- . ':!*_test.go' ':!MUTATION' > /tmp/mut/$wt.prod.diff
echo "## $wt build"; go1.26.8 build ./... 2>&1 | tail -3
echo "## $wt demo WITH change (expect FAIL)"; go1.26.8 test $TAGS -vet=off -count=1 -run "$rx" $pkg 2>&1 | tail -4
git apply -R /tmp/mut/$wt.prod.diff
echo "## $wt demo WITHOUT change (expect ok)"; go1.26.8 test $TAGS -vet=off -count=1 -run "$rx" $pkg 2>&1 | tail -3
git apply /tmp/mut/$wt.prod.diff
echo "## $wt existing tests of the touched package WITH change"; go1.26.8 test $TAGS -vet=off -count=1 -skip "$rx|TestRuntimeRetainsEveryFollowerRepairWhenExecutionQueueIsSaturated" $pkg 2>&1 | tail -3
