#!/bin/bash
# tools/save_seeded.sh <worktree-id> <property> "<needs>" "<caught-by summary>"
set -e
id=$1; prop=$2; needs=$3; caught=$4
src=/tmp/mut/$id/MUTATION
dst=/verif/seeded/$id
mkdir -p $dst
cp -r $src/* $dst/
python3 - "$id" "$prop" "$needs" "$caught" <<'PY'
import json, sys
id, prop, needs, caught = sys.argv[1:5]
meta = {"id": id, "property": prop, "origin": "independent sub-agent given only the property text and a scratch worktree of /repo",
        "needs_to_manifest": needs,
        "confirmed_by_lead": ["go1.26.8 build ./... with the change", "demonstration fails with the change and passes with it reverted (git apply -R)",
                              "existing tests of the touched package pass with the change (known load-flaky tests excluded)"],
        "check_run": f"git -C <worktree> apply patch.diff; VERIF_REPO=<worktree> ./check {prop} quick",
        "result": caught}
json.dump(meta, open(f"/verif/seeded/{id}/meta.json", "w"), indent=1)
PY
echo saved $dst
