#!/bin/bash
# tools/run_seeded.sh <seeded-id>...   — re-runs the registered quick check of each seeded change's
# property against a scratch worktree of /repo with seeded/<id>/patch.diff applied (never /repo itself).
# Prints one line per id: CAUGHT (a VIOLATION line was printed), MISSED (exit 0) or ERROR.
# BUDGET=<s> sets VERIF_BUDGET_S (default 40).
here=$(cd "$(dirname "$0")/.." && pwd)
for id in "$@"; do
  prop=$(python3 -c "import json,sys;print(json.load(open('$here/seeded/$id/meta.json'))['property'])") || { echo "$id ERROR no meta"; continue; }
  wt=/tmp/mut/seedrun-$id
  git -C /repo worktree remove --force $wt 2>/dev/null
  git -C /repo worktree add --detach -q $wt HEAD || { echo "$id ERROR worktree"; continue; }
  if ! git -C $wt apply "$here/seeded/$id/patch.diff"; then echo "$id ERROR patch does not apply"; git -C /repo worktree remove --force $wt; continue; fi
  out=$(cd "$here" && VERIF_REPO=$wt VERIF_BUDGET_S=${BUDGET:-40} ./check $prop quick 2>&1); rc=$?
  if echo "$out" | grep -q "^VIOLATION property="; then
    echo "$id CAUGHT $(echo "$out" | grep -m1 'class=' | sed 's/^ *//' | cut -c1-120)"
  elif [ $rc -eq 0 ]; then echo "$id MISSED"
  else echo "$id ERROR rc=$rc $(echo "$out" | tail -2 | tr '\n' ' ' | cut -c1-200)"; fi
  a=alt$(printf %s "$wt" | md5sum | cut -c1-8)
  git -C /repo worktree remove --force $wt
  rm -rf "$here"/build/*$a* "$here"/bin/*$a*
done
