#!/usr/bin/env python3
"""Regenerates /verif/MANIFEST.json from engines.json + engines.d/*.json + props_meta.json + props_meta.d/*.json."""
import json, os, glob
ROOT = os.path.dirname(os.path.dirname(os.path.abspath(__file__)))
eng = json.load(open(os.path.join(ROOT, "engines.json")))
for f in sorted(glob.glob(os.path.join(ROOT, "engines.d", "*.json"))):
    d = json.load(open(f))
    eng["engines"].update(d.get("engines", {}))
    eng["levels"].update(d.get("levels", {}))
meta = json.load(open(os.path.join(ROOT, "props_meta.json")))
for f in sorted(glob.glob(os.path.join(ROOT, "props_meta.d", "*.json"))):
    d = json.load(open(f))
    meta["claimed"].update(d.get("claimed", {}))
props = [json.loads(l) for l in open(os.path.join(ROOT, "properties.jsonl"))]
ids = [p["id"] for p in props]
claimed = {}
# only engines the lead has reviewed and run on the unchanged tree are registered as checks
integrated = set(json.load(open(os.path.join(ROOT, "integrated.json")))["engines"])
eng["engines"] = {n: e for n, e in eng["engines"].items() if n in integrated}
for name, e in eng["engines"].items():
    for p in e["props"]:
        if p in {json.loads(l)["id"] for l in open(os.path.join(ROOT, "properties.jsonl"))}:
            claimed[p] = name
checks = []
for pid in ids:
    if pid not in claimed:
        continue
    m = meta["claimed"][pid]
    level = eng["levels"].get(pid, "exploration")
    # parts: further engines run by the same command, reported under this property id
    parts = eng["engines"][claimed[pid]].get("parts", {}).get(pid, [])
    note = m["note"]
    if parts:
        owners = {p: n for n, e in eng["engines"].items() for p in e["props"]}
        descr = []
        for p in parts:
            pm = meta["claimed"].get(p, {})
            descr.append(f"{p} (engine {owners.get(p, '?')}): " + (pm.get("text", "") or eng["engines"].get(owners.get(p, ""), {}).get("kind", ""))[:600])
        note += " PARTS run by the same command and reported under this property (coverage.parts of the evidence): " + " | ".join(descr)
    checks.append({
        "property_id": pid,
        "quick_cmd": f"./check {pid} quick",
        "thorough_cmd": f"./check {pid} thorough",
        "evidence_file": f"/verif/evidence/{pid}.json",
        "replay_cmd_template": f"./check {pid} --replay {{path}}",
        "engine": claimed[pid],
        "level_claimed": {"category": level, "text": m["text"], "design_ref": m.get("design_ref", "DESIGN.md §5 " + pid)},
        "level_note": note,
        "technique": m.get("technique", "deterministic simulation with fault injection: seeded search over schedules and fault sequences, oracle on recorded history, tape minimisation and replay"),
    })
na = [{"property_id": pid, "reason": meta["not_applicable"][pid]} for pid in ids if pid not in claimed]
missing = [pid for pid in ids if pid not in claimed and pid not in meta["not_applicable"]]
assert not missing, missing
hooks = []
try:
    import subprocess
    out = subprocess.run(["git", "-C", "/repo", "log", "--format=%H %s"], capture_output=True, text=True).stdout
    hooks = [l.split()[0] for l in out.splitlines() if "verif hook" in l]
except Exception:
    pass
man = {
    "version": 1,
    "setup_cmd": "./setup.sh",
    "hooks": {
        "guard": "verif (Go build tag)",
        "enable": "checks build /repo's working tree with `go1.26.8 test -c -tags verif -overlay=<harness files> -modfile=<go.mod + porcupine>`; nothing under /repo is written",
        "baseline_off_cmd": meta["baseline_off_cmd"],
        "source_commits": hooks,
        "add_only": True,
    },
    "engines": [{"name": n, "path": e["src"], "serves_properties": e["props"], "kind_free_text": e.get("kind", "")} for n, e in eng["engines"].items()],
    "checks": checks,
    "not_applicable": na,
    "notes": meta.get("notes", ""),
}
json.dump(man, open(os.path.join(ROOT, "MANIFEST.json"), "w"), indent=1)
print(f"MANIFEST.json: {len(checks)} checks, {len(na)} not applicable, {len(hooks)} hook commits")
