#!/usr/bin/env python3
"""Prints the prompt for an independent property-breaking sub-agent: tools/mutprompt.py C07 /tmp/mut/C07a"""
import json, sys
props = {json.loads(l)['id']: json.loads(l) for l in open('/verif/properties.jsonl')}
pid, wt = sys.argv[1], sys.argv[2]
p = props[pid]
print(open('/verif/tools/mutprompt.tmpl').read().format(wt=wt, title=p['title'], statement=p['statement'], quant=p['quantifier']['text'], files=', '.join(p['anchors']['files'])))
