#!/bin/bash
# tools/run_all.sh [tier]  — runs every check registered in MANIFEST.json once, prints one line each
tier=${1:-quick}
cd "$(dirname "$0")/.."
for p in $(python3 -c "import json;print(' '.join(c['property_id'] for c in json.load(open('MANIFEST.json'))['checks']))"); do
  out=$(./check $p $tier 2>&1); rc=$?
  echo "$p rc=$rc $(echo "$out" | grep -E "^$p $tier:" | tail -1)"
  echo "$out" | grep -E "^VIOLATION|class=|INFRA|CRASH" | head -6
done
